(* Properties_C18_gids.v — statements only.  C18, the clause "the periodic services built on it — ...,
   group-map refresh, ... — keep recurring for the life of the daemon for every interleaving and every
   forward clock jump", over the model of the PAIR gids.c + timer.c (GidsTimerModel; see
   Properties_C17_refresh.v for the reading guide): all sequences of database edits, clock changes (any
   reading, jumps included), SIGHUPs at any point — also inside a running refresh —, lookups, and every
   outcome of the rebuild (skipped by the mtime test, succeeded, failed at any entry of the scan). *)
From Coq Require Import List NArith ZArith Bool.
From MV Require Import Bytes GidsModel GidsProofs GidsTimerModel GidsTimerProofs.
From MV.gen Require GenGids.
Import ListNotations.
Local Open Scope Z_scope.

(* while interval_secs > 0: whenever no refresh is running — in particular after each refresh returns,
   whatever the outcome of the rebuild — the timer recorded in gids->timer is pending, and it expires no
   later than one interval after the highest clock reading so far *)
Theorem C18_gids_refresh_rearmed :
  forall (interval dostat : Z) (w0 : world) (tr : list glabel) (s : gt) (evs : list gev),
  0 < interval -> gt_exec VRepo (gt_init interval dostat w0) tr = Some (s, evs) ->
  x_phase s = PIdle ->
  exists exp, In (x_tid s, exp) (x_active s ++ x_batch s) /\ exp <= x_hi s + interval * 1000.
Proof. exact refresh_rearmed. Qed.
Print Assumptions C18_gids_refresh_rearmed.

(* the step that does it: the second critical section of every refresh ends with
   timer_set_relative (interval_secs * 1000), on every path *)
Theorem C18_gids_commit_rearms :
  forall (interval dostat : Z) (w0 : world) (tr : list glabel) (s : gt) (evs : list gev)
         (tm : ptimer) (p : pending) (att : bool) (w : world) (s' : gt) (e : list gev),
  0 < interval -> gt_exec VRepo (gt_init interval dostat w0) tr = Some (s, evs) ->
  x_phase s = PBuilt tm p att w -> gt_step VRepo s XCommit = Some (s', e) ->
  x_phase s' = PIdle /\
  In (ESet (x_tid s') (x_clock s) (interval * 1000)) e /\
  In (x_tid s', x_clock s + interval * 1000) (x_active s') /\
  x_tid s' = x_last s + 1.
Proof.
  intros interval dostat w0 tr s evs tm p att w s' e Hi H Hp Hs.
  destruct (reach_inv _ _ _ _ _ _ H) as [I Hint]. rewrite <- Hint in *.
  eapply commit_rearms; eassumption.
Qed.
Print Assumptions C18_gids_commit_rearms.

(* exactly how many refresh timers are alive (pending, detached or running): one, plus one for every
   gids_update whose timer_cancel found nothing to cancel because the timer gids->timer named was running or
   already detached (a SIGHUP inside a refresh starts a second chain: the design note of DESIGN.md 7 C18).  In
   particular exactly one as long as no SIGHUP arrives during a refresh. *)
Theorem C18_gids_chain_count :
  forall (interval dostat : Z) (w0 : world) (tr : list glabel) (s : gt) (evs : list gev),
  0 < interval -> gt_exec VRepo (gt_init interval dostat w0) tr = Some (s, evs) ->
  alive s = S (x_extra s) /\
  forall l s' e, gt_step VRepo s l = Some (s', e) -> x_extra s' <> x_extra s ->
    l = XSighup /\ In (ECancel (x_tid s) false) e /\ x_extra s' = S (x_extra s).
Proof.
  intros interval dostat w0 tr s evs Hi H. split; [eapply chain_count; eassumption|].
  intros l s' e. apply extra_only_by_failed_cancel.
Qed.
Print Assumptions C18_gids_chain_count.

(* the timer thread is never stuck in or between refreshes: a due timer can be detached, a detached one
   started, a started refresh scanned (whatever the scan meets) and committed; set/cancel/edit/clock/lookup
   labels of other threads are enabled in every state by construction of gt_step *)
Theorem C18_gids_thread_progress :
  forall (interval dostat : Z) (w0 : world) (tr : list glabel) (s : gt) (evs : list gev),
  gt_exec VRepo (gt_init interval dostat w0) tr = Some (s, evs) ->
  match x_phase s with
  | PIdle => (exists t, In t (x_active s ++ x_batch s) /\ snd t <= x_clock s) ->
             exists l s' e, (l = XDetach \/ l = XFire) /\ gt_step VRepo s l = Some (s', e)
  | PStarted _ _ => forall sched, exists s' e, gt_step VRepo s (XScan sched) = Some (s', e)
  | PBuilt _ _ _ _ => exists s' e, gt_step VRepo s XCommit = Some (s', e)
  end.
Proof.
  intros interval dostat w0 tr s evs H. apply thread_progress. apply (reach_inv _ _ _ _ _ _ H).
Qed.
Print Assumptions C18_gids_thread_progress.

(* a dispatched refresh RETURNS, for every database, so the timer thread goes on to the other services' timers:
   (1) the scan ends: xgetgrent's ERANGE loop (grow the buffer by the measured factor, ask again) ends for every entry
   below half the size_t range from every positive buffer size, hence for every such database (entries above the
   initial buffer size, above 2x, 4x, ... of it included), and the buffer only grows;
   (2) whatever the scan meets (any fault schedule), scan and commit are enabled one after the other and end in the
   callback's return with no refresh in progress *)
Theorem C18_gids_refresh_returns :
  forall (interval dostat : Z) (w0 : world) (tr : list glabel) (s : gt) (evs : list gev) (tm : ptimer) (snap : gstate),
  gt_exec VRepo (gt_init interval dostat w0) tr = Some (s, evs) -> x_phase s = PStarted tm snap ->
  (forall len, (0 < len)%N ->
     Forall (fun e => (entry_need e <= 2 ^ (GenGids.size_bits - 1))%N) (w_db (x_w s)) ->
     exists len', scan_buf len (map entry_need (w_db (x_w s))) = Some len' /\ (len <= len')%N) /\
  (forall sched, exists s1 e1 s2 e2,
     gt_step VRepo s (XScan sched) = Some (s1, e1) /\ gt_step VRepo s1 XCommit = Some (s2, e2) /\
     x_phase s2 = PIdle /\ exists sc at_, In (EReturn sc at_) e2).
Proof.
  intros interval dostat w0 tr s evs tm snap _ Hp. split.
  - intros len Hl Hf. apply scan_buf_total; [exact Hl|]. apply Forall_map. exact Hf.
  - intros sched. eapply refresh_returns. exact Hp.
Qed.
Print Assumptions C18_gids_refresh_returns.

(* REFUTED variant of the code (not the code as it is): `return` right after a failed _gids_map_create.
   One transient failure of the group database (EIO at the first entry) and nothing is pending although
   interval_secs = 3600: the refresh never runs again.  The code as it is re-arms on the same trace. *)
Theorem C18_gids_abort_on_failure_refuted :
  exists s e,
    gt_exec VAbortOnFail (gt_init 3600 0 wA) abort_trace = Some (s, e) /\
    x_phase s = PIdle /\ x_active s ++ x_batch s = [] /\ g_interval (x_g s) = 3600 /\
    exists s2 e2, gt_exec VRepo (gt_init 3600 0 wA) abort_trace = Some (s2, e2) /\
                  x_active s2 = [(2, 3600000)] /\ x_tid s2 = 2.
Proof. exact abort_on_failure_stops_refresh. Qed.
Print Assumptions C18_gids_abort_on_failure_refuted.

(* non-vacuity: three periods with a failing build in the middle and a SIGHUP inside the last refresh *)
Example C18_gids_example :
  exists s e,
    gt_exec VRepo (gt_init 60 0 wA)
            [XDetach; XFire; XScan []; XCommit; XClock 60000; XDetach; XFire; XScan [FFail 0]; XCommit;
             XClock 120000; XDetach; XFire; XScan []; XSighup; XCommit] = Some (s, e) /\
    x_active s = [(4, 120000); (5, 180000)] /\ x_tid s = 5 /\ x_extra s = 1%nat /\ alive s = 2%nat.
Proof. eexists. eexists. split; [vm_compute; reflexivity|]. repeat split. Qed.
