(* StartLogModel.v — the log file of a munged running in the background, from one life to the next.  No proofs.
   A life that finds no log file creates it; the mode it gets is the mode open_logfile produces under the umask in
   force at that moment (gen/GenStart.log_mode_under_umask: open_logfile's own text run under several umasks), which
   is the umask daemonize_init has set (gen/GenStart.daemon_umask) or, were that call missing, the one inherited
   from the invoking shell.  A life that finds a log file keeps its mode (fopen "a") but refuses to start, without
   --force, when the mode has one of the bits of gen/GenStart.log_refused_mask. *)
From Coq Require Import List NArith Bool.
From MV.gen Require Import GenStart.
Import ListNotations.
Local Open Scope N_scope.

(* the mode open_logfile creates under umask 0, and the recipe: under umask m it is that mode without m's bits *)
Definition log_base : N := match log_mode_under_umask with (0, c) :: _ => c | _ => 511 end.
Definition log_recipe_holds : bool := forallb (fun mc => snd mc =? N.ldiff log_base (fst mc)) log_mode_under_umask.

Definition effective_umask (inherited : N) : N := match daemon_umask with Some d => d | None => inherited end.
Definition log_created_mode (inherited : N) : N := N.ldiff log_base (effective_umask inherited).
Definition log_accepts (mode : N) : bool := N.land mode log_refused_mask =? 0.

(* one life: log file before (None: absent) and the invoking shell's umask -> None (start refused) | Some file after *)
Definition life_log (f : option N) (inherited : N) : option (option N) :=
  match f with
  | None => Some (Some (log_created_mode inherited))
  | Some m => if log_accepts m then Some (Some m) else None
  end.

(* do all these lives start, one after the other on the same log file *)
Fixpoint lives (f : option N) (umasks : list N) : bool :=
  match umasks with
  | [] => true
  | u :: r => match life_log f u with Some f' => lives f' r | None => false end
  end.

(* ---- the lock file from one life to the next, for a daemon that is not root ----
   open (path, access) of an existing file by a process whose euid owns it: the owner permission bits decide
   (0400 to read, 0200 to write); root is never refused.  The lock file a previous life created has the mode
   lock.c asked for (gen/GenStart.lock_create_mode, the umask is 0 around that open) and the euid of that life. *)
Definition access_needs (access : N) : N :=
  match access with 0 => 256 | 1 => 128 | _ => 384 end.           (* O_RDONLY r--, O_WRONLY -w-, O_RDWR rw- *)
Definition owner_may_open (is_root : bool) (mode access : N) : bool :=
  is_root || (N.land mode (access_needs access) =? access_needs access).
Definition lock_reopen_ok (is_root : bool) : bool := owner_may_open is_root lock_create_mode lock_open_access.

(* ---- the stop command (munged --stop): its file-system footprint ----
   lock_query opens the lock file (gen/GenStart.lock_query_creat: with O_CREAT or not), asks F_GETLK and signals the
   holder.  Over StartModel's file system: the only thing it can change is to create the lock name. *)
From MV Require Import StartModel.
Definition stop_query (s : state) : state * option nat :=
  match names s NLock with
  | Some i => (s, lockown s i)
  | None => if lock_query_creat then (alloc s NLock lock_inode, None) else (s, None)
  end.

(* ---- the seed file a start finds, and whether the clean stop of that life writes a seed ----
   main() forgets the seed path (and random_fini writes nothing) iff random_init returns < 0, i.e. iff
   _random_read_entropy_from_file does (gen/GenStart.seed_start_*_keeps_path, observed on real files). *)
Inductive seed_found := SeedAbsent | SeedGood | SeedShort | SeedUntrusted.   (* untrusted: mode, owner, symlink *)
Definition stop_writes_seed (f : seed_found) : bool :=
  match f with
  | SeedUntrusted => seed_start_bad_keeps_path && seed_start_bad_removed
  | _ => seed_start_ok_keeps_path
  end.
