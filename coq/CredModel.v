(* CredModel.v — executable model of the credential pipeline (no proofs here):
   src/munged/enc.c, dec.c, cred.c, zip.c (8-byte header), conf.c:create_subkeys,
   libcommon/m_msg.c:m_msg_reset / m_msg_set_err, as of the current /repo tree.
   Cryptographic and compression primitives are Section variables; CBC chaining and
   PKCS#5 padding are defined here over a one-block permutation.  Constants and the
   cipher/MAC/zip tables come from gen/GenCred.v (regenerated from /repo every run). *)
From Coq Require Import List NArith ZArith Bool String DecimalString.
From Coq.Strings Require Import Byte.
From RecordUpdate Require Import RecordSet.
From MV Require Import Bytes Base64Model.
From MV.gen Require Import GenCred.
Import ListNotations RecordSetNotations.
Local Open Scope N_scope.
Local Notation length := List.length.

Definition str (x : string) : bytes := list_byte_of_string x.
(* printf("%d"/"%u") of a non-negative value *)
Definition dec_of_N (n : N) : bytes := str (NilZero.string_of_uint (N.to_uint n)).
Definition nbytes (l : list N) : bytes := map n2b l.
Definition u32 (n : N) : N := n mod 4294967296.
Definition len {A} (l : list A) : N := N.of_nat (length l).

(* ---- algorithm tables (indexed by the wire code 0..255) ---- *)
Definition cipher_ent (c : N) := nth (N.to_nat c) cipher_tab (false, 0, 0, 0).
Definition cipher_valid (c : N) : bool := let '(v, _, _, _) := cipher_ent c in v.
Definition cipher_key_size (c : N) : N := let '(_, k, _, _) := cipher_ent c in k.
Definition cipher_blk_size (c : N) : N := let '(_, _, b, _) := cipher_ent c in b.
Definition cipher_iv_size (c : N) : N := let '(_, _, _, i) := cipher_ent c in i.
Definition mac_valid (m : N) : bool := fst (nth (N.to_nat m) mac_tab (false, 0)).
Definition mac_size (m : N) : N := snd (nth (N.to_nat m) mac_tab (false, 0)).
Definition zip_valid (z : N) : bool := nth (N.to_nat z) zip_tab false.
Definition strerr (e : N) : bytes := nbytes (nth (N.to_nat e) strerror_tab []).

(* ---- the message object (fields of struct m_msg the pipeline touches) ---- *)
Record msg := {
  m_retry : N;
  m_cipher : N; m_mac : N; m_zip : N;
  m_realm_len : N; m_realm : bytes;
  m_ttl : N; m_addr_len : N; m_addr : bytes;
  m_time0 : N; m_time1 : N;
  m_client_uid : N; m_client_gid : N;
  m_cred_uid : N; m_cred_gid : N; m_auth_uid : N; m_auth_gid : N;
  m_data_len : N; m_data : bytes;
  m_err : N; m_errstr : bytes          (* error string without its NUL *)
}.
#[export] Instance eta_msg : Settable _ := settable! Build_msg
  <m_retry; m_cipher; m_mac; m_zip; m_realm_len; m_realm; m_ttl; m_addr_len; m_addr; m_time0; m_time1;
   m_client_uid; m_client_gid; m_cred_uid; m_cred_gid; m_auth_uid; m_auth_gid; m_data_len; m_data;
   m_err; m_errstr>.

(* m_msg_create: calloc *)
Definition msg0 : msg := {|
  m_retry := 0; m_cipher := 0; m_mac := 0; m_zip := 0; m_realm_len := 0; m_realm := [];
  m_ttl := 0; m_addr_len := 0; m_addr := []; m_time0 := 0; m_time1 := 0;
  m_client_uid := 0; m_client_gid := 0; m_cred_uid := 0; m_cred_gid := 0; m_auth_uid := 0; m_auth_gid := 0;
  m_data_len := 0; m_data := []; m_err := 0; m_errstr := [] |}.

(* m_msg_set_err: the first error wins; NULL string = munge_strerror *)
Definition set_err (m : msg) (e : N) (s : option bytes) : msg :=
  if (m_err m =? e_success) && negb (e =? e_success)
  then m <| m_err := e |> <| m_errstr := match s with Some x => x | None => strerr e end |>
  else m.

(* m_msg_reset *)
Definition msg_reset (m : msg) : msg :=
  m <| m_cipher := c_cipher_none |> <| m_mac := c_mac_none |> <| m_zip := c_zip_none |>
    <| m_realm_len := 0 |> <| m_realm := [] |> <| m_ttl := c_ttl_default |> <| m_addr_len := 0 |>
    <| m_time0 := 0 |> <| m_time1 := 0 |> <| m_cred_uid := c_uid_any |> <| m_cred_gid := c_gid_any |>
    <| m_auth_uid := c_uid_any |> <| m_auth_gid := c_gid_any |> <| m_data_len := 0 |> <| m_data := [] |>.

(* daemon configuration (conf_t fields the pipeline reads) *)
Record conf := {
  cf_def_cipher : N; cf_def_mac : N; cf_def_zip : N; cf_def_ttl : N; cf_max_ttl : N;
  cf_root_auth : bool; cf_clock_skew : bool; cf_socket_retry : bool;
  cf_addr : bytes;          (* origin address, sizeof (struct in_addr) bytes *)
  cf_key : bytes            (* key file contents *)
}.

(* replies as they go on the wire *)
Record enc_rsp := { er_err : N; er_errstr : bytes; er_data : bytes }.
Definition dec_rsp := msg.   (* DEC_RSP carries every msg field except retry/client ids *)

(* ---- whitespace as isspace() in the C locale ---- *)
Definition is_space (c : byte) : bool :=
  let n := b2n c in ((9 <=? n) && (n <=? 13)) || (n =? 32).

(* ---- block splitting, CBC, PKCS#5 ---- *)
Definition xorb (a b : bytes) : bytes :=
  map (fun p => n2b (N.lxor (b2n (fst p)) (b2n (snd p)))) (combine a b).

Fixpoint chunks (fuel : nat) (bs : nat) (l : bytes) : list bytes :=
  match fuel with
  | O => []
  | S f => match l with [] => [] | _ => firstn bs l :: chunks f bs (skipn bs l) end
  end.
Definition blocks (bs : nat) (l : bytes) : list bytes := chunks (length l) bs l.

Fixpoint cbc_enc_blocks (E : bytes -> bytes) (prev : bytes) (bl : list bytes) : bytes :=
  match bl with [] => [] | b :: r => let c := E (xorb b prev) in c ++ cbc_enc_blocks E c r end.
Fixpoint cbc_dec_blocks (D : bytes -> bytes) (prev : bytes) (bl : list bytes) : bytes :=
  match bl with [] => [] | c :: r => xorb (D c) prev ++ cbc_dec_blocks D c r end.

Definition pkcs_pad (bs : nat) (p : bytes) : bytes :=
  let n := (bs - (length p mod bs))%nat in p ++ repeat (n2b (N.of_nat n)) n.
Definition pkcs_unpad (bs : nat) (p : bytes) : option bytes :=
  match rev_append p [] with     (* = rev p, linear: the last byte first *)
  | [] => None
  | l :: _ =>
      let n := N.to_nat (b2n l) in
      if (Nat.ltb 0 n) && (Nat.leb n bs) && (Nat.leb n (length p)) &&
         forallb (fun x => b2n x =? b2n l) (skipn (length p - n) p)
      then Some (firstn (length p - n) p) else None
  end.

Section Prim.
(* primitives: assumed behaviour is stated as hypotheses of the theorems, never as axioms *)
Variable hmac : N -> bytes -> bytes -> bytes.          (* MAC code, key, data *)
Variable sha1 : bytes -> bytes.                         (* the digest conf.c uses for subkeys *)
Variable blk_enc : N -> bytes -> bytes -> bytes.        (* cipher code, key, one block *)
Variable blk_dec : N -> bytes -> bytes -> bytes.
Variable zcomp : N -> bytes -> option bytes.            (* raw zlib/bzlib stream, None on failure *)
Variable zdecomp : N -> bytes -> N -> option bytes.     (* ... with a bound on the output length *)

Definition dek_subkey (key : bytes) : bytes := sha1 (key ++ str "1").
Definition mac_subkey (key : bytes) : bytes := sha1 (key ++ str "2").

Definition cbc_encrypt (c : N) (dek iv plain : bytes) : bytes :=
  let bs := N.to_nat (cipher_blk_size c) in
  let key := firstn (N.to_nat (cipher_key_size c)) dek in
  cbc_enc_blocks (blk_enc c key) iv (blocks bs (pkcs_pad bs plain)).

(* EVP_DecryptUpdate + EVP_DecryptFinal_ex: None = "bad decrypt" (bad length or padding) *)
Definition cbc_decrypt (c : N) (dek iv ct : bytes) : option bytes :=
  let bs := N.to_nat (cipher_blk_size c) in
  let key := firstn (N.to_nat (cipher_key_size c)) dek in
  if (Nat.eqb (length ct) 0) || negb (Nat.eqb (length ct mod bs) 0) then None
  else pkcs_unpad bs (cbc_dec_blocks (blk_dec c key) iv (blocks bs ct)).

(* ---- zip.c: 8-byte header (magic, uncompressed length) + raw stream ---- *)
Definition zip_compress (z : N) (src : bytes) : option bytes :=
  match zcomp z src with
  | Some raw => Some (be32 c_zip_magic ++ be32 (len src) ++ raw)
  | None => None
  end.
(* zip_decompress_length: -1 (None) when shorter than the header or bad magic;
   the value is (int) ntohl: >= 2^31 is negative *)
Definition zip_decompress_length (src : bytes) : option Z :=
  match src with
  | a :: b :: c :: d :: e :: f :: g :: h :: _ =>
      if rd32 a b c d =? c_zip_magic
      then let n := rd32 e f g h in
           Some (if n <? 2147483648 then Z.of_N n else (Z.of_N n - 4294967296)%Z)
      else None
  | _ => None
  end.

(* ==================================================================== *)
(* ENCODE  (enc_process_msg)                                            *)
(* ==================================================================== *)
Definition enc_validate (cf : conf) (m : msg) : msg + msg :=   (* inl = ok, inr = error set *)
  let cipher := m_cipher m in
  let r1 : msg + msg :=
    if cipher =? c_cipher_default then inl (m <| m_cipher := cf_def_cipher cf |>)
    else if cipher =? c_cipher_none then inl m
    else if negb (cipher_valid cipher)
         then inr (set_err m e_bad_cipher (Some (str "Invalid cipher type " ++ dec_of_N cipher)))
         else inl m in
  match r1 with inr e => inr e | inl m =>
  let mac := m_mac m in
  let r2 : msg + msg :=
    if mac =? c_mac_default then inl (m <| m_mac := cf_def_mac cf |>)
    else if negb (mac_valid mac)
         then inr (set_err m e_bad_mac (Some (str "Invalid MAC type " ++ dec_of_N mac)))
         else inl m in
  match r2 with inr e => inr e | inl m =>
  if mac_size (m_mac m) <? cipher_key_size (m_cipher m)
  then inr (set_err m e_bad_mac (Some (str "Invalid MAC type " ++ dec_of_N (m_mac m) ++
                                       str " with cipher type " ++ dec_of_N (m_cipher m))))
  else
  let zip := m_zip m in
  let r3 : msg + msg :=
    if zip =? c_zip_default then inl (m <| m_zip := cf_def_zip cf |>)
    else if zip =? c_zip_none then inl m
    else if negb (zip_valid zip)
         then inr (set_err m e_bad_zip (Some (str "Invalid compression type " ++ dec_of_N zip)))
         else inl m in
  match r3 with inr e => inr e | inl m =>
  let m := if m_data_len m =? 0 then m <| m_zip := c_zip_none |> else m in
  let m := if m_ttl m =? 0 then m <| m_ttl := cf_def_ttl cf |>
           else if cf_max_ttl cf <? m_ttl m then m <| m_ttl := cf_max_ttl cf |> else m in
  inl m
  end end end.

Definition pack_outer (m : msg) (iv : bytes) : bytes :=
  [n2b c_cred_version; n2b (m_cipher m); n2b (m_mac m); n2b (m_zip m); n2b (m_realm_len m)]
  ++ m_realm m ++ iv.

Definition pack_inner (cf : conf) (m : msg) (salt : bytes) : bytes :=
  salt ++ [n2b c_addr_size] ++ cf_addr cf ++ be32 (m_time0 m) ++ be32 (m_ttl m)
  ++ be32 (m_client_uid m) ++ be32 (m_client_gid m) ++ be32 (m_auth_uid m) ++ be32 (m_auth_gid m)
  ++ be32 (m_data_len m) ++ m_data m.

Definition armor (body3 : list bytes) : bytes :=
  nbytes c_prefix ++ encode_stream [] body3 ++ nbytes c_suffix.

(* The credential bytes an encode produces, with every intermediate exposed (for the proofs). *)
Record enc_out := { eo_msg : msg; eo_outer : bytes; eo_tag : bytes; eo_inner_plain : bytes;
                    eo_inner_wire : bytes; eo_cred : bytes }.

Definition enc_core (cf : conf) (m : msg) (salt ivr : bytes) : msg + enc_out :=
  (* m: validated, authenticated, time-stamped *)
  let iv := if m_cipher m =? c_cipher_none then [] else firstn (N.to_nat (cipher_iv_size (m_cipher m))) ivr in
  let m := m <| m_addr_len := c_addr_size |> in
  let inner0 := pack_inner cf m salt in
  (* enc_compress *)
  let zr : option (msg * bytes) :=
    if m_zip m =? c_zip_none then Some (m, inner0)
    else match zip_compress (m_zip m) inner0 with
         | None => None
         | Some z => if len inner0 <=? len z then Some (m <| m_zip := c_zip_none |>, inner0)
                     else Some (m, z)
         end in
  match zr with
  | None => inl (set_err m e_snafu (Some (str "Failed to compress credential")))
  | Some (m, inner1) =>
    let outer := pack_outer m iv in
    let tag := hmac (m_mac m) (mac_subkey (cf_key cf)) (outer ++ inner1) in
    let inner2 := if m_cipher m =? c_cipher_none then inner1
                  else cbc_encrypt (m_cipher m) (hmac (m_mac m) (dek_subkey (cf_key cf)) tag) iv inner1 in
    let cred := armor [outer; tag; inner2] ++ [x00] in
    inr {| eo_msg := m <| m_data := cred |> <| m_data_len := len cred |>;
           eo_outer := outer; eo_tag := tag; eo_inner_plain := inner1; eo_inner_wire := inner2;
           eo_cred := cred |}
  end.

Definition enc_pre (cf : conf) (m : msg) (peer_uid peer_gid now : N) : msg + msg :=
  match enc_validate cf m with
  | inr e => inr e
  | inl m =>
    let m := m <| m_client_uid := peer_uid |> <| m_client_gid := peer_gid |> in
    if c_retry_attempts <? m_retry m
    then inr (set_err m e_socket (Some (str "Exceeded maximum number of encode attempts")))
    else inl (m <| m_time0 := u32 now |> <| m_time1 := 0 |>)
  end.

Definition enc_process (cf : conf) (m : msg) (peer_uid peer_gid now : N) (salt ivr : bytes) : enc_rsp :=
  let fin (m : msg) := {| er_err := m_err m; er_errstr := m_errstr m; er_data := m_data m |} in
  match enc_pre cf m peer_uid peer_gid now with
  | inr e => fin (msg_reset e)
  | inl m => match enc_core cf m salt ivr with
             | inl e => fin (msg_reset e)
             | inr o => fin (eo_msg o)
             end
  end.

(* ==================================================================== *)
(* DECODE  (dec_process_msg)                                            *)
(* ==================================================================== *)
Fixpoint skip_space (l : bytes) : bytes :=
  match l with c :: r => if is_space c then skip_space r else l | [] => [] end.

(* position of the last occurrence of the 1-byte suffix: bytes before it *)
Fixpoint before_last (sfx : byte) (l : bytes) : option bytes :=
  match l with
  | [] => None
  | c :: r => match before_last sfx r with
              | Some pre => Some (c :: pre)
              | None => if Byte.eqb c sfx then Some [] else None
              end
  end.

Definition pfx : bytes := nbytes c_prefix.
Definition sfx1 : byte := match nbytes c_suffix with c :: _ => c | [] => x00 end.

(* dec_unarmor: Ok body | Err (code, string) *)
Definition dec_unarmor (data : bytes) : bytes + (N * bytes) :=
  let l := skip_space data in
  match l with
  | [] => inr (e_bad_arg, str "No credential specified")
  | c :: _ =>
    if b2n c =? 0 then inr (e_bad_arg, str "No credential specified") else
    match take (length pfx) l with
    | None => inr (e_bad_cred, str "Failed to match armor prefix")
    | Some (p, rest) =>
      if negb (forallb (fun q => b2n (fst q) =? b2n (snd q)) (combine p pfx))
      then inr (e_bad_cred, str "Failed to match armor prefix") else
      match before_last sfx1 rest with
      | None => inr (e_bad_cred, str "Failed to match armor suffix")
      | Some b64 =>
        let '(err, body) := decode_block b64 in
        if err then inr (e_bad_cred, str "Failed to base64-decode credential") else inl body
      end
    end
  end.

Record outer_out := { oo_msg : msg; oo_outer : bytes; oo_iv : bytes; oo_tag : bytes; oo_inner : bytes }.

(* dec_unpack_outer, checks in the order of the code *)
Definition dec_unpack_outer (m : msg) (body : bytes) : msg + outer_out :=
  let bad e s := inl (set_err m e (Some s)) in
  match body with
  | [] => bad e_bad_cred (str "Truncated credential version")
  | ver :: r1 =>
    if negb (b2n ver =? c_cred_version)
    then bad e_bad_version (str "Invalid credential version " ++ dec_of_N (b2n ver)) else
    match r1 with
    | [] => bad e_bad_cred (str "Truncated cipher type")
    | ci :: r2 =>
      let cipher := b2n ci in
      let m := m <| m_cipher := cipher |> in
      let bad e s := inl (set_err m e (Some s)) in
      if negb (cipher =? c_cipher_none) && negb (cipher_valid cipher)
      then bad e_bad_cipher (str "Invalid cipher type " ++ dec_of_N cipher) else
      let iv_len := if cipher =? c_cipher_none then 0 else cipher_iv_size cipher in
      match r2 with
      | [] => bad e_bad_cred (str "Truncated MAC type")
      | ma :: r3 =>
        let mac := b2n ma in
        let m := m <| m_mac := mac |> in
        let bad e s := inl (set_err m e (Some s)) in
        if negb (mac_valid mac) then bad e_bad_mac (str "Invalid MAC type " ++ dec_of_N mac) else
        if mac_size mac =? 0
        then bad e_snafu (str "Failed to determine digest length for MAC type " ++ dec_of_N mac) else
        if mac_size mac <? cipher_key_size cipher
        then bad e_bad_mac (str "Invalid MAC type " ++ dec_of_N mac ++ str " with cipher type " ++ dec_of_N cipher)
        else
        match r3 with
        | [] => bad e_bad_cred (str "Truncated compression type")
        | zi :: r4 =>
          let zip := b2n zi in
          let m := m <| m_zip := zip |> in
          let bad e s := inl (set_err m e (Some s)) in
          if negb (zip =? c_zip_none) && negb (zip_valid zip)
          then bad e_bad_zip (str "Invalid compression type " ++ dec_of_N zip) else
          match r4 with
          | [] => bad e_bad_cred (str "Truncated security realm length")
          | rl :: r5 =>
            let realm_len := b2n rl in
            let m := m <| m_realm_len := realm_len |> in
            let bad e s := inl (set_err m e (Some s)) in
            match take (N.to_nat realm_len) r5 with
            | None => bad e_bad_cred (str "Truncated security realm string")
            | Some (realm, r6) =>
              (* realm copied to cred memory with one more NUL; realm_len := len + 1 as a uint8 *)
              let m := if 0 <? realm_len
                       then m <| m_realm := realm ++ [x00] |> <| m_realm_len := (realm_len + 1) mod 256 |>
                       else m in
              let bad e s := inl (set_err m e (Some s)) in
              match take (N.to_nat iv_len) r6 with
              | None => bad e_bad_cred (str "Truncated cipher IV")
              | Some (iv, r7) =>
                match take (N.to_nat (mac_size mac)) r7 with
                | None => bad e_bad_cred (str "Truncated MAC")
                | Some (tag, inner) =>
                  inr {| oo_msg := m;
                         oo_outer := firstn (length body - length r7) body;
                         oo_iv := iv; oo_tag := tag; oo_inner := inner |}
                end
              end
            end
          end
        end
      end
    end
  end.

Definition bytes_eqb (a b : bytes) : bool :=
  Nat.eqb (length a) (length b) && forallb (fun q => b2n (fst q) =? b2n (snd q)) (combine a b).

(* dec_decrypt + dec_validate_mac: a padding failure is recorded (EMUNGE_CRED_INVALID, NULL) and
   surfaces at the MAC step; both failures therefore set the same code and string *)
Definition dec_decrypt_mac (cf : conf) (o : outer_out) : msg + bytes :=
  let m := oo_msg o in
  let plain : option bytes :=
    if m_cipher m =? c_cipher_none then Some (oo_inner o)
    else cbc_decrypt (m_cipher m) (hmac (m_mac m) (dek_subkey (cf_key cf)) (oo_tag o)) (oo_iv o) (oo_inner o) in
  match plain with
  | None => inl (set_err m e_cred_invalid None)
  | Some p =>
    if bytes_eqb (hmac (m_mac m) (mac_subkey (cf_key cf)) (oo_outer o ++ p)) (oo_tag o)
    then inr p else inl (set_err m e_cred_invalid None)
  end.

Definition dec_decompress (m : msg) (inner : bytes) : msg + bytes :=
  if m_zip m =? c_zip_none then inr inner else
  match zip_decompress_length inner with
  | None => inl (set_err m e_snafu (Some (str "Failed to decompress credential")))
  | Some n =>
    if (n <=? 0)%Z then inl (set_err m e_snafu (Some (str "Failed to decompress credential")))
    else match zdecomp (m_zip m) (skipn 8 inner) (Z.to_N n) with
         | None => inl (set_err m e_cred_invalid None)
         | Some d => inr d
         end
  end.

Definition take32 (l : bytes) : option (N * bytes) :=
  match l with a :: b :: c :: d :: r => Some (rd32 a b c d, r) | _ => None end.

Definition bad_cred (m : msg) (s : string) : msg + msg := inl (set_err m e_bad_cred (Some (str s))).

Definition dec_unpack_inner (m : msg) (inner : bytes) : msg + msg :=   (* inl = error *)
  match take (N.to_nat c_salt_len) inner with
  | None => bad_cred m "Truncated salt"
  | Some (_salt, r1) =>
    match r1 with
    | [] => bad_cred m "Truncated origin IP addr length"
    | al :: r2 =>
      let alen := b2n al in
      let m := m <| m_addr_len := alen |> in
      if len r2 <? alen then bad_cred m "Truncated origin IP addr" else
      if negb ((alen =? 4) || (alen =? 0)) then bad_cred m "Invalid origin IP addr length" else
      let m := m <| m_addr := if alen =? 4 then firstn 4 r2 else [x00; x00; x00; x00] |> in
      let r3 := skipn (N.to_nat alen) r2 in
      match take32 r3 with None => bad_cred m "Truncated encode time" | Some (t0, r4) =>
      let m := m <| m_time0 := t0 |> in
      match take32 r4 with None => bad_cred m "Truncated time-to-live" | Some (ttl, r5) =>
      let m := m <| m_ttl := ttl |> in
      match take32 r5 with None => bad_cred m "Truncated UID" | Some (uid, r6) =>
      let m := m <| m_cred_uid := uid |> in
      match take32 r6 with None => bad_cred m "Truncated GID" | Some (gid, r7) =>
      let m := m <| m_cred_gid := gid |> in
      match take32 r7 with None => bad_cred m "Truncated UID restriction" | Some (au, r8) =>
      let m := m <| m_auth_uid := au |> in
      match take32 r8 with None => bad_cred m "Truncated GID restriction" | Some (ag, r9) =>
      let m := m <| m_auth_gid := ag |> in
      match take32 r9 with None => bad_cred m "Truncated data length" | Some (dl, r10) =>
      let m := m <| m_data_len := dl |> in
      if 0 <? dl then
        if len r10 <? dl then bad_cred m "Truncated data"     (* compared in N: dl may be 2^32-1 *)
        else match take (N.to_nat dl) r10 with
             | None => bad_cred m "Truncated data"
             | Some (d, _) => inr (m <| m_data := d |>)
             end
      else inr (m <| m_data := [] |>)
      end end end end end end end
    end
  end.

(* dec_validate_auth; is_member = gids_is_member on the map as last loaded *)
Definition dec_authorized (cf : conf) (is_member : N -> N -> bool) (m : msg) : bool :=
  ((m_auth_uid m =? c_uid_any) || (m_auth_uid m =? m_client_uid m)
   || (cf_root_auth cf && (m_client_uid m =? 0)))
  && ((m_auth_gid m =? c_gid_any) || (m_auth_gid m =? m_client_gid m)
      || is_member (m_client_uid m) (m_auth_gid m)).

Inductive tverdict := TOk | TRewound | TExpired.
(* dec_validate_time: tmin and tmax are formed in time_t (64-bit) from the 32-bit fields, so nothing
   wraps; returns the capped ttl too *)
Definition dec_time (cf : conf) (time0 ttl time1 : N) : tverdict * N :=
  let ttl' := if cf_max_ttl cf <? ttl then cf_max_ttl cf else ttl in
  let skew := if cf_clock_skew cf then ttl' else 1 in
  let tmin := (Z.of_N time0 - Z.of_N skew)%Z in
  let tmax := time0 + ttl' in
  (if (Z.of_N time1 <? tmin)%Z then TRewound else if tmax <? time1 then TExpired else TOk, ttl').

(* replay cache, abstractly: the set of (first 16 MAC bytes, expiry) keys *)
Definition rkey := (bytes * N)%type.
Definition rkey_eqb (a b : rkey) : bool := bytes_eqb (fst a) (fst b) && (snd a =? snd b).
Definition rstate := list rkey.
Definition r_mem (k : rkey) (s : rstate) : bool := existsb (rkey_eqb k) s.
Definition r_remove (k : rkey) (s : rstate) : rstate := filter (fun x => negb (rkey_eqb k x)) s.
(* replay.c: t_expired = (time_t) time0 + ttl *)
Definition cred_rkey (tag : bytes) (m : msg) : rkey := (firstn 16 tag, m_time0 m + m_ttl m).

Definition unauth_str (m : msg) : bytes :=
  str "Unauthorized credential for client UID=" ++ dec_of_N (m_client_uid m) ++ str " GID=" ++ dec_of_N (m_client_gid m).

(* Everything up to and including the MAC check and inner unpack: inl = error message *)
Definition dec_parse (cf : conf) (m : msg) : msg + (msg * bytes) :=   (* ok: msg with fields, tag *)
  match dec_unarmor (m_data m) with
  | inr (e, s) => inl (set_err m e (Some s))
  | inl body =>
    let m := m <| m_data := [] |> <| m_data_len := 0 |> in
    match dec_unpack_outer m body with
    | inl e => inl e
    | inr o =>
      match dec_decrypt_mac cf o with
      | inl e => inl e
      | inr plain =>
        match dec_decompress (oo_msg o) plain with
        | inl e => inl e
        | inr inner =>
          match dec_unpack_inner (oo_msg o) inner with
          | inl e => inl e
          | inr m => inr (m, oo_tag o)
          end
        end
      end
    end
  end.

Definition soft_err (e : N) : bool := (e =? e_cred_expired) || (e =? e_cred_rewound) || (e =? e_cred_replayed).

(* the sanitising step at the end of dec_process_msg *)
Definition dec_finish (m : msg) : msg :=
  if negb (m_err m =? e_success) && negb (soft_err (m_err m)) then msg_reset m else m.

(* dec_process_msg up to the reply WHEN THE CLOCK DOES NOT ADVANCE between the receipt of the request and its replay
   step (the atomic special case of dec_process2 below: CredProofs.dec_process_atomic proves
   dec_process ... now = dec_process2 ... now (u32 now)); returns the reply message, the new replay state and the key
   inserted by this request (for the roll-back when the reply cannot be sent; None when the request added nothing:
   every failure, and a retry that was allowed to replay an existing record) *)
Definition dec_process (cf : conf) (is_member : N -> N -> bool) (rs : rstate)
           (m : msg) (peer_uid peer_gid now : N) : msg * rstate * option rkey :=
  let finish := dec_finish in
  if (m_data_len m =? 0)
  then (finish (set_err m e_snafu (Some (str "No credential specified in decode request"))), rs, None) else
  let m := m <| m_time0 := 0 |> <| m_time1 := u32 now |>
             <| m_client_uid := peer_uid |> <| m_client_gid := peer_gid |> in
  if c_retry_attempts <? m_retry m
  then (finish (set_err m e_socket (Some (str "Exceeded maximum number of decode attempts"))), rs, None) else
  match dec_parse cf m with
  | inl e => (finish e, rs, None)
  | inr (m, tag) =>
    if negb (dec_authorized cf is_member m)
    then (finish (set_err m e_cred_unauthorized (Some (unauth_str m))), rs, None) else
    let '(tv, ttl') := dec_time cf (m_time0 m) (m_ttl m) (m_time1 m) in
    let m := m <| m_ttl := ttl' |> in
    match tv with
    | TRewound => (finish (set_err m e_cred_rewound None), rs, None)
    | TExpired => (finish (set_err m e_cred_expired None), rs, None)
    | TOk =>
      let k := cred_rkey tag m in
      if r_mem k rs then
        if cf_socket_retry cf && (0 <? m_retry m) && (m_retry m <=? c_retry_attempts)
        then (m, rs, None)     (* rc = 0, but this request added nothing (c->is_replay_new = 0): a failed send leaves
                                  the record of the earlier decode in place *)
        else (finish (set_err m e_cred_replayed None), rs, None)
      else (m, k :: rs, Some k)
    end
  end.

(* dec_process_msg with the TWO clock readings it makes: `now` when the request is received (dec_timestamp: the decode
   time of the reply and of the time-window check) and `now2` after replay_insert (dec_validate_replay, repair 41b6e44:
   a request may sit between its time check and its replay step while the credential expires and replay_purge discards
   the record of an earlier decode; a successful insert then says nothing).  A credential that was not in the cache is
   accepted only if it has not expired by now2 (now2 <= time0 + ttl, the record's expiry); otherwise the reply is
   EMUNGE_CRED_EXPIRED (a soft error: the fields stay), the inserted record STAYS (it is purged later) and the request
   owns nothing (None).  now2 is a time_t, not truncated to 32 bits. *)
Definition dec_process2 (cf : conf) (is_member : N -> N -> bool) (rs : rstate)
           (m : msg) (peer_uid peer_gid now now2 : N) : msg * rstate * option rkey :=
  let finish := dec_finish in
  if (m_data_len m =? 0)
  then (finish (set_err m e_snafu (Some (str "No credential specified in decode request"))), rs, None) else
  let m := m <| m_time0 := 0 |> <| m_time1 := u32 now |>
             <| m_client_uid := peer_uid |> <| m_client_gid := peer_gid |> in
  if c_retry_attempts <? m_retry m
  then (finish (set_err m e_socket (Some (str "Exceeded maximum number of decode attempts"))), rs, None) else
  match dec_parse cf m with
  | inl e => (finish e, rs, None)
  | inr (m, tag) =>
    if negb (dec_authorized cf is_member m)
    then (finish (set_err m e_cred_unauthorized (Some (unauth_str m))), rs, None) else
    let '(tv, ttl') := dec_time cf (m_time0 m) (m_ttl m) (m_time1 m) in
    let m := m <| m_ttl := ttl' |> in
    match tv with
    | TRewound => (finish (set_err m e_cred_rewound None), rs, None)
    | TExpired => (finish (set_err m e_cred_expired None), rs, None)
    | TOk =>
      let k := cred_rkey tag m in
      if r_mem k rs then
        if cf_socket_retry cf && (0 <? m_retry m) && (m_retry m <=? c_retry_attempts)
        then (m, rs, None)
        else (finish (set_err m e_cred_replayed None), rs, None)
      else if m_time0 m + m_ttl m <? now2
           then (finish (set_err m e_cred_expired None), k :: rs, None)   (* expired since receipt: record stays *)
           else (m, k :: rs, Some k)
    end
  end.

(* reply could not be delivered: dec_process_msg removes the key THIS request inserted (c->is_replay_new) *)
Definition dec_rollback (rs : rstate) (k : option rkey) : rstate :=
  match k with Some k => r_remove k rs | None => rs end.

End Prim.
