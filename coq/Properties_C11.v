(* Properties_C11.v — statements only.  Concurrent requests are isolated from one another; the set of results
   equals that of some sequential ordering.  Model: ConcModel (threads = requests; pure prefix, ONE critical
   section on the replay cache, pure suffix) instantiated with CredModel through the factorisation
   dec_process = dec_pre ; replay step.  Freedom from data races of the C code is observed under ThreadSanitizer
   by the live phase, not proved. *)
From Coq Require Import List NArith ZArith Bool.
From MV Require Import Bytes CredModel CredProofs RetryModel RetryProofs ConcModel ConcProofs ConcCred.
From MV.gen Require Import GenCred.
Import ListNotations.
Local Open Scope N_scope.

(* generic: for every interleaving of any number of three-step threads, state and replies are those of the
   sequential run in the order of the critical sections *)
Theorem C11_linearizable_generic :
  forall (Req Pre Rep St : Type) (pre : Req -> Pre) (atomic : Pre -> St -> Rep * St)
         (reqs : nat -> option Req) (s0 : St) (es : list ev) (s : cstate Pre Rep St),
  crun pre atomic reqs (cinit s0) es = Some s ->
  let order := rev (done_order s) in
  NoDup order /\
  shared s = fst (seq_run pre atomic reqs order s0) /\
  (forall i r, reply_of s i = Some r <-> In (i, r) (snd (seq_run pre atomic reqs order s0))).
Proof. exact linearizable. Qed.
Print Assumptions C11_linearizable_generic.

Section C11.
Variable hmac : N -> bytes -> bytes -> bytes.
Variable sha1 : bytes -> bytes.
Variable blk_enc blk_dec : N -> bytes -> bytes -> bytes.
Variable zcomp : N -> bytes -> option bytes.
Variable zdecomp : N -> bytes -> N -> option bytes.

(* the daemon's processing of one decode request IS a cache-independent computation followed by one step on the
   replay cache (so the instantiation below is about dec_process_msg, not about a re-arrangement of it) *)
Theorem C11_one_critical_section : forall cf mem rs m pu pg now,
  dec_process hmac sha1 blk_dec zdecomp cf mem rs m pu pg now =
  match dec_pre hmac sha1 blk_dec zdecomp cf mem m pu pg now with
  | inl r => (r, rs, None)
  | inr (m', k) =>
      if r_mem k rs then
        if cf_socket_retry cf && (0 <? m_retry m') && (m_retry m' <=? c_retry_attempts)
        then (m', rs, None)
        else (dec_finish (set_err m' e_cred_replayed None), rs, None)
      else (m', k :: rs, Some k)
  end.
Proof. exact (dec_process_factor hmac sha1 blk_dec zdecomp). Qed.

(* any interleaving of concurrent encode and decode requests from any clients: replies and replay cache are
   those of serving the same requests one at a time in the order of their critical sections *)
Theorem C11_linearizable : forall cf mem (reqs : nat -> option creq) rs0 es s,
  crun (c_pre hmac sha1 blk_enc blk_dec zcomp zdecomp cf mem) (c_atomic cf) reqs (cinit rs0) es = Some s ->
  let order := rev (done_order s) in
  NoDup order /\
  shared s = fst (serve_all hmac sha1 blk_enc blk_dec zcomp zdecomp cf mem reqs order rs0) /\
  (forall i r, reply_of s i = Some r <->
               In (i, r) (snd (serve_all hmac sha1 blk_enc blk_dec zcomp zdecomp cf mem reqs order rs0))).
Proof. exact (cred_linearizable hmac sha1 blk_enc blk_dec zcomp zdecomp). Qed.

(* isolation: a reply is a function of the request's own message, kernel-reported peer and clock reading, plus
   — for a decode that authenticates, is authorized and in time — the single bit "is my replay key present" *)
Theorem C11_reply_depends_on_own_request : forall cf mem q rs,
  fst (serve hmac sha1 blk_enc blk_dec zcomp zdecomp cf mem q rs) =
  match q with
  | QEnc m pu pg now salt ivr => REnc (enc_process hmac sha1 blk_enc zcomp cf m pu pg now salt ivr)
  | QDec m pu pg now =>
      match dec_pre hmac sha1 blk_dec zdecomp cf mem m pu pg now with
      | inl r => RDec r
      | inr (m', k) =>
          if r_mem k rs then
            if cf_socket_retry cf && (0 <? m_retry m') && (m_retry m' <=? c_retry_attempts) then RDec m'
            else RDec (dec_finish (set_err m' e_cred_replayed None))
          else RDec m'
      end
  end.
Proof. exact (reply_is_function_of_own_request hmac sha1 blk_enc blk_dec zcomp zdecomp). Qed.
End C11.
Print Assumptions C11_one_critical_section.
Print Assumptions C11_linearizable.
Print Assumptions C11_reply_depends_on_own_request.

(* non-vacuity: two threads, interleaved, both complete *)
Example C11_example :
  let reqs := fun i : nat => match i with 0%nat => Some 10%nat | 1%nat => Some 20%nat | _ => None end in
  match crun (fun q : nat => q) (fun p st => (p + st, p + st)%nat) reqs (cinit 1%nat)
             [EPre 0; EPre 1; EAtomic 1; EAtomic 0; EPost 0; EPost 1] with
  | Some s => shared s = 31%nat /\ reply_of s 0 = Some 31%nat /\ reply_of s 1 = Some 21%nat /\ done_order s = [0; 1]%nat
  | None => False
  end.
Proof. vm_compute. repeat split; reflexivity. Qed.
