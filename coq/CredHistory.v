(* CredHistory.v — pipeline-level history theorems for C05 / C07: sequences of decode requests (any credentials,
   any retry values, any clients, with replies that are delivered or cannot be delivered) and purge events over the
   replay cache as dec_process_msg uses it.
   A decode is NOT atomic in time: it reads the clock when the request is received (t1: the decode time of the reply and
   of the time-window check, dec_timestamp) and again at its replay step (t2: dec_validate_replay, after replay_insert).
   Events are linearised at their replay step / at the purge (the replay hash is updated under its mutex), so the TIME OF
   AN EVENT is t2 for a decode and the purge's clock reading for a purge.
   CLOCK ASSUMPTION (stated explicitly in every theorem that needs it, `clock_ok`): along the history the event times are
   non-decreasing (forward jumps of any size allowed) and for every decode t1 <= t2.  Nothing is assumed about how far
   t2 is from t1, nor about where purges fall. *)
From Coq Require Import List NArith ZArith Bool Lia Sorted.
From Coq.Strings Require Import Byte.
From RecordUpdate Require Import RecordSet.
From MV Require Import Bytes Base64Model CredModel CredProofs CredForgery RetryModel RetryProofs.
From MV.gen Require Import GenCred.
Import ListNotations RecordSetNotations.
Local Open Scope N_scope.

(* replay_purge: delete_if (t_expired < now), i.e. keep exactly the records with now <= t_expired *)
Definition r_purge (now : N) (rs : rstate) : rstate := filter (fun k => now <=? snd k) rs.

Inductive hev :=
| HDecode (m : msg) (pu pg t1 t2 : N)     (* a decode request that is answered (reply delivered); m carries the retry
                                             value; t1 = clock at receipt, t2 = clock at its replay step *)
| HDecodeLost (m : msg) (pu pg t1 t2 : N) (* a decode request whose reply cannot be delivered (m_msg_send fails): the daemon
                                             takes back the record this request added and owns (c->is_replay_new) *)
| HPurge (now : N).                       (* the periodic purge firing at clock reading now *)

(* the time at which an event takes effect on the replay hash *)
Definition ev_time (e : hev) : N :=
  match e with HDecode _ _ _ _ t2 => t2 | HDecodeLost _ _ _ _ t2 => t2 | HPurge p => p end.
(* a request is received before its replay step *)
Definition ev_wf (e : hev) : Prop :=
  match e with HDecode _ _ _ t1 t2 => t1 <= t2 | HDecodeLost _ _ _ t1 t2 => t1 <= t2 | HPurge _ => True end.
(* the clock assumption: event times non-decreasing along the history, requests received before their replay step *)
Definition clock_ok (h : list hev) : Prop := StronglySorted N.le (map ev_time h) /\ Forall ev_wf h.

Lemma clock_ok_last h e : clock_ok (h ++ [e]) -> forall x, In x h -> ev_time x <= ev_time e.
Proof.
  intros [S _] x Hx. rewrite map_app in S. cbn [map] in S.
  induction h as [|y h IH]; [contradiction|]. cbn [map app] in S.
  apply StronglySorted_inv in S. destruct S as [S F]. destruct Hx as [->|Hx].
  - rewrite Forall_forall in F. apply F. apply in_or_app. right. left. reflexivity.
  - apply IH; assumption.
Qed.

Lemma r_mem_In k rs : In k rs -> r_mem k rs = true.
Proof.
  unfold r_mem. intros H. apply existsb_exists. exists k. split; [exact H|apply rkey_eqb_refl].
Qed.

Lemma r_mem_true_In k rs : r_mem k rs = true -> In k rs.
Proof.
  unfold r_mem. intros H. apply existsb_exists in H. destruct H as (x & Hx & E).
  apply rkey_eqb_eq in E. now subst.
Qed.

Lemma r_mem_false_notin k rs : r_mem k rs = false -> ~ In k rs.
Proof. intros H Hin. rewrite (r_mem_In _ _ Hin) in H. discriminate. Qed.

Lemma r_purge_keeps k now rs : In k rs -> now <= snd k -> In k (r_purge now rs).
Proof. intros H L. unfold r_purge. apply filter_In. split; [exact H|now apply N.leb_le]. Qed.

Lemma r_purge_spec k now rs : In k (r_purge now rs) <-> In k rs /\ now <= snd k.
Proof. unfold r_purge. rewrite filter_In, N.leb_le. tauto. Qed.

Section H.
Variable hmac : N -> bytes -> bytes -> bytes.
Variable sha1 : bytes -> bytes.
Variable blk_dec : N -> bytes -> bytes -> bytes.
Variable zdecomp : N -> bytes -> N -> option bytes.
Variable cf : conf.
Variable mem : N -> N -> bool.

Notation dec_process2 := (dec_process2 hmac sha1 blk_dec zdecomp cf mem).
Notation dec_pre := (dec_pre hmac sha1 blk_dec zdecomp cf mem).

Definition hstep (rs : rstate) (e : hev) : rstate * option msg :=
  match e with
  | HDecode m pu pg t1 t2 => let '(r, rs', _) := dec_process2 rs m pu pg t1 t2 in (rs', Some r)
  | HDecodeLost m pu pg t1 t2 => let '(_, rs', k) := dec_process2 rs m pu pg t1 t2 in (dec_rollback rs' k, None)
  | HPurge now => (r_purge now rs, None)
  end.

Fixpoint hrun (rs : rstate) (h : list hev) : rstate :=
  match h with [] => rs | e :: r => hrun (fst (hstep rs e)) r end.

(* what one decode does to the cache: nothing, or it adds its own key (also when the credential turns out to have
   expired by the replay step: the record of an expired credential is harmless and is purged later) *)
Lemma decode_cache_effect rs m pu pg t1 t2 :
  let '(r, rs', _) := dec_process2 rs m pu pg t1 t2 in
  rs' = rs \/ (exists m' k, dec_pre m pu pg t1 = inr (m', k) /\ r_mem k rs = false /\ rs' = k :: rs /\
                            (r = m' /\ t2 <= snd k \/ r = dec_finish (set_err m' e_cred_expired None) /\ snd k < t2)).
Proof.
  rewrite (dec_process2_factor hmac sha1 blk_dec zdecomp).
  destruct (dec_pre m pu pg t1) as [r0|[m' k]] eqn:P; [left; reflexivity|].
  destruct (r_mem k rs) eqn:M.
  - destruct (_ && _ && _); left; reflexivity.
  - destruct (N.ltb_spec (snd k) t2); right; exists m', k; repeat split; auto.
Qed.

(* a decode whose reply cannot be delivered leaves the cache as it found it - it takes back the record it added and owns,
   and nothing else, in particular not the record of an earlier decode that a retry was allowed to replay - except that
   the record of a credential that expired between receipt and the replay step stays (the request does not own it) *)
Lemma lost_decode_effect rs m pu pg t1 t2 :
  fst (hstep rs (HDecodeLost m pu pg t1 t2)) = rs \/
  (exists m' k, dec_pre m pu pg t1 = inr (m', k) /\ r_mem k rs = false /\ snd k < t2 /\
                fst (hstep rs (HDecodeLost m pu pg t1 t2)) = k :: rs).
Proof.
  cbn [hstep]. rewrite (dec_process2_factor hmac sha1 blk_dec zdecomp).
  destruct (dec_pre m pu pg t1) as [r0|[m' k]] eqn:P; [left; reflexivity|].
  destruct (r_mem k rs) eqn:M.
  - destruct (_ && _ && _); left; reflexivity.
  - destruct (N.ltb_spec (snd k) t2).
    + right. exists m', k. repeat split; auto.
    + left. cbn [fst]. apply rollback_insert. exact M.
Qed.

Lemma lost_decode_restores rs m pu pg t1 t2 m' k :
  dec_pre m pu pg t1 = inr (m', k) -> t2 <= snd k -> fst (hstep rs (HDecodeLost m pu pg t1 t2)) = rs.
Proof.
  intros P L. destruct (lost_decode_effect rs m pu pg t1 t2) as [E|(m2 & k2 & P2 & _ & L2 & _)]; [exact E|].
  rewrite P in P2. inversion P2; subst. lia.
Qed.

(* a delivered decode that the cache-independent part accepts leaves the credential's record in the cache, whatever
   its retry value, its two clock readings and whatever it was answered (success, allowed replay, replayed, expired) *)
Lemma delivered_decode_records rs m pu pg t1 t2 m' k :
  dec_pre m pu pg t1 = inr (m', k) -> In k (fst (hstep rs (HDecode m pu pg t1 t2))).
Proof.
  intros P. cbn [hstep]. rewrite (dec_process2_factor hmac sha1 blk_dec zdecomp), P.
  destruct (r_mem k rs) eqn:M.
  - apply r_mem_true_In in M. destruct (_ && _ && _); exact M.
  - destruct (snd k <? t2); left; reflexivity.
Qed.

(* no event removes a record before its expiry: decodes only add, a purge at clock p keeps every record with
   p <= expiry *)
Lemma hstep_keeps rs e k :
  In k rs -> (forall p, e = HPurge p -> p <= snd k) -> In k (fst (hstep rs e)).
Proof.
  intros Hin Hp. destruct e as [m1 pu1 pg1 ta tb|m1 pu1 pg1 ta tb|p].
  - cbn [hstep]. pose proof (decode_cache_effect rs m1 pu1 pg1 ta tb) as E.
    destruct (dec_process2 rs m1 pu1 pg1 ta tb) as [[r rs'] kk]. cbn [fst].
    destruct E as [->|(m2 & k2 & _ & _ & -> & _)]; [exact Hin|right; exact Hin].
  - destruct (lost_decode_effect rs m1 pu1 pg1 ta tb) as [->|(m2 & k2 & _ & _ & _ & ->)]; [exact Hin|right; exact Hin].
  - cbn [hstep fst]. apply r_purge_keeps; [exact Hin|]. apply Hp. reflexivity.
Qed.

Lemma hrun_keeps h : forall rs k,
  In k rs -> (forall p, In (HPurge p) h -> p <= snd k) -> In k (hrun rs h).
Proof.
  induction h as [|e h IH]; intros rs k Hin Hp; cbn [hrun]; [exact Hin|].
  apply IH.
  - apply hstep_keeps; [exact Hin|]. intros p ->. apply Hp. left. reflexivity.
  - intros p Hq. apply Hp. right. exact Hq.
Qed.

(* a record that has disappeared was discarded by a purge that ran after its expiry *)
Lemma hrun_lost_means_purged h : forall rs k,
  In k rs -> ~ In k (hrun rs h) -> exists p, In (HPurge p) h /\ snd k < p.
Proof.
  induction h as [|e h IH]; intros rs k Hin Hn; cbn [hrun] in Hn; [contradiction|].
  destruct e as [m1 pu1 pg1 ta tb|m1 pu1 pg1 ta tb|p].
  - destruct (IH _ k (hstep_keeps rs (HDecode m1 pu1 pg1 ta tb) k Hin ltac:(discriminate)) Hn) as (p & Hp & L).
    exists p. split; [right; exact Hp|exact L].
  - destruct (IH _ k (hstep_keeps rs (HDecodeLost m1 pu1 pg1 ta tb) k Hin ltac:(discriminate)) Hn) as (p & Hp & L).
    exists p. split; [right; exact Hp|exact L].
  - destruct (N.le_gt_cases p (snd k)) as [L|L].
    + assert (K : In k (fst (hstep rs (HPurge p)))) by (apply hstep_keeps; [exact Hin|intros q E; inversion E; subst; exact L]).
      destruct (IH _ k K Hn) as (q & Hq & Lq). exists q. split; [right; exact Hq|exact Lq].
    + exists p. split; [left; reflexivity|exact L].
Qed.

Lemma hrun_app h1 h2 : forall rs, hrun rs (h1 ++ h2) = hrun (hrun rs h1) h2.
Proof. induction h1 as [|e h1 IH]; intros rs; cbn [hrun app]; [reflexivity|apply IH]. Qed.

(* the in-window check bounds the receipt clock by the record's expiry *)
Lemma dec_pre_accept_time m pu pg now m' k :
  dec_pre m pu pg now = inr (m', k) -> u32 now <= snd k /\ m_retry m' = m_retry m.
Proof. exact (dec_pre_expiry hmac sha1 blk_dec zdecomp cf mem m pu pg now m' k). Qed.

(* C07 at pipeline level, with a decode that is not atomic in time and purges ANYWHERE: once the record of a credential
   is in the cache, a later first-attempt presentation (received at t1, reaching its replay step at t2) that
   authenticates, is authorized and was inside the time window at t1 is NEVER accepted - across any history of other
   decodes (any credentials, retry values, clients, outcomes, replies delivered or not) and any number of purges at any
   times, under the clock assumption alone.  It is answered 'replayed' (cache unchanged) if the record is still there,
   and 'expired' if a purge has discarded it - which can only have happened after the credential's last valid second,
   and then t2 is after it too. *)
Theorem second_presentation_never_accepted rs0 h m pu pg t1 t2 m' k :
  In k rs0 ->
  clock_ok (h ++ [HDecode m pu pg t1 t2]) ->
  dec_pre m pu pg t1 = inr (m', k) -> m_retry m = 0 ->
  let rs := hrun rs0 h in
  dec_process2 rs m pu pg t1 t2 = (dec_finish (set_err m' e_cred_replayed None), rs, None) \/
  (snd k < t2 /\ dec_process2 rs m pu pg t1 t2 = (dec_finish (set_err m' e_cred_expired None), k :: rs, None)).
Proof.
  intros Hin Hclk P R0. cbv zeta.
  destruct (dec_pre_accept_time _ _ _ _ _ _ P) as [_ Hr].
  rewrite (dec_process2_factor hmac sha1 blk_dec zdecomp), P, Hr, R0.
  replace (0 <? 0) with false by reflexivity. rewrite andb_false_r.
  destruct (r_mem k (hrun rs0 h)) eqn:M; [left; reflexivity|right].
  destruct (hrun_lost_means_purged h rs0 k Hin (r_mem_false_notin _ _ M)) as (p & Hp & L).
  pose proof (clock_ok_last h _ Hclk (HPurge p) Hp) as T. cbn [ev_time] in T.
  assert (X : snd k < t2) by lia. split; [exact X|].
  replace (snd k <? t2) with true by (symmetry; apply N.ltb_lt; exact X). reflexivity.
Qed.

(* ... and up to and including the last valid second (t2 <= expiry) the record is certainly still there: 'replayed' *)
Theorem replayed_until_last_valid_second rs0 h m pu pg t1 t2 m' k :
  In k rs0 ->
  clock_ok (h ++ [HDecode m pu pg t1 t2]) -> t2 <= snd k ->
  dec_pre m pu pg t1 = inr (m', k) -> m_retry m = 0 ->
  let rs := hrun rs0 h in
  dec_process2 rs m pu pg t1 t2 = (dec_finish (set_err m' e_cred_replayed None), rs, None).
Proof.
  intros Hin Hclk Hl P R0. cbv zeta.
  destruct (second_presentation_never_accepted rs0 h m pu pg t1 t2 m' k Hin Hclk P R0) as [E|[L _]]; [exact E|lia].
Qed.

(* records are discarded only after expiry, and are discarded then *)
Theorem purge_discards_exactly_expired now rs k :
  In k (r_purge now rs) <-> In k rs /\ now <= snd k.
Proof. apply r_purge_spec. Qed.

(* C05 at pipeline level: a decode whose cache-independent part fails (invalid, unauthorized, expired, rewound)
   leaves the cache exactly as it was — failed decodes never consume a credential *)
Theorem failed_decode_does_not_consume rs m pu pg t1 t2 r0 :
  dec_pre m pu pg t1 = inl r0 -> dec_process2 rs m pu pg t1 t2 = (r0, rs, None).
Proof. intros P. rewrite (dec_process2_factor hmac sha1 blk_dec zdecomp), P. reflexivity. Qed.

(* ... and the first accepted first-attempt presentation of a key that has not expired by its replay step succeeds and
   records it, whatever other keys the cache holds (equal expiry, equal bucket, same MAC with another expiry) *)
Theorem first_presentation_succeeds rs m pu pg t1 t2 m' k :
  dec_pre m pu pg t1 = inr (m', k) -> ~ In k rs -> t2 <= snd k ->
  dec_process2 rs m pu pg t1 t2 = (m', k :: rs, Some k).
Proof.
  intros P Hn L. rewrite (dec_process2_factor hmac sha1 blk_dec zdecomp), P.
  destruct (r_mem k rs) eqn:M; [apply r_mem_true_In in M; contradiction|].
  replace (snd k <? t2) with false by (symmetry; apply N.ltb_ge; exact L). reflexivity.
Qed.

(* C05, first attempts: after a DELIVERED decode of credential X that the cache-independent part accepted (whatever
   its retry value and its clock readings; in particular after a delivered success), every later request for X with
   retry = 0 that was inside the time window when it was received is NOT accepted - it is answered 'replayed', or
   'expired' when a purge has meanwhile discarded the record (then its replay step is after the last valid second) -
   whatever happened before (h1), and whatever came in between (h2): decodes of any credentials with any retry values,
   from any clients, with replies delivered or undeliverable, each with its own pair of clock readings, and purge ticks
   ANYWHERE - under the clock assumption alone.  Hence at most one retry-0 request per credential with a delivered
   reply ever ends in success. *)
Theorem first_attempts_at_most_once rs0 h1 h2 mA puA pgA tA1 tA2 mA' m pu pg t1 t2 m' k :
  dec_pre mA puA pgA tA1 = inr (mA', k) ->
  clock_ok (h2 ++ [HDecode m pu pg t1 t2]) ->
  dec_pre m pu pg t1 = inr (m', k) -> m_retry m = 0 ->
  let rs := hrun rs0 (h1 ++ HDecode mA puA pgA tA1 tA2 :: h2) in
  dec_process2 rs m pu pg t1 t2 = (dec_finish (set_err m' e_cred_replayed None), rs, None) \/
  (snd k < t2 /\ dec_process2 rs m pu pg t1 t2 = (dec_finish (set_err m' e_cred_expired None), k :: rs, None)).
Proof.
  intros PA Hclk P R0. cbv zeta. rewrite hrun_app. cbn [hrun].
  apply (second_presentation_never_accepted _ h2 m pu pg t1 t2 m' k); auto.
  apply delivered_decode_records with (m' := mA'). exact PA.
Qed.

Lemma dec_pre_err_ok m pu pg now m' k : dec_pre m pu pg now = inr (m', k) -> m_err m' = m_err m.
Proof.
  unfold RetryModel.dec_pre. intros P.
  destruct (m_data_len m =? 0); [discriminate|].
  destruct (c_retry_attempts <? _); [discriminate|].
  destruct (CredModel.dec_parse _ _ _ _ _ _) as [e|[m2 tag]] eqn:Q; [discriminate|].
  destruct (negb _); [discriminate|].
  destruct (dec_time cf (m_time0 m2) (m_ttl m2) (m_time1 m2)) as [tv ttl'].
  destruct tv; try discriminate. inversion P; subst; clear P.
  destruct (dec_parse_frame hmac sha1 blk_dec zdecomp _ _ _ _ Q) as (He & _). cbn in He. cbn. congruence.
Qed.

(* two delivered retry-0 requests for one credential in one history never both succeed: the later one is answered
   'replayed' or 'expired' *)
Corollary two_first_attempts_not_both_ok rs0 h1 h2 mA puA pgA tA1 tA2 mA' m pu pg t1 t2 m' k :
  dec_pre mA puA pgA tA1 = inr (mA', k) ->
  clock_ok (h2 ++ [HDecode m pu pg t1 t2]) ->
  dec_pre m pu pg t1 = inr (m', k) -> m_retry m = 0 -> m_err m = e_success ->
  let rs := hrun rs0 (h1 ++ HDecode mA puA pgA tA1 tA2 :: h2) in
  let e := m_err (fst (fst (dec_process2 rs m pu pg t1 t2))) in
  e = e_cred_replayed \/ e = e_cred_expired.
Proof.
  intros PA Hclk P R0 E0. cbv zeta.
  assert (Em : m_err m' = e_success) by (rewrite (dec_pre_err_ok _ _ _ _ _ _ P); exact E0).
  destruct (first_attempts_at_most_once rs0 h1 h2 mA puA pgA tA1 tA2 mA' m pu pg t1 t2 m' k PA Hclk P R0) as [E|[_ E]];
    cbv zeta in E; rewrite E; cbn [fst]; unfold dec_finish; rewrite (set_err_code _ _ _ Em) by discriminate.
  - left. change (negb (e_cred_replayed =? e_success) && negb (soft_err e_cred_replayed)) with false. cbn iota.
    apply set_err_code; [exact Em|discriminate].
  - right. change (negb (e_cred_expired =? e_success) && negb (soft_err e_cred_expired)) with false. cbn iota.
    apply set_err_code; [exact Em|discriminate].
Qed.

End H.

(* ---- rules of the source BEFORE two repairs, defined here (not in the model) so that the theorems above can be shown
        to be false for them.  Both ignore the clock reading at the replay step. ---- *)
Section Old.
Variable hmac : N -> bytes -> bytes -> bytes.
Variable sha1 : bytes -> bytes.
Variable blk_dec : N -> bytes -> bytes -> bytes.
Variable zdecomp : N -> bytes -> N -> option bytes.
Variable cf : conf.
Variable mem : N -> N -> bool.

(* before 3dbe0fd: a retry that was allowed to replay an existing record also "owned" it, so its undeliverable reply
   removed the record of the earlier DELIVERED decode (and no fresh expiry check) *)
Definition dec_process_old (rs : rstate) (m : msg) (pu pg now : N) : msg * rstate * option rkey :=
  match dec_pre hmac sha1 blk_dec zdecomp cf mem m pu pg now with
  | inl r => (r, rs, None)
  | inr (m', k) =>
      if r_mem k rs then
        if cf_socket_retry cf && (0 <? m_retry m') && (m_retry m' <=? c_retry_attempts)
        then (m', rs, Some k)                       (* pre-repair: rc = 0 alone decided the roll-back *)
        else (dec_finish (set_err m' e_cred_replayed None), rs, None)
      else (m', k :: rs, Some k)
  end.

(* before 41b6e44 (after 3dbe0fd): the time check used the receipt clock only; a successful insert was taken as "first
   presentation" although replay_purge may have discarded the record of an earlier decode in the meantime *)
Definition dec_process_stale (rs : rstate) (m : msg) (pu pg now : N) : msg * rstate * option rkey :=
  match dec_pre hmac sha1 blk_dec zdecomp cf mem m pu pg now with
  | inl r => (r, rs, None)
  | inr (m', k) =>
      if r_mem k rs then
        if cf_socket_retry cf && (0 <? m_retry m') && (m_retry m' <=? c_retry_attempts)
        then (m', rs, None)
        else (dec_finish (set_err m' e_cred_replayed None), rs, None)
      else (m', k :: rs, Some k)                    (* pre-repair: no look at the clock after the insert *)
  end.

Definition hstep_with (dp : rstate -> msg -> N -> N -> N -> msg * rstate * option rkey) (rs : rstate) (e : hev) : rstate :=
  match e with
  | HDecode m pu pg t1 _ => let '(_, rs', _) := dp rs m pu pg t1 in rs'
  | HDecodeLost m pu pg t1 _ => let '(_, rs', k) := dp rs m pu pg t1 in dec_rollback rs' k
  | HPurge now => r_purge now rs
  end.
Fixpoint hrun_with dp (rs : rstate) (h : list hev) : rstate :=
  match h with [] => rs | e :: r => hrun_with dp (hstep_with dp rs e) r end.
Definition hrun_old := hrun_with dec_process_old.
Definition hrun_stale := hrun_with dec_process_stale.
End Old.

(* a concrete 3-event history (toy primitives, computed inside Coq; the clock does not move inside a decode): A = first
   attempt, delivered, success; B = the same credential with retry = 1, reply undeliverable; C = first attempt again,
   inside the window, no purge at all.  All premises of first_attempts_at_most_once hold (h1 = [], h2 = [B]); under the
   pre-3dbe0fd rule C succeeds a second time, under the model's rule it is answered 'replayed'. *)
Theorem old_unplay_refuted :
  let pre := dec_pre toy_hmac (fun x => x) toy_blk (fun _ x _ => Some x) cf_std (fun _ _ => false) in
  let old := dec_process_old toy_hmac (fun x => x) toy_blk (fun _ x _ => Some x) cf_std (fun _ _ => false) in
  let new := dec_process2 toy_hmac (fun x => x) toy_blk (fun _ x _ => Some x) cf_std (fun _ _ => false) in
  let A := HDecode (req toy_cred 0) 7 8 5010 5010 in
  let B := HDecodeLost (req toy_cred 1) 7 8 5011 5011 in
  let C := req toy_cred 0 in
  (exists mA' m' k, pre (req toy_cred 0) 7 8 5010 = inr (mA', k) /\ pre C 7 8 5012 = inr (m', k)) /\
  m_retry C = 0 /\ clock_ok ([A; B] ++ [HDecode C 7 8 5012 5012]) /\
  (let rs := hrun_old toy_hmac (fun x => x) toy_blk (fun _ x _ => Some x) cf_std (fun _ _ => false) [] [A; B] in
   m_err (fst (fst (old rs C 7 8 5012))) = e_success /\ rs = []) /\
  (let rs := hrun toy_hmac (fun x => x) toy_blk (fun _ x _ => Some x) cf_std (fun _ _ => false) [] [A; B] in
   m_err (fst (fst (new rs C 7 8 5012 5012))) = e_cred_replayed /\ length rs = 1%nat).
Proof.
  cbv zeta. split; [|split; [reflexivity|split]].
  - eexists _, _, _. split; vm_compute; reflexivity.
  - split; [|repeat constructor; cbn; lia].
    cbn. repeat constructor; lia.
  - split; vm_compute; split; reflexivity.
Qed.

(* the straddle: the toy credential is encoded at 5000 with TTL 60, so X = 5060 is its last valid second.  A = first
   attempt received and processed at X: success.  Purge at X + 1: the record (expiry X) is discarded.  C = first attempt
   RECEIVED at X (inside the window) whose replay step happens at X + 1.  The clock assumption holds (5060, 5061, 5061;
   receipt before replay step) and all premises of first_attempts_at_most_once / second_presentation_never_accepted hold;
   under the pre-41b6e44 rule (no fresh check) C succeeds a SECOND time, under the model's rule it is answered
   'expired' (and the fields of the reply stay: a soft error). *)
Theorem stale_time_refuted :
  let pre := dec_pre toy_hmac (fun x => x) toy_blk (fun _ x _ => Some x) cf_std (fun _ _ => false) in
  let stale := dec_process_stale toy_hmac (fun x => x) toy_blk (fun _ x _ => Some x) cf_std (fun _ _ => false) in
  let new := dec_process2 toy_hmac (fun x => x) toy_blk (fun _ x _ => Some x) cf_std (fun _ _ => false) in
  let A := HDecode (req toy_cred 0) 7 8 5060 5060 in
  let P := HPurge 5061 in
  let C := req toy_cred 0 in
  (exists mA' m' k, pre (req toy_cred 0) 7 8 5060 = inr (mA', k) /\ pre C 7 8 5060 = inr (m', k) /\ snd k = 5060) /\
  m_retry C = 0 /\ clock_ok ([A; P] ++ [HDecode C 7 8 5060 5061]) /\
  (let rs := hrun_stale toy_hmac (fun x => x) toy_blk (fun _ x _ => Some x) cf_std (fun _ _ => false) [] [A; P] in
   rs = [] /\ m_err (fst (fst (stale rs C 7 8 5060))) = e_success) /\
  (let rs := hrun toy_hmac (fun x => x) toy_blk (fun _ x _ => Some x) cf_std (fun _ _ => false) [] [A; P] in
   rs = [] /\ let r := fst (fst (new rs C 7 8 5060 5061)) in
              m_err r = e_cred_expired /\ m_data_len r = 5 /\ m_cred_uid r = 1000).
Proof.
  cbv zeta. split; [|split; [reflexivity|split]].
  - eexists _, _, _. split; [|split]; vm_compute; reflexivity.
  - split; [|repeat constructor; cbn; lia].
    cbn. repeat constructor; lia.
  - split; vm_compute; repeat split; reflexivity.
Qed.
