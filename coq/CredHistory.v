(* CredHistory.v — pipeline-level history theorems for C05 / C07: sequences of decode requests (any credentials,
   any clients, any clock readings) and purge events over the replay cache as dec_process_msg uses it. *)
From Coq Require Import List NArith ZArith Bool Lia.
From Coq.Strings Require Import Byte.
From RecordUpdate Require Import RecordSet.
From MV Require Import Bytes Base64Model CredModel CredProofs CredForgery RetryModel RetryProofs.
From MV.gen Require Import GenCred.
Import ListNotations RecordSetNotations.
Local Open Scope N_scope.

(* replay_purge: delete_if (t_expired < now), i.e. keep exactly the records with now <= t_expired *)
Definition r_purge (now : N) (rs : rstate) : rstate := filter (fun k => now <=? snd k) rs.

Inductive hev :=
| HDecode (m : msg) (pu pg now : N)     (* a decode request that is answered (reply delivered) *)
| HPurge (now : N).                     (* the periodic purge firing at clock reading now *)

Lemma r_mem_In k rs : In k rs -> r_mem k rs = true.
Proof.
  unfold r_mem. intros H. apply existsb_exists. exists k. split; [exact H|apply rkey_eqb_refl].
Qed.

Lemma r_mem_true_In k rs : r_mem k rs = true -> In k rs.
Proof.
  unfold r_mem. intros H. apply existsb_exists in H. destruct H as (x & Hx & E).
  apply rkey_eqb_eq in E. now subst.
Qed.

Lemma r_purge_keeps k now rs : In k rs -> now <= snd k -> In k (r_purge now rs).
Proof. intros H L. unfold r_purge. apply filter_In. split; [exact H|now apply N.leb_le]. Qed.

Lemma r_purge_spec k now rs : In k (r_purge now rs) <-> In k rs /\ now <= snd k.
Proof. unfold r_purge. rewrite filter_In, N.leb_le. tauto. Qed.

Section H.
Variable hmac : N -> bytes -> bytes -> bytes.
Variable sha1 : bytes -> bytes.
Variable blk_dec : N -> bytes -> bytes -> bytes.
Variable zdecomp : N -> bytes -> N -> option bytes.
Variable cf : conf.
Variable mem : N -> N -> bool.

Notation dec_process := (dec_process hmac sha1 blk_dec zdecomp cf mem).
Notation dec_pre := (dec_pre hmac sha1 blk_dec zdecomp cf mem).

Definition hstep (rs : rstate) (e : hev) : rstate * option msg :=
  match e with
  | HDecode m pu pg now => let '(r, rs', _) := dec_process rs m pu pg now in (rs', Some r)
  | HPurge now => (r_purge now rs, None)
  end.

Fixpoint hrun (rs : rstate) (h : list hev) : rstate :=
  match h with [] => rs | e :: r => hrun (fst (hstep rs e)) r end.

(* what one decode does to the cache: nothing, or it adds its own key *)
Lemma decode_cache_effect rs m pu pg now :
  let '(r, rs', _) := dec_process rs m pu pg now in
  rs' = rs \/ (exists m' k, dec_pre m pu pg now = inr (m', k) /\ r_mem k rs = false /\ rs' = k :: rs /\ r = m').
Proof.
  rewrite (dec_process_factor hmac sha1 blk_dec zdecomp).
  destruct (dec_pre m pu pg now) as [r0|[m' k]] eqn:P; [left; reflexivity|].
  destruct (r_mem k rs) eqn:M.
  - destruct (_ && _ && _); left; reflexivity.
  - right. exists m', k. repeat split; auto.
Qed.

(* the in-window check bounds the decode clock by the record's expiry *)
Lemma dec_pre_accept_time m pu pg now m' k :
  dec_pre m pu pg now = inr (m', k) -> u32 now <= snd k /\ m_retry m' = m_retry m.
Proof.
  unfold RetryModel.dec_pre. intros H.
  destruct (m_data_len m =? 0); [discriminate|].
  destruct (c_retry_attempts <? _); [discriminate|].
  destruct (CredModel.dec_parse _ _ _ _ _ _) as [e|[m2 tag]] eqn:P; [discriminate|].
  destruct (negb _); [discriminate|].
  destruct (dec_time cf (m_time0 m2) (m_ttl m2) (m_time1 m2)) as [tv ttl'] eqn:T.
  destruct tv; try discriminate. inversion H; subst; clear H.
  destruct (dec_parse_frame hmac sha1 blk_dec zdecomp _ _ _ _ P) as (_ & Hr & _ & _ & Ht1).
  cbn in Hr, Ht1. split; [|exact Hr].
  unfold cred_rkey. cbn.
  pose proof (window_exact cf (m_time0 m2) (m_ttl m2) (m_time1 m2)) as W. cbv zeta in W.
  destruct W as (W & _). rewrite T in W. cbn [fst] in W. destruct (proj1 W eq_refl) as [_ W2].
  assert (ttl' = capped cf (m_ttl m2)) as -> by (pose proof (dec_time_ttl cf (m_time0 m2) (m_ttl m2) (m_time1 m2)) as X; rewrite T in X; exact X).
  rewrite Ht1 in W2. lia.
Qed.

(* C07 at pipeline level: once the record of a credential is in the cache, every later first-attempt presentation
   that authenticates, is authorized and is inside the time window is answered 'replayed' and changes nothing —
   across ANY history of other decodes (any credentials, clients, outcomes) and ANY number of purges, as long as
   the clock readings of the purges do not exceed the clock reading of that presentation (non-decreasing clock).
   In particular up to and including the last valid second. *)
Theorem replayed_until_last_valid_second rs0 h m pu pg now m' k :
  In k rs0 ->
  (forall p, In (HPurge p) h -> p <= u32 now) ->
  dec_pre m pu pg now = inr (m', k) -> m_retry m = 0 ->
  let rs := hrun rs0 h in
  dec_process rs m pu pg now = (dec_finish (set_err m' e_cred_replayed None), rs, None).
Proof.
  intros Hin Hp P R0. cbv zeta.
  destruct (dec_pre_accept_time _ _ _ _ _ _ P) as [Ht Hr].
  assert (K : In k (hrun rs0 h)).
  { clear P Hr R0. revert rs0 Hin Hp. induction h as [|e h IH]; intros rs0 Hin Hp; cbn [hrun]; [exact Hin|].
    apply IH.
    - destruct e as [m1 pu1 pg1 now1|p]; cbn [hstep fst].
      + pose proof (decode_cache_effect rs0 m1 pu1 pg1 now1) as E.
        destruct (dec_process rs0 m1 pu1 pg1 now1) as [[r rs'] kk]. cbn [fst].
        destruct E as [->|(m2 & k2 & _ & _ & -> & _)]; [exact Hin|right; exact Hin].
      + apply r_purge_keeps; [exact Hin|]. specialize (Hp p (or_introl eq_refl)). lia.
    - intros p Hq. apply Hp. right. exact Hq. }
  rewrite (dec_process_factor hmac sha1 blk_dec zdecomp), P, (r_mem_In _ _ K), Hr, R0.
  replace (0 <? 0) with false by reflexivity. rewrite andb_false_r. reflexivity.
Qed.

(* records are discarded only after expiry, and are discarded then *)
Theorem purge_discards_exactly_expired now rs k :
  In k (r_purge now rs) <-> In k rs /\ now <= snd k.
Proof. apply r_purge_spec. Qed.

(* C05 at pipeline level: a decode whose cache-independent part fails (invalid, unauthorized, expired, rewound)
   leaves the cache exactly as it was — failed decodes never consume a credential *)
Theorem failed_decode_does_not_consume rs m pu pg now r0 :
  dec_pre m pu pg now = inl r0 -> dec_process rs m pu pg now = (r0, rs, None).
Proof. intros P. rewrite (dec_process_factor hmac sha1 blk_dec zdecomp), P. reflexivity. Qed.

(* ... and the first accepted first-attempt presentation of a key succeeds and records it, whatever other keys
   the cache holds (equal expiry, equal bucket, same MAC with another expiry: any k' <> k) *)
Theorem first_presentation_succeeds rs m pu pg now m' k :
  dec_pre m pu pg now = inr (m', k) -> ~ In k rs ->
  dec_process rs m pu pg now = (m', k :: rs, Some k).
Proof.
  intros P Hn. rewrite (dec_process_factor hmac sha1 blk_dec zdecomp), P.
  destruct (r_mem k rs) eqn:M; [apply r_mem_true_In in M; contradiction|reflexivity].
Qed.

End H.
