(* CredHistory.v — pipeline-level history theorems for C05 / C07: sequences of decode requests (any credentials,
   any retry values, any clients, any clock readings, with replies that are delivered or cannot be delivered) and purge
   events over the replay cache as dec_process_msg uses it. *)
From Coq Require Import List NArith ZArith Bool Lia.
From Coq.Strings Require Import Byte.
From RecordUpdate Require Import RecordSet.
From MV Require Import Bytes Base64Model CredModel CredProofs CredForgery RetryModel RetryProofs.
From MV.gen Require Import GenCred.
Import ListNotations RecordSetNotations.
Local Open Scope N_scope.

(* replay_purge: delete_if (t_expired < now), i.e. keep exactly the records with now <= t_expired *)
Definition r_purge (now : N) (rs : rstate) : rstate := filter (fun k => now <=? snd k) rs.

Inductive hev :=
| HDecode (m : msg) (pu pg now : N)     (* a decode request that is answered (reply delivered); m carries the retry value *)
| HDecodeLost (m : msg) (pu pg now : N) (* a decode request whose reply cannot be delivered (m_msg_send fails): the daemon
                                           takes back the record this request added, if it added one *)
| HPurge (now : N).                     (* the periodic purge firing at clock reading now *)

Lemma r_mem_In k rs : In k rs -> r_mem k rs = true.
Proof.
  unfold r_mem. intros H. apply existsb_exists. exists k. split; [exact H|apply rkey_eqb_refl].
Qed.

Lemma r_mem_true_In k rs : r_mem k rs = true -> In k rs.
Proof.
  unfold r_mem. intros H. apply existsb_exists in H. destruct H as (x & Hx & E).
  apply rkey_eqb_eq in E. now subst.
Qed.

Lemma r_purge_keeps k now rs : In k rs -> now <= snd k -> In k (r_purge now rs).
Proof. intros H L. unfold r_purge. apply filter_In. split; [exact H|now apply N.leb_le]. Qed.

Lemma r_purge_spec k now rs : In k (r_purge now rs) <-> In k rs /\ now <= snd k.
Proof. unfold r_purge. rewrite filter_In, N.leb_le. tauto. Qed.

Section H.
Variable hmac : N -> bytes -> bytes -> bytes.
Variable sha1 : bytes -> bytes.
Variable blk_dec : N -> bytes -> bytes -> bytes.
Variable zdecomp : N -> bytes -> N -> option bytes.
Variable cf : conf.
Variable mem : N -> N -> bool.

Notation dec_process := (dec_process hmac sha1 blk_dec zdecomp cf mem).
Notation dec_pre := (dec_pre hmac sha1 blk_dec zdecomp cf mem).

Definition hstep (rs : rstate) (e : hev) : rstate * option msg :=
  match e with
  | HDecode m pu pg now => let '(r, rs', _) := dec_process rs m pu pg now in (rs', Some r)
  | HDecodeLost m pu pg now => let '(_, rs', k) := dec_process rs m pu pg now in (dec_rollback rs' k, None)
  | HPurge now => (r_purge now rs, None)
  end.

Fixpoint hrun (rs : rstate) (h : list hev) : rstate :=
  match h with [] => rs | e :: r => hrun (fst (hstep rs e)) r end.

(* what one decode does to the cache: nothing, or it adds its own key *)
Lemma decode_cache_effect rs m pu pg now :
  let '(r, rs', _) := dec_process rs m pu pg now in
  rs' = rs \/ (exists m' k, dec_pre m pu pg now = inr (m', k) /\ r_mem k rs = false /\ rs' = k :: rs /\ r = m').
Proof.
  rewrite (dec_process_factor hmac sha1 blk_dec zdecomp).
  destruct (dec_pre m pu pg now) as [r0|[m' k]] eqn:P; [left; reflexivity|].
  destruct (r_mem k rs) eqn:M.
  - destruct (_ && _ && _); left; reflexivity.
  - right. exists m', k. repeat split; auto.
Qed.

(* a decode whose reply cannot be delivered leaves the cache EXACTLY as it found it: it takes back the record it added,
   and nothing else - in particular not the record of an earlier decode that a retry was allowed to replay *)
Lemma lost_decode_restores rs m pu pg now : fst (hstep rs (HDecodeLost m pu pg now)) = rs.
Proof.
  cbn [hstep]. rewrite (dec_process_factor hmac sha1 blk_dec zdecomp).
  destruct (dec_pre m pu pg now) as [r0|[m' k]]; [reflexivity|].
  destruct (r_mem k rs) eqn:M.
  - destruct (_ && _ && _); reflexivity.
  - cbn [fst]. apply rollback_insert. exact M.
Qed.

(* a delivered decode that the cache-independent part accepts leaves the credential's record in the cache, whatever
   its retry value and whatever it was answered (success, allowed replay, replayed) *)
Lemma delivered_decode_records rs m pu pg now m' k :
  dec_pre m pu pg now = inr (m', k) -> In k (fst (hstep rs (HDecode m pu pg now))).
Proof.
  intros P. cbn [hstep]. rewrite (dec_process_factor hmac sha1 blk_dec zdecomp), P.
  destruct (r_mem k rs) eqn:M.
  - apply r_mem_true_In in M. destruct (_ && _ && _); exact M.
  - left. reflexivity.
Qed.

(* no event removes a record before its expiry: decodes only add, undeliverable ones change nothing, a purge at clock p
   keeps every record with p <= expiry *)
Lemma hstep_keeps rs e k :
  In k rs -> (forall p, e = HPurge p -> p <= snd k) -> In k (fst (hstep rs e)).
Proof.
  intros Hin Hp. destruct e as [m1 pu1 pg1 now1|m1 pu1 pg1 now1|p].
  - cbn [hstep]. pose proof (decode_cache_effect rs m1 pu1 pg1 now1) as E.
    destruct (dec_process rs m1 pu1 pg1 now1) as [[r rs'] kk]. cbn [fst].
    destruct E as [->|(m2 & k2 & _ & _ & -> & _)]; [exact Hin|right; exact Hin].
  - rewrite lost_decode_restores. exact Hin.
  - cbn [hstep fst]. apply r_purge_keeps; [exact Hin|]. apply Hp. reflexivity.
Qed.

Lemma hrun_keeps h : forall rs k,
  In k rs -> (forall p, In (HPurge p) h -> p <= snd k) -> In k (hrun rs h).
Proof.
  induction h as [|e h IH]; intros rs k Hin Hp; cbn [hrun]; [exact Hin|].
  apply IH.
  - apply hstep_keeps; [exact Hin|]. intros p ->. apply Hp. left. reflexivity.
  - intros p Hq. apply Hp. right. exact Hq.
Qed.

Lemma hrun_app h1 h2 : forall rs, hrun rs (h1 ++ h2) = hrun (hrun rs h1) h2.
Proof. induction h1 as [|e h1 IH]; intros rs; cbn [hrun app]; [reflexivity|apply IH]. Qed.

(* the in-window check bounds the decode clock by the record's expiry *)
Lemma dec_pre_accept_time m pu pg now m' k :
  dec_pre m pu pg now = inr (m', k) -> u32 now <= snd k /\ m_retry m' = m_retry m.
Proof.
  unfold RetryModel.dec_pre. intros H.
  destruct (m_data_len m =? 0); [discriminate|].
  destruct (c_retry_attempts <? _); [discriminate|].
  destruct (CredModel.dec_parse _ _ _ _ _ _) as [e|[m2 tag]] eqn:P; [discriminate|].
  destruct (negb _); [discriminate|].
  destruct (dec_time cf (m_time0 m2) (m_ttl m2) (m_time1 m2)) as [tv ttl'] eqn:T.
  destruct tv; try discriminate. inversion H; subst; clear H.
  destruct (dec_parse_frame hmac sha1 blk_dec zdecomp _ _ _ _ P) as (_ & Hr & _ & _ & Ht1).
  cbn in Hr, Ht1. split; [|exact Hr].
  unfold cred_rkey. cbn.
  pose proof (window_exact cf (m_time0 m2) (m_ttl m2) (m_time1 m2)) as W. cbv zeta in W.
  destruct W as (W & _). rewrite T in W. cbn [fst] in W. destruct (proj1 W eq_refl) as [_ W2].
  assert (ttl' = capped cf (m_ttl m2)) as -> by (pose proof (dec_time_ttl cf (m_time0 m2) (m_ttl m2) (m_time1 m2)) as X; rewrite T in X; exact X).
  rewrite Ht1 in W2. lia.
Qed.

(* C07 at pipeline level: once the record of a credential is in the cache, every later first-attempt presentation
   that authenticates, is authorized and is inside the time window is answered 'replayed' and changes nothing —
   across ANY history of other decodes (any credentials, retry values, clients, outcomes, replies delivered or not)
   and ANY number of purges, as long as
   the clock readings of the purges do not exceed the clock reading of that presentation (non-decreasing clock).
   In particular up to and including the last valid second. *)
Theorem replayed_until_last_valid_second rs0 h m pu pg now m' k :
  In k rs0 ->
  (forall p, In (HPurge p) h -> p <= u32 now) ->
  dec_pre m pu pg now = inr (m', k) -> m_retry m = 0 ->
  let rs := hrun rs0 h in
  dec_process rs m pu pg now = (dec_finish (set_err m' e_cred_replayed None), rs, None).
Proof.
  intros Hin Hp P R0. cbv zeta.
  destruct (dec_pre_accept_time _ _ _ _ _ _ P) as [Ht Hr].
  assert (K : In k (hrun rs0 h)).
  { apply hrun_keeps; [exact Hin|]. intros p Hq. specialize (Hp p Hq). lia. }
  rewrite (dec_process_factor hmac sha1 blk_dec zdecomp), P, (r_mem_In _ _ K), Hr, R0.
  replace (0 <? 0) with false by reflexivity. rewrite andb_false_r. reflexivity.
Qed.

(* records are discarded only after expiry, and are discarded then *)
Theorem purge_discards_exactly_expired now rs k :
  In k (r_purge now rs) <-> In k rs /\ now <= snd k.
Proof. apply r_purge_spec. Qed.

(* C05 at pipeline level: a decode whose cache-independent part fails (invalid, unauthorized, expired, rewound)
   leaves the cache exactly as it was — failed decodes never consume a credential *)
Theorem failed_decode_does_not_consume rs m pu pg now r0 :
  dec_pre m pu pg now = inl r0 -> dec_process rs m pu pg now = (r0, rs, None).
Proof. intros P. rewrite (dec_process_factor hmac sha1 blk_dec zdecomp), P. reflexivity. Qed.

(* ... and the first accepted first-attempt presentation of a key succeeds and records it, whatever other keys
   the cache holds (equal expiry, equal bucket, same MAC with another expiry: any k' <> k) *)
Theorem first_presentation_succeeds rs m pu pg now m' k :
  dec_pre m pu pg now = inr (m', k) -> ~ In k rs ->
  dec_process rs m pu pg now = (m', k :: rs, Some k).
Proof.
  intros P Hn. rewrite (dec_process_factor hmac sha1 blk_dec zdecomp), P.
  destruct (r_mem k rs) eqn:M; [apply r_mem_true_In in M; contradiction|reflexivity].
Qed.

(* C05, first attempts: after a DELIVERED decode of credential X that the cache-independent part accepted (whatever
   its retry value; in particular after a delivered success), every later request for X with retry = 0 that is inside
   the time window is answered 'replayed' and changes nothing - whatever happened before (h1), and whatever came in
   between (h2): decodes of any credentials with any retry values 0..255 and beyond, from any clients, at any clock
   readings, with replies delivered or undeliverable, and purge ticks at clock readings not beyond the final request's
   (a non-decreasing clock).  Hence at most one retry-0 request per credential with a delivered reply ends in success
   while the record can still be present. *)
Theorem first_attempts_at_most_once rs0 h1 h2 mA puA pgA nowA mA' m pu pg now m' k :
  dec_pre mA puA pgA nowA = inr (mA', k) ->
  (forall p, In (HPurge p) h2 -> p <= u32 now) ->
  dec_pre m pu pg now = inr (m', k) -> m_retry m = 0 ->
  let rs := hrun rs0 (h1 ++ HDecode mA puA pgA nowA :: h2) in
  dec_process rs m pu pg now = (dec_finish (set_err m' e_cred_replayed None), rs, None).
Proof.
  intros PA Hp P R0. cbv zeta. rewrite hrun_app. cbn [hrun].
  apply (replayed_until_last_valid_second _ h2 m pu pg now m' k); auto.
  apply delivered_decode_records with (m' := mA'). exact PA.
Qed.

(* two delivered retry-0 requests for one credential in one history never both succeed *)
Corollary two_first_attempts_not_both_ok rs0 h1 h2 mA puA pgA nowA mA' m pu pg now m' k :
  dec_pre mA puA pgA nowA = inr (mA', k) ->
  (forall p, In (HPurge p) h2 -> p <= u32 now) ->
  dec_pre m pu pg now = inr (m', k) -> m_retry m = 0 -> m_err m = e_success ->
  let rs := hrun rs0 (h1 ++ HDecode mA puA pgA nowA :: h2) in
  m_err (fst (fst (dec_process rs m pu pg now))) = e_cred_replayed.
Proof.
  intros PA Hp P R0 E0. cbv zeta. rewrite (first_attempts_at_most_once _ _ _ _ _ _ _ _ _ _ _ _ _ _ PA Hp P R0).
  cbn [fst]. unfold dec_finish.
  assert (Em : m_err m' = e_success).
  { unfold RetryModel.dec_pre in P.
    destruct (m_data_len m =? 0); [discriminate|].
    destruct (c_retry_attempts <? _); [discriminate|].
    destruct (CredModel.dec_parse _ _ _ _ _ _) as [e|[m2 tag]] eqn:Q; [discriminate|].
    destruct (negb _); [discriminate|].
    destruct (dec_time cf (m_time0 m2) (m_ttl m2) (m_time1 m2)) as [tv ttl'].
    destruct tv; try discriminate. inversion P; subst; clear P.
    destruct (dec_parse_frame hmac sha1 blk_dec zdecomp _ _ _ _ Q) as (He & _). cbn in He. cbn. congruence. }
  rewrite (set_err_code _ _ _ Em) by discriminate.
  change (negb (e_cred_replayed =? e_success) && negb (soft_err e_cred_replayed)) with false. cbn iota.
  apply set_err_code; [exact Em|discriminate].
Qed.

End H.

(* ---- the roll-back rule before the repair (3dbe0fd): a retry that was allowed to replay an existing record also
        "owned" it, so its undeliverable reply removed the record of the earlier DELIVERED decode.  Defined here, not
        in the model: the statement above is false for it. ---- *)
Section Old.
Variable hmac : N -> bytes -> bytes -> bytes.
Variable sha1 : bytes -> bytes.
Variable blk_dec : N -> bytes -> bytes -> bytes.
Variable zdecomp : N -> bytes -> N -> option bytes.
Variable cf : conf.
Variable mem : N -> N -> bool.

Definition dec_process_old (rs : rstate) (m : msg) (pu pg now : N) : msg * rstate * option rkey :=
  match dec_pre hmac sha1 blk_dec zdecomp cf mem m pu pg now with
  | inl r => (r, rs, None)
  | inr (m', k) =>
      if r_mem k rs then
        if cf_socket_retry cf && (0 <? m_retry m') && (m_retry m' <=? c_retry_attempts)
        then (m', rs, Some k)                       (* pre-repair: rc = 0 alone decided the roll-back *)
        else (dec_finish (set_err m' e_cred_replayed None), rs, None)
      else (m', k :: rs, Some k)
  end.

Definition hstep_old (rs : rstate) (e : hev) : rstate :=
  match e with
  | HDecode m pu pg now => let '(_, rs', _) := dec_process_old rs m pu pg now in rs'
  | HDecodeLost m pu pg now => let '(_, rs', k) := dec_process_old rs m pu pg now in dec_rollback rs' k
  | HPurge now => r_purge now rs
  end.
Fixpoint hrun_old (rs : rstate) (h : list hev) : rstate :=
  match h with [] => rs | e :: r => hrun_old (hstep_old rs e) r end.
End Old.

(* a concrete 3-event history (toy primitives, computed inside Coq): A = first attempt, delivered, success; B = the same
   credential with retry = 1, reply undeliverable; C = first attempt again, inside the window, no purge at all.  All
   premises of first_attempts_at_most_once hold (h1 = [], h2 = [B]); under the old rule C succeeds a second time, under
   the model's (repaired) rule it is answered 'replayed'. *)
Theorem old_unplay_refuted :
  let pre := dec_pre toy_hmac (fun x => x) toy_blk (fun _ x _ => Some x) cf_std (fun _ _ => false) in
  let old := dec_process_old toy_hmac (fun x => x) toy_blk (fun _ x _ => Some x) cf_std (fun _ _ => false) in
  let new := dec_process toy_hmac (fun x => x) toy_blk (fun _ x _ => Some x) cf_std (fun _ _ => false) in
  let A := HDecode (req toy_cred 0) 7 8 5010 in
  let B := HDecodeLost (req toy_cred 1) 7 8 5011 in
  let C := req toy_cred 0 in
  (exists mA' m' k, pre (req toy_cred 0) 7 8 5010 = inr (mA', k) /\ pre C 7 8 5012 = inr (m', k)) /\
  m_retry C = 0 /\ (forall p, In (HPurge p) [B] -> p <= u32 5012) /\
  (let rs := hrun_old toy_hmac (fun x => x) toy_blk (fun _ x _ => Some x) cf_std (fun _ _ => false) [] [A; B] in
   m_err (fst (fst (old rs C 7 8 5012))) = e_success /\ rs = []) /\
  (let rs := hrun toy_hmac (fun x => x) toy_blk (fun _ x _ => Some x) cf_std (fun _ _ => false) [] [A; B] in
   m_err (fst (fst (new rs C 7 8 5012))) = e_cred_replayed /\ length rs = 1%nat).
Proof.
  cbv zeta. split; [|split; [reflexivity|split]].
  - eexists _, _, _. split; vm_compute; reflexivity.
  - intros p [H|[]]. discriminate H.
  - split; vm_compute; split; reflexivity.
Qed.
