(* Properties_C18_clock.v — statements only.  The clock arithmetic the timers rest on (src/munged/clock.c), with the
   functions TRANSLATED FROM THE C TEXT on every run (gen/GenClockFun.v, tools/facts/clockfun.py): C's truncating `/`
   and `%` are Z.quot and Z.rem, `P == NULL` is false because every call site passes the address of an object (checked
   by the translator), clock_gettime is the pair (gt_rc, clk).  TimerModel's ts_le / ts_add_ms, over which every
   theorem of Properties_C18.v is stated, ARE these functions. *)
From Coq Require Import ZArith Bool.
From MV.gen Require Import GenTimer GenClockFun.
From MV Require Import TimerModel TimerProofs ClockFun.
Local Open Scope Z_scope.

(* clock_is_timespec_le is the model's order on time-stamps, for all values *)
Theorem C18_clock_le_is_the_source : forall a b, src_clock_is_timespec_le a b = b2z (ts_le a b).
Proof. exact clock_le_is_the_source. Qed.
Print Assumptions C18_clock_le_is_the_source.

(* clock_get_timespec (&ts, ms) after a successful clock_gettime reading clk (tv_nsec >= 0) returns 0 and leaves
   the model's ts_add_ms clk ms in the object, for EVERY ms (negative and zero included: the reading itself) *)
Theorem C18_clock_add_is_the_source : forall clk tsp ms, 0 <= snd clk ->
  src_clock_get_timespec 0 clk tsp ms = (0, ts_add_ms clk ms).
Proof. exact clock_add_is_the_source. Qed.
Print Assumptions C18_clock_add_is_the_source.

(* a failing clock_gettime: -1 and the caller's object untouched *)
Theorem C18_clock_get_failure_leaves_object : forall gt_rc clk tsp ms, gt_rc < 0 ->
  src_clock_get_timespec gt_rc clk tsp ms = (-1, tsp).
Proof. exact clock_get_fails. Qed.
Print Assumptions C18_clock_get_failure_leaves_object.

Theorem C18_clock_expired_is_the_source : forall clk tsp, 0 <= snd clk ->
  src_clock_is_timespec_expired 0 clk tsp = b2z (ts_le tsp clk).
Proof. exact clock_expired_is_the_source. Qed.
Print Assumptions C18_clock_expired_is_the_source.

Theorem C18_clock_expired_failure : forall gt_rc clk tsp, gt_rc < 0 -> src_clock_is_timespec_expired gt_rc clk tsp = -1.
Proof. exact clock_expired_fails. Qed.
Print Assumptions C18_clock_expired_failure.

(* what the C functions compute, in nanoseconds since the epoch: the deadline is EXACTLY ms milliseconds after the
   reading and is a valid timespec (0 <= tv_nsec < 10^9: pthread_cond_timedwait fails with EINVAL otherwise, which
   munged treats as fatal), and `expired` is exactly "deadline <= now" *)
Theorem C18_clock_deadline_exact_and_normalised : forall clk tsp ms, 0 <= snd clk < nsec_per_sec -> 0 <= ms ->
  let r := snd (src_clock_get_timespec 0 clk tsp ms) in
  ts_ns r = ts_ns clk + ms * nsec_per_msec /\ 0 <= snd r < nsec_per_sec.
Proof. exact clock_deadline_exact. Qed.
Print Assumptions C18_clock_deadline_exact_and_normalised.

Theorem C18_clock_expired_iff : forall clk tsp, 0 <= snd clk < nsec_per_sec -> 0 <= snd tsp < nsec_per_sec ->
  (src_clock_is_timespec_expired 0 clk tsp = 1 <-> ts_ns tsp <= ts_ns clk).
Proof. exact clock_expired_iff. Qed.
Print Assumptions C18_clock_expired_iff.

(* non-vacuity: a reading whose sum lands exactly on the second boundary *)
Example C18_clock_boundary_example :
  src_clock_get_timespec 0 (7, 999000000) (0, 0) 2001 = (0, (10, 0)).
Proof. vm_compute. reflexivity. Qed.
