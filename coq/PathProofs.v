(* PathProofs.v — proofs about PathModel (C16). *)
From Coq Require Import List NArith Bool Lia Arith.
From MV Require Import Bytes GenPath PathModel.
Import ListNotations.
Local Open Scope N_scope.

(* ---- specification vocabulary: literal bit positions, independent of GenPath ---- *)
Definition gw (d : dstat) : bool := N.testbit (d_mode d) 4.       (* 0020 *)
Definition ow (d : dstat) : bool := N.testbit (d_mode d) 1.       (* 0002 *)
Definition sticky (d : dstat) : bool := N.testbit (d_mode d) 9.   (* 01000 *)
Definition ignore_gw (flags : N) : bool := N.testbit flags 0.     (* PATH_SECURITY_IGNORE_GROUP_WRITE *)
Definition no_trusted : N := 4294967295.                          (* (gid_t) -1 : no --trusted-group *)

Definition owner_ok (euid : N) (d : dstat) : Prop := d_uid d = 0 \/ d_uid d = euid.
Definition gw_ok (tg flags : N) (d : dstat) : Prop :=
  gw d = true -> sticky d = true \/ ignore_gw flags = true \/ (tg <> no_trusted /\ d_gid d = tg).
Definition ow_ok (d : dstat) : Prop := ow d = true -> sticky d = true.
Definition dir_ok (euid tg flags : N) (d : dstat) : Prop :=
  owner_ok euid d /\ gw_ok tg flags d /\ ow_ok d.

(* ---- bit lemmas ---- *)
Lemma has_pow2 m j : has m (2 ^ j) = N.testbit m j.
Proof.
  unfold has. destruct (N.testbit m j) eqn:E.
  - destruct (N.eqb_spec (N.land m (2 ^ j)) 0) as [H|H]; [|reflexivity].
    exfalso.
    assert (X : N.testbit (N.land m (2 ^ j)) j = true).
    { rewrite N.land_spec, E, N.pow2_bits_true. reflexivity. }
    rewrite H, N.bits_0 in X. discriminate.
  - assert (Z : N.land m (2 ^ j) = 0).
    { apply N.bits_inj_0. intros i. rewrite N.land_spec.
      destruct (N.eq_dec i j) as [->|Hne].
      - rewrite E. reflexivity.
      - rewrite N.pow2_bits_false by congruence. apply andb_false_r. }
    rewrite Z. reflexivity.
Qed.

Lemma has_lor m a b : has m (N.lor a b) = has m a || has m b.
Proof.
  unfold has. rewrite N.land_lor_distr_r.
  destruct (N.eqb_spec (N.land m a) 0) as [Ha|Ha], (N.eqb_spec (N.land m b) 0) as [Hb|Hb]; cbn.
  - rewrite Ha, Hb. reflexivity.
  - destruct (N.eqb_spec (N.lor (N.land m a) (N.land m b)) 0) as [H|H]; [|reflexivity].
    apply N.lor_eq_0_iff in H. tauto.
  - destruct (N.eqb_spec (N.lor (N.land m a) (N.land m b)) 0) as [H|H]; [|reflexivity].
    apply N.lor_eq_0_iff in H. tauto.
  - destruct (N.eqb_spec (N.lor (N.land m a) (N.land m b)) 0) as [H|H]; [|reflexivity].
    apply N.lor_eq_0_iff in H. tauto.
Qed.

Lemma has_false m k : has m k = false <-> N.land m k = 0.
Proof. unfold has. destruct (N.eqb_spec (N.land m k) 0); cbn; split; intros; try discriminate; tauto. Qed.

(* group/other read/write = 0066 *)
Lemma rw_mask m : has m grp_rw = false /\ has m oth_rw = false <-> N.land m 54 = 0.
Proof.
  change 54 with (N.lor grp_rw oth_rw).
  rewrite <- has_false, has_lor, orb_false_iff. tauto.
Qed.

Lemma has_iwgrp d : has (d_mode d) s_iwgrp = gw d.
Proof. change s_iwgrp with (2 ^ 4). apply has_pow2. Qed.
Lemma has_iwoth d : has (d_mode d) s_iwoth = ow d.
Proof. change s_iwoth with (2 ^ 1). apply has_pow2. Qed.
Lemma has_isvtx d : has (d_mode d) s_isvtx = sticky d.
Proof. change s_isvtx with (2 ^ 9). apply has_pow2. Qed.
Lemma has_ignore f : has f path_security_ignore_group_write = ignore_gw f.
Proof. change path_security_ignore_group_write with (2 ^ 0). apply has_pow2. Qed.

(* ---- one directory ---- *)
Lemma check_dir_unfold euid tg flags d :
  check_dir euid tg flags d =
  if negb (d_uid d =? 0) && negb (d_uid d =? euid) then Some ROwner
  else if negb (ignore_gw flags) && gw d && negb (sticky d)
          && (negb (d_gid d =? tg) || (tg =? no_trusted)) then Some RGroupW
  else if ow d && negb (sticky d) then Some RWorldW
  else None.
Proof.
  unfold check_dir. rewrite has_ignore, has_iwgrp, has_iwoth, has_isvtx. reflexivity.
Qed.

Lemma check_dir_none euid tg flags d :
  check_dir euid tg flags d = None <-> dir_ok euid tg flags d.
Proof.
  rewrite check_dir_unfold. unfold dir_ok, owner_ok, gw_ok, ow_ok.
  destruct (N.eqb_spec (d_uid d) 0) as [U0|U0], (N.eqb_spec (d_uid d) euid) as [U1|U1];
  destruct (ignore_gw flags), (gw d), (sticky d), (ow d);
  destruct (N.eqb_spec (d_gid d) tg) as [G|G], (N.eqb_spec tg no_trusted) as [T|T]; cbn;
  (split; [intros H; try discriminate H | intros H]);
  try (repeat split; intros; try tauto; try (left; tauto); try (right; left; reflexivity);
       try (right; right; tauto); fail);
  try reflexivity;
  try (exfalso; destruct H as (Ho & Hg & Hw);
       try (destruct Ho; congruence);
       try (specialize (Hw eq_refl); discriminate);
       try (destruct (Hg eq_refl) as [X|[X|[X Y]]]; try discriminate; try congruence); fail).
Qed.

Lemma check_dir_owner euid tg flags d :
  check_dir euid tg flags d = Some ROwner <-> ~ owner_ok euid d.
Proof.
  rewrite check_dir_unfold. unfold owner_ok.
  destruct (N.eqb_spec (d_uid d) 0) as [U0|U0], (N.eqb_spec (d_uid d) euid) as [U1|U1]; cbn.
  - split; [|tauto]. destruct (_ && _); [discriminate|]. destruct (_ && _); discriminate.
  - split; [|tauto]. destruct (_ && _); [discriminate|]. destruct (_ && _); discriminate.
  - split; [|tauto]. destruct (_ && _); [discriminate|]. destruct (_ && _); discriminate.
  - split; [tauto|reflexivity].
Qed.

Lemma check_dir_groupw euid tg flags d :
  check_dir euid tg flags d = Some RGroupW <-> owner_ok euid d /\ ~ gw_ok tg flags d.
Proof.
  rewrite check_dir_unfold. unfold owner_ok, gw_ok.
  destruct (N.eqb_spec (d_uid d) 0) as [U0|U0], (N.eqb_spec (d_uid d) euid) as [U1|U1];
  destruct (ignore_gw flags), (gw d), (sticky d), (ow d);
  destruct (N.eqb_spec (d_gid d) tg) as [G|G], (N.eqb_spec tg no_trusted) as [T|T]; cbn;
  (split; [intros H; try discriminate H | intros H]);
  try reflexivity;
  try (split; [tauto|]; intros X; destruct (X eq_refl) as [Y|[Y|[Y Z]]];
       try discriminate; try congruence; fail);
  try (exfalso; destruct H as [Ho Hg]; try (destruct Ho; congruence);
       apply Hg; intros; try discriminate; try tauto;
       try (left; reflexivity); try (right; left; reflexivity); try (right; right; split; congruence); fail).
Qed.

Lemma check_dir_worldw euid tg flags d :
  check_dir euid tg flags d = Some RWorldW <-> owner_ok euid d /\ gw_ok tg flags d /\ ~ ow_ok d.
Proof.
  destruct (check_dir euid tg flags d) as [[| |]|] eqn:E.
  - apply check_dir_owner in E. split; [discriminate|tauto].
  - apply check_dir_groupw in E. split; [discriminate|tauto].
  - split; [intros _|reflexivity].
    assert (Ho : owner_ok euid d).
    { destruct (check_dir_owner euid tg flags d) as [_ H].
      unfold owner_ok in *. destruct (N.eq_dec (d_uid d) 0); [tauto|].
      destruct (N.eq_dec (d_uid d) euid); [tauto|].
      rewrite H in E by tauto. discriminate. }
    assert (Hn : ~ dir_ok euid tg flags d).
    { intros X. apply check_dir_none in X. congruence. }
    assert (Hg : gw_ok tg flags d).
    { unfold gw_ok. intros Hgw.
      destruct (sticky d) eqn:S; [tauto|].
      destruct (ignore_gw flags) eqn:I; [tauto|].
      destruct (N.eq_dec tg no_trusted) as [T|T], (N.eq_dec (d_gid d) tg) as [G|G]; try tauto;
      exfalso; (assert (X : check_dir euid tg flags d = Some RGroupW);
                [apply check_dir_groupw; split; [exact Ho|]; unfold gw_ok; rewrite S, I;
                 intros Y; destruct (Y Hgw) as [Z|[Z|[Z1 Z2]]]; try discriminate; congruence
                |congruence]). }
    unfold dir_ok in Hn. tauto.
  - apply check_dir_none in E. unfold dir_ok in E. split; [discriminate|tauto].
Qed.

(* ---- the loop, for chains of any length ---- *)
Lemma walk_secure euid tg flags chain : forall i,
  walk euid tg flags i chain = Secure <-> Forall (dir_ok euid tg flags) chain.
Proof.
  induction chain as [|d rest IH]; intros i; cbn [walk].
  - split; [constructor|reflexivity].
  - destruct (check_dir euid tg flags d) as [r|] eqn:E.
    + split; [discriminate|]. intros H. inversion H as [|? ? Hd Hr]; subst.
      apply check_dir_none in Hd. congruence.
    + rewrite IH. split.
      * intros H. constructor; [apply check_dir_none; exact E|exact H].
      * intros H. inversion H; assumption.
Qed.

(* Insecure k r: k is the first directory (counted from the leaf) failing a test, r the first test it fails *)
Definition first_offender (euid tg flags : N) (chain : list dstat) (k : nat) (r : reason) : Prop :=
  exists d, nth_error chain k = Some d /\ check_dir euid tg flags d = Some r /\
            forall j d', (j < k)%nat -> nth_error chain j = Some d' -> dir_ok euid tg flags d'.

Lemma walk_insecure euid tg flags chain : forall i k r,
  walk euid tg flags i chain = Insecure k r <->
  exists j, k = (i + j)%nat /\ first_offender euid tg flags chain j r.
Proof.
  induction chain as [|d rest IH]; intros i k r; cbn [walk].
  - split; [discriminate|]. intros (j & _ & d & Hn & _). destruct j; discriminate.
  - destruct (check_dir euid tg flags d) as [r'|] eqn:E.
    + split.
      * intros H. inversion H; subst. exists 0%nat. split; [lia|].
        exists d. split; [reflexivity|]. split; [exact E|]. intros j d' Hj. lia.
      * intros (j & -> & d0 & Hn & Hc & Hb). destruct j as [|j].
        -- cbn in Hn. inversion Hn; subst. rewrite E in Hc. inversion Hc. f_equal. lia.
        -- exfalso. specialize (Hb 0%nat d ltac:(lia) eq_refl).
           apply check_dir_none in Hb. congruence.
    + rewrite IH. split.
      * intros (j & -> & d0 & Hn & Hc & Hb). exists (S j). split; [lia|].
        exists d0. split; [exact Hn|]. split; [exact Hc|].
        intros j' d' Hj Hn'. destruct j' as [|j'].
        -- cbn in Hn'. inversion Hn'; subst. apply check_dir_none. exact E.
        -- cbn in Hn'. apply (Hb j' d'); [lia|exact Hn'].
      * intros (j & -> & d0 & Hn & Hc & Hb). destruct j as [|j].
        -- cbn in Hn. inversion Hn; subst. congruence.
        -- exists j. split; [lia|]. exists d0. split; [exact Hn|]. split; [exact Hc|].
           intros j' d' Hj Hn'. apply (Hb (S j') d'); [lia|exact Hn'].
Qed.

Theorem path_secure_spec euid tg flags chain :
  path_is_secure euid tg flags chain = Secure <-> Forall (dir_ok euid tg flags) chain.
Proof. apply walk_secure. Qed.

Theorem path_insecure_spec euid tg flags chain k r :
  path_is_secure euid tg flags chain = Insecure k r <-> first_offender euid tg flags chain k r.
Proof.
  unfold path_is_secure. rewrite walk_insecure. split.
  - intros (j & -> & H). exact H.
  - intros H. exists k. split; [reflexivity|exact H].
Qed.

Theorem reason_spec euid tg flags d :
  (check_dir euid tg flags d = Some ROwner <-> ~ owner_ok euid d) /\
  (check_dir euid tg flags d = Some RGroupW <-> owner_ok euid d /\ ~ gw_ok tg flags d) /\
  (check_dir euid tg flags d = Some RWorldW <-> owner_ok euid d /\ gw_ok tg flags d /\ ~ ow_ok d).
Proof.
  split; [apply check_dir_owner|split; [apply check_dir_groupw|apply check_dir_worldw]].
Qed.

(* with the ignore flag (log directories) group-write is never an objection *)
Lemma dir_ok_ignore euid tg flags d : ignore_gw flags = true ->
  (dir_ok euid tg flags d <-> owner_ok euid d /\ ow_ok d).
Proof. intros I. unfold dir_ok, gw_ok. rewrite I. tauto. Qed.

(* without flag and without trusted group: group-writable needs the sticky bit *)
Lemma dir_ok_plain euid d :
  dir_ok euid no_trusted 0 d <-> owner_ok euid d /\ (gw d = true -> sticky d = true) /\ ow_ok d.
Proof.
  unfold dir_ok, gw_ok, ignore_gw. cbn [N.testbit]. split.
  - intros (A & B & C). repeat split; try assumption. intros G.
    destruct (B G) as [X|[X|[X _]]]; [exact X|discriminate|congruence].
  - intros (A & B & C). repeat split; try assumption. intros G. left. apply B. exact G.
Qed.

(* a secure chain stays secure when only a suffix is inspected, an insecure ancestor is found at any depth *)
Lemma insecure_ancestor euid tg flags pre d post :
  ~ dir_ok euid tg flags d -> path_is_secure euid tg flags (pre ++ d :: post) <> Secure.
Proof.
  intros Hd H. apply path_secure_spec in H. apply Forall_app in H. destruct H as [_ H].
  inversion H; tauto.
Qed.

(* ---- accessibility ---- *)
Lemma walk_x_none chain : forall i,
  walk_x i chain = None <-> Forall (fun d => N.land (d_mode d) 73 = 73) chain.
Proof.
  induction chain as [|d rest IH]; intros i; cbn [walk_x].
  - split; [constructor|reflexivity].
  - change x_all with 73. destruct (N.eqb_spec (N.land (d_mode d) 73) 73) as [E|E].
    + rewrite IH. split; [intros H; constructor; assumption|intros H; inversion H; assumption].
    + split; [discriminate|intros H; inversion H; tauto].
Qed.

(* ---- key file ---- *)
Definition key_ok (euid : N) (o : fobs) : Prop :=
  exists s, o_stat o = Some s /\ f_type s = TReg /\ o_symlink o = false /\ f_uid s = euid /\
            N.land (f_mode s) 54 = 0.

Lemma is_reg_true s : is_reg s = true <-> f_type s = TReg.
Proof. unfold is_reg. destruct (f_type s); split; congruence. Qed.

Lemma key_flags_plain : ignore_gw key_flags = false /\ ignore_gw seed_flags = false /\
  ignore_gw sock_flags = false /\ ignore_gw pid_flags = false /\ ignore_gw log_flags = true.
Proof. vm_compute. repeat split. Qed.

Lemma dir_ok_flags euid tg f1 f2 d : ignore_gw f1 = ignore_gw f2 ->
  (dir_ok euid tg f1 d <-> dir_ok euid tg f2 d).
Proof. intros E. unfold dir_ok, gw_ok. rewrite E. tauto. Qed.

Lemma forall_dir_ok_flags euid tg f1 f2 chain : ignore_gw f1 = ignore_gw f2 ->
  (Forall (dir_ok euid tg f1) chain <-> Forall (dir_ok euid tg f2) chain).
Proof.
  intros E. rewrite !Forall_forall. split; intros H d Hd; specialize (H d Hd);
  [rewrite <- (dir_ok_flags euid tg f1 f2 d E)|rewrite (dir_ok_flags euid tg f1 f2 d E)]; exact H.
Qed.

Lemma dir_why_none v : dir_why v = None <-> v = Secure.
Proof. destruct v; cbn; split; congruence. Qed.

Theorem keyfile_spec euid tg o chain :
  keyfile_check false euid tg o chain = None <->
  key_ok euid o /\ Forall (dir_ok euid tg 0) chain.
Proof.
  unfold keyfile_check, key_ok. destruct (o_stat o) as [s|].
  2:{ split; [discriminate|]. intros [(s & H & _) _]. discriminate. }
  destruct (is_reg s) eqn:R; cbn [negb].
  2:{ split; [discriminate|]. intros [(s' & H & T & _) _]. inversion H; subst.
      apply is_reg_true in T. congruence. }
  apply is_reg_true in R.
  destruct (o_symlink o) eqn:L.
  { split; [discriminate|]. intros [(s' & _ & _ & X & _) _]. discriminate. }
  destruct (N.eqb_spec (f_uid s) euid) as [U|U]; cbn [negb].
  2:{ split; [discriminate|]. intros [(s' & H & _ & _ & X & _) _]. inversion H; subst. tauto. }
  destruct (has (f_mode s) grp_rw) eqn:G.
  { split; [discriminate|]. intros [(s' & H & _ & _ & _ & X) _]. inversion H; subst.
    apply rw_mask in X. destruct X; congruence. }
  destruct (has (f_mode s) oth_rw) eqn:O.
  { split; [discriminate|]. intros [(s' & H & _ & _ & _ & X) _]. inversion H; subst.
    apply rw_mask in X. destruct X; congruence. }
  rewrite dir_why_none, path_secure_spec.
  rewrite (forall_dir_ok_flags euid tg key_flags 0 chain) by (vm_compute; reflexivity).
  split.
  - intros H. split; [|exact H]. exists s. repeat split; try assumption. apply rw_mask. tauto.
  - tauto.
Qed.

(* with --force only a missing or non-regular key stops the daemon *)
Lemma keyfile_force euid tg o chain :
  keyfile_check true euid tg o chain = None <-> exists s, o_stat o = Some s /\ f_type s = TReg.
Proof.
  unfold keyfile_check. destruct (o_stat o) as [s|].
  - destruct (is_reg s) eqn:R; cbn [negb].
    + apply is_reg_true in R. split; [intros _; exists s; tauto|reflexivity].
    + split; [discriminate|]. intros (s' & H & T). inversion H; subst. apply is_reg_true in T. congruence.
  - split; [discriminate|]. intros (s & H & _). discriminate.
Qed.

(* ---- seed file ---- *)
Lemma seed_valid_spec euid s :
  seed_valid euid s = true <-> f_type s = TReg /\ f_uid s = euid /\ N.land (f_mode s) 54 = 0.
Proof.
  unfold seed_valid. rewrite !andb_true_iff, !negb_true_iff, is_reg_true, N.eqb_eq, <- rw_mask. tauto.
Qed.

Definition seed_acceptable (euid : N) (o : fobs) : Prop :=
  o_symlink o = false /\ exists s, o_stat o = Some s /\ f_type s = TReg /\ f_uid s = euid /\
                                   N.land (f_mode s) 54 = 0.
Definition seed_present (o : fobs) : Prop := o_symlink o = true \/ o_stat o <> None.
Definition seed_is_dir (o : fobs) : Prop :=
  o_symlink o = false /\ exists s, o_stat o = Some s /\ f_type s = TDir.

Lemma is_dir_true s : is_dir s = true <-> f_type s = TDir.
Proof. unfold is_dir. destruct (f_type s); split; congruence. Qed.

Lemma seed_read_used euid o : snd (seed_read euid o) = true <-> seed_acceptable euid o.
Proof.
  unfold seed_read, seed_acceptable. destruct (o_symlink o).
  - cbn. split; [discriminate|]. intros [X _]. discriminate.
  - destruct (o_stat o) as [s|].
    + destruct (seed_valid euid s) eqn:V; cbn.
      * apply seed_valid_spec in V. split; [intros _|reflexivity]. split; [reflexivity|]. exists s. tauto.
      * split; [discriminate|]. intros (_ & s' & H & T). inversion H; subst.
        apply seed_valid_spec in T. congruence.
    + cbn. split; [discriminate|]. intros (_ & s' & H & _). discriminate.
Qed.

Lemma seed_read_bad euid o :
  fst (seed_read euid o) = true <-> seed_present o /\ ~ seed_acceptable euid o.
Proof.
  unfold seed_read, seed_present, seed_acceptable. destruct (o_symlink o).
  - cbn. split; [intros _|reflexivity]. split; [left; reflexivity|]. intros [X _]. discriminate.
  - destruct (o_stat o) as [s|].
    + destruct (seed_valid euid s) eqn:V; cbn.
      * apply seed_valid_spec in V. split; [discriminate|]. intros [_ X]. exfalso. apply X.
        split; [reflexivity|]. exists s. tauto.
      * split; [intros _|reflexivity]. split; [right; discriminate|].
        intros (_ & s' & H & T). inversion H; subst. apply seed_valid_spec in T. congruence.
    + cbn. split; [discriminate|]. intros [[X|X] _]; [discriminate|congruence].
Qed.

Definition seed_unlinkable (o : fobs) : bool :=
  o_symlink o || match o_stat o with Some s => negb (is_dir s) | None => false end.

Lemma seed_step_refused force euid tg o chain :
  sr_refuse (seed_step force euid tg o chain) <> None ->
  force = false /\ path_is_secure euid tg seed_flags chain <> Secure /\
  sr_hang (seed_step force euid tg o chain) = false /\
  sr_used (seed_step force euid tg o chain) = false /\
  sr_removed (seed_step force euid tg o chain) = false.
Proof.
  unfold seed_step. destruct (path_is_secure euid tg seed_flags chain) as [|i r], force;
  destruct (seed_blocks o); destruct (seed_read euid o) as [bad used]; cbn; intros H; try congruence;
  repeat split; congruence.
Qed.

Lemma seed_step_hang force euid tg o chain :
  sr_hang (seed_step force euid tg o chain) = true <->
  sr_refuse (seed_step force euid tg o chain) = None /\ seed_blocks o = true.
Proof.
  unfold seed_step. destruct (path_is_secure euid tg seed_flags chain) as [|i r], force;
  destruct (seed_blocks o); destruct (seed_read euid o) as [bad used]; cbn; split; intros H;
  try discriminate; try tauto; try (destruct H; discriminate).
Qed.

Lemma seed_step_run force euid tg o chain :
  sr_refuse (seed_step force euid tg o chain) = None ->
  sr_hang (seed_step force euid tg o chain) = false ->
  (force = true \/ path_is_secure euid tg seed_flags chain = Secure) /\
  sr_used (seed_step force euid tg o chain) = snd (seed_read euid o) /\
  sr_removed (seed_step force euid tg o chain) = fst (seed_read euid o) && seed_unlinkable o.
Proof.
  unfold seed_step, seed_unlinkable. destruct (path_is_secure euid tg seed_flags chain) as [|i r], force;
  destruct (seed_blocks o); destruct (seed_read euid o) as [bad used]; cbn; intros H H';
  try discriminate; repeat split; tauto.
Qed.

Lemma seed_unlinkable_spec o : seed_present o -> ~ seed_is_dir o -> seed_unlinkable o = true.
Proof.
  unfold seed_present, seed_is_dir, seed_unlinkable. intros P ND.
  destruct (o_symlink o); [reflexivity|]. cbn.
  destruct (o_stat o) as [s|].
  - destruct (is_dir s) eqn:D; [|reflexivity]. apply is_dir_true in D.
    exfalso. apply ND. split; [reflexivity|]. exists s. tauto.
  - destruct P as [X|X]; [discriminate|congruence].
Qed.

Definition seed_is_fifo (o : fobs) : Prop :=
  o_symlink o = false /\ exists s, o_stat o = Some s /\ f_type s = TFifo.

Lemma seed_blocks_spec o :
  seed_blocks o = true <-> seed_is_fifo o /\ seed_open_nonblock = false.
Proof.
  unfold seed_blocks, seed_is_fifo, is_fifo. generalize seed_open_nonblock. intros nb.
  destruct (o_symlink o); cbn.
  - split; [discriminate|]. intros [[X _] _]. discriminate.
  - destruct (o_stat o) as [s|].
    + destruct (f_type s) eqn:T; destruct nb; cbn; split; intros H; try discriminate;
      try (match type of H with _ /\ _ => destruct H as [[? (s' & E & T')] N]; inversion E; subst; congruence end).
      split; [split; [reflexivity|exists s; tauto]|reflexivity].
    + split; [discriminate|]. intros [[_ (s & E & _)] _]. discriminate.
Qed.

(* used only when acceptable; a present seed that is not acceptable is never used and is unlinked
   (unlink(2) cannot remove a directory: the one case where it stays, unused); the start blocks exactly
   when the seed is a FIFO and the source opens it without O_NONBLOCK *)
Theorem seed_spec force euid tg o chain :
  let r := seed_step force euid tg o chain in
  (sr_used r = true -> seed_acceptable euid o) /\
  (sr_refuse r = None -> sr_hang r = false -> seed_present o -> ~ seed_acceptable euid o ->
     sr_used r = false /\ (~ seed_is_dir o -> sr_removed r = true)) /\
  (sr_refuse r = None -> seed_acceptable euid o ->
     sr_hang r = false /\ sr_used r = true /\ sr_removed r = false) /\
  (force = false -> (sr_refuse r = None <-> Forall (dir_ok euid tg 0) chain)) /\
  (sr_refuse r <> None -> sr_hang r = false /\ sr_used r = false /\ sr_removed r = false) /\
  (sr_hang r = true <-> sr_refuse r = None /\ seed_is_fifo o /\ seed_open_nonblock = false) /\
  (sr_hang r = true -> sr_used r = false /\ sr_removed r = false).
Proof.
  cbv zeta.
  assert (F : Forall (dir_ok euid tg 0) chain <-> path_is_secure euid tg seed_flags chain = Secure).
  { rewrite path_secure_spec. apply forall_dir_ok_flags. vm_compute. reflexivity. }
  assert (HU : sr_hang (seed_step force euid tg o chain) = true ->
               sr_used (seed_step force euid tg o chain) = false /\
               sr_removed (seed_step force euid tg o chain) = false).
  { unfold seed_step. destruct (path_is_secure euid tg seed_flags chain) as [|i r], force;
    destruct (seed_blocks o); destruct (seed_read euid o) as [bad used]; cbn; intros H;
    try discriminate; tauto. }
  split; [|split; [|split; [|split; [|split; [|split]]]]].
  - intros U. destruct (sr_refuse (seed_step force euid tg o chain)) eqn:R.
    + assert (X : sr_refuse (seed_step force euid tg o chain) <> None) by congruence.
      apply seed_step_refused in X. destruct X as (_ & _ & _ & X & _). congruence.
    + destruct (sr_hang (seed_step force euid tg o chain)) eqn:Hg.
      * destruct (HU eq_refl) as [X _]. congruence.
      * apply seed_step_run in R; [|exact Hg]. destruct R as (_ & R & _). rewrite R in U.
        apply seed_read_used. exact U.
  - intros R Hg P NA. apply seed_step_run in R; [|exact Hg]. destruct R as (_ & R1 & R2). split.
    + rewrite R1. destruct (snd (seed_read euid o)) eqn:E; [|reflexivity].
      apply seed_read_used in E. tauto.
    + intros ND. rewrite R2, (seed_unlinkable_spec o P ND), andb_true_r.
      apply seed_read_bad. tauto.
  - intros R A.
    assert (Hg : sr_hang (seed_step force euid tg o chain) = false).
    { destruct (sr_hang (seed_step force euid tg o chain)) eqn:Hg; [|reflexivity].
      apply seed_step_hang in Hg. destruct Hg as [_ B]. apply seed_blocks_spec in B.
      destruct B as [[_ (s & E & T)] _]. destruct A as (_ & s' & E' & T' & _). congruence. }
    split; [exact Hg|].
    apply seed_step_run in R; [|exact Hg]. destruct R as (_ & R1 & R2). split.
    + rewrite R1. apply seed_read_used. exact A.
    + rewrite R2. destruct (fst (seed_read euid o)) eqn:E; [|reflexivity].
      apply seed_read_bad in E. tauto.
  - intros NF. subst force. rewrite F. unfold seed_step.
    destruct (path_is_secure euid tg seed_flags chain) as [|i r]; destruct (seed_blocks o);
    destruct (seed_read euid o) as [bad used]; cbn; split; congruence.
  - intros R. apply seed_step_refused in R. tauto.
  - rewrite seed_step_hang, seed_blocks_spec. tauto.
  - exact HU.
Qed.

(* ---- log file ---- *)
Definition log_ok (euid : N) (o : fobs) : Prop :=
  o_symlink o = false /\
  (o_stat o = None \/
   exists s, o_stat o = Some s /\ f_type s = TReg /\ f_uid s = euid /\
             N.testbit (f_mode s) 4 = false /\ N.testbit (f_mode s) 1 = false).

Theorem logfile_spec euid tg o chain :
  logfile_check false euid tg o chain = None <->
  log_ok euid o /\ Forall (fun d => owner_ok euid d /\ ow_ok d) chain.
Proof.
  assert (F : Forall (fun d => owner_ok euid d /\ ow_ok d) chain <->
              path_is_secure euid tg log_flags chain = Secure).
  { rewrite path_secure_spec, !Forall_forall. split; intros H d Hd; specialize (H d Hd).
    - apply dir_ok_ignore; [vm_compute; reflexivity|exact H].
    - apply dir_ok_ignore in H; [exact H|vm_compute; reflexivity]. }
  unfold logfile_check, log_ok. destruct (o_symlink o) eqn:L; cbn [andb negb].
  { split; [discriminate|]. intros [[X _] _]. discriminate. }
  destruct (o_stat o) as [s|] eqn:S.
  2:{ rewrite dir_why_none, <- F. split; [intros H; repeat split; tauto|tauto]. }
  destruct (is_reg s) eqn:R; cbn [negb].
  2:{ split; [discriminate|]. intros [[_ [X|(s' & H & T & _)]] _]; [discriminate|].
      inversion H; subst. apply is_reg_true in T. congruence. }
  apply is_reg_true in R.
  destruct (N.eqb_spec (f_uid s) euid) as [U|U]; cbn [negb].
  2:{ split; [discriminate|]. intros [[_ [X|(s' & H & _ & X & _)]] _]; [discriminate|].
      inversion H; subst. tauto. }
  change s_iwgrp with (2 ^ 4). change s_iwoth with (2 ^ 1). rewrite !has_pow2.
  destruct (N.testbit (f_mode s) 4) eqn:G.
  { split; [discriminate|]. intros [[_ [X|(s' & H & _ & _ & X & _)]] _]; [discriminate|].
    inversion H; subst. congruence. }
  destruct (N.testbit (f_mode s) 1) eqn:O.
  { split; [discriminate|]. intros [[_ [X|(s' & H & _ & _ & _ & X)]] _]; [discriminate|].
    inversion H; subst. congruence. }
  rewrite dir_why_none, <- F. split.
  - intros H. split; [|exact H]. split; [reflexivity|]. right. exists s. tauto.
  - tauto.
Qed.

(* ---- created files ---- *)
Lemma created_mode_bits req mask i :
  N.testbit (created_mode req mask) i = N.testbit req i && negb (N.testbit mask i).
Proof. unfold created_mode. apply N.ldiff_spec. Qed.

Lemma within_spec m bound :
  within m bound = true <-> forall i, N.testbit m i = true -> N.testbit bound i = true.
Proof.
  unfold within. rewrite N.eqb_eq. split.
  - intros H i Hi. assert (X : N.testbit (N.ldiff m bound) i = false) by (rewrite H; apply N.bits_0).
    rewrite N.ldiff_spec, Hi in X. destruct (N.testbit bound i); [reflexivity|discriminate].
  - intros H. apply N.bits_inj_0. intros i. rewrite N.ldiff_spec.
    destruct (N.testbit m i) eqn:E; [|reflexivity]. rewrite (H i E). reflexivity.
Qed.

(* never more than requested, whatever the umask *)
Lemma created_within_requested req mask : within (created_mode req mask) req = true.
Proof.
  apply within_spec. intros i. rewrite created_mode_bits. destruct (N.testbit req i); cbn; congruence.
Qed.

Definition modes_ok (fg : bool) (u : N) : bool :=
  (created (sock_recipe fg) u =? 511) && (created (lock_recipe fg) u =? 128)
  && within (created (pid_recipe fg) u) 420 && within (created log_recipe u) 416
  && within (created (seed_recipe fg) u) 384.

Lemma modes_sweep : allb 512 (fun u => modes_ok true u && modes_ok false u) = true.
Proof. vm_compute. reflexivity. Qed.

Theorem modes_for_all_umasks (fg : bool) (u : N) : u < 512 ->
  created (sock_recipe fg) u = 511 /\ created (lock_recipe fg) u = 128 /\
  within (created (pid_recipe fg) u) 420 = true /\ within (created log_recipe u) 416 = true /\
  within (created (seed_recipe fg) u) 384 = true.
Proof.
  intros H. pose proof (allb_spec 512 _ modes_sweep u H) as X. cbv beta in X.
  apply andb_true_iff in X. destruct X as [Xt Xf].
  assert (Y : modes_ok fg u = true) by (destruct fg; assumption).
  unfold modes_ok in Y. rewrite !andb_true_iff, !N.eqb_eq in Y. tauto.
Qed.

(* ---- the whole start-up ---- *)
Lemma first_some_none {A} (l : list (option A)) : first_some l = None <-> Forall (fun x => x = None) l.
Proof.
  induction l as [|[a|] r IH]; cbn.
  - split; [constructor|reflexivity].
  - split; [discriminate|]. intros H. inversion H; discriminate.
  - rewrite IH. split; [intros H; constructor; [reflexivity|exact H]|intros H; inversion H; assumption].
Qed.

Lemma tag_none s w : tag s w = None <-> w = None.
Proof. destruct w; cbn; split; congruence. Qed.

Theorem startup_refuses (c : config) : c_force c = false -> startup c = None ->
  key_ok (c_euid c) (c_key c) /\
  Forall (dir_ok (c_euid c) (c_tg c) 0) (c_keydir c) /\
  Forall (dir_ok (c_euid c) (c_tg c) 0) (c_seeddir c) /\
  Forall (dir_ok (c_euid c) (c_tg c) 0) (c_sockdir c) /\
  Forall (dir_ok (c_euid c) (c_tg c) 0) (c_piddir c) /\
  (c_fg c = false -> log_ok (c_euid c) (c_log c) /\
                     Forall (fun d => owner_ok (c_euid c) d /\ ow_ok d) (c_logdir c)) /\
  m_lock (created_modes c) = 128.
Proof.
  intros NF H. unfold startup in H. apply first_some_none in H.
  repeat match goal with H : Forall _ (_ :: _) |- _ => inversion H; clear H; subst end.
  rewrite NF in *.
  repeat match goal with H : tag _ _ = None |- _ => apply tag_none in H end.
  match goal with H : keyfile_check _ _ _ _ _ = None |- _ => apply keyfile_spec in H; destruct H as [K1 K2] end.
  split; [exact K1|]. split; [exact K2|].
  split.
  { match goal with H : sr_refuse _ = None |- _ =>
      unfold seed_of in H; rewrite NF in H;
      apply (proj1 (proj2 (proj2 (proj2 (seed_spec false _ _ _ _)))) eq_refl) in H; exact H end. }
  split.
  { match goal with H : sock_check _ _ _ _ = None |- _ => unfold sock_check in H;
      destruct (dir_why (path_is_secure (c_euid c) (c_tg c) sock_flags (c_sockdir c))) eqn:E; [discriminate|];
      apply dir_why_none, path_secure_spec in E;
      apply (forall_dir_ok_flags _ _ sock_flags 0); [vm_compute; reflexivity|exact E] end. }
  split.
  { match goal with H : pid_check _ _ _ _ = None |- _ => unfold pid_check in H;
      apply dir_why_none, path_secure_spec in H;
      apply (forall_dir_ok_flags _ _ pid_flags 0); [vm_compute; reflexivity|exact H] end. }
  split.
  { intros FG. match goal with H : (if c_fg c then None else _) = None |- _ =>
      rewrite FG in H; apply tag_none in H; apply logfile_spec in H; exact H end. }
  match goal with H : lock_check _ _ _ _ _ = None |- _ => unfold lock_check in H end.
  unfold created_modes, m_lock, lock_mode. rewrite NF.
  match goal with H : match ?e with _ => _ end = None |- _ => destruct e as [s|] end.
  - match goal with H : (if ?b then _ else _) = None |- _ => destruct b eqn:B; [|discriminate] end.
    rewrite !andb_true_iff, !N.eqb_eq in B. destruct B as [[_ M] _]. exact M.
  - match goal with H : (if ?b then _ else _) = None |- _ => destruct b eqn:B; [|discriminate] end.
    apply N.eqb_eq in B. exact B.
Qed.

(* a successful start (forced or not) leaves files with these modes *)
Theorem started_modes (c : config) : c_umask c < 512 -> startup c = None ->
  let m := created_modes c in
  m_sock m = 511 /\ m_lock m = 128 /\ within (m_pid m) 420 = true /\ within (m_seed m) 384 = true /\
  (c_fg c = false -> o_stat (c_log c) = None -> exists x, m_log m = Some x /\ within x 416 = true).
Proof.
  intros U H. cbv zeta. unfold created_modes; cbn [m_sock m_lock m_pid m_seed m_log].
  pose proof (modes_for_all_umasks (c_fg c) (c_umask c) U) as (M1 & M2 & M3 & M4 & M5).
  repeat split; try assumption.
  - unfold startup in H. apply first_some_none in H.
    repeat match goal with H : Forall _ (_ :: _) |- _ => inversion H; clear H; subst end.
    match goal with H : tag SLock _ = None |- _ => apply tag_none in H; unfold lock_check in H end.
    unfold lock_mode.
    match goal with H : match ?e with _ => _ end = None |- _ => destruct e as [s|] end.
    + match goal with H : (if ?b then _ else _) = None |- _ => destruct b eqn:B; [|discriminate] end.
      rewrite !andb_true_iff, !N.eqb_eq in B. destruct B as [[_ M] _]. exact M.
    + exact M2.
  - intros FG NL. rewrite FG, NL. eexists. split; [reflexivity|exact M4].
Qed.

(* observation: an existing log file keeps its mode; group/other read bits are not examined *)
Definition clean_dir : dstat := mkd 0 0 493.
Definition log_0644_config : config :=
  mkc false false 0 no_trusted 18
      (mko false (Some (mkf TReg 0 0 384))) [clean_dir]
      (mko false None) [clean_dir]
      (mko false (Some (mkf TReg 0 0 420))) [clean_dir]
      [clean_dir] None [clean_dir].

Lemma existing_log_keeps_mode :
  startup log_0644_config = None /\ m_log (created_modes log_0644_config) = Some 420 /\
  within 420 416 = false.
Proof. vm_compute. repeat split. Qed.

(* observation: a FIFO in the seed's place (in a secure seed directory) blocks the start for ever while the
   source opens the seed without O_NONBLOCK; with O_NONBLOCK it is vetted like any other non-regular file *)
Definition fifo_seed_config : config :=
  mkc true false 0 no_trusted 18
      (mko false (Some (mkf TReg 0 0 384))) [clean_dir]
      (mko false (Some (mkf TFifo 0 0 384))) [clean_dir]
      (mko false None) [clean_dir]
      [clean_dir] None [clean_dir].

Lemma seed_fifo_outcome :
  startup fifo_seed_config = (if seed_open_nonblock then None else Some (SSeed, WHang)) /\
  (seed_open_nonblock = true -> sr_used (seed_of fifo_seed_config) = false /\
                                sr_removed (seed_of fifo_seed_config) = true).
Proof. vm_compute. split; [reflexivity|]. intros H; try discriminate H; split; reflexivity. Qed.
