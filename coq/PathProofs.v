(* PathProofs.v — proofs about PathModel (C16). *)
From Coq Require Import List NArith Bool Lia Arith.
From MV Require Import Bytes GenPath PathModel.
Import ListNotations.
Local Open Scope N_scope.

(* ---- specification vocabulary: literal bit positions, independent of GenPath ---- *)
Definition gw (d : dstat) : bool := N.testbit (d_mode d) 4.       (* 0020 *)
Definition ow (d : dstat) : bool := N.testbit (d_mode d) 1.       (* 0002 *)
Definition sticky (d : dstat) : bool := N.testbit (d_mode d) 9.   (* 01000 *)
Definition ignore_gw (flags : N) : bool := N.testbit flags 0.     (* PATH_SECURITY_IGNORE_GROUP_WRITE *)
Definition no_trusted : N := 4294967295.                          (* (gid_t) -1 : no --trusted-group *)

Definition owner_ok (euid : N) (d : dstat) : Prop := d_uid d = 0 \/ d_uid d = euid.
Definition gw_ok (tg flags : N) (d : dstat) : Prop :=
  gw d = true -> sticky d = true \/ ignore_gw flags = true \/ (tg <> no_trusted /\ d_gid d = tg).
Definition ow_ok (d : dstat) : Prop := ow d = true -> sticky d = true.
Definition dir_ok (euid tg flags : N) (d : dstat) : Prop :=
  owner_ok euid d /\ gw_ok tg flags d /\ ow_ok d.

(* ---- bit lemmas ---- *)
Lemma has_pow2 m j : has m (2 ^ j) = N.testbit m j.
Proof.
  unfold has. destruct (N.testbit m j) eqn:E.
  - destruct (N.eqb_spec (N.land m (2 ^ j)) 0) as [H|H]; [|reflexivity].
    exfalso.
    assert (X : N.testbit (N.land m (2 ^ j)) j = true).
    { rewrite N.land_spec, E, N.pow2_bits_true. reflexivity. }
    rewrite H, N.bits_0 in X. discriminate.
  - assert (Z : N.land m (2 ^ j) = 0).
    { apply N.bits_inj_0. intros i. rewrite N.land_spec.
      destruct (N.eq_dec i j) as [->|Hne].
      - rewrite E. reflexivity.
      - rewrite N.pow2_bits_false by congruence. apply andb_false_r. }
    rewrite Z. reflexivity.
Qed.

Lemma has_lor m a b : has m (N.lor a b) = has m a || has m b.
Proof.
  unfold has. rewrite N.land_lor_distr_r.
  destruct (N.eqb_spec (N.land m a) 0) as [Ha|Ha], (N.eqb_spec (N.land m b) 0) as [Hb|Hb]; cbn.
  - rewrite Ha, Hb. reflexivity.
  - destruct (N.eqb_spec (N.lor (N.land m a) (N.land m b)) 0) as [H|H]; [|reflexivity].
    apply N.lor_eq_0_iff in H. tauto.
  - destruct (N.eqb_spec (N.lor (N.land m a) (N.land m b)) 0) as [H|H]; [|reflexivity].
    apply N.lor_eq_0_iff in H. tauto.
  - destruct (N.eqb_spec (N.lor (N.land m a) (N.land m b)) 0) as [H|H]; [|reflexivity].
    apply N.lor_eq_0_iff in H. tauto.
Qed.

Lemma has_false m k : has m k = false <-> N.land m k = 0.
Proof. unfold has. destruct (N.eqb_spec (N.land m k) 0); cbn; split; intros; try discriminate; tauto. Qed.

(* group/other read/write = 0066 *)
Lemma rw_mask m : has m grp_rw = false /\ has m oth_rw = false <-> N.land m 54 = 0.
Proof.
  change 54 with (N.lor grp_rw oth_rw).
  rewrite <- has_false, has_lor, orb_false_iff. tauto.
Qed.

Lemma has_iwgrp d : has (d_mode d) s_iwgrp = gw d.
Proof. change s_iwgrp with (2 ^ 4). apply has_pow2. Qed.
Lemma has_iwoth d : has (d_mode d) s_iwoth = ow d.
Proof. change s_iwoth with (2 ^ 1). apply has_pow2. Qed.
Lemma has_isvtx d : has (d_mode d) s_isvtx = sticky d.
Proof. change s_isvtx with (2 ^ 9). apply has_pow2. Qed.
Lemma has_ignore f : has f path_security_ignore_group_write = ignore_gw f.
Proof. change path_security_ignore_group_write with (2 ^ 0). apply has_pow2. Qed.

(* ---- one directory ---- *)
Lemma check_dir_unfold euid tg flags d :
  check_dir euid tg flags d =
  if negb (d_uid d =? 0) && negb (d_uid d =? euid) then Some ROwner
  else if negb (ignore_gw flags) && gw d && negb (sticky d)
          && (negb (d_gid d =? tg) || (tg =? no_trusted)) then Some RGroupW
  else if ow d && negb (sticky d) then Some RWorldW
  else None.
Proof.
  unfold check_dir. rewrite has_ignore, has_iwgrp, has_iwoth, has_isvtx. reflexivity.
Qed.

Lemma check_dir_none euid tg flags d :
  check_dir euid tg flags d = None <-> dir_ok euid tg flags d.
Proof.
  rewrite check_dir_unfold. unfold dir_ok, owner_ok, gw_ok, ow_ok.
  destruct (N.eqb_spec (d_uid d) 0) as [U0|U0], (N.eqb_spec (d_uid d) euid) as [U1|U1];
  destruct (ignore_gw flags), (gw d), (sticky d), (ow d);
  destruct (N.eqb_spec (d_gid d) tg) as [G|G], (N.eqb_spec tg no_trusted) as [T|T]; cbn;
  (split; [intros H; try discriminate H | intros H]);
  try (repeat split; intros; try tauto; try (left; tauto); try (right; left; reflexivity);
       try (right; right; tauto); fail);
  try reflexivity;
  try (exfalso; destruct H as (Ho & Hg & Hw);
       try (destruct Ho; congruence);
       try (specialize (Hw eq_refl); discriminate);
       try (destruct (Hg eq_refl) as [X|[X|[X Y]]]; try discriminate; try congruence); fail).
Qed.

Lemma check_dir_owner euid tg flags d :
  check_dir euid tg flags d = Some ROwner <-> ~ owner_ok euid d.
Proof.
  rewrite check_dir_unfold. unfold owner_ok.
  destruct (N.eqb_spec (d_uid d) 0) as [U0|U0], (N.eqb_spec (d_uid d) euid) as [U1|U1]; cbn.
  - split; [|tauto]. destruct (_ && _); [discriminate|]. destruct (_ && _); discriminate.
  - split; [|tauto]. destruct (_ && _); [discriminate|]. destruct (_ && _); discriminate.
  - split; [|tauto]. destruct (_ && _); [discriminate|]. destruct (_ && _); discriminate.
  - split; [tauto|reflexivity].
Qed.

Lemma check_dir_groupw euid tg flags d :
  check_dir euid tg flags d = Some RGroupW <-> owner_ok euid d /\ ~ gw_ok tg flags d.
Proof.
  rewrite check_dir_unfold. unfold owner_ok, gw_ok.
  destruct (N.eqb_spec (d_uid d) 0) as [U0|U0], (N.eqb_spec (d_uid d) euid) as [U1|U1];
  destruct (ignore_gw flags), (gw d), (sticky d), (ow d);
  destruct (N.eqb_spec (d_gid d) tg) as [G|G], (N.eqb_spec tg no_trusted) as [T|T]; cbn;
  (split; [intros H; try discriminate H | intros H]);
  try reflexivity;
  try (split; [tauto|]; intros X; destruct (X eq_refl) as [Y|[Y|[Y Z]]];
       try discriminate; try congruence; fail);
  try (exfalso; destruct H as [Ho Hg]; try (destruct Ho; congruence);
       apply Hg; intros; try discriminate; try tauto;
       try (left; reflexivity); try (right; left; reflexivity); try (right; right; split; congruence); fail).
Qed.

Lemma check_dir_worldw euid tg flags d :
  check_dir euid tg flags d = Some RWorldW <-> owner_ok euid d /\ gw_ok tg flags d /\ ~ ow_ok d.
Proof.
  destruct (check_dir euid tg flags d) as [[| |]|] eqn:E.
  - apply check_dir_owner in E. split; [discriminate|tauto].
  - apply check_dir_groupw in E. split; [discriminate|tauto].
  - split; [intros _|reflexivity].
    assert (Ho : owner_ok euid d).
    { destruct (check_dir_owner euid tg flags d) as [_ H].
      unfold owner_ok in *. destruct (N.eq_dec (d_uid d) 0); [tauto|].
      destruct (N.eq_dec (d_uid d) euid); [tauto|].
      rewrite H in E by tauto. discriminate. }
    assert (Hn : ~ dir_ok euid tg flags d).
    { intros X. apply check_dir_none in X. congruence. }
    assert (Hg : gw_ok tg flags d).
    { unfold gw_ok. intros Hgw.
      destruct (sticky d) eqn:S; [tauto|].
      destruct (ignore_gw flags) eqn:I; [tauto|].
      destruct (N.eq_dec tg no_trusted) as [T|T], (N.eq_dec (d_gid d) tg) as [G|G]; try tauto;
      exfalso; (assert (X : check_dir euid tg flags d = Some RGroupW);
                [apply check_dir_groupw; split; [exact Ho|]; unfold gw_ok; rewrite S, I;
                 intros Y; destruct (Y Hgw) as [Z|[Z|[Z1 Z2]]]; try discriminate; congruence
                |congruence]). }
    unfold dir_ok in Hn. tauto.
  - apply check_dir_none in E. unfold dir_ok in E. split; [discriminate|tauto].
Qed.

(* ---- the loop, for chains of any length ---- *)
Lemma walk_secure euid tg flags chain : forall i,
  walk euid tg flags i chain = Secure <-> Forall (dir_ok euid tg flags) chain.
Proof.
  induction chain as [|d rest IH]; intros i; cbn [walk].
  - split; [constructor|reflexivity].
  - destruct (check_dir euid tg flags d) as [r|] eqn:E.
    + split; [discriminate|]. intros H. inversion H as [|? ? Hd Hr]; subst.
      apply check_dir_none in Hd. congruence.
    + rewrite IH. split.
      * intros H. constructor; [apply check_dir_none; exact E|exact H].
      * intros H. inversion H; assumption.
Qed.

(* Insecure k r: k is the first directory (counted from the leaf) failing a test, r the first test it fails *)
Definition first_offender (euid tg flags : N) (chain : list dstat) (k : nat) (r : reason) : Prop :=
  exists d, nth_error chain k = Some d /\ check_dir euid tg flags d = Some r /\
            forall j d', (j < k)%nat -> nth_error chain j = Some d' -> dir_ok euid tg flags d'.

Lemma walk_insecure euid tg flags chain : forall i k r,
  walk euid tg flags i chain = Insecure k r <->
  exists j, k = (i + j)%nat /\ first_offender euid tg flags chain j r.
Proof.
  induction chain as [|d rest IH]; intros i k r; cbn [walk].
  - split; [discriminate|]. intros (j & _ & d & Hn & _). destruct j; discriminate.
  - destruct (check_dir euid tg flags d) as [r'|] eqn:E.
    + split.
      * intros H. inversion H; subst. exists 0%nat. split; [lia|].
        exists d. split; [reflexivity|]. split; [exact E|]. intros j d' Hj. lia.
      * intros (j & -> & d0 & Hn & Hc & Hb). destruct j as [|j].
        -- cbn in Hn. inversion Hn; subst. rewrite E in Hc. inversion Hc. f_equal. lia.
        -- exfalso. specialize (Hb 0%nat d ltac:(lia) eq_refl).
           apply check_dir_none in Hb. congruence.
    + rewrite IH. split.
      * intros (j & -> & d0 & Hn & Hc & Hb). exists (S j). split; [lia|].
        exists d0. split; [exact Hn|]. split; [exact Hc|].
        intros j' d' Hj Hn'. destruct j' as [|j'].
        -- cbn in Hn'. inversion Hn'; subst. apply check_dir_none. exact E.
        -- cbn in Hn'. apply (Hb j' d'); [lia|exact Hn'].
      * intros (j & -> & d0 & Hn & Hc & Hb). destruct j as [|j].
        -- cbn in Hn. inversion Hn; subst. congruence.
        -- exists j. split; [lia|]. exists d0. split; [exact Hn|]. split; [exact Hc|].
           intros j' d' Hj Hn'. apply (Hb (S j') d'); [lia|exact Hn'].
Qed.

Theorem path_secure_spec euid tg flags chain :
  path_is_secure euid tg flags chain = Secure <-> Forall (dir_ok euid tg flags) chain.
Proof. apply walk_secure. Qed.

Theorem path_insecure_spec euid tg flags chain k r :
  path_is_secure euid tg flags chain = Insecure k r <-> first_offender euid tg flags chain k r.
Proof.
  unfold path_is_secure. rewrite walk_insecure. split.
  - intros (j & -> & H). exact H.
  - intros H. exists k. split; [reflexivity|exact H].
Qed.

Theorem reason_spec euid tg flags d :
  (check_dir euid tg flags d = Some ROwner <-> ~ owner_ok euid d) /\
  (check_dir euid tg flags d = Some RGroupW <-> owner_ok euid d /\ ~ gw_ok tg flags d) /\
  (check_dir euid tg flags d = Some RWorldW <-> owner_ok euid d /\ gw_ok tg flags d /\ ~ ow_ok d).
Proof.
  split; [apply check_dir_owner|split; [apply check_dir_groupw|apply check_dir_worldw]].
Qed.

(* with the ignore flag (log directories) group-write is never an objection *)
Lemma dir_ok_ignore euid tg flags d : ignore_gw flags = true ->
  (dir_ok euid tg flags d <-> owner_ok euid d /\ ow_ok d).
Proof. intros I. unfold dir_ok, gw_ok. rewrite I. tauto. Qed.

(* without flag and without trusted group: group-writable needs the sticky bit *)
Lemma dir_ok_plain euid d :
  dir_ok euid no_trusted 0 d <-> owner_ok euid d /\ (gw d = true -> sticky d = true) /\ ow_ok d.
Proof.
  unfold dir_ok, gw_ok, ignore_gw. cbn [N.testbit]. split.
  - intros (A & B & C). repeat split; try assumption. intros G.
    destruct (B G) as [X|[X|[X _]]]; [exact X|discriminate|congruence].
  - intros (A & B & C). repeat split; try assumption. intros G. left. apply B. exact G.
Qed.

(* a secure chain stays secure when only a suffix is inspected, an insecure ancestor is found at any depth *)
Lemma insecure_ancestor euid tg flags pre d post :
  ~ dir_ok euid tg flags d -> path_is_secure euid tg flags (pre ++ d :: post) <> Secure.
Proof.
  intros Hd H. apply path_secure_spec in H. apply Forall_app in H. destruct H as [_ H].
  inversion H; tauto.
Qed.

(* ---- accessibility ---- *)
Lemma walk_x_none chain : forall i,
  walk_x i chain = None <-> Forall (fun d => N.land (d_mode d) 73 = 73) chain.
Proof.
  induction chain as [|d rest IH]; intros i; cbn [walk_x].
  - split; [constructor|reflexivity].
  - change x_all with 73. destruct (N.eqb_spec (N.land (d_mode d) 73) 73) as [E|E].
    + rewrite IH. split; [intros H; constructor; assumption|intros H; inversion H; assumption].
    + split; [discriminate|intros H; inversion H; tauto].
Qed.

(* ---- which identity the ownership tests use: the effective uid, at every site (GenPath *_owner_id) ---- *)
Lemma dir_owner_effective id : pick_uid dir_owner_id id = i_euid id.
Proof. reflexivity. Qed.
Lemma key_owner_effective id : pick_uid key_owner_id id = i_euid id.
Proof. reflexivity. Qed.
Lemma seed_owner_effective id : pick_uid seed_owner_id id = i_euid id.
Proof. reflexivity. Qed.
Lemma log_owner_effective id : pick_uid log_owner_id id = i_euid id.
Proof. reflexivity. Qed.
Lemma lock_owner_effective id : pick_uid lock_owner_id id = i_euid id.
Proof. reflexivity. Qed.

Lemma path_secure_as_spec id tg flags chain :
  path_secure_as id tg flags chain = Secure <-> Forall (dir_ok (i_euid id) tg flags) chain.
Proof. unfold path_secure_as. rewrite dir_owner_effective. apply path_secure_spec. Qed.

(* every site walks its directories whatever is at the file's name (GenPath *_walk): the verdict on the
   directory chain does not depend on the prior state of the leaf *)
Lemma walks_always s leaf : walks s leaf = true.
Proof. unfold walks. destruct s, (o_stat leaf); reflexivity. Qed.

Lemma dir_verdict_walk s leaf id tg chain :
  dir_verdict s leaf id tg chain = path_secure_as id tg (site_flags s) chain.
Proof. unfold dir_verdict. rewrite walks_always. reflexivity. Qed.

Theorem dir_verdict_independent s leaf leaf' id tg chain :
  dir_verdict s leaf id tg chain = dir_verdict s leaf' id tg chain /\
  (dir_verdict s leaf id tg chain = Secure <-> Forall (dir_ok (i_euid id) tg (site_flags s)) chain).
Proof. rewrite !dir_verdict_walk. split; [reflexivity|apply path_secure_as_spec]. Qed.

(* ---- key file ---- *)
Definition key_ok (euid : N) (o : fobs) : Prop :=
  exists s, o_stat o = Some s /\ f_type s = TReg /\ o_symlink o = false /\ f_uid s = euid /\
            N.land (f_mode s) 54 = 0.

Lemma is_reg_true s : is_reg s = true <-> f_type s = TReg.
Proof. unfold is_reg. destruct (f_type s); split; congruence. Qed.

Lemma key_flags_plain : ignore_gw key_flags = false /\ ignore_gw seed_flags = false /\
  ignore_gw sock_flags = false /\ ignore_gw pid_flags = false /\ ignore_gw log_flags = true.
Proof. vm_compute. repeat split. Qed.

Lemma dir_ok_flags euid tg f1 f2 d : ignore_gw f1 = ignore_gw f2 ->
  (dir_ok euid tg f1 d <-> dir_ok euid tg f2 d).
Proof. intros E. unfold dir_ok, gw_ok. rewrite E. tauto. Qed.

Lemma forall_dir_ok_flags euid tg f1 f2 chain : ignore_gw f1 = ignore_gw f2 ->
  (Forall (dir_ok euid tg f1) chain <-> Forall (dir_ok euid tg f2) chain).
Proof.
  intros E. rewrite !Forall_forall. split; intros H d Hd; specialize (H d Hd);
  [rewrite <- (dir_ok_flags euid tg f1 f2 d E)|rewrite (dir_ok_flags euid tg f1 f2 d E)]; exact H.
Qed.

Lemma dir_why_none v : dir_why v = None <-> v = Secure.
Proof. destruct v; cbn; split; congruence. Qed.

Theorem keyfile_spec id tg o chain :
  keyfile_check false id tg o chain = None <->
  key_ok (i_euid id) o /\ Forall (dir_ok (i_euid id) tg 0) chain.
Proof.
  unfold keyfile_check, key_ok. rewrite key_owner_effective. set (euid := i_euid id). destruct (o_stat o) as [s|].
  2:{ split; [discriminate|]. intros [(s & H & _) _]. discriminate. }
  destruct (is_reg s) eqn:R; cbn [negb].
  2:{ split; [discriminate|]. intros [(s' & H & T & _) _]. inversion H; subst.
      apply is_reg_true in T. congruence. }
  apply is_reg_true in R.
  destruct (o_symlink o) eqn:L.
  { split; [discriminate|]. intros [(s' & _ & _ & X & _) _]. discriminate. }
  destruct (N.eqb_spec (f_uid s) euid) as [U|U]; cbn [negb].
  2:{ split; [discriminate|]. intros [(s' & H & _ & _ & X & _) _]. inversion H; subst. tauto. }
  destruct (has (f_mode s) grp_rw) eqn:G.
  { split; [discriminate|]. intros [(s' & H & _ & _ & _ & X) _]. inversion H; subst.
    apply rw_mask in X. destruct X; congruence. }
  destruct (has (f_mode s) oth_rw) eqn:O.
  { split; [discriminate|]. intros [(s' & H & _ & _ & _ & X) _]. inversion H; subst.
    apply rw_mask in X. destruct X; congruence. }
  rewrite dir_why_none, dir_verdict_walk, path_secure_as_spec. fold euid. change (site_flags FKey) with key_flags.
  rewrite (forall_dir_ok_flags euid tg key_flags 0 chain) by (vm_compute; reflexivity).
  split.
  - intros H. split; [|exact H]. exists s. repeat split; try assumption. apply rw_mask. tauto.
  - tauto.
Qed.

(* with --force only a missing or non-regular key stops the daemon *)
Lemma keyfile_force id tg o chain :
  keyfile_check true id tg o chain = None <-> exists s, o_stat o = Some s /\ f_type s = TReg.
Proof.
  unfold keyfile_check. destruct (o_stat o) as [s|].
  - destruct (is_reg s) eqn:R; cbn [negb].
    + apply is_reg_true in R. split; [intros _; exists s; tauto|reflexivity].
    + split; [discriminate|]. intros (s' & H & T). inversion H; subst. apply is_reg_true in T. congruence.
  - split; [discriminate|]. intros (s & H & _). discriminate.
Qed.

(* ---- seed file ---- *)
Lemma seed_valid_spec id s :
  seed_valid id s = true <-> f_type s = TReg /\ f_uid s = i_euid id /\ N.land (f_mode s) 54 = 0.
Proof.
  unfold seed_valid. rewrite seed_owner_effective, !andb_true_iff, !negb_true_iff, is_reg_true, N.eqb_eq, <- rw_mask. tauto.
Qed.

Definition seed_acceptable (euid : N) (o : fobs) : Prop :=
  o_symlink o = false /\ exists s, o_stat o = Some s /\ f_type s = TReg /\ f_uid s = euid /\
                                   N.land (f_mode s) 54 = 0.
Definition seed_present (o : fobs) : Prop := o_symlink o = true \/ o_stat o <> None.
Definition seed_is_dir (o : fobs) : Prop :=
  o_symlink o = false /\ exists s, o_stat o = Some s /\ f_type s = TDir.

Lemma is_dir_true s : is_dir s = true <-> f_type s = TDir.
Proof. unfold is_dir. destruct (f_type s); split; congruence. Qed.

Lemma seed_read_used id o : snd (seed_read id o) = true <-> seed_acceptable (i_euid id) o.
Proof.
  unfold seed_read, seed_acceptable. destruct (o_symlink o).
  - cbn. split; [discriminate|]. intros [X _]. discriminate.
  - destruct (o_stat o) as [s|].
    + destruct (seed_valid id s) eqn:V; cbn.
      * apply seed_valid_spec in V. split; [intros _|reflexivity]. split; [reflexivity|]. exists s. tauto.
      * split; [discriminate|]. intros (_ & s' & H & T). inversion H; subst.
        apply seed_valid_spec in T. congruence.
    + cbn. split; [discriminate|]. intros (_ & s' & H & _). discriminate.
Qed.

Lemma seed_read_bad id o :
  fst (seed_read id o) = true <-> seed_present o /\ ~ seed_acceptable (i_euid id) o.
Proof.
  unfold seed_read, seed_present, seed_acceptable. destruct (o_symlink o).
  - cbn. split; [intros _|reflexivity]. split; [left; reflexivity|]. intros [X _]. discriminate.
  - destruct (o_stat o) as [s|].
    + destruct (seed_valid id s) eqn:V; cbn.
      * apply seed_valid_spec in V. split; [discriminate|]. intros [_ X]. exfalso. apply X.
        split; [reflexivity|]. exists s. tauto.
      * split; [intros _|reflexivity]. split; [right; discriminate|].
        intros (_ & s' & H & T). inversion H; subst. apply seed_valid_spec in T. congruence.
    + cbn. split; [discriminate|]. intros [[X|X] _]; [discriminate|congruence].
Qed.

Definition seed_unlinkable (o : fobs) : bool :=
  o_symlink o || match o_stat o with Some s => negb (is_dir s) | None => false end.

Lemma seed_step_refused force id tg cr o chain :
  sr_refuse (seed_step force id tg cr o chain) <> None ->
  force = false /\ dir_verdict FSeed o id tg chain <> Secure /\
  sr_hang (seed_step force id tg cr o chain) = false /\
  sr_used (seed_step force id tg cr o chain) = false /\
  sr_removed (seed_step force id tg cr o chain) = false.
Proof.
  unfold seed_step. destruct (dir_verdict FSeed o id tg chain) as [|i r], force;
  destruct (seed_blocks o); destruct (seed_read id o) as [bad used]; cbn; intros H; try congruence;
  repeat split; congruence.
Qed.

Lemma seed_step_hang force id tg cr o chain :
  sr_hang (seed_step force id tg cr o chain) = true <->
  sr_refuse (seed_step force id tg cr o chain) = None /\ seed_blocks o = true.
Proof.
  unfold seed_step. destruct (dir_verdict FSeed o id tg chain) as [|i r], force;
  destruct (seed_blocks o); destruct (seed_read id o) as [bad used]; cbn; split; intros H;
  try discriminate; try tauto; try (destruct H; discriminate).
Qed.

Lemma seed_step_run force id tg cr o chain :
  sr_refuse (seed_step force id tg cr o chain) = None ->
  sr_hang (seed_step force id tg cr o chain) = false ->
  (force = true \/ dir_verdict FSeed o id tg chain = Secure) /\
  sr_used (seed_step force id tg cr o chain) = snd (seed_read id o) /\
  sr_removed (seed_step force id tg cr o chain) = fst (seed_read id o) && cr && seed_unlinkable o.
Proof.
  unfold seed_step, seed_unlinkable. destruct (dir_verdict FSeed o id tg chain) as [|i r], force;
  destruct (seed_blocks o); destruct (seed_read id o) as [bad used]; cbn; intros H H';
  try discriminate; repeat split; tauto.
Qed.

Lemma seed_unlinkable_spec o : seed_present o -> ~ seed_is_dir o -> seed_unlinkable o = true.
Proof.
  unfold seed_present, seed_is_dir, seed_unlinkable. intros P ND.
  destruct (o_symlink o); [reflexivity|]. cbn.
  destruct (o_stat o) as [s|].
  - destruct (is_dir s) eqn:D; [|reflexivity]. apply is_dir_true in D.
    exfalso. apply ND. split; [reflexivity|]. exists s. tauto.
  - destruct P as [X|X]; [discriminate|congruence].
Qed.

Definition seed_is_fifo (o : fobs) : Prop :=
  o_symlink o = false /\ exists s, o_stat o = Some s /\ f_type s = TFifo.

Lemma seed_blocks_spec o :
  seed_blocks o = true <-> seed_is_fifo o /\ seed_open_nonblock = false.
Proof.
  unfold seed_blocks, seed_is_fifo, is_fifo. generalize seed_open_nonblock. intros nb.
  destruct (o_symlink o); cbn.
  - split; [discriminate|]. intros [[X _] _]. discriminate.
  - destruct (o_stat o) as [s|].
    + destruct (f_type s) eqn:T; destruct nb; cbn; split; intros H; try discriminate;
      try (match type of H with _ /\ _ => destruct H as [[? (s' & E & T')] N]; inversion E; subst; congruence end).
      split; [split; [reflexivity|exists s; tauto]|reflexivity].
    + split; [discriminate|]. intros [[_ (s & E & _)] _]. discriminate.
Qed.

(* used only when acceptable; a present seed that is not acceptable is never used and is unlinked — when the
   process may remove names from the seed's directory (cr) and the seed is not itself a directory; otherwise it
   stays where it is, unused (what happens to it at exit: seed_write_any_prior); the start blocks exactly
   when the seed is a FIFO and the source opens it without O_NONBLOCK *)
Theorem seed_spec force id tg cr o chain :
  let r := seed_step force id tg cr o chain in
  (sr_used r = true -> seed_acceptable (i_euid id) o) /\
  (sr_refuse r = None -> sr_hang r = false -> seed_present o -> ~ seed_acceptable (i_euid id) o ->
     sr_used r = false /\ (~ seed_is_dir o -> cr = true -> sr_removed r = true) /\
     (cr = false -> sr_removed r = false)) /\
  (sr_refuse r = None -> seed_acceptable (i_euid id) o ->
     sr_hang r = false /\ sr_used r = true /\ sr_removed r = false) /\
  (force = false -> (sr_refuse r = None <-> Forall (dir_ok (i_euid id) tg 0) chain)) /\
  (sr_refuse r <> None -> sr_hang r = false /\ sr_used r = false /\ sr_removed r = false) /\
  (sr_hang r = true <-> sr_refuse r = None /\ seed_is_fifo o /\ seed_open_nonblock = false) /\
  (sr_hang r = true -> sr_used r = false /\ sr_removed r = false).
Proof.
  cbv zeta.
  assert (F : Forall (dir_ok (i_euid id) tg 0) chain <-> dir_verdict FSeed o id tg chain = Secure).
  { rewrite dir_verdict_walk, path_secure_as_spec. apply forall_dir_ok_flags. vm_compute. reflexivity. }
  assert (HU : sr_hang (seed_step force id tg cr o chain) = true ->
               sr_used (seed_step force id tg cr o chain) = false /\
               sr_removed (seed_step force id tg cr o chain) = false).
  { unfold seed_step. destruct (dir_verdict FSeed o id tg chain) as [|i r], force;
    destruct (seed_blocks o); destruct (seed_read id o) as [bad used]; cbn; intros H;
    try discriminate; tauto. }
  split; [|split; [|split; [|split; [|split; [|split]]]]].
  - intros U. destruct (sr_refuse (seed_step force id tg cr o chain)) eqn:R.
    + assert (X : sr_refuse (seed_step force id tg cr o chain) <> None) by congruence.
      apply seed_step_refused in X. destruct X as (_ & _ & _ & X & _). congruence.
    + destruct (sr_hang (seed_step force id tg cr o chain)) eqn:Hg.
      * destruct (HU eq_refl) as [X _]. congruence.
      * apply seed_step_run in R; [|exact Hg]. destruct R as (_ & R & _). rewrite R in U.
        apply seed_read_used. exact U.
  - intros R Hg P NA. apply seed_step_run in R; [|exact Hg]. destruct R as (_ & R1 & R2). split.
    + rewrite R1. destruct (snd (seed_read id o)) eqn:E; [|reflexivity].
      apply seed_read_used in E. tauto.
    + split.
      * intros ND ->. rewrite R2, (seed_unlinkable_spec o P ND), !andb_true_r.
        apply seed_read_bad. tauto.
      * intros ->. rewrite R2, andb_false_r. reflexivity.
  - intros R A.
    assert (Hg : sr_hang (seed_step force id tg cr o chain) = false).
    { destruct (sr_hang (seed_step force id tg cr o chain)) eqn:Hg; [|reflexivity].
      apply seed_step_hang in Hg. destruct Hg as [_ B]. apply seed_blocks_spec in B.
      destruct B as [[_ (s & E & T)] _]. destruct A as (_ & s' & E' & T' & _). congruence. }
    split; [exact Hg|].
    apply seed_step_run in R; [|exact Hg]. destruct R as (_ & R1 & R2). split.
    + rewrite R1. apply seed_read_used. exact A.
    + rewrite R2. destruct (fst (seed_read id o)) eqn:E; [|reflexivity].
      apply seed_read_bad in E. tauto.
  - intros NF. subst force. rewrite F. unfold seed_step.
    destruct (dir_verdict FSeed o id tg chain) as [|i r]; destruct (seed_blocks o);
    destruct (seed_read id o) as [bad used]; cbn; split; congruence.
  - intros R. apply seed_step_refused in R. tauto.
  - rewrite seed_step_hang, seed_blocks_spec. tauto.
  - exact HU.
Qed.

(* seed acceptance does not depend on the trusted group: --trusted-group only enters the walk over the seed's
   directories (sr_refuse); what is used, removed or blocks is the same under any two trusted groups *)
Theorem seed_ignores_trusted_group force id tg tg' cr o chain :
  sr_refuse (seed_step force id tg cr o chain) = None ->
  sr_refuse (seed_step force id tg' cr o chain) = None ->
  sr_used (seed_step force id tg cr o chain) = sr_used (seed_step force id tg' cr o chain) /\
  sr_removed (seed_step force id tg cr o chain) = sr_removed (seed_step force id tg' cr o chain) /\
  sr_hang (seed_step force id tg cr o chain) = sr_hang (seed_step force id tg' cr o chain).
Proof.
  unfold seed_step.
  destruct (dir_verdict FSeed o id tg chain) as [|i r], (dir_verdict FSeed o id tg' chain) as [|i' r'], force;
  destruct (seed_blocks o); destruct (seed_read id o) as [bad used]; cbn; intros H H';
  try discriminate; repeat split; reflexivity.
Qed.

(* ... in particular a seed with a group read or write bit is never used, whatever its group — the trusted
   group included — and whatever --trusted-group is *)
Theorem seed_group_bits_never_used force id tg cr o chain s :
  o_stat o = Some s -> N.land (f_mode s) 48 <> 0 ->
  sr_used (seed_step force id tg cr o chain) = false.
Proof.
  intros E G. destruct (sr_used (seed_step force id tg cr o chain)) eqn:U; [|reflexivity].
  exfalso. apply (proj1 (seed_spec force id tg cr o chain)) in U.
  destruct U as (_ & s' & E' & _ & _ & M). assert (s' = s) by congruence. subst s'.
  apply G. change 48 with (N.land 54 48). rewrite N.land_assoc, M. reflexivity.
Qed.

(* ---- log file ---- *)
Definition log_ok (euid : N) (o : fobs) : Prop :=
  o_symlink o = false /\
  (o_stat o = None \/
   exists s, o_stat o = Some s /\ f_type s = TReg /\ f_uid s = euid /\
             N.testbit (f_mode s) 4 = false /\ N.testbit (f_mode s) 1 = false).

Theorem logfile_spec id tg o chain :
  logfile_check false id tg o chain = None <->
  log_ok (i_euid id) o /\ Forall (fun d => owner_ok (i_euid id) d /\ ow_ok d) chain.
Proof.
  set (euid := i_euid id).
  assert (F : Forall (fun d => owner_ok euid d /\ ow_ok d) chain <->
              dir_verdict FLog o id tg chain = Secure).
  { rewrite dir_verdict_walk, path_secure_as_spec, !Forall_forall. fold euid. split; intros H d Hd; specialize (H d Hd).
    - apply dir_ok_ignore; [vm_compute; reflexivity|exact H].
    - apply dir_ok_ignore in H; [exact H|vm_compute; reflexivity]. }
  unfold logfile_check, log_ok. rewrite log_owner_effective. fold euid. destruct (o_symlink o) eqn:L; cbn [andb negb].
  { split; [discriminate|]. intros [[X _] _]. discriminate. }
  destruct (o_stat o) as [s|] eqn:S.
  2:{ rewrite dir_why_none, <- F. split; [intros H; repeat split; tauto|tauto]. }
  destruct (is_reg s) eqn:R; cbn [negb].
  2:{ split; [discriminate|]. intros [[_ [X|(s' & H & T & _)]] _]; [discriminate|].
      inversion H; subst. apply is_reg_true in T. congruence. }
  apply is_reg_true in R.
  destruct (N.eqb_spec (f_uid s) euid) as [U|U]; cbn [negb].
  2:{ split; [discriminate|]. intros [[_ [X|(s' & H & _ & X & _)]] _]; [discriminate|].
      inversion H; subst. tauto. }
  change s_iwgrp with (2 ^ 4). change s_iwoth with (2 ^ 1). rewrite !has_pow2.
  destruct (N.testbit (f_mode s) 4) eqn:G.
  { split; [discriminate|]. intros [[_ [X|(s' & H & _ & _ & X & _)]] _]; [discriminate|].
    inversion H; subst. congruence. }
  destruct (N.testbit (f_mode s) 1) eqn:O.
  { split; [discriminate|]. intros [[_ [X|(s' & H & _ & _ & _ & X)]] _]; [discriminate|].
    inversion H; subst. congruence. }
  rewrite dir_why_none, <- F. split.
  - intros H. split; [|exact H]. split; [reflexivity|]. right. exists s. tauto.
  - tauto.
Qed.

(* ---- created files ---- *)
Lemma created_mode_bits req mask i :
  N.testbit (created_mode req mask) i = N.testbit req i && negb (N.testbit mask i).
Proof. unfold created_mode. apply N.ldiff_spec. Qed.

Lemma within_spec m bound :
  within m bound = true <-> forall i, N.testbit m i = true -> N.testbit bound i = true.
Proof.
  unfold within. rewrite N.eqb_eq. split.
  - intros H i Hi. assert (X : N.testbit (N.ldiff m bound) i = false) by (rewrite H; apply N.bits_0).
    rewrite N.ldiff_spec, Hi in X. destruct (N.testbit bound i); [reflexivity|discriminate].
  - intros H. apply N.bits_inj_0. intros i. rewrite N.ldiff_spec.
    destruct (N.testbit m i) eqn:E; [|reflexivity]. rewrite (H i E). reflexivity.
Qed.

(* never more than requested, whatever the umask *)
Lemma created_within_requested req mask : within (created_mode req mask) req = true.
Proof.
  apply within_spec. intros i. rewrite created_mode_bits. destruct (N.testbit req i); cbn; congruence.
Qed.

Definition modes_ok (fg : bool) (u : N) : bool :=
  (created (sock_recipe fg) u =? 511) && (created (lock_recipe fg) u =? 128)
  && within (created (pid_recipe fg) u) 420 && within (created log_recipe u) 416
  && within (created (seed_recipe fg) u) 384.

Lemma modes_sweep : allb 512 (fun u => modes_ok true u && modes_ok false u) = true.
Proof. vm_compute. reflexivity. Qed.

Theorem modes_for_all_umasks (fg : bool) (u : N) : u < 512 ->
  created (sock_recipe fg) u = 511 /\ created (lock_recipe fg) u = 128 /\
  within (created (pid_recipe fg) u) 420 = true /\ within (created log_recipe u) 416 = true /\
  within (created (seed_recipe fg) u) 384 = true.
Proof.
  intros H. pose proof (allb_spec 512 _ modes_sweep u H) as X. cbv beta in X.
  apply andb_true_iff in X. destruct X as [Xt Xf].
  assert (Y : modes_ok fg u = true) by (destruct fg; assumption).
  unfold modes_ok in Y. rewrite !andb_true_iff, !N.eqb_eq in Y. tauto.
Qed.

(* ---- created files, whatever is at the name beforehand ---- *)
Definition entry_is_dir (e : fobs) : Prop :=
  o_symlink e = false /\ exists s, o_stat e = Some s /\ f_type s = TDir.

(* a file the daemon made itself: reached without a symlink, regular, owned by the effective uid and gid,
   no permission bit outside bound *)
Definition safe_new (id : ident) (bound : N) (e' : fobs) (s : fstat) : Prop :=
  e' = e_file s /\ f_type s = TReg /\ f_uid s = i_euid id /\ f_gid s = i_egid id /\
  within (f_mode s) bound = true.

Lemma is_dir_entry_spec e : is_dir_entry e = true <-> entry_is_dir e.
Proof.
  unfold is_dir_entry, entry_is_dir. destruct (o_symlink e); cbn.
  - split; [discriminate|]. intros [X _]. discriminate.
  - destruct (o_stat e) as [s|].
    + rewrite is_dir_true. split.
      * intros H. split; [reflexivity|]. exists s. tauto.
      * intros [_ (s' & E & T)]. inversion E; subst. exact T.
    + split; [discriminate|]. intros [_ (s & E & _)]. discriminate.
Qed.

Lemma is_dir_entry_present e : is_dir_entry e = true -> present e = true.
Proof.
  unfold is_dir_entry, present. destruct (o_symlink e); [reflexivity|]. cbn.
  destruct (o_stat e); [reflexivity|discriminate].
Qed.

(* unlink fails (errno other than ENOENT) exactly on a directory, or on anything the process may not remove *)
Lemma unlink_fails_spec p e :
  unlink_fails p e = true <-> entry_is_dir e \/ (present e = true /\ p_remove p = false).
Proof.
  unfold unlink_fails. rewrite orb_true_iff, andb_true_iff, negb_true_iff, is_dir_entry_spec. tauto.
Qed.

Lemma unlink_fails_present p e : unlink_fails p e = true -> present e = true.
Proof.
  unfold unlink_fails. rewrite orb_true_iff, andb_true_iff. intros [H|[H _]]; [apply is_dir_entry_present|]; exact H.
Qed.

Lemma unlink_fails_all e : unlink_fails all_perm e = is_dir_entry e.
Proof. unfold unlink_fails. cbn. rewrite andb_false_r, orb_false_r. reflexivity. Qed.

Lemma fs_unlink_cases p e :
  (unlink_fails p e = true /\ fs_unlink p e = e) \/ (unlink_fails p e = false /\ fs_unlink p e = e_absent).
Proof. unfold fs_unlink. destruct (unlink_fails p e); [left|right]; split; reflexivity. Qed.

Lemma open_dir_fails excl nofollow cc id m e :
  is_dir_entry e = true -> fs_open_creat excl nofollow cc id m e = OFail.
Proof.
  intros H. apply is_dir_entry_spec in H. destruct H as [L (s & E & T)].
  unfold fs_open_creat. rewrite L, E. destruct excl; [reflexivity|].
  unfold open_existing. rewrite T. reflexivity.
Qed.

Lemma open_absent excl nofollow cc id m :
  fs_open_creat excl nofollow cc id m e_absent =
  if cc then OOpened (e_file (fresh_file id m)) (fresh_file id m) else OFail.
Proof. reflexivity. Qed.

(* whatever open() returns a descriptor for is what stat() reports at the name afterwards *)
Lemma open_existing_opened id s e e' s' :
  o_stat e = Some s -> open_existing id s e = OOpened e' s' -> e' = e /\ s' = s /\ may_write id s = true.
Proof.
  unfold open_existing. intros E. destruct (f_type s); destruct (may_write id s); intros H;
  try discriminate; inversion H; tauto.
Qed.

Lemma open_existing_not_abandon id s e e' : open_existing id s e <> OAbandon e'.
Proof. unfold open_existing. destruct (f_type s); destruct (may_write id s); discriminate. Qed.

(* open(O_CREAT) either makes a new file of the effective uid/gid (nothing was there, or a dangling symlink,
   and the directory is writable) or reuses the file that is there, owner and mode unchanged *)
Lemma fs_open_creat_opened excl nofollow cc id m e e' s :
  fs_open_creat excl nofollow cc id m e = OOpened e' s ->
  o_stat e' = Some s /\ o_symlink e' = o_symlink e /\
  ((o_stat e = None /\ s = fresh_file id m /\ cc = true) \/
   (e' = e /\ o_stat e = Some s /\ may_write id s = true)).
Proof.
  unfold fs_open_creat. destruct (o_symlink e) eqn:L.
  - destruct (excl || nofollow); [discriminate|]. destruct (o_stat e) as [s0|] eqn:E.
    + intros H. apply open_existing_opened in H; [|exact E]. destruct H as (-> & -> & W).
      rewrite E, L. tauto.
    + destruct cc; [|discriminate]. intros H. inversion H; subst. cbn. tauto.
  - destruct (o_stat e) as [s0|] eqn:E.
    + destruct excl; [discriminate|]. intros H. apply open_existing_opened in H; [|exact E].
      destruct H as (-> & -> & W). rewrite E, L. tauto.
    + destruct cc; [|discriminate]. intros H. inversion H; subst. cbn. tauto.
Qed.

Lemma fs_open_creat_not_abandon excl nofollow cc id m e e' :
  fs_open_creat excl nofollow cc id m e <> OAbandon e'.
Proof.
  unfold fs_open_creat. destruct (o_symlink e), (excl || nofollow), excl, (o_stat e), cc;
  try discriminate; apply open_existing_not_abandon.
Qed.

Lemma how_facts :
  (forall fg, h_unlink (pid_how fg) = true) /\ (forall fg, h_unlink (seed_how fg) = true) /\
  (forall fg, h_unlink (sock_how fg) = true) /\
  (forall fg, lock_how fg = mkh false false false) /\ log_how = mkh false false false.
Proof. repeat split; try (intros [|]; reflexivity). Qed.

Lemma recipes_no_chmod :
  (forall fg, r_chmod (lock_recipe fg) = None) /\ r_chmod log_recipe = None /\
  (forall fg, r_chmod (pid_recipe fg) = None) /\ (forall fg, r_chmod (seed_recipe fg) = None).
Proof. repeat split; try (intros [|]; reflexivity). Qed.

(* what the source does to an old pid / seed file it could not unlink (GenPath *_rechmod): the pid file is set
   to 0644 less (part of) the umask (and, as the source stands, used even if that fails: the statements hold
   either way); the seed is set to 0600 or given up *)
Lemma rechmod_facts :
  (forall fg, exists keep gives_up, pid_rechmod fg = Some (420, keep, gives_up)) /\
  (forall fg, exists keep, seed_rechmod fg = Some (384, keep, true)).
Proof. split; intros [|]; repeat eexists; reflexivity. Qed.

Lemma reuse_mode_within base keep u : within (reuse_mode base keep u) base = true.
Proof. apply created_within_requested. Qed.

(* ---- unlink, then create: the general statement about the file that ends up written ---- *)
(* rc_ok bound rc: an old file that could not be removed is set to a mode within bound (or, failing that, given
   up when gives_up) *)
Definition rc_sets (bound : N) (gives_up : bool) (rc : rechmod) : Prop :=
  exists keep, rc = Some (bound, keep, gives_up).

Lemma may_chmod_set_mode id s m : may_chmod id (set_mode s m) = may_chmod id s.
Proof. reflexivity. Qed.

Lemma may_chmod_fresh id m : may_chmod id (fresh_file id m) = true.
Proof. unfold may_chmod, fresh_file. cbn. rewrite N.eqb_refl. apply orb_true_r. Qed.

Lemma create_unlinked rc h r id u p e bound gives_up :
  h_unlink h = true -> r_chmod r = None -> within (created r u) bound = true -> rc_sets bound gives_up rc ->
  match create_with rc h r id u p e with
  | OOpened e' s =>
      o_stat e' = Some s /\
      (may_chmod id s = true -> within (f_mode s) bound = true) /\
      (gives_up = true -> may_chmod id s = true) /\
      (unlink_fails p e = false -> e' = e_file s /\ s = fresh_file id (created r u)) /\
      (unlink_fails p e = true ->
         o_symlink e' = o_symlink e /\ f_uid s = match o_stat e with Some s0 => f_uid s0 | None => i_euid id end /\
         (may_chmod id s = false -> o_stat e = Some s))
  | OFail => True
  | OBlock => unlink_fails p e = true
  | OAbandon e' => unlink_fails p e = true /\ gives_up = true /\ o_symlink e' = o_symlink e /\
                   exists s0, o_stat e = Some s0 /\ o_stat e' = Some s0 /\ may_chmod id s0 = false
  end.
Proof.
  intros HU NC W (keep & ->). unfold create_with. rewrite HU, NC. cbn [andb].
  assert (CM : created_mode (r_req r) (in_force r u) = created r u) by (unfold created; rewrite NC; reflexivity).
  rewrite CM.
  destruct (fs_unlink_cases p e) as [[F E]|[F E]]; rewrite E, F.
  - (* the old name is still there: open reuses it *)
    destruct (fs_open_creat (h_excl h) (h_nofollow h) (p_create p) id (created r u) e) as [e' s| | |e'] eqn:O.
    + apply fs_open_creat_opened in O. destruct O as (S & L & O).
      unfold rechmod_step. destruct (may_chmod id s) eqn:MC.
      * cbn [o_stat o_symlink]. rewrite may_chmod_set_mode, MC.
        split; [reflexivity|]. split; [intros _; cbn [set_mode f_mode]; apply reuse_mode_within|].
        split; [reflexivity|]. split; [discriminate|]. intros _.
        split; [exact L|]. split; [|discriminate]. cbn [set_mode f_uid].
        destruct O as [(N & -> & _)|(_ & N & _)]; rewrite N; reflexivity.
      * destruct gives_up.
        -- split; [reflexivity|]. split; [reflexivity|]. split; [exact L|].
           destruct O as [(_ & -> & _)|(-> & N & _)]; [rewrite may_chmod_fresh in MC; discriminate|].
           exists s. tauto.
        -- split; [exact S|]. split; [congruence|]. split; [discriminate|]. split; [congruence|]. intros _.
           split; [exact L|].
           destruct O as [(_ & -> & _)|(-> & N & _)]; [rewrite may_chmod_fresh in MC; discriminate|].
           rewrite N. tauto.
    + exact I.
    + reflexivity.
    + exfalso. eapply fs_open_creat_not_abandon. exact O.
  - (* the name is free now: a brand-new file, if the directory may be written *)
    rewrite open_absent. destruct (p_create p); [|exact I].
    cbn [o_stat e_file]. split; [reflexivity|].
    split; [intros _; exact W|]. split; [intros _; apply may_chmod_fresh|].
    split; [tauto|discriminate].
Qed.

(* pid file: whatever was at the name (file of any type, owner and mode, symlink, dangling symlink) and whatever
   the process may do in the directory: the file the pid is written to is what stat reports at the name; if the
   name can be removed it is a brand-new regular file of the effective uid within 0644; if it cannot, the old
   file is reused and — being the daemon's own, or the daemon being root — set to a mode within 0644; the one
   case left is a file of another owner that the daemon may write but neither remove nor chmod: its mode stays.
   The write blocks only on something that cannot be removed. *)
Theorem pid_any_prior fg id u p e : u < 512 ->
  let r := pid_write fg id u p e in
  (w_hang r = true -> unlink_fails p e = true) /\
  match w_file r with
  | Some s =>
      o_stat (w_entry r) = Some s /\
      (may_chmod id s = true -> within (f_mode s) 420 = true) /\
      (unlink_fails p e = false -> safe_new id 420 (w_entry r) s) /\
      (may_chmod id s = false -> unlink_fails p e = true /\ o_stat e = Some s)
  | None => True
  end.
Proof.
  intros U. cbv zeta. unfold pid_write, pid_write_with.
  destruct how_facts as (HP & _). destruct recipes_no_chmod as (_ & _ & NC & _).
  destruct rechmod_facts as (RC & _). destruct (modes_for_all_umasks fg u U) as (_ & _ & M & _).
  destruct (RC fg) as (keep & gu & RCE).
  pose proof (create_unlinked (pid_rechmod fg) (pid_how fg) (pid_recipe fg) id u p e 420 gu
                (HP fg) (NC fg) M (ex_intro _ keep RCE)) as C.
  destruct (create_with (pid_rechmod fg) (pid_how fg) (pid_recipe fg) id u p e) as [e' s| | |e'];
  cbn [w_hang w_file w_entry].
  - split; [discriminate|]. destruct C as (S & B & _ & N & R).
    split; [exact S|]. split; [exact B|]. split.
    + intros F. destruct (N F) as [-> ->]. unfold safe_new, fresh_file; cbn [f_type f_uid f_gid f_mode].
      repeat split. exact M.
    + intros MC. destruct (unlink_fails p e) eqn:F.
      * split; [reflexivity|]. apply (R eq_refl). exact MC.
      * destruct (N eq_refl) as [_ ->]. rewrite may_chmod_fresh in MC. discriminate.
  - split; [discriminate|exact I].
  - split; [intros _; exact C|exact I].
  - split; [discriminate|exact I].
Qed.

(* seed file written at exit: the same within 0600 — and a file of another owner is never written to: a seed
   that could not be removed is overwritten only after its mode has been set to 0600 *)
Theorem seed_write_any_prior fg id u p e : u < 512 ->
  let r := seed_write fg id u p e in
  (w_hang r = true -> unlink_fails p e = true) /\
  match w_file r with
  | Some s =>
      o_stat (w_entry r) = Some s /\ within (f_mode s) 384 = true /\ may_chmod id s = true /\
      (unlink_fails p e = false -> safe_new id 384 (w_entry r) s) /\
      (unlink_fails p e = true ->
         o_symlink (w_entry r) = o_symlink e /\
         f_uid s = match o_stat e with Some s0 => f_uid s0 | None => i_euid id end)
  | None => True
  end.
Proof.
  intros U. cbv zeta. unfold seed_write, seed_write_with.
  destruct how_facts as (_ & HP & _). destruct recipes_no_chmod as (_ & _ & _ & NC).
  destruct rechmod_facts as (_ & RC). destruct (modes_for_all_umasks fg u U) as (_ & _ & _ & _ & M).
  pose proof (create_unlinked (seed_rechmod fg) (seed_how fg) (seed_recipe fg) id u p e 384 true
                (HP fg) (NC fg) M (RC fg)) as C.
  destruct (create_with (seed_rechmod fg) (seed_how fg) (seed_recipe fg) id u p e) as [e' s| | |e'];
  cbn [w_hang w_file w_entry].
  - split; [discriminate|]. destruct C as (S & B & G & N & R).
    split; [exact S|]. split; [exact (B (G eq_refl))|]. split; [exact (G eq_refl)|]. split.
    + intros F. destruct (N F) as [-> ->]. unfold safe_new, fresh_file; cbn [f_type f_uid f_gid f_mode].
      repeat split. exact M.
    + intros F. destruct (R F) as (L & O & _). tauto.
  - split; [discriminate|exact I].
  - split; [intros _; exact C|exact I].
  - split; [discriminate|exact I].
Qed.

(* the source as it was before the repair (no fchmod of a reused file) violates both bounds: a daemon that is
   not root, its own stale file in a directory it may not write to *)
Definition daemon_id : ident := mkid 4242 4242 4242 4242 4242 4242.
Definition no_write_perm : dperm := mkp false false.

Lemma seed_reuse_old_refuted :
  exists fg id u p e s, u < 512 /\ w_file (seed_write_with None fg id u p e) = Some s /\
                        f_uid s = i_euid id /\ within (f_mode s) 384 = false.
Proof.
  exists true, daemon_id, 18, no_write_perm, (e_file (mkf TReg 4242 4242 420)), (mkf TReg 4242 4242 420).
  vm_compute. repeat split.
Qed.

Lemma pid_reuse_old_refuted :
  exists fg id u p e s, u < 512 /\ w_file (pid_write_with None fg id u p e) = Some s /\
                        f_uid s = i_euid id /\ within (f_mode s) 420 = false.
Proof.
  exists true, daemon_id, 18, no_write_perm, (e_file (mkf TReg 4242 4242 438)), (mkf TReg 4242 4242 438).
  vm_compute. repeat split.
Qed.

(* ... and the same states under the source as observed now: 0600 and 0644 *)
Lemma reuse_now :
  w_file (seed_write true daemon_id 18 no_write_perm (e_file (mkf TReg 4242 4242 420))) = Some (mkf TReg 4242 4242 384) /\
  w_file (pid_write true daemon_id 18 no_write_perm (e_file (mkf TReg 4242 4242 438))) = Some (mkf TReg 4242 4242 420).
Proof. vm_compute. split; reflexivity. Qed.

(* when the process may remove names in the directory (always, for uid 0) the file written is brand-new *)
Lemma unlink_fails_removable p e : p_remove p = true -> unlink_fails p e = is_dir_entry e.
Proof. intros H. unfold unlink_fails. rewrite H. cbn. rewrite andb_false_r, orb_false_r. reflexivity. Qed.

Lemma create_dir_in_the_way rc h r id u p e :
  h_unlink h = true -> is_dir_entry e = true -> create_with rc h r id u p e = OFail.
Proof.
  intros HU D. unfold create_with. rewrite HU.
  assert (F : unlink_fails p e = true) by (unfold unlink_fails; rewrite D; reflexivity).
  unfold fs_unlink. rewrite F. rewrite open_dir_fails by exact D. reflexivity.
Qed.

Theorem pid_removable fg id u p e : u < 512 -> p_remove p = true ->
  match w_file (pid_write fg id u p e) with
  | Some s => safe_new id 420 (w_entry (pid_write fg id u p e)) s
  | None => True
  end.
Proof.
  intros U R. destruct (is_dir_entry e) eqn:D.
  - unfold pid_write, pid_write_with. rewrite create_dir_in_the_way; [exact I|apply how_facts|exact D].
  - pose proof (pid_any_prior fg id u p e U) as P. cbv zeta in P. destruct P as [_ P].
    destruct (w_file (pid_write fg id u p e)); [|exact I].
    apply P. rewrite unlink_fails_removable by exact R. exact D.
Qed.

Theorem seed_removable fg id u p e : u < 512 -> p_remove p = true ->
  match w_file (seed_write fg id u p e) with
  | Some s => safe_new id 384 (w_entry (seed_write fg id u p e)) s
  | None => True
  end.
Proof.
  intros U R. destruct (is_dir_entry e) eqn:D.
  - unfold seed_write, seed_write_with. rewrite create_dir_in_the_way; [exact I|apply how_facts|exact D].
  - pose proof (seed_write_any_prior fg id u p e U) as P. cbv zeta in P. destruct P as [_ P].
    destruct (w_file (seed_write fg id u p e)); [|exact I].
    apply P. rewrite unlink_fails_removable by exact R. exact D.
Qed.

Lemma perm_root id chain e : i_euid id = 0 -> perm_at id chain e = all_perm.
Proof.
  intros H. unfold perm_at, dir_writable, sticky_allows. rewrite H. destruct chain; reflexivity.
Qed.

(* socket: a brand-new socket of the effective uid with mode 0777, or the daemon dies (a directory in the way,
   or the process may not remove the old name / create the new one) *)
Theorem sock_any_prior fg id u p e : u < 512 ->
  match sock_bind fg id u p e with
  | Some e' => e' = e_file (mkf TSock (i_euid id) (i_egid id) 511)
  | None => unlink_fails p e = true \/ p_create p = false
  end.
Proof.
  intros U. unfold sock_bind.
  replace (h_unlink (sock_how fg)) with true by (symmetry; apply how_facts). cbn [andb].
  destruct (fs_unlink_cases p e) as [[F E]|[F E]]; rewrite F.
  - left. reflexivity.
  - rewrite E. cbn [present e_absent o_symlink o_stat orb]. destruct (p_create p); cbn [negb]; [|right; reflexivity].
    destruct (modes_for_all_umasks fg u U) as [M _]. rewrite M. reflexivity.
Qed.

(* lock file: if the daemon carries on with a lock, the locked file — what stat() reports at the name — is a
   regular file of mode exactly 0200 owned by the effective uid, whatever was there and whatever the process
   may do in the directory; without a lock only under --force; with --force (and the old name removable) the
   lock file is brand-new *)
Theorem lock_any_prior fg force id u p e :
  match lock_step fg force id u p e with
  | LLocked e' s => o_stat e' = Some s /\ f_type s = TReg /\ f_mode s = 128 /\ f_uid s = i_euid id /\
                    (force = true -> unlink_fails p e = false -> e' = e_file s /\ f_gid s = i_egid id)
  | LNoLock _ => force = true
  | LRefuse _ | LHang => True
  end.
Proof.
  unfold lock_step. destruct how_facts as (_ & _ & _ & HL & _). rewrite HL. cbn [h_unlink h_excl h_nofollow].
  rewrite orb_false_r. unfold create_at, create_with. cbn [h_unlink h_excl h_nofollow andb].
  destruct recipes_no_chmod as [NC _]. rewrite NC.
  set (m := created_mode _ _).
  destruct (fs_open_creat false false (p_create p) id m (if force then fs_unlink p e else e)) as [e' s| | |e'] eqn:O.
  - rewrite lock_owner_effective.
    destruct (is_reg s) eqn:R; cbn [andb]; [|exact I].
    destruct (N.eqb_spec (f_mode s) s_iwusr) as [M|M]; cbn [andb]; [|exact I].
    destruct (N.eqb_spec (f_uid s) (i_euid id)) as [W|W]; [|exact I].
    apply fs_open_creat_opened in O. destruct O as (S & L & O).
    split; [exact S|]. split; [apply is_reg_true; exact R|]. split; [exact M|]. split; [exact W|].
    intros -> F. destruct (fs_unlink_cases p e) as [[F' _]|[_ E]]; [congruence|]. rewrite E in O, L.
    destruct O as [(_ & -> & _)|(_ & X & _)]; [|discriminate].
    split; [|reflexivity]. destruct e' as [l st]. cbn in L, S. subst. reflexivity.
  - destruct force; [reflexivity|exact I].
  - exact I.
  - exfalso. eapply fs_open_creat_not_abandon. exact O.
Qed.

(* on a clean slate (and a directory the process may write) the lock is created with mode 0200 by the
   effective uid *)
Lemma lock_fresh fg force id u p : u < 512 -> p_create p = true ->
  lock_step fg force id u p e_absent = LLocked (e_file (fresh_file id 128)) (fresh_file id 128).
Proof.
  intros U PC. unfold lock_step. destruct how_facts as (_ & _ & _ & HL & _). rewrite HL.
  cbn [h_unlink h_excl h_nofollow]. rewrite orb_false_r.
  replace (if force then fs_unlink p e_absent else e_absent) with e_absent by (destruct force; reflexivity).
  unfold create_at, create_with. cbn [h_unlink h_excl h_nofollow andb]. rewrite open_absent, PC.
  destruct recipes_no_chmod as [NC _]. rewrite NC.
  destruct (modes_for_all_umasks fg u U) as (_ & M & _). unfold created in M. rewrite NC in M. rewrite M.
  rewrite lock_owner_effective. cbn. rewrite N.eqb_refl. reflexivity.
Qed.

(* log file (daemon mode, no --force): what is opened is a regular file of the effective uid reached without a
   symlink and not group- or world-writable; when nothing was there it is new and within 0640; the open fails
   only on a file the process may not write or a directory it may not create the file in; it never blocks *)
Theorem log_any_prior id tg u p o chain : u < 512 ->
  logfile_check false id tg o chain = None ->
  match log_open id u p o with
  | OOpened e' s => o_symlink e' = false /\ o_stat e' = Some s /\ f_type s = TReg /\ f_uid s = i_euid id /\
                    N.testbit (f_mode s) 4 = false /\ N.testbit (f_mode s) 1 = false /\
                    (o_stat o = None -> f_gid s = i_egid id /\ within (f_mode s) 416 = true)
  | OFail => (exists s, o_stat o = Some s /\ may_write id s = false) \/ (o_stat o = None /\ p_create p = false)
  | OBlock | OAbandon _ => False
  end.
Proof.
  intros U H. apply logfile_spec in H. destruct H as [[L K] _].
  unfold log_open, create_at, create_with. destruct how_facts as (_ & _ & _ & _ & HL). rewrite HL.
  cbn [h_unlink h_excl h_nofollow andb]. destruct recipes_no_chmod as (_ & NC & _). rewrite NC.
  destruct (modes_for_all_umasks false u U) as (_ & _ & _ & M & _).
  unfold created in M. rewrite NC in M.
  set (m := created_mode _ _) in *.
  destruct o as [l st]. cbn in L, K. subst l. unfold fs_open_creat. cbn [o_symlink o_stat].
  destruct K as [->|(s & -> & T & W & G & O)].
  - destruct (p_create p); [|right; split; reflexivity].
    cbn [e_file o_symlink o_stat fresh_file f_type f_uid f_gid f_mode].
    split; [reflexivity|]. split; [reflexivity|]. split; [reflexivity|]. split; [reflexivity|].
    split.
    { pose proof (proj1 (within_spec m 416) M 4) as X. destruct (N.testbit m 4); [|reflexivity].
      specialize (X eq_refl). discriminate. }
    split.
    { pose proof (proj1 (within_spec m 416) M 1) as X. destruct (N.testbit m 1); [|reflexivity].
      specialize (X eq_refl). discriminate. }
    intros _. split; [reflexivity|exact M].
  - unfold open_existing. rewrite T. destruct (may_write id s) eqn:MW.
    + cbn [o_symlink o_stat].
      split; [reflexivity|]. split; [reflexivity|]. split; [exact T|]. split; [exact W|].
      split; [exact G|]. split; [exact O|]. discriminate.
    + left. exists s. split; [reflexivity|exact MW].
Qed.

(* ---- the whole start-up ---- *)
Lemma first_some_none {A} (l : list (option A)) : first_some l = None <-> Forall (fun x => x = None) l.
Proof.
  induction l as [|[a|] r IH]; cbn.
  - split; [constructor|reflexivity].
  - split; [discriminate|]. intros H. inversion H; discriminate.
  - rewrite IH. split; [intros H; constructor; [reflexivity|exact H]|intros H; inversion H; assumption].
Qed.

Lemma tag_none s w : tag s w = None <-> w = None.
Proof. destruct w; cbn; split; congruence. Qed.

Definition lock_ok (id : ident) (l : lres) : Prop :=
  exists e' s, l = LLocked e' s /\ o_stat e' = Some s /\ f_type s = TReg /\ f_mode s = 128 /\ f_uid s = i_euid id.

Theorem startup_refuses (c : config) : c_force c = false -> startup c = None ->
  let euid := i_euid (c_id c) in
  key_ok euid (c_key c) /\
  Forall (dir_ok euid (c_tg c) 0) (c_keydir c) /\
  Forall (dir_ok euid (c_tg c) 0) (c_seeddir c) /\
  Forall (dir_ok euid (c_tg c) 0) (c_sockdir c) /\
  Forall (dir_ok euid (c_tg c) 0) (c_piddir c) /\
  (c_fg c = false -> log_ok euid (c_log c) /\
                     Forall (fun d => owner_ok euid d /\ ow_ok d) (c_logdir c)) /\
  lock_ok (c_id c) (lock_of c).
Proof.
  intros NF H. cbv zeta. unfold startup in H. apply first_some_none in H.
  repeat match goal with H : Forall _ (_ :: _) |- _ => inversion H; clear H; subst end.
  rewrite NF in *.
  repeat match goal with H : tag _ _ = None |- _ => apply tag_none in H end.
  match goal with H : keyfile_check _ _ _ _ _ = None |- _ => apply keyfile_spec in H; destruct H as [K1 K2] end.
  split; [exact K1|]. split; [exact K2|].
  split.
  { match goal with H : sr_refuse _ = None |- _ =>
      unfold seed_of in H; rewrite NF in H;
      apply (proj1 (proj2 (proj2 (proj2 (seed_spec false _ _ _ _ _)))) eq_refl) in H; exact H end. }
  split.
  { match goal with H : sock_check _ _ _ _ _ = None |- _ => unfold sock_check in H;
      destruct (dir_why (dir_verdict FSock (c_sock c) (c_id c) (c_tg c) (c_sockdir c))) eqn:E; [discriminate|];
      apply dir_why_none in E; rewrite dir_verdict_walk in E; apply path_secure_as_spec in E;
      apply (forall_dir_ok_flags _ _ sock_flags 0); [vm_compute; reflexivity|exact E] end. }
  split.
  { match goal with H : pid_check _ _ _ _ _ = None |- _ => unfold pid_check in H;
      apply dir_why_none in H; rewrite dir_verdict_walk in H; apply path_secure_as_spec in H;
      apply (forall_dir_ok_flags _ _ pid_flags 0); [vm_compute; reflexivity|exact H] end. }
  split.
  { intros FG. match goal with H : (if c_fg c then None else tag SLog (logfile_check _ _ _ _ _)) = None |- _ =>
      rewrite FG in H; apply tag_none in H; apply logfile_spec in H; exact H end. }
  match goal with H : lock_why _ = None |- _ => rename H into HL end.
  unfold lock_of in *. rewrite NF in *.
  pose proof (lock_any_prior (c_fg c) false (c_id c) (c_umask c) (perm_at (c_id c) (c_sockdir c) (c_lock c)) (c_lock c)) as P.
  destruct (lock_step (c_fg c) false (c_id c) (c_umask c) (perm_at (c_id c) (c_sockdir c) (c_lock c)) (c_lock c))
    as [e' s|e'|w|]; try discriminate.
  - exists e', s. tauto.
Qed.

(* a successful start (forced or not), whatever was at the five names beforehand and whatever the process may
   do in their directories *)
Theorem started_files (c : config) : c_umask c < 512 -> startup c = None ->
  let id := c_id c in let a := after_start c in
  a_sock a = e_file (mkf TSock (i_euid id) (i_egid id) 511) /\
  match lock_of c with
  | LLocked e' s => a_lock a = e' /\ o_stat e' = Some s /\ f_type s = TReg /\ f_mode s = 128 /\ f_uid s = i_euid id
  | LNoLock _ => c_force c = true
  | _ => False
  end /\
  match w_file (pid_of c) with
  | Some s => o_stat (a_pid a) = Some s /\
              (may_chmod id s = true -> within (f_mode s) 420 = true) /\
              (unlink_fails (perm_at id (c_piddir c) (c_pid c)) (c_pid c) = false -> safe_new id 420 (a_pid a) s) /\
              (may_chmod id s = false -> o_stat (c_pid c) = Some s)
  | None => True
  end /\
  match w_file (seed_written c) with
  | Some s => o_stat (seed_after c) = Some s /\ within (f_mode s) 384 = true /\ may_chmod id s = true /\
              (unlink_fails (perm_at id (c_seeddir c) (seed_at_exit c)) (seed_at_exit c) = false ->
               safe_new id 384 (seed_after c) s)
  | None => True
  end /\
  (c_fg c = false -> c_force c = false ->
   exists e' s, a_log a = Some e' /\ o_symlink e' = false /\ o_stat e' = Some s /\ f_type s = TReg /\
                f_uid s = i_euid id /\ N.testbit (f_mode s) 4 = false /\ N.testbit (f_mode s) 1 = false /\
                (o_stat (c_log c) = None -> within (f_mode s) 416 = true)).
Proof.
  intros U H. cbv zeta. unfold startup in H. apply first_some_none in H.
  repeat match goal with H : Forall _ (_ :: _) |- _ => inversion H; clear H; subst end.
  repeat match goal with H : tag _ _ = None |- _ => apply tag_none in H end.
  unfold after_start; cbn [a_sock a_lock a_pid a_log].
  split.
  { pose proof (sock_any_prior (c_fg c) (c_id c) (c_umask c) (perm_at (c_id c) (c_sockdir c) (c_sock c)) (c_sock c) U) as P.
    unfold bind_of in *.
    destruct (sock_bind (c_fg c) (c_id c) (c_umask c) (perm_at (c_id c) (c_sockdir c) (c_sock c)) (c_sock c));
    [exact P|discriminate]. }
  split.
  { pose proof (lock_any_prior (c_fg c) (c_force c) (c_id c) (c_umask c) (perm_at (c_id c) (c_sockdir c) (c_lock c)) (c_lock c)) as P.
    unfold lock_of in *.
    destruct (lock_step (c_fg c) (c_force c) (c_id c) (c_umask c) (perm_at (c_id c) (c_sockdir c) (c_lock c)) (c_lock c));
    try discriminate.
    - cbn [lock_entry]. tauto.
    - exact P. }
  split.
  { pose proof (pid_any_prior (c_fg c) (c_id c) (c_umask c) (perm_at (c_id c) (c_piddir c) (c_pid c)) (c_pid c) U) as P.
    cbv zeta in P. destruct P as [_ P]. unfold pid_of.
    destruct (w_file (pid_write (c_fg c) (c_id c) (c_umask c) (perm_at (c_id c) (c_piddir c) (c_pid c)) (c_pid c)));
    [|exact I]. destruct P as (P1 & P2 & P3 & P4).
    split; [exact P1|]. split; [exact P2|]. split; [exact P3|]. intros MC. apply (P4 MC). }
  split.
  { unfold seed_after, seed_written. destruct (sr_keep (seed_of c)).
    - pose proof (seed_write_any_prior (c_fg c) (c_id c) (c_umask c)
                    (perm_at (c_id c) (c_seeddir c) (seed_at_exit c)) (seed_at_exit c) U) as P. cbv zeta in P.
      destruct P as [_ P].
      destruct (w_file (seed_write (c_fg c) (c_id c) (c_umask c) (perm_at (c_id c) (c_seeddir c) (seed_at_exit c))
                                   (seed_at_exit c))); [|exact I].
      destruct P as (P1 & P2 & P3 & P4 & _). split; [exact P1|]. split; [exact P2|]. split; [exact P3|exact P4].
    - cbn. exact I. }
  intros FG NF.
  match goal with H : (if c_fg c then None else tag SLog (logfile_check _ _ _ _ _)) = None |- _ =>
    rewrite FG in H; apply tag_none in H; rewrite NF in H; rename H into HC end.
  match goal with H : (if c_fg c then None else tag SLog (open_why _)) = None |- _ =>
    rewrite FG in H; apply tag_none in H; rename H into HO end.
  rewrite FG. unfold log_of in *.
  pose proof (log_any_prior _ _ (c_umask c) (perm_at (c_id c) (c_logdir c) (c_log c)) _ _ U HC) as P.
  destruct (log_open (c_id c) (c_umask c) (perm_at (c_id c) (c_logdir c) (c_log c)) (c_log c)) as [e' s| | |];
  try discriminate.
  exists e', s. destruct P as (P1 & P2 & P3 & P4 & P5 & P6 & P7). repeat split; try assumption.
  intros N. apply P7. exact N.
Qed.

(* a seed that fails the checks and CANNOT be removed (the process may not write to the seed's directory):
   ignored, not used, left in place at start-up; at exit it is overwritten only after its mode has been set to
   exactly 0600 — or, if that is not the daemon's to do, not written to at all *)
Theorem seed_unremovable (c : config) : c_umask c < 512 -> startup c = None ->
  seed_present (c_seed c) -> ~ seed_acceptable (i_euid (c_id c)) (c_seed c) ->
  p_remove (perm_at (c_id c) (c_seeddir c) (c_seed c)) = false ->
  sr_used (seed_of c) = false /\ sr_removed (seed_of c) = false /\ seed_at_exit c = c_seed c /\
  match w_file (seed_written c) with
  | Some s => o_stat (seed_after c) = Some s /\ within (f_mode s) 384 = true /\ may_chmod (c_id c) s = true /\
              f_uid s = match o_stat (c_seed c) with Some s0 => f_uid s0 | None => i_euid (c_id c) end
  | None => True
  end.
Proof.
  intros U H P NA NR.
  assert (SR : sr_refuse (seed_of c) = None /\ sr_hang (seed_of c) = false).
  { unfold startup in H. apply first_some_none in H.
    repeat match goal with H : Forall _ (_ :: _) |- _ => inversion H; clear H; subst end.
    repeat match goal with H : tag _ _ = None |- _ => apply tag_none in H end.
    split; [assumption|]. destruct (sr_hang (seed_of c)); [discriminate|reflexivity]. }
  destruct SR as [SR SH]. unfold seed_of in *.
  pose proof (seed_spec (c_force c) (c_id c) (c_tg c) (p_remove (perm_at (c_id c) (c_seeddir c) (c_seed c)))
                        (c_seed c) (c_seeddir c)) as S. cbv zeta in S.
  destruct S as (_ & S & _). destruct (S SR SH P NA) as (S1 & _ & S3).
  assert (RM : sr_removed (seed_step (c_force c) (c_id c) (c_tg c) (p_remove (perm_at (c_id c) (c_seeddir c) (c_seed c)))
                                     (c_seed c) (c_seeddir c)) = false) by (apply S3; exact NR).
  split; [exact S1|]. split; [exact RM|].
  assert (AE : seed_at_exit c = c_seed c) by (unfold seed_at_exit, seed_of; rewrite RM; reflexivity).
  split; [exact AE|].
  unfold seed_after, seed_written, seed_of. rewrite AE.
  destruct (sr_keep _); [|exact I].
  pose proof (seed_write_any_prior (c_fg c) (c_id c) (c_umask c) (perm_at (c_id c) (c_seeddir c) (c_seed c)) (c_seed c) U) as W.
  cbv zeta in W. destruct W as [_ W].
  destruct (w_file (seed_write (c_fg c) (c_id c) (c_umask c) (perm_at (c_id c) (c_seeddir c) (c_seed c)) (c_seed c)));
  [|exact I].
  destruct W as (W1 & W2 & W3 & _ & W5).
  split; [exact W1|]. split; [exact W2|]. split; [exact W3|].
  apply W5. apply unlink_fails_spec. right. split; [|exact NR].
  unfold seed_present in P. unfold present. destruct (o_symlink (c_seed c)); [reflexivity|].
  destruct (o_stat (c_seed c)); [reflexivity|]. destruct P as [X|X]; [discriminate|congruence].
Qed.

(* only the effective uid (and, for the group of new files, the effective gid) of the process matters:
   real and saved ids never do *)
Definition set_id (c : config) (id : ident) : config :=
  mkc (c_fg c) (c_force c) id (c_tg c) (c_umask c) (c_key c) (c_keydir c) (c_seed c) (c_seeddir c)
      (c_log c) (c_logdir c) (c_sock c) (c_sockdir c) (c_lock c) (c_pid c) (c_piddir c).

Theorem identity_only_effective (c : config) (id : ident) :
  i_euid id = i_euid (c_id c) -> i_egid id = i_egid (c_id c) ->
  startup (set_id c id) = startup c /\ after_start (set_id c id) = after_start c /\
  seed_of (set_id c id) = seed_of c /\ seed_after (set_id c id) = seed_after c.
Proof.
  destruct c as [fg force [r e s rg eg sg] tg u k kd sd sdd l ld so sod lo p pd].
  destruct id as [r' e' s' rg' eg' sg']. cbn [c_id i_euid i_egid]. intros -> ->.
  repeat split; reflexivity.
Qed.

Theorem path_secure_only_effective (id id' : ident) tg flags chain :
  i_euid id = i_euid id' -> path_secure_as id tg flags chain = path_secure_as id' tg flags chain.
Proof. intros H. unfold path_secure_as. rewrite !dir_owner_effective, H. reflexivity. Qed.

(* observation: an existing log file keeps its mode; group/other read bits are not examined *)
Definition clean_dir : dstat := mkd 0 0 493.
Definition root_id : ident := mkid 0 0 0 0 0 0.
Definition log_0644_config : config :=
  mkc false false root_id no_trusted 18
      (mko false (Some (mkf TReg 0 0 384))) [clean_dir]
      e_absent [clean_dir]
      (mko false (Some (mkf TReg 0 0 420))) [clean_dir]
      e_absent [clean_dir] e_absent e_absent [clean_dir].

Lemma existing_log_keeps_mode :
  startup log_0644_config = None /\
  a_log (after_start log_0644_config) = Some (e_file (mkf TReg 0 0 420)) /\
  within 420 416 = false.
Proof. vm_compute. repeat split. Qed.

(* observation: a FIFO in the seed's place (in a secure seed directory) blocks the start for ever while the
   source opens the seed without O_NONBLOCK; with O_NONBLOCK it is vetted like any other non-regular file *)
Definition fifo_seed_config : config :=
  mkc true false root_id no_trusted 18
      (mko false (Some (mkf TReg 0 0 384))) [clean_dir]
      (mko false (Some (mkf TFifo 0 0 384))) [clean_dir]
      e_absent [clean_dir]
      e_absent [clean_dir] e_absent e_absent [clean_dir].

Lemma seed_fifo_outcome :
  startup fifo_seed_config = (if seed_open_nonblock then None else Some (SSeed, WHang)) /\
  (seed_open_nonblock = true -> sr_used (seed_of fifo_seed_config) = false /\
                                sr_removed (seed_of fifo_seed_config) = true).
Proof. vm_compute. split; [reflexivity|]. intros H; try discriminate H; split; reflexivity. Qed.

(* observation: a FIFO in the lock file's place blocks the start in open(O_WRONLY) until a signal arrives *)
Definition fifo_lock_config : config :=
  mkc true false root_id no_trusted 18
      (mko false (Some (mkf TReg 0 0 384))) [clean_dir]
      e_absent [clean_dir]
      e_absent [clean_dir]
      e_absent [clean_dir] (mko false (Some (mkf TFifo 0 0 128))) e_absent [clean_dir].

Lemma lock_fifo_outcome : startup fifo_lock_config = Some (SLock, WHang).
Proof. vm_compute. reflexivity. Qed.
