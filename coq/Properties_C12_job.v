(* Properties_C12_job.v — statements only.  C12, the acceptor: job_accept () of
   src/munged/job.c (Properties_C12.v has the work crew, work.c).
   Model: JobModel (the function as a small program run against an adversarial
   environment: the answer to every call it makes — accept, time, log_msg,
   work_wait, work_queue, close, ... —, the signals whose handler runs during
   each call and before each access to got_terminate / got_reconfig); the
   program itself is translated from the text of job.c into gen/GenJob.v
   (src_job) on every run.  The clauses are monitors over the log of calls
   (JobModel: hstep, bstep, dstep, estep); the statements are for every
   environment.                                                              *)
From Coq Require Import List Bool ZArith.
From MV Require Import JobModel JobProofs GenJob.
Import ListNotations.


(* job_accept as translated from the text of job.c is the program the theorems below are
   proved for (statement order, nesting, the errno lists of the switch, the tests of
   got_terminate / got_reconfig); the theorems hold for every value of LOG_LIMIT_SECS. *)
Theorem C12_job_source_is_model : src_job = job_prog src_log_limit.
Proof. reflexivity. Qed.
Print Assumptions C12_job_source_is_model.

(* The signal handler of munged.c, evaluated for each signal, is the model's; it is installed
   (without SA_RESTART) for the three signals. *)
Theorem C12_job_handler_is_model :
  (forall s, src_handler s = handler s) /\ (forall s, In s src_installed).
Proof. split; intros s; destruct s; cbn; auto. Qed.
Print Assumptions C12_job_handler_is_model.

(* Hand-off: for every list of answers cs to the acceptor's calls, every placement of signal
   deliveries (isigs before the call of job_accept, inside each call, rs before each access to
   a flag): a connection returned by accept () is passed to work_queue exactly once; the
   acceptor closes it (close, or m_msg_destroy of the request bound to it) only after
   fd_set_nonblocking / m_msg_create / m_msg_bind / work_queue failed for it; and it does not
   call accept () again, call work_fini or exit while a connection is neither queued nor
   failed — in particular the loop is left only at the test that precedes accept (). *)
Theorem C12_job_handoff : forall isigs cs rs,
  handoff_ok (snd (run src_job isigs cs rs)) (fst (run src_job isigs cs rs)) = true.
Proof. exact (handoff_for src_job src_log_limit C12_job_source_is_model). Qed.
Print Assumptions C12_job_handoff.

(* Backlog: after accept () fails with EMFILE / ENFILE / ENOBUFS / ENOMEM, work_wait is called
   before the next accept () — whatever time () returns and whatever the log rate limiter
   remembers; these failures, EINTR and ECONNABORTED never make the daemon exit (only a
   failing time () does); no iteration of the loop goes round without blocking in a call. *)
Theorem C12_job_backlog : forall isigs cs rs,
  backlog_ok (snd (run src_job isigs cs rs)) (fst (run src_job isigs cs rs)) = true.
Proof. exact (backlog_for src_job src_log_limit C12_job_source_is_model). Qed.
Print Assumptions C12_job_backlog.

(* Stop: work_fini is called only after SIGINT/SIGTERM was delivered, exactly once, with
   do_wait = 1, it is the last call and job_accept returns only after it; once the signal
   has been delivered accept () is called at most one more time. *)
Theorem C12_job_stop : forall isigs cs rs,
  stop_ok (snd (run src_job isigs cs rs)) (fst (run src_job isigs cs rs)) = true.
Proof. exact (stop_for src_job src_log_limit C12_job_source_is_model). Qed.
Print Assumptions C12_job_stop.

(* SIGHUP: gids_update is called before the second call of accept () that follows the
   delivery of SIGHUP (and, by C12_job_handoff, no connection is lost while it is served). *)
Theorem C12_job_sighup : forall isigs cs rs, sighup_ok (snd (run src_job isigs cs rs)) = true.
Proof. exact (sighup_for src_job src_log_limit C12_job_source_is_model). Qed.
Print Assumptions C12_job_sighup.

(* Progress: the acceptor never makes more than 8 calls in a row without blocking in accept (),
   work_wait or work_fini (no livelock that keeps logging, closing or updating instead of
   accepting; together with C12_job_backlog: no busy loop of any kind). *)
Theorem C12_job_progress : forall isigs cs rs, progress_ok (snd (run src_job isigs cs rs)) = true.
Proof. exact (progress_for src_job src_log_limit C12_job_source_is_model). Qed.
Print Assumptions C12_job_progress.

(* Finding F-C12-accept in this model: the handler of SIGTERM runs after the loop test and
   accept () is entered all the same (it returns here because a client connects). *)
Theorem C12_job_accept_after_stop : exists cs rs l1 l2 fd,
  snd (run job_ref [] cs rs) = l1 ++ ESig SIGTERM :: EAcceptConn fd :: l2.
Proof. exact accept_after_stop. Qed.
Print Assumptions C12_job_accept_after_stop.

(* non-vacuity: a descriptor shortage twice within the rate limiter's window (one log, two
   work_wait), then a connection accepted while SIGTERM arrives: queued, then the graceful exit *)
Example C12_job_run_example :
  run src_job [] [mka 0 []; mka 0 []; mka 3 []; mka 100 []; mka 0 []; mka 0 []; mka 3 []; mka 110 []; mka 0 [];
                  mka 0 [SIGTERM]; mka 0 []; mka 0 []; mka 0 []; mka 0 []; mka 0 []; mka 0 []] no_reads
  = (KReturn, [EInit true; ELog PInfo TCreated 0; EAcceptErr EMFILE; ETime 100; ELog PInfo TAcceptFail 3; EWait;
               EAcceptErr EMFILE; ETime 110; EWait; EAcceptConn 100; ESig SIGTERM; ENonblock 100 true; ECreate true;
               EBind 100 true; EQueue 100 true; ELog PNotice TExiting 15; EFini true])%Z.
Proof. vm_compute. reflexivity. Qed.
