(* Properties_C01.v — statements only.  Encode then decode returns the identical payload, identity and options.
   Model: CredModel (enc.c, dec.c, zip.c header, base64.c, conf.c:create_subkeys); primitives are premises. *)
From Coq Require Import List NArith ZArith Bool String.
From Coq.Strings Require Import Byte.
From RecordUpdate Require Import RecordSet.
From MV Require Import Bytes Base64Model CredModel CredProofs CredRoundtrip CredLength.
From MV.gen Require Import GenCred.
Import ListNotations RecordSetNotations.
Local Open Scope N_scope.

Section C01.
Variable hmac : N -> bytes -> bytes -> bytes.
Variable sha1 : bytes -> bytes.
Variable blk_enc blk_dec : N -> bytes -> bytes -> bytes.
Variable zcomp : N -> bytes -> option bytes.
Variable zdecomp : N -> bytes -> N -> option bytes.
(* all that is assumed of the primitives *)
Hypothesis hmac_len : forall a k d, mac_valid a = true -> len (hmac a k d) = mac_size a.
Hypothesis blk_len : forall c k b, cipher_valid c = true -> len b = cipher_blk_size c -> len (blk_enc c k b) = cipher_blk_size c.
Hypothesis blk_inv : forall c k b, cipher_valid c = true -> len b = cipher_blk_size c -> blk_dec c k (blk_enc c k b) = b.
Hypothesis zip_inv : forall z x raw mx, zip_valid z = true -> zcomp z x = Some raw -> len x <= mx -> zdecomp z raw mx = Some x.

(* For every pair of daemon configurations sharing the key file (any defaults, any --max-ttl on either side),
   every well-formed encode request (any payload byte string, any cipher/MAC/zip code incl. 'default', any TTL,
   any restrictions), every encoder identity, salt, IV and encode time: IF encode succeeds THEN the first decode
   of the credential by an authorized client inside the time window succeeds and returns the byte-identical
   payload and length, the encoder's uid and gid, the restrictions, the resolved cipher and MAC, the zip type
   actually applied (none when compression did not shrink the data), the TTL capped by the decoder's maximum,
   the encode time and the origin address; and it records the credential's replay key. *)
Theorem C01_roundtrip :
  forall (cfe cfd : conf) (m m1 : msg) (pu pg now : N) (salt ivr : bytes) (o : enc_out),
  wf_conf cfe -> wf_enc_req m -> cf_key cfd = cf_key cfe ->
  pu < 4294967296 -> pg < 4294967296 ->
  len salt = c_salt_len -> 16 <= len ivr ->
  enc_pre cfe m pu pg now = inl m1 ->
  enc_core hmac sha1 blk_enc zcomp cfe m1 salt ivr = inr o ->
  forall (mem : N -> N -> bool) (rs : rstate) (du dg now' retry : N),
  retry <= c_retry_attempts -> du < 4294967296 -> dg < 4294967296 ->
  let md := eo_msg o in
  let ttl' := capped cfd (m_ttl m1) in
  let t0 := u32 now in
  (m_auth_uid m = c_uid_any \/ m_auth_uid m = du \/ (cf_root_auth cfd = true /\ du = 0)) ->
  (m_auth_gid m = c_gid_any \/ m_auth_gid m = dg \/ mem du (m_auth_gid m) = true) ->
  (Z.of_N t0 - Z.of_N (skew_of cfd ttl') <= Z.of_N (u32 now'))%Z -> u32 now' <= t0 + ttl' ->
  r_mem (firstn 16 (eo_tag o), t0 + ttl') rs = false ->
  exists r k,
    dec_process hmac sha1 blk_dec zdecomp cfd mem rs (dec_req (eo_cred o) retry) du dg now' = (r, k :: rs, Some k) /\
    k = (firstn 16 (eo_tag o), t0 + ttl') /\
    m_err r = e_success /\
    m_data r = m_data m /\ m_data_len r = m_data_len m /\
    m_cred_uid r = pu /\ m_cred_gid r = pg /\
    m_auth_uid r = m_auth_uid m /\ m_auth_gid r = m_auth_gid m /\
    m_cipher r = m_cipher md /\ m_mac r = m_mac md /\ m_zip r = m_zip md /\
    m_ttl r = ttl' /\ m_time0 r = t0 /\ m_time1 r = u32 now' /\
    m_addr_len r = c_addr_size /\ m_addr r = cf_addr cfe.
Proof. exact (roundtrip hmac sha1 blk_enc blk_dec zcomp zdecomp hmac_len blk_len blk_inv zip_inv). Qed.

(* options as resolved by encode: defaults replaced, TTL 0 -> default / clamped, zip none for empty payload *)
Theorem C01_resolved_options :
  forall cf m pu pg now m1, enc_pre cf m pu pg now = inl m1 ->
  m_cipher m1 = (if m_cipher m =? c_cipher_default then cf_def_cipher cf else m_cipher m) /\
  m_mac m1 = (if m_mac m =? c_mac_default then cf_def_mac cf else m_mac m) /\
  m_zip m1 = (if m_data_len m =? 0 then c_zip_none else if m_zip m =? c_zip_default then cf_def_zip cf else m_zip m) /\
  m_ttl m1 = (if m_ttl m =? 0 then cf_def_ttl cf else if cf_max_ttl cf <? m_ttl m then cf_max_ttl cf else m_ttl m).
Proof. exact enc_pre_options. Qed.

(* the exact length of the credential string, hence which payloads still fit a decode request:
   prefix + 4*ceil((outer + MAC + wire interior)/3) + suffix + NUL *)
Theorem C01_credential_length :
  forall cf m salt ivr o, enc_core hmac sha1 blk_enc zcomp cf m salt ivr = inr o ->
  len (eo_cred o) = 6 + 4 * ((len (eo_outer o) + len (eo_tag o) + len (eo_inner_wire o) + 2) / 3) + 1 + 1.
Proof. exact (cred_length hmac sha1 blk_enc zcomp). Qed.
End C01.

Print Assumptions C01_roundtrip.
Print Assumptions C01_resolved_options.
Print Assumptions C01_credential_length.

(* the request-length gate of libmunge/munged (m_msg_send / m_msg_recv with MUNGE_MAXIMUM_REQ_LEN):
   a request is passed on iff its packed body is at most 1 MiB; otherwise EMUNGE_BAD_LENGTH, nothing truncated *)
Theorem C01_length_gate : forall body_len : N,
  req_gate body_len = (if c_max_req_len <? body_len then GateBadLength else GatePass).
Proof. exact req_gate_spec. Qed.
Print Assumptions C01_length_gate.

(* non-vacuity: the premises are satisfiable — identity "cipher", constant-size "MAC", identity "compression";
   and a concrete round trip computed inside Coq *)
Example C01_example :
  let hm := fun (a : N) (k d : bytes) => repeat x2a (N.to_nat (mac_size a)) in
  let idb := fun (_ : N) (_ b : bytes) => b in
  let m := msg0 <| m_cipher := 0 |> <| m_mac := 5 |> <| m_zip := 0 |> <| m_ttl := 60 |>
                <| m_auth_uid := c_uid_any |> <| m_auth_gid := c_gid_any |>
                <| m_data := str "hello"%string |> <| m_data_len := 5 |> in
  match enc_pre cf_std m 1000 1001 5000 with
  | inl m1 =>
    match enc_core hm (fun x => x) idb (fun _ x => Some x) cf_std m1 (repeat x00 8) (repeat x00 16) with
    | inr o => let '(r, _, _) := dec_process hm (fun x => x) idb (fun _ x _ => Some x) cf_std (fun _ _ => false) []
                                   (dec_req (eo_cred o) 0) 7 8 5010 in
               m_err r = 0 /\ m_data r = str "hello"%string /\ m_cred_uid r = 1000 /\ m_cred_gid r = 1001 /\ m_ttl r = 60
    | inl _ => False
    end
  | inr _ => False
  end.
Proof. vm_compute. repeat split; reflexivity. Qed.
