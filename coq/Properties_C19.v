(* Properties_C19.v — statements only.  Base64 armor is a strict, bounded,
   chunking-independent inverse pair (model: Base64Model, tables regenerated
   from src/munged/base64.c on every run). *)
From Coq Require Import List NArith Bool.
From Coq.Strings Require Import Byte.
From MV Require Import Bytes Base64Model Base64Proofs.
Import ListNotations.
Local Open Scope N_scope.

(* encode then decode returns the input, for every byte string *)
Theorem C19_decode_encode : forall s : bytes, decode_block (encode_block s) = (false, s).
Proof. exact decode_encode. Qed.
Print Assumptions C19_decode_encode.

(* the encoder's output is canonical RFC 4648 (rfc4648 is defined on 24-bit groups
   with div/mod over a literal alphabet, independently of the C tables) *)
Theorem C19_canonical : forall s : bytes, encode_block s = rfc4648 s.
Proof. exact canonical. Qed.
Print Assumptions C19_canonical.

(* identical however the input is split across update calls (empty chunks included) *)
Theorem C19_chunking_independent : forall chunks : list bytes,
  encode_stream [] chunks = encode_block (concat chunks).
Proof. exact chunking_independent0. Qed.
Print Assumptions C19_chunking_independent.

(* output length + NUL = advertised bound *)
Theorem C19_encode_bound : forall s : bytes,
  N.of_nat (length (encode_block s)) + 1 = encode_length (N.of_nat (length s)).
Proof. exact encode_bound. Qed.
Print Assumptions C19_encode_bound.

(* the decoder accepts exactly: whitespace anywhere; n alphabet characters;
   then k <= 2 pads; (n + k) mod 4 = 0.  Everything else is rejected. *)
Theorem C19_accepts_exactly : forall x : bytes,
  fst (decode_block x) = false <-> b64_wellformed x.
Proof. exact accepts_exactly. Qed.
Print Assumptions C19_accepts_exactly.

Theorem C19_rejects_foreign : forall (x : bytes) (c : byte),
  In c x -> is_ws c = false -> is_data c = false -> c <> eqc -> fst (decode_block x) = true.
Proof. exact rejects_foreign. Qed.
Print Assumptions C19_rejects_foreign.

(* highest index written (the NUL) is below the advertised decode bound *)
Theorem C19_decode_write_bound : forall src : bytes,
  N.of_nat (length (snd (decode_block src))) < decode_length (N.of_nat (length src)).
Proof. exact decode_write_bound. Qed.
Print Assumptions C19_decode_write_bound.

Theorem C19_decode_update_write_bound : forall (x : dctx) (src : bytes), d_i x < 4 ->
  N.of_nat (length (snd (decode_update x src))) < decode_length (N.of_nat (length src))
  /\ d_i (snd (fst (decode_update x src))) < 4.
Proof. exact decode_update_write_bound. Qed.
Print Assumptions C19_decode_update_write_bound.

(* the table generated from the source classifies every byte as RFC 4648 and isspace() do *)
Theorem C19_table_classes : forall c : byte, class_ok c = true.
Proof. exact tab_class. Qed.
Print Assumptions C19_table_classes.

(* non-vacuity: a well-formed string with whitespace and padding exists and is accepted *)
Example C19_wf_example : b64_wellformed ["Z";"m";" ";"9";"v";"Y";"g";"=";"="]%byte.
Proof.
  exists ["Z";"m";"9";"v";"Y";"g"]%byte, 2%nat.
  repeat split; try reflexivity; try (cbn; repeat constructor).
Qed.

(* ---- the armor around the base64 text (dec.c dec_unarmor, model CredModel.dec_unarmor) ----
   What is decoded is ALL the text between the prefix and the LAST suffix: an armored string is accepted only in the
   shape  whitespace* PREFIX b64 SUFFIX tail  with no suffix in tail and b64 accepted as a whole by the decoder above;
   if the decoder refuses b64 the request fails with EMUNGE_BAD_CRED; a suffix inside the text makes it undecodable. *)
From Coq.Strings Require Import String.
From MV Require Import CredModel ArmorProofs.
From MV.gen Require Import GenCred.

Theorem C19_unarmor_accepts_only : forall data body, dec_unarmor data = inl body ->
  exists ws b64 tail, data = ws ++ pfx ++ b64 ++ sfx1 :: tail /\ forallb is_space ws = true /\
    forallb (fun c => negb (Byte.eqb c sfx1)) tail = true /\ decode_block b64 = (false, body).
Proof. exact unarmor_accepts_only. Qed.
Print Assumptions C19_unarmor_accepts_only.

Theorem C19_unarmor_rejects : forall ws b64 tail body,
  forallb is_space ws = true -> forallb (fun c => negb (Byte.eqb c sfx1)) tail = true ->
  decode_block b64 = (true, body) ->
  dec_unarmor (ws ++ pfx ++ b64 ++ sfx1 :: tail) = inr (e_bad_cred, str "Failed to base64-decode credential"%string).
Proof. exact unarmor_rejects. Qed.
Print Assumptions C19_unarmor_rejects.

Theorem C19_suffix_inside_rejected : forall a b, fst (decode_block (a ++ sfx1 :: b)) = true.
Proof. exact suffix_inside_rejected. Qed.
Print Assumptions C19_suffix_inside_rejected.
