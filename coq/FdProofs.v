(* FdProofs.v — proofs about FdModel (the timed I/O loops of src/libcommon/fd.c). *)
From Coq Require Import List NArith ZArith Bool Arith Lia ZifyBool ZifyNat.
From Coq.Strings Require Import Byte.
From MV Require Import Bytes FdModel.
From MV.gen Require Import GenFd.
Import ListNotations.
Local Open Scope Z_scope.
Ltac Zify.zify_post_hook ::= Z.div_mod_to_equations.

(* ================================================================== list helpers *)
Lemma firstn_add {A} (a b : nat) (l : list A) : firstn (a + b) l = firstn a l ++ firstn b (skipn a l).
Proof.
  revert l; induction a as [|a IH]; intros l; [reflexivity|].
  destruct l as [|h t]; cbn [Nat.add firstn skipn app].
  - now rewrite firstn_nil.
  - now rewrite IH.
Qed.

Lemma skipn_skipn' {A} (a b : nat) (l : list A) : skipn a (skipn b l) = skipn (b + a) l.
Proof.
  revert l; induction b as [|b IH]; intros l; [reflexivity|].
  destruct l as [|h t]; cbn [Nat.add skipn]; [apply skipn_nil|apply IH].
Qed.

Lemma firstn_len_split {A} (m : nat) (l : list A) : firstn m l ++ skipn (length (firstn m l)) l = l.
Proof.
  rewrite firstn_length. destruct (Nat.le_ge_cases m (length l)) as [H|H].
  - rewrite Nat.min_l by exact H. apply firstn_skipn.
  - rewrite Nat.min_r by exact H. rewrite firstn_all2 by exact H. rewrite skipn_all. apply app_nil_r.
Qed.

Lemma prefix_firstn (a b : bytes) : prefix_of a b -> a = firstn (length a) b.
Proof. intros [r <-]. rewrite firstn_app, Nat.sub_diag, firstn_all. cbn. now rewrite app_nil_r. Qed.

Lemma prefix_full (a b : bytes) : prefix_of a b -> length a = length b -> a = b.
Proof.
  intros [r <-] H. rewrite app_length in H. destruct r; [now rewrite app_nil_r|cbn in H; lia].
Qed.

(* ================================================================== _fd_get_poll_timeout *)
Lemma wrap32_small z : -2147483648 <= z < 2147483648 -> wrap32 z = z.
Proof. unfold wrap32. intros H. lia. Qed.

(* the timeout handed to poll: 0 once the deadline is reached, otherwise the remaining time rounded up to
   a millisecond — or to the millisecond after that (when now.tv_usec > when.tv_usec + 999) *)
Lemma poll_timeout_spec wv clock :
  valid_when wv -> in_range wv clock ->
  let D := deadline_us wv - clock in
  let ms := poll_timeout (Some wv) clock in
  (D <= 0 -> ms = 0) /\ (0 < D -> D <= ms * 1000 <= D + 1998).
Proof.
  destruct wv as [ws wu]. unfold valid_when, in_range, deadline_us. cbn [fst snd].
  intros [Hu Hnz] [Hc Hr]. cbv zeta. unfold poll_timeout.
  assert (E : (ws =? 0) && (wu =? 0) = false) by lia. rewrite E. clear E.
  set (ns := clock / 1000000). set (nu := clock mod 1000000).
  assert (Hcl : clock = 1000000 * ns + nu /\ 0 <= nu < 1000000) by (subst ns nu; lia).
  clearbody ns nu. destruct Hcl as [-> Hnu].
  set (q := Z.quot (wu - nu + 999) 1000).
  assert (Hq : (0 <= wu - nu + 999 -> 1000 * q <= wu - nu + 999 < 1000 * q + 1000) /\
               (wu - nu + 999 < 0 -> 1000 * q - 1000 < wu - nu + 999 <= 1000 * q)) by (subst q; lia).
  clearbody q.
  rewrite wrap32_small by lia.
  destruct ((ws - ns) * 1000 + q <? 0) eqn:Hlt; lia.
Qed.

(* ================================================================== system call facts *)
Lemma sys_poll_io ms w r w1 : sys_poll ms w = (r, w1) -> w_ios w1 = w_ios w /\ w_nio w1 = w_nio w.
Proof.
  unfold sys_poll. destruct (w_ps w) as [|e ps].
  - destruct (do_poll ms (w_clock w) (PTimeout 0)) as [r' c]. intros H; inversion H; subst; cbn; auto.
  - destruct (do_poll ms (w_clock w) e) as [r' c]. intros H; inversion H; subst; cbn; auto.
Qed.

Lemma sys_poll_len ms w r w1 : sys_poll ms w = (r, w1) ->
  (w_ps w = [] /\ (r = PTimedOut \/ r = PBlocked)) \/ S (length (w_ps w1)) = length (w_ps w).
Proof.
  unfold sys_poll. destruct (w_ps w) as [|e ps].
  - unfold do_poll. destruct (ms <? 0); intros H; inversion H; subst; left; auto.
  - destruct (do_poll ms (w_clock w) e) as [r' c]. intros H; inversion H; subst; cbn; auto.
Qed.

Lemma pop_io_facts w e w1 : pop_io w = (e, w1) ->
  w_ps w1 = w_ps w /\ w_clock w1 = w_clock w /\ w_trace w1 = w_trace w /\ w_nio w1 = S (w_nio w) /\
  ((w_ios w = [] /\ e = Err /\ w_ios w1 = []) \/ w_ios w = e :: w_ios w1).
Proof.
  unfold pop_io. destruct (w_ios w) as [|e' ios]; intros H; inversion H; subst; cbn; auto 10.
Qed.

Lemma pop_io_exh w e w1 : pop_io w = (e, w1) -> w_ios w = [] -> w_exh w1 = true.
Proof. unfold pop_io. intros H Hn. rewrite Hn in H. inversion H; subst; reflexivity. Qed.

Lemma pop_io_errno w e w1 : pop_io w = (e, w1) -> w_errno w1 = w_errno w.
Proof. unfold pop_io. destruct (w_ios w); intros H; inversion H; subst; reflexivity. Qed.

Lemma sys_poll_errno ms w r w1 : sys_poll ms w = (r, w1) -> w_errno w <> ETIMEDOUT -> w_errno w1 <> ETIMEDOUT.
Proof.
  unfold sys_poll. destruct (w_ps w) as [|e ps].
  - destruct (do_poll ms (w_clock w) (PTimeout 0)) as [r' c]. intros H; inversion H; subst; cbn; auto.
  - destruct (do_poll ms (w_clock w) e) as [r' c] eqn:E. intros H Hw. inversion H; subst r w1; clear H. cbn.
    destruct r' as [| |x|]; try exact Hw. unfold do_poll in E.
    destruct e as [dt hup nval err|dt|dt|dt|late];
      repeat match type of E with context [if ?b then _ else _] => destruct b end;
      inversion E; subst; discriminate.
Qed.

Lemma do_poll_clock Q ms c e r c' : 0 <= Q -> 0 <= ms -> late_within Q e -> do_poll ms c e = (r, c') ->
  c <= c' /\ c' <= c + ms * 1000 + (match r with PTimedOut => Q | _ => 0 end).
Proof.
  intros HQ Hms Hl. unfold do_poll.
  destruct e as [dt hup nval err|dt|dt|dt|late]; cbn in Hl;
    try (destruct ((0 <=? ms) && (ms * 1000 <? Z.max 0 dt)) eqn:E; intros H; inversion H; subst; lia).
  destruct (ms <? 0) eqn:E; intros H; inversion H; subst; lia.
Qed.

Lemma sys_poll_clock Q ms w r w1 : 0 <= Q -> 0 <= ms -> Forall (late_within Q) (w_ps w) ->
  sys_poll ms w = (r, w1) ->
  Forall (late_within Q) (w_ps w1) /\ w_clock w <= w_clock w1 /\
  w_clock w1 <= w_clock w + ms * 1000 + (match r with PTimedOut => Q | _ => 0 end).
Proof.
  intros HQ Hms HF. unfold sys_poll. destruct (w_ps w) as [|e ps].
  - destruct (do_poll ms (w_clock w) (PTimeout 0)) as [r' c] eqn:E. intros H; inversion H; subst; cbn.
    split; [constructor|]. eapply do_poll_clock; eauto. cbn. exact HQ.
  - destruct (do_poll ms (w_clock w) e) as [r' c] eqn:E. intros H; inversion H; subst; cbn.
    inversion HF; subst. split; [assumption|]. eapply do_poll_clock; eauto.
Qed.

Lemma sys_poll_trace ms w r w1 : sys_poll ms w = (r, w1) -> w_trace w1 = (w_clock w, ms) :: w_trace w.
Proof.
  unfold sys_poll. destruct (w_ps w) as [|e ps].
  - destruct (do_poll ms (w_clock w) (PTimeout 0)) as [r' c]. intros H; inversion H; subst; reflexivity.
  - destruct (do_poll ms (w_clock w) e) as [r' c]. intros H; inversion H; subst; reflexivity.
Qed.

(* ================================================================== the loop: data invariant *)
Section EngineData.
  Variable X : Type.
  Variables (check_hup zero_is_eof : bool) (xfer : X -> nat -> nat -> option (X * nat))
            (bump : X -> nat -> X) (bbb : bool) (when : option (Z * Z)) (total : nat).
  Notation loop := (FdModel.loop X check_hup zero_is_eof xfer bump bbb when total).
  (* Top: holds at the top of the while loop; Fin: what is wanted at any return *)
  Variables (Top Fin : X -> nat -> Prop).

  Definition data_ok (r : result X) : Prop :=
    match r_rc r with
    | Ret k => (k <= total)%nat /\ Fin (r_x r) (total - k)
    | NoFuel => True
    | _ => exists nl, (0 < nl <= total)%nat /\ Fin (r_x r) nl
    end.

  Lemma done_ok x nl w : (nl <= total)%nat -> Fin x nl -> data_ok (done X total x nl w).
  Proof.
    intros Hle HF. unfold data_ok, done; cbn. split; [lia|].
    replace (total - (total - nl))%nat with nl by lia. exact HF.
  Qed.

  Lemma fail_ok rc x nl w : rc = Fail \/ rc = Blocked -> (0 < nl <= total)%nat -> Fin x nl -> data_ok (mkR rc x w).
  Proof. intros [-> | ->] Hle HF; unfold data_ok; cbn; eauto. Qed.

  Hypothesis H_top_fin : forall x nl, Top x nl -> Fin x nl.
  Hypothesis H_xfer : forall x nl k x' c, Top x nl -> (0 < nl)%nat -> xfer x nl k = Some (x', c) ->
    (1 <= c <= nl)%nat /\ Fin x' (nl - c) /\ Top (bump x' c) (nl - c).
  Hypothesis H_zero : zero_is_eof = false -> forall x nl, Top x nl -> Top (bump x 0) nl.

  Lemma loop_data : forall fuel at_io ms x nl w,
    Top x nl -> (nl <= total)%nat -> (at_io = true -> (0 < nl)%nat) ->
    data_ok (loop fuel at_io ms x nl w).
  Proof.
    induction fuel as [|f IH]; intros at_io ms x nl w HT Hle Hio; cbn [FdModel.loop].
    - exact I.
    - destruct at_io; cbn [negb].
      + specialize (Hio eq_refl).
        destruct (pop_io w) as [e w1]. destruct e as [k| | | |].
        * destruct (xfer x nl k) as [[x' c]|] eqn:Hx.
          -- destruct (H_xfer _ _ _ _ _ HT Hio Hx) as (Hc & HF & HT').
             destruct (ms =? 0).
             ++ apply done_ok; [lia|]. destruct bbb; [apply H_top_fin|]; assumption.
             ++ apply IH; [assumption|lia|discriminate].
          -- apply IH; [assumption|lia|discriminate].
        * destruct zero_is_eof eqn:Hz.
          -- apply done_ok; [lia|]. now apply H_top_fin.
          -- rewrite Nat.sub_0_r. pose proof (H_zero eq_refl _ _ HT) as HT0.
             destruct (ms =? 0).
             ++ apply done_ok; [lia|]. destruct bbb; now apply H_top_fin.
             ++ apply IH; [assumption|lia|discriminate].
        * apply IH; [assumption|lia|discriminate].
        * apply IH; [assumption|lia|discriminate].
        * apply (fail_ok Fail _ nl); auto.
      + destruct (nl =? 0)%nat eqn:Hnl.
        * apply done_ok; [lia|]. now apply H_top_fin.
        * assert (Hpos : (0 < nl <= total)%nat) by lia.
          destruct (sys_poll (poll_timeout when (w_clock w)) w) as [r w1].
          destruct r as [hup nval err| |e|].
          -- destruct (check_hup && hup).
             ++ apply done_ok; [lia|]. now apply H_top_fin.
             ++ destruct nval; [apply (fail_ok Fail _ nl); auto|].
                destruct err; [apply (fail_ok Fail _ nl); auto|].
                apply IH; [assumption|lia|intros _; lia].
          -- apply done_ok; [lia|]. now apply H_top_fin.
          -- destruct e; try (apply (fail_ok Fail _ nl); now auto);
               (apply IH; [assumption|lia|discriminate]).
          -- apply (fail_ok Blocked _ nl); auto.
  Qed.

  Lemma run_data fuel skip x w : Top x total -> data_ok (run X check_hup zero_is_eof xfer bump bbb when total fuel skip x w).
  Proof.
    intros HT. unfold run. destruct (skip && (0 <? total)%nat) eqn:E.
    - apply loop_data; [assumption|lia|intros _; lia].
    - apply loop_data; [assumption|lia|discriminate].
  Qed.
End EngineData.

(* ================================================================== the loop: clock, fuel, trace, events *)
Section EngineTime.
  Variable X : Type.
  Variables (check_hup zero_is_eof : bool) (xfer : X -> nat -> nat -> option (X * nat))
            (bump : X -> nat -> X) (bbb : bool) (when : option (Z * Z)) (total : nat).
  Notation loop := (FdModel.loop X check_hup zero_is_eof xfer bump bbb when total).
  Variables (t0 B Q : Z).
  Hypothesis HQ : 0 <= Q.
  (* while the clock is in [t0, B] the timeout asked of poll is >= 0 and does not reach beyond B *)
  Hypothesis Hms : forall c, t0 <= c <= B ->
    0 <= poll_timeout when c /\ c + poll_timeout when c * 1000 <= B.

  Lemma loop_clock : forall fuel at_io ms x nl w,
    t0 <= w_clock w <= B -> Forall (late_within Q) (w_ps w) ->
    t0 <= clock_of (loop fuel at_io ms x nl w) <= B + Q.
  Proof.
    unfold clock_of.
    induction fuel as [|f IH]; intros at_io ms x nl w Hc HF; cbn [FdModel.loop].
    - cbn. lia.
    - destruct at_io; cbn [negb].
      + destruct (pop_io w) as [e w1] eqn:Hp. apply pop_io_facts in Hp.
        destruct Hp as (Hps & Hck & _). 
        assert (Hc1 : t0 <= w_clock w1 <= B) by (rewrite Hck; exact Hc).
        assert (HF1 : Forall (late_within Q) (w_ps w1)) by (rewrite Hps; exact HF).
        destruct e as [k| | | |].
        * destruct (xfer x nl k) as [[x' c]|].
          -- destruct (ms =? 0); [cbn; lia|]. apply IH; assumption.
          -- apply IH; cbn; assumption.
        * destruct zero_is_eof; [cbn; lia|]. destruct (ms =? 0); [cbn; lia|]. apply IH; assumption.
        * apply IH; cbn; assumption.
        * apply IH; cbn; assumption.
        * cbn; lia.
      + destruct (nl =? 0)%nat; [cbn; lia|].
        destruct (Hms _ Hc) as [Hm0 HmB].
        destruct (sys_poll (poll_timeout when (w_clock w)) w) as [r w1] eqn:Hp.
        destruct (sys_poll_clock Q _ _ _ _ HQ Hm0 HF Hp) as (HF1 & Hlo & Hhi).
        destruct r as [hup nval err| |e|].
        * destruct (check_hup && hup); [cbn; lia|]. destruct nval; [cbn; lia|]. destruct err; [cbn; lia|].
          apply IH; [lia|assumption].
        * cbn; lia.
        * destruct e; try (cbn; lia); (apply IH; [lia|assumption]).
        * cbn; lia.
  Qed.
End EngineTime.

Section EngineMisc.
  Variable X : Type.
  Variables (check_hup zero_is_eof : bool) (xfer : X -> nat -> nat -> option (X * nat))
            (bump : X -> nat -> X) (bbb : bool) (when : option (Z * Z)) (total : nat).
  Notation loop := (FdModel.loop X check_hup zero_is_eof xfer bump bbb when total).

  (* every iteration plays an event or returns *)
  Lemma loop_fuel : forall fuel (at_io : bool) ms x nl w,
    (2 * (length (w_ps w) + length (w_ios w)) + (if at_io then 1 else 2) <= fuel)%nat ->
    r_rc (loop fuel at_io ms x nl w) <> NoFuel.
  Proof.
    induction fuel as [|f IH]; intros at_io ms x nl w Hf; [destruct at_io; lia|].
    cbn [FdModel.loop]. destruct at_io; cbn [negb].
    - destruct (pop_io w) as [e w1] eqn:Hp. apply pop_io_facts in Hp.
      destruct Hp as (Hps & _ & _ & _ & Hi).
      destruct Hi as [(Hnil & -> & Hnil1) | Hcons]; [cbn; discriminate|].
      assert (Hm : (2 * (length (w_ps w1) + length (w_ios w1)) + 2 <= f)%nat).
      { rewrite Hps. rewrite Hcons in Hf. cbn [length] in Hf. lia. }
      destruct e as [k| | | |].
      + destruct (xfer x nl k) as [[x' c]|].
        * destruct (ms =? 0); [cbn; discriminate|]. apply IH. exact Hm.
        * apply IH. cbn. exact Hm.
      + destruct zero_is_eof; [cbn; discriminate|]. destruct (ms =? 0); [cbn; discriminate|]. apply IH; exact Hm.
      + apply IH; cbn; exact Hm.
      + apply IH; cbn; exact Hm.
      + cbn; discriminate.
    - destruct (nl =? 0)%nat; [cbn; discriminate|].
      destruct (sys_poll (poll_timeout when (w_clock w)) w) as [r w1] eqn:Hp.
      pose proof (sys_poll_io _ _ _ _ Hp) as [Hios _].
      pose proof (sys_poll_len _ _ _ _ Hp) as Hl.
      destruct r as [hup nval err| |e|]; try (cbn; discriminate).
      + destruct (check_hup && hup); [cbn; discriminate|]. destruct nval; [cbn; discriminate|].
        destruct err; [cbn; discriminate|].
        destruct Hl as [(_ & [H|H]) | Hl]; try discriminate. apply IH. rewrite Hios. lia.
      + destruct Hl as [(_ & [H|H]) | Hl]; try discriminate.
        destruct e; try (cbn; discriminate); (apply IH; rewrite Hios; lia).
  Qed.

  (* every poll was asked for exactly _fd_get_poll_timeout (when) at the clock it was made *)
  Definition trace_ok (tr : list (Z * Z)) : Prop := Forall (fun p => snd p = poll_timeout when (fst p)) tr.

  Lemma loop_trace : forall fuel at_io ms x nl w, trace_ok (w_trace w) ->
    trace_ok (w_trace (r_w (loop fuel at_io ms x nl w))).
  Proof.
    induction fuel as [|f IH]; intros at_io ms x nl w HT; cbn [FdModel.loop]; [exact HT|].
    destruct at_io; cbn [negb].
    - destruct (pop_io w) as [e w1] eqn:Hp. apply pop_io_facts in Hp. destruct Hp as (_ & _ & Htr & _).
      assert (HT1 : trace_ok (w_trace w1)) by (rewrite Htr; exact HT).
      destruct e as [k| | | |].
      + destruct (xfer x nl k) as [[x' c]|].
        * destruct (ms =? 0); [exact HT1|]. apply IH; exact HT1.
        * apply IH; exact HT1.
      + destruct zero_is_eof; [exact HT1|]. destruct (ms =? 0); [exact HT1|]. apply IH; exact HT1.
      + apply IH; exact HT1.
      + apply IH; exact HT1.
      + exact HT1.
    - destruct (nl =? 0)%nat; [exact HT|].
      destruct (sys_poll (poll_timeout when (w_clock w)) w) as [r w1] eqn:Hp.
      assert (HT1 : trace_ok (w_trace w1)).
      { rewrite (sys_poll_trace _ _ _ _ Hp). constructor; [reflexivity|exact HT]. }
      destruct r as [hup nval err| |e|]; try exact HT1.
      + destruct (check_hup && hup); [exact HT1|]. destruct nval; [exact HT1|]. destruct err; [exact HT1|].
        apply IH; exact HT1.
      + destruct e; try exact HT1; (apply IH; exact HT1).
  Qed.

  (* an I/O event that ends the call (an error; end of file for the reader) is the last one played *)
  Definition io_final (e : ioev) : Prop := e = Err \/ (zero_is_eof = true /\ e = Zero).

  Lemma loop_io_final : forall fuel at_io ms x nl w,
    exists c, w_nio (r_w (loop fuel at_io ms x nl w)) = (w_nio w + c)%nat /\
      forall i e, nth_error (w_ios w) i = Some e -> io_final e -> (S i < c)%nat -> False.
  Proof.
    induction fuel as [|f IH]; intros at_io ms x nl w; cbn [FdModel.loop].
    - exists 0%nat. cbn. split; [lia|intros; lia].
    - destruct at_io; cbn [negb].
      + destruct (pop_io w) as [e w1] eqn:Hp. apply pop_io_facts in Hp.
        destruct Hp as (_ & _ & _ & Hn & Hi).
        assert (Hstop : forall r : result X, w_nio (r_w r) = w_nio w1 ->
                  exists c, w_nio (r_w r) = (w_nio w + c)%nat /\
                  forall i e0, nth_error (w_ios w) i = Some e0 -> io_final e0 -> (S i < c)%nat -> False).
        { intros r Hw. exists 1%nat. split; [lia|intros; lia]. }
        assert (Hgo : forall ms' x' nl' w', w_nio w' = w_nio w1 -> w_ios w' = w_ios w1 -> ~ io_final e ->
                  exists c, w_nio (r_w (loop f false ms' x' nl' w')) = (w_nio w + c)%nat /\
                  forall i e0, nth_error (w_ios w) i = Some e0 -> io_final e0 -> (S i < c)%nat -> False).
        { intros ms' x' nl' w' Hw Hios Hnf.
          destruct (IH false ms' x' nl' w') as (c & Hc & Hall).
          exists (S c). split; [lia|].
          intros i e0 Hnth Hfin Hlt.
          destruct Hi as [(Hnil & _ & _) | Hcons].
          - rewrite Hnil in Hnth. destruct i; discriminate.
          - rewrite Hcons in Hnth. destruct i as [|j]; cbn in Hnth.
            + inversion Hnth; subst. contradiction.
            + apply (Hall j e0); [rewrite Hios; exact Hnth|exact Hfin|lia]. }
        destruct e as [k| | | |].
        * assert (Hnf : ~ io_final (Xfer k)) by (intros [H|[_ H]]; discriminate).
          destruct (xfer x nl k) as [[x' c]|].
          -- destruct (ms =? 0); [apply Hstop; reflexivity|]. apply Hgo; auto.
          -- apply Hgo; auto.
        * destruct zero_is_eof eqn:Hz; [apply Hstop; reflexivity|].
          assert (Hnf : ~ io_final Zero) by (intros [H|[H _]]; congruence).
          destruct (ms =? 0); [apply Hstop; reflexivity|]. apply Hgo; auto.
        * apply Hgo; auto. intros [H|[_ H]]; discriminate.
        * apply Hgo; auto. intros [H|[_ H]]; discriminate.
        * apply Hstop; reflexivity.
      + assert (Hstop : forall r : result X, w_nio (r_w r) = w_nio w ->
                  exists c, w_nio (r_w r) = (w_nio w + c)%nat /\
                  forall i e0, nth_error (w_ios w) i = Some e0 -> io_final e0 -> (S i < c)%nat -> False).
        { intros r Hw. exists 0%nat. split; [lia|intros; lia]. }
        destruct (nl =? 0)%nat; [apply Hstop; reflexivity|].
        destruct (sys_poll (poll_timeout when (w_clock w)) w) as [r w1] eqn:Hp.
        pose proof (sys_poll_io _ _ _ _ Hp) as [Hios Hnio].
        assert (Hgo : forall at_io' ms' x' nl',
                  exists c, w_nio (r_w (loop f at_io' ms' x' nl' w1)) = (w_nio w + c)%nat /\
                  forall i e0, nth_error (w_ios w) i = Some e0 -> io_final e0 -> (S i < c)%nat -> False).
        { intros. destruct (IH at_io' ms' x' nl' w1) as (c & Hc & Hall). exists c. rewrite <- Hnio, <- Hios. auto. }
        destruct r as [hup nval err| |e|]; try (apply Hstop; cbn; assumption).
        * destruct (check_hup && hup); [apply Hstop; assumption|].
          destruct nval; [apply Hstop; assumption|]. destruct err; [apply Hstop; assumption|]. apply Hgo.
        * destruct e; try (apply Hstop; assumption); apply Hgo.
  Qed.
End EngineMisc.

(* ================================================================== the loop: interruptions are harmless *)
Lemma poll_timeout_nonneg wv c : 0 <= poll_timeout (Some wv) c.
Proof.
  destruct wv as [ws wu]. unfold poll_timeout. destruct ((ws =? 0) && (wu =? 0)); [lia|].
  match goal with |- context [if ?b then _ else _] => destruct b eqn:E end; lia.
Qed.

Section EngineLive.
  Variable X : Type.
  Variables (check_hup zero_is_eof : bool) (xfer : X -> nat -> nat -> option (X * nat))
            (bump : X -> nat -> X) (bbb : bool) (when : option (Z * Z)) (total : nat).
  Notation loop := (FdModel.loop X check_hup zero_is_eof xfer bump bbb when total).
  Variable t0 : Z.
  Hypothesis Hnz : poll_timeout when t0 <> 0.

  Lemma sys_poll_benign w r w1 :
    (when = None \/ w_clock w = t0) -> Forall (benign_poll when) (w_ps w) ->
    sys_poll (poll_timeout when (w_clock w)) w = (r, w1) ->
    (w_exh w1 = true /\ (r = PTimedOut \/ r = PBlocked)) \/
    ((r = PReady false false false \/ r = PError EINTR \/ r = PError EAGAIN) /\
     (when = None \/ w_clock w1 = t0) /\ Forall (benign_poll when) (w_ps w1) /\
     w_ios w1 = w_ios w /\ w_exh w1 = w_exh w).
  Proof.
    intros Hck HF. unfold sys_poll. destruct (w_ps w) as [|e ps].
    - unfold do_poll. match goal with |- context [if ?b then _ else _] => destruct b end;
        intros H; inversion H; subst; cbn; left; auto.
    - inversion HF as [|? ? He HF']; subst.
      assert (Hms : poll_timeout when (w_clock w) < 0 /\ when = None \/
                    0 < poll_timeout when (w_clock w) /\ w_clock w = t0 /\ when <> None).
      { destruct when as [wv|] eqn:Ew.
        - destruct Hck as [Hck|Hck]; [discriminate|]. right. rewrite Hck.
          pose proof (poll_timeout_nonneg wv t0). split; [lia|]. split; [reflexivity|discriminate].
        - left. cbn. split; [lia|reflexivity]. }
      set (ms := poll_timeout when (w_clock w)) in *. clearbody ms.
      destruct e as [dt hup nval err|dt|dt|dt|late]; cbn in He; try contradiction.
      + destruct hup; [contradiction|]. destruct nval; [contradiction|]. destruct err; [contradiction|].
        unfold do_poll.
        destruct ((0 <=? ms) && (ms * 1000 <? Z.max 0 dt)) eqn:E.
        * exfalso. destruct Hms as [[Hm _]|(Hm & _ & Hw)]; [lia|]. destruct He as [He|He]; [contradiction|lia].
        * intros H; inversion H; subst; cbn. right. repeat split; auto.
          destruct Hms as [[_ Hm]|(Hm & Hc & Hw)]; [left; exact Hm|].
          right. destruct He as [He|He]; [contradiction|lia].
      + unfold do_poll.
        destruct ((0 <=? ms) && (ms * 1000 <? Z.max 0 dt)) eqn:E.
        * exfalso. destruct Hms as [[Hm _]|(Hm & _ & Hw)]; [lia|]. destruct He as [He|He]; [contradiction|lia].
        * intros H; inversion H; subst; cbn. right. repeat split; auto.
          destruct Hms as [[_ Hm]|(Hm & Hc & Hw)]; [left; exact Hm|].
          right. destruct He as [He|He]; [contradiction|lia].
      + unfold do_poll.
        destruct ((0 <=? ms) && (ms * 1000 <? Z.max 0 dt)) eqn:E.
        * exfalso. destruct Hms as [[Hm _]|(Hm & _ & Hw)]; [lia|]. destruct He as [He|He]; [contradiction|lia].
        * intros H; inversion H; subst; cbn. right. repeat split; auto.
          destruct Hms as [[_ Hm]|(Hm & Hc & Hw)]; [left; exact Hm|].
          right. destruct He as [He|He]; [contradiction|lia].
  Qed.

  Lemma loop_benign : forall fuel (at_io : bool) ms x nl w,
    (at_io = true -> ms <> 0) -> (when = None \/ w_clock w = t0) ->
    Forall (benign_poll when) (w_ps w) -> Forall benign_io (w_ios w) ->
    let r := loop fuel at_io ms x nl w in
    r_rc r = NoFuel \/ exhausted r = true \/ r_rc r = Ret total.
  Proof.
    unfold exhausted.
    induction fuel as [|f IH]; intros at_io ms x nl w Hms Hck HP HI; cbn [FdModel.loop]; [left; reflexivity|].
    destruct at_io; cbn [negb].
    - specialize (Hms eq_refl). assert (E : (ms =? 0) = false) by lia. rewrite E.
      destruct (pop_io w) as [e w1] eqn:Hp. pose proof (pop_io_exh _ _ _ Hp) as Hexh. apply pop_io_facts in Hp.
      destruct Hp as (Hps & Hclk & _ & _ & Hi).
      destruct Hi as [(Hnil & -> & _) | Hcons].
      + right; left. cbn. exact (Hexh Hnil).
      + rewrite Hcons in HI. inversion HI as [|? ? He HI']; subst.
        assert (HP1 : Forall (benign_poll when) (w_ps w1)) by (rewrite Hps; exact HP).
        assert (Hck1 : when = None \/ w_clock w1 = t0) by (rewrite Hclk; exact Hck).
        destruct e as [k| | | |]; cbn in He; try contradiction.
        * destruct (xfer x nl k) as [[x' c]|]; apply IH; auto; discriminate.
        * apply IH; auto; discriminate.
        * apply IH; auto; discriminate.
    - destruct (nl =? 0)%nat eqn:Hnl.
      + right; right. cbn. f_equal. lia.
      + destruct (sys_poll (poll_timeout when (w_clock w)) w) as [r w1] eqn:Hp.
        destruct (sys_poll_benign _ _ _ Hck HP Hp) as [(Hex & [-> | ->]) | (Hr & Hck1 & HP1 & Hios & _)].
        * right; left. cbn. exact Hex.
        * right; left. cbn. exact Hex.
        * assert (HI1 : Forall benign_io (w_ios w1)) by (rewrite Hios; exact HI).
          assert (Hm : poll_timeout when (w_clock w) <> 0).
          { destruct Hck as [-> | ->]; [cbn; lia|exact Hnz]. }
          destruct Hr as [-> | [-> | ->]].
          -- rewrite andb_false_r. apply IH; auto.
          -- apply IH; auto; discriminate.
          -- apply IH; auto; discriminate.
  Qed.
End EngineLive.

(* ================================================================== run = loop entered at either label *)
Lemma run_clock (X : Type) ch ze (xfer : X -> nat -> nat -> option (X * nat)) bump bbb when total t0 B Q fuel skip (x : X) w :
  0 <= Q ->
  (forall c, t0 <= c <= B -> 0 <= poll_timeout when c /\ c + poll_timeout when c * 1000 <= B) ->
  t0 <= w_clock w <= B -> Forall (late_within Q) (w_ps w) ->
  t0 <= clock_of (run X ch ze xfer bump bbb when total fuel skip x w) <= B + Q.
Proof. intros. unfold run. destruct (skip && (0 <? total)%nat); eapply loop_clock; eauto. Qed.

Lemma run_fuel (X : Type) ch ze (xfer : X -> nat -> nat -> option (X * nat)) bump bbb when total skip (x : X) t0 ps ios :
  r_rc (run X ch ze xfer bump bbb when total (fuel_for ps ios) skip x (world0 t0 ps ios)) <> NoFuel.
Proof.
  unfold run, fuel_for. destruct (skip && (0 <? total)%nat); apply loop_fuel; cbn [world0 w_ps w_ios]; lia.
Qed.

Lemma run_trace (X : Type) ch ze (xfer : X -> nat -> nat -> option (X * nat)) bump bbb when total fuel skip (x : X) w : w_trace w = [] ->
  Forall (fun p => snd p = poll_timeout when (fst p))
         (polls_of (run X ch ze xfer bump bbb when total fuel skip x w)).
Proof.
  intros Hw. unfold polls_of. apply Forall_rev. unfold run.
  destruct (skip && (0 <? total)%nat); apply loop_trace; unfold trace_ok; rewrite Hw; constructor.
Qed.

Lemma run_io_final (X : Type) ch ze (xfer : X -> nat -> nat -> option (X * nat)) bump bbb when total fuel skip (x : X) w i e : w_nio w = 0%nat ->
  nth_error (w_ios w) i = Some e -> io_final ze e ->
  (S i < nio_of (run X ch ze xfer bump bbb when total fuel skip x w))%nat -> False.
Proof.
  intros Hw Hn Hf. unfold nio_of, run.
  destruct (skip && (0 <? total)%nat);
    match goal with |- context [FdModel.loop ?X ?a ?b ?c ?d ?e ?f ?g ?h ?i ?j ?k ?l ?m] =>
      destruct (loop_io_final X a b c d e f g h i j k l m) as (c0 & Hc & Hall) end;
    rewrite Hc, Hw; cbn [Nat.add]; intros Hlt; eapply Hall; eauto.
Qed.

Lemma run_benign (X : Type) ch ze (xfer : X -> nat -> nat -> option (X * nat)) bump bbb when total fuel skip (x : X) w :
  poll_timeout when (w_clock w) <> 0 ->
  Forall (benign_poll when) (w_ps w) -> Forall benign_io (w_ios w) ->
  let r := run X ch ze xfer bump bbb when total fuel skip x w in
  r_rc r = NoFuel \/ exhausted r = true \/ r_rc r = Ret total.
Proof.
  intros Hnz HP HI. unfold run. destruct (skip && (0 <? total)%nat);
    eapply (loop_benign X ch ze xfer bump bbb when total (w_clock w) Hnz); eauto; try discriminate.
Qed.

(* the bound the clock cannot pass while a deadline [wv] is in force *)
Lemma deadline_window wv t0 : valid_when wv -> in_range wv t0 ->
  forall c, t0 <= c <= Z.max t0 (deadline_us wv + 1998) ->
  0 <= poll_timeout (Some wv) c /\ c + poll_timeout (Some wv) c * 1000 <= Z.max t0 (deadline_us wv + 1998).
Proof.
  intros Hv Hr c Hc. split; [apply poll_timeout_nonneg|].
  assert (Hrc : in_range wv c) by (unfold in_range in *; lia).
  destruct (poll_timeout_spec wv c Hv Hrc) as [H0 H1].
  destruct (Z_le_gt_dec (deadline_us wv - c) 0) as [Hle|Hgt].
  - rewrite (H0 Hle). lia.
  - specialize (H1 ltac:(lia)). lia.
Qed.

(* ================================================================== fd_timed_read_n *)
Definition rd_top (n : nat) (sent : bytes) (x : rd) (nl : nat) : Prop :=
  rd_buf x ++ rd_peer x = sent /\ (length (rd_buf x) + nl = n)%nat.

Lemma rd_xfer_ok n sent x nl k x' c : rd_top n sent x nl -> (0 < nl)%nat -> rd_xfer x nl k = Some (x', c) ->
  (1 <= c <= nl)%nat /\ rd_top n sent x' (nl - c) /\ rd_top n sent x' (nl - c).
Proof.
  intros [Hs Hl] Hpos. unfold rd_xfer.
  set (c0 := Nat.min (Nat.max 1 k) (Nat.min nl (length (rd_peer x)))).
  destruct (c0 =? 0)%nat eqn:E; [discriminate|]. intros H; inversion H; subst x' c; clear H.
  assert (Hc : (1 <= c0 <= nl /\ c0 <= length (rd_peer x))%nat) by (subst c0; lia).
  clearbody c0.
  assert (HT : rd_top n sent (mkRd (rd_buf x ++ firstn c0 (rd_peer x)) (skipn c0 (rd_peer x))) (nl - c0)).
  { unfold rd_top; cbn [rd_buf rd_peer]. split.
    - rewrite <- app_assoc, firstn_skipn. exact Hs.
    - rewrite app_length, firstn_length. lia. }
  split; [lia|]. split; exact HT.
Qed.

Definition read_spec (n : nat) (sent : bytes) (r : result rd) : Prop :=
  rd_buf (r_x r) ++ rd_peer (r_x r) = sent /\
  match r_rc r with
  | Ret k => length (rd_buf (r_x r)) = k /\ (k <= n)%nat
  | NoFuel => False
  | _ => (length (rd_buf (r_x r)) < n)%nat
  end.

Lemma read_n_spec n sent when skip t0 ps ios : read_spec n sent (fd_timed_read_n n sent when skip t0 ps ios).
Proof.
  unfold fd_timed_read_n.
  pose proof (run_fuel rd false true rd_xfer (fun x _ => x) true when n skip (mkRd [] sent) t0 ps ios) as Hfuel.
  assert (Hd : data_ok rd n (rd_top n sent)
                 (run rd false true rd_xfer (fun x _ => x) true when n (fuel_for ps ios) skip (mkRd [] sent)
                      (world0 t0 ps ios))).
  { apply (run_data rd false true rd_xfer (fun x _ => x) true when n (rd_top n sent) (rd_top n sent)).
    - auto.
    - intros x nl k x' c. apply rd_xfer_ok.
    - discriminate.
    - split; reflexivity. }
  unfold data_ok, read_spec in *.
  destruct (r_rc _) as [k| | |].
  - destruct Hd as (Hk & Hs & Hl). split; [exact Hs|]. split; lia.
  - destruct Hd as (nl & Hnl & Hs & Hl). split; [exact Hs|lia].
  - destruct Hd as (nl & Hnl & Hs & Hl). split; [exact Hs|lia].
  - contradiction.
Qed.

(* ================================================================== fd_timed_write_n *)
Definition out_fin (all out : bytes) (nl : nat) : Prop := exists rest, out ++ rest = all /\ length rest = nl.

Definition wn_top (src : bytes) (x : wn) (nl : nat) : Prop :=
  wn_src x = src /\ wn_out x = firstn (wn_off x) src /\ (wn_off x + nl = length src)%nat.

Lemma firstn_length_firstn {A} m (l : list A) : firstn (length (firstn m l)) l = firstn m l.
Proof.
  rewrite firstn_length. destruct (Nat.le_ge_cases m (length l)) as [H|H].
  - now rewrite Nat.min_l.
  - rewrite Nat.min_r by exact H. now rewrite firstn_all, firstn_all2.
Qed.

Lemma wn_top_fin src x nl : wn_top src x nl -> out_fin src (wn_out x) nl.
Proof.
  intros (Hs & Ho & Hl). exists (skipn (wn_off x) src). rewrite Ho, firstn_skipn, skipn_length. split; [reflexivity|lia].
Qed.

Lemma wn_xfer_ok src x nl k x' c : wn_top src x nl -> (0 < nl)%nat -> wn_xfer x nl k = Some (x', c) ->
  (1 <= c <= nl)%nat /\ out_fin src (wn_out x') (nl - c) /\ wn_top src (wn_bump x' c) (nl - c).
Proof.
  intros (Hs & Ho & Hl) Hpos. unfold wn_xfer. rewrite Hs.
  assert (Hd : firstn nl (skipn (wn_off x) src) = skipn (wn_off x) src).
  { apply firstn_all2. rewrite skipn_length. lia. }
  rewrite Hd. set (data := skipn (wn_off x) src) in *.
  assert (Hdl : length data = nl) by (subst data; rewrite skipn_length; lia).
  set (acc := firstn (Nat.max 1 k) data).
  assert (Hacc : (1 <= length acc <= nl)%nat) by (subst acc; rewrite firstn_length; lia).
  destruct (length acc =? 0)%nat eqn:E; [lia|]. intros H; inversion H; subst x' c; clear H.
  split; [exact Hacc|]. split.
  - cbn [wn_out]. exists (skipn (length acc) data). split.
    + rewrite <- app_assoc. subst acc. rewrite firstn_len_split. rewrite Ho. subst data. apply firstn_skipn.
    + rewrite skipn_length. lia.
  - unfold wn_top, wn_bump; cbn [wn_src wn_off wn_out]. split; [reflexivity|]. split; [|lia].
    rewrite firstn_add, Ho. f_equal. fold data. subst acc. symmetry. apply firstn_length_firstn.
Qed.

Lemma wn_zero_ok src x nl : wn_top src x nl -> wn_top src (wn_bump x 0) nl.
Proof. unfold wn_top, wn_bump; cbn. rewrite Nat.add_0_r. auto. Qed.

Definition write_spec (all out : bytes) (rc : rcode) : Prop :=
  prefix_of out all /\
  match rc with
  | Ret k => length out = k /\ (k <= length all)%nat
  | NoFuel => False
  | _ => (length out < length all)%nat
  end.

Lemma fin_to_spec (X : Type) (outf : X -> bytes) all (r : result X) :
  data_ok X (length all) (fun x nl => out_fin all (outf x) nl) r -> r_rc r <> NoFuel ->
  write_spec all (outf (r_x r)) (r_rc r).
Proof.
  unfold data_ok, write_spec, out_fin, prefix_of. intros Hd Hf.
  destruct (r_rc r) as [k| | |].
  - destruct Hd as (Hk & rest & Hs & Hl). split; [eauto|].
    assert (Hlen : (length all = length (outf (r_x r)) + length rest)%nat) by (rewrite <- Hs, app_length; reflexivity).
    lia.
  - destruct Hd as (nl & Hnl & rest & Hs & Hl). split; [eauto|].
    assert (Hlen : (length all = length (outf (r_x r)) + length rest)%nat) by (rewrite <- Hs, app_length; reflexivity).
    lia.
  - destruct Hd as (nl & Hnl & rest & Hs & Hl). split; [eauto|].
    assert (Hlen : (length all = length (outf (r_x r)) + length rest)%nat) by (rewrite <- Hs, app_length; reflexivity).
    lia.
  - contradiction.
Qed.

Lemma write_n_spec buf when skip t0 ps ios :
  let r := fd_timed_write_n buf when skip t0 ps ios in write_spec buf (wn_out (r_x r)) (r_rc r).
Proof.
  cbv zeta. unfold fd_timed_write_n.
  apply (fin_to_spec wn wn_out buf); [|apply run_fuel].
  apply (run_data wn true false wn_xfer wn_bump true when (length buf) (wn_top buf)).
  - intros x nl. apply wn_top_fin.
  - intros x nl k x' c. apply wn_xfer_ok.
  - intros _ x nl. apply wn_zero_ok.
  - unfold wn_top; cbn. auto.
Qed.

(* ================================================================== fd_timed_write_iov *)
Definition wf_ent (e : iovent) : Prop := (io_off e + io_len e = length (io_buf e))%nat.

Lemma ent_bytes_length e : wf_ent e -> length (ent_bytes e) = io_len e.
Proof. unfold wf_ent, ent_bytes. intros H. rewrite firstn_length, skipn_length. lia. Qed.

Lemma advance_0 iov : advance iov 0 = iov.
Proof. destruct iov; reflexivity. Qed.

(* the for-loop over iov[] drops exactly the first nw bytes of what writev would offer next *)
Lemma advance_gather : forall iov nw, Forall wf_ent iov -> (nw <= length (gather iov))%nat ->
  gather (advance iov nw) = skipn nw (gather iov) /\ Forall wf_ent (advance iov nw).
Proof.
  induction iov as [|e r IH]; intros nw HF Hle.
  - cbn. rewrite skipn_nil. split; [reflexivity|constructor].
  - inversion HF as [|? ? He HFr]; subst.
    pose proof (ent_bytes_length e He) as Hlen.
    unfold gather in Hle |- *. cbn [map concat] in Hle |- *. fold (gather r) in Hle |- *.
    rewrite app_length in Hle.
    cbn [advance]. destruct (nw =? 0)%nat eqn:E0.
    { assert (nw = 0)%nat by lia. subst nw. cbn [map concat skipn]. split; [reflexivity|exact HF]. }
    destruct (io_len e <? nw)%nat eqn:Elt.
    + (* the element is used up: n = iov_len *)
      destruct (io_len e =? 0)%nat eqn:En.
      * assert (Hz : io_len e = 0%nat) by lia.
        assert (Hnil : ent_bytes e = []) by (apply length_zero_iff_nil; lia).
        destruct (IH nw HFr ltac:(lia)) as [Hg Hw].
        cbn [map concat]. fold (gather (advance r nw)). rewrite Hg, Hnil. cbn [app]. split; [reflexivity|].
        constructor; assumption.
      * destruct (IH (nw - io_len e)%nat HFr ltac:(lia)) as [Hg Hw].
        cbn [map concat]. fold (gather (advance r (nw - io_len e))). rewrite Hg. split.
        -- unfold ent_bytes at 1. cbn [io_len io_off io_buf]. rewrite Nat.sub_diag. cbn [firstn app].
           rewrite skipn_app, Hlen. rewrite (skipn_all2 (n := nw) (ent_bytes e)) by lia. reflexivity.
        -- constructor; [|exact Hw]. unfold wf_ent in *; cbn [io_len io_off io_buf]. lia.
    + (* the write ended inside this element: n = nwritten *)
      rewrite E0. rewrite Nat.sub_diag, advance_0. cbn [map concat]. fold (gather r). split.
      * rewrite skipn_app, Hlen. replace (nw - io_len e)%nat with 0%nat by lia. cbn [skipn]. f_equal.
        unfold ent_bytes; cbn [io_len io_off io_buf].
        rewrite skipn_firstn_comm. rewrite skipn_skipn'. reflexivity.
      * constructor; [|exact HFr]. unfold wf_ent in *; cbn [io_len io_off io_buf]. lia.
Qed.

Lemma gather_init bufs : gather (iov_init bufs) = concat bufs.
Proof.
  unfold gather, iov_init. rewrite map_map. f_equal. rewrite <- (map_id bufs) at 2.
  apply map_ext. intros b. unfold ent_bytes; cbn. apply firstn_all.
Qed.

Lemma iov_total_init bufs : iov_total (iov_init bufs) = length (concat bufs).
Proof.
  induction bufs as [|b r IH]; [reflexivity|]. cbn [iov_init map iov_total fold_right io_len concat].
  rewrite app_length. f_equal. exact IH.
Qed.

Lemma wf_init bufs : Forall wf_ent (iov_init bufs).
Proof. apply Forall_forall. intros e He. apply in_map_iff in He. destruct He as (b & <- & _). reflexivity. Qed.

Definition wv_top (all : bytes) (x : wv) (nl : nat) : Prop :=
  Forall wf_ent (wv_iov x) /\ wv_out x ++ gather (wv_iov x) = all /\ length (gather (wv_iov x)) = nl.

Lemma wv_top_fin all x nl : wv_top all x nl -> out_fin all (wv_out x) nl.
Proof. intros (_ & Hs & Hl). exists (gather (wv_iov x)). auto. Qed.

Lemma wv_xfer_ok all x nl k x' c : wv_top all x nl -> (0 < nl)%nat -> wv_xfer x nl k = Some (x', c) ->
  (1 <= c <= nl)%nat /\ out_fin all (wv_out x') (nl - c) /\ wv_top all (wv_bump x' c) (nl - c).
Proof.
  intros (Hw & Hs & Hl) Hpos. unfold wv_xfer.
  set (g := gather (wv_iov x)) in *. set (acc := firstn (Nat.max 1 k) g).
  assert (Hacc : (1 <= length acc <= nl)%nat) by (subst acc; rewrite firstn_length; lia).
  destruct (length acc =? 0)%nat eqn:E; [lia|]. intros H; inversion H; subst x' c; clear H.
  assert (Hsplit : acc ++ skipn (length acc) g = g) by (subst acc; apply firstn_len_split).
  split; [exact Hacc|]. split.
  - cbn [wv_out]. exists (skipn (length acc) g). split.
    + rewrite <- app_assoc, Hsplit. exact Hs.
    + rewrite skipn_length. lia.
  - unfold wv_top, wv_bump; cbn [wv_iov wv_out].
    destruct (advance_gather (wv_iov x) (length acc) Hw ltac:(fold g; lia)) as [Hg Hw'].
    split; [exact Hw'|]. rewrite Hg. fold g. split.
    + rewrite <- app_assoc, Hsplit. exact Hs.
    + rewrite skipn_length. lia.
Qed.

Lemma wv_zero_ok all x nl : wv_top all x nl -> wv_top all (wv_bump x 0) nl.
Proof. unfold wv_top, wv_bump; cbn. rewrite advance_0. auto. Qed.

(* the pre-checks fail before anything is sent *)
Definition write_iov_spec (bufs : list bytes) (oom : bool) (r : result wv) : Prop :=
  match bufs with
  | [] => r_rc r = Fail /\ wv_out (r_x r) = []
  | _ => if oom then r_rc r = Fail /\ wv_out (r_x r) = []
         else write_spec (concat bufs) (wv_out (r_x r)) (r_rc r)
  end.

Lemma write_iov_spec_holds bufs oom when skip t0 ps ios :
  write_iov_spec bufs oom (fd_timed_write_iov bufs oom when skip t0 ps ios).
Proof.
  unfold write_iov_spec, fd_timed_write_iov. destruct bufs as [|b bs]; [split; reflexivity|].
  destruct oom; [split; reflexivity|].
  set (bufs := b :: bs). rewrite iov_total_init.
  apply (fin_to_spec wv wv_out (concat bufs)); [|apply run_fuel].
  apply (run_data wv true false wv_xfer wv_bump false when (length (concat bufs)) (wv_top (concat bufs))).
  - intros x nl. apply wv_top_fin.
  - intros x nl k x' c. apply wv_xfer_ok.
  - intros _ x nl. apply wv_zero_ok.
  - unfold wv_top; cbn [wv_iov wv_out]. rewrite gather_init. split; [apply wf_init|]. split; reflexivity.
Qed.

(* ================================================================== errno == ETIMEDOUT means: timed out, short *)
Section EngineErrno.
  Variable X : Type.
  Variables (check_hup zero_is_eof : bool) (xfer : X -> nat -> nat -> option (X * nat))
            (bump : X -> nat -> X) (bbb : bool) (when : option (Z * Z)) (total : nat).
  Notation loop := (FdModel.loop X check_hup zero_is_eof xfer bump bbb when total).

  Lemma loop_timedout : forall fuel at_io ms x nl w,
    w_errno w <> ETIMEDOUT -> (nl <= total)%nat ->
    errno_of (loop fuel at_io ms x nl w) = ETIMEDOUT ->
    exists k, r_rc (loop fuel at_io ms x nl w) = Ret k /\ (k < total)%nat.
  Proof.
    unfold errno_of.
    induction fuel as [|f IH]; intros at_io ms x nl w He Hle; cbn [FdModel.loop]; [cbn; contradiction|].
    destruct at_io; cbn [negb].
    - destruct (pop_io w) as [e w1] eqn:Hp. apply pop_io_errno in Hp.
      assert (He1 : w_errno w1 <> ETIMEDOUT) by (rewrite Hp; exact He).
      destruct e as [k| | | |].
      + destruct (xfer x nl k) as [[x' c]|].
        * destruct (ms =? 0); [cbn; contradiction|]. apply IH; [exact He1|lia].
        * apply IH; [cbn; discriminate|lia].
      + destruct zero_is_eof; [cbn; contradiction|]. destruct (ms =? 0); [cbn; contradiction|].
        apply IH; [exact He1|lia].
      + apply IH; [cbn; discriminate|lia].
      + apply IH; [cbn; discriminate|lia].
      + cbn; discriminate.
    - destruct (nl =? 0)%nat eqn:Hnl; [cbn; contradiction|].
      destruct (sys_poll (poll_timeout when (w_clock w)) w) as [r w1] eqn:Hp.
      pose proof (sys_poll_errno _ _ _ _ Hp He) as He1.
      destruct r as [hup nval err| |e|].
      + destruct (check_hup && hup); [cbn; contradiction|]. destruct nval; [cbn; discriminate|].
        destruct err; [cbn; discriminate|]. apply IH; [exact He1|lia].
      + intros _. cbn. exists (total - nl)%nat. split; [reflexivity|lia].
      + destruct e; try (cbn; contradiction); (apply IH; [exact He1|lia]).
      + cbn; contradiction.
  Qed.
End EngineErrno.

Lemma run_timedout (X : Type) ch ze (xfer : X -> nat -> nat -> option (X * nat)) bump bbb when total fuel skip (x : X) w :
  w_errno w <> ETIMEDOUT ->
  errno_of (run X ch ze xfer bump bbb when total fuel skip x w) = ETIMEDOUT ->
  exists k, r_rc (run X ch ze xfer bump bbb when total fuel skip x w) = Ret k /\ (k < total)%nat.
Proof. intros He. unfold run. destruct (skip && (0 <? total)%nat); apply loop_timedout; auto. Qed.

(* ================================================================== the source's timeout function on the probe grid *)
Definition table_row_ok (row : Z * Z * Z * Z) : bool :=
  let '(ws, wu, c, res) := row in poll_timeout (Some (ws, wu)) c =? res.

Lemma timeout_table_sweep : forallb table_row_ok timeout_table = true.
Proof. vm_compute. reflexivity. Qed.

Lemma timeout_table_agrees : forall ws wu c res, In (ws, wu, c, res) timeout_table ->
  poll_timeout (Some (ws, wu)) c = res.
Proof.
  intros ws wu c res Hin. pose proof (proj1 (forallb_forall table_row_ok timeout_table) timeout_table_sweep _ Hin) as H.
  unfold table_row_ok in H. lia.
Qed.

Lemma timeout_consts_agree :
  poll_timeout None 0 = timeout_null /\ poll_timeout (Some (0, 0)) 1700000000000005 = timeout_zero_when.
Proof. vm_compute. split; reflexivity. Qed.

(* ================================================================== the three functions: what Properties_FD states *)
(* ---- write_iov *)
Lemma write_iov_prefix bufs oom when skip t0 ps ios :
  prefix_of (wv_out (r_x (fd_timed_write_iov bufs oom when skip t0 ps ios))) (concat bufs).
Proof.
  pose proof (write_iov_spec_holds bufs oom when skip t0 ps ios) as H. unfold write_iov_spec in H.
  destruct bufs as [|b bs].
  - destruct H as [_ ->]. exists []. reflexivity.
  - destruct oom.
    + destruct H as [_ ->]. exists (concat (b :: bs)). reflexivity.
    + apply H.
Qed.

Lemma write_iov_count bufs oom when skip t0 ps ios k :
  r_rc (fd_timed_write_iov bufs oom when skip t0 ps ios) = Ret k ->
  length (wv_out (r_x (fd_timed_write_iov bufs oom when skip t0 ps ios))) = k /\ (k <= length (concat bufs))%nat.
Proof.
  pose proof (write_iov_spec_holds bufs oom when skip t0 ps ios) as H. unfold write_iov_spec in H.
  intros Hrc. destruct bufs as [|b bs]; [destruct H as [H _]; congruence|].
  destruct oom; [destruct H as [H _]; congruence|].
  destruct H as [_ H]. rewrite Hrc in H. exact H.
Qed.

Lemma write_iov_full bufs oom when skip t0 ps ios :
  r_rc (fd_timed_write_iov bufs oom when skip t0 ps ios) = Ret (length (concat bufs)) ->
  wv_out (r_x (fd_timed_write_iov bufs oom when skip t0 ps ios)) = concat bufs.
Proof.
  intros Hrc. apply prefix_full; [apply write_iov_prefix|]. now apply write_iov_count in Hrc.
Qed.

Lemma write_iov_full_conv bufs when skip t0 ps ios : bufs <> [] ->
  wv_out (r_x (fd_timed_write_iov bufs false when skip t0 ps ios)) = concat bufs ->
  r_rc (fd_timed_write_iov bufs false when skip t0 ps ios) = Ret (length (concat bufs)).
Proof.
  pose proof (write_iov_spec_holds bufs false when skip t0 ps ios) as H. unfold write_iov_spec in H.
  intros Hne Hout. destruct bufs as [|b bs]; [contradiction|]. destruct H as [_ H]. rewrite Hout in H.
  destruct (r_rc _) as [k| | |]; [destruct H; congruence|lia|lia|contradiction].
Qed.

Lemma write_iov_accepted bufs oom when skip t0 ps ios :
  accepted (fd_timed_write_iov bufs oom when skip t0 ps ios) (length (concat bufs)) = true ->
  wv_out (r_x (fd_timed_write_iov bufs oom when skip t0 ps ios)) = concat bufs.
Proof.
  unfold accepted. intros H. apply write_iov_full.
  destruct (r_rc _) as [k| | |]; try discriminate.
  destruct (w_errno _); try discriminate; f_equal; lia.
Qed.

Lemma write_iov_fuel bufs oom when skip t0 ps ios : r_rc (fd_timed_write_iov bufs oom when skip t0 ps ios) <> NoFuel.
Proof.
  unfold fd_timed_write_iov. destruct bufs; [discriminate|]. destruct oom; [discriminate|]. apply run_fuel.
Qed.

Lemma write_iov_timedout bufs oom when skip t0 ps ios :
  errno_of (fd_timed_write_iov bufs oom when skip t0 ps ios) = ETIMEDOUT ->
  exists k, r_rc (fd_timed_write_iov bufs oom when skip t0 ps ios) = Ret k /\ (k < length (concat bufs))%nat.
Proof.
  unfold fd_timed_write_iov. destruct bufs as [|b bs]; [cbn; discriminate|]. destruct oom; [cbn; discriminate|].
  rewrite iov_total_init. apply run_timedout. cbn. discriminate.
Qed.

Lemma write_iov_deadline bufs oom wv skip t0 ps ios Q :
  valid_when wv -> in_range wv t0 -> 0 <= Q -> Forall (late_within Q) ps ->
  t0 <= clock_of (fd_timed_write_iov bufs oom (Some wv) skip t0 ps ios) <= Z.max t0 (deadline_us wv + 1998) + Q.
Proof.
  intros Hv Hr HQ HF. unfold fd_timed_write_iov. destruct bufs; [unfold clock_of; cbn; lia|].
  destruct oom; [unfold clock_of; cbn; lia|].
  apply run_clock; auto; [apply deadline_window; assumption|cbn; lia].
Qed.

Lemma write_iov_nonblocking bufs oom skip t0 ps ios Q : 0 <= Q -> Forall (late_within Q) ps ->
  t0 <= clock_of (fd_timed_write_iov bufs oom (Some (0, 0)) skip t0 ps ios) <= t0 + Q.
Proof.
  intros HQ HF. unfold fd_timed_write_iov. destruct bufs; [unfold clock_of; cbn; lia|].
  destruct oom; [unfold clock_of; cbn; lia|].
  apply run_clock; auto; [intros c Hc; cbn; lia|cbn; lia].
Qed.

Lemma write_iov_polls bufs oom when skip t0 ps ios :
  Forall (fun p => snd p = poll_timeout when (fst p)) (polls_of (fd_timed_write_iov bufs oom when skip t0 ps ios)).
Proof.
  unfold fd_timed_write_iov. destruct bufs; [constructor|]. destruct oom; [constructor|]. apply run_trace. reflexivity.
Qed.

Lemma write_iov_err_final bufs oom when skip t0 ps ios i :
  nth_error ios i = Some Err -> (S i < nio_of (fd_timed_write_iov bufs oom when skip t0 ps ios))%nat -> False.
Proof.
  unfold fd_timed_write_iov. destruct bufs; [unfold nio_of; cbn; lia|]. destruct oom; [unfold nio_of; cbn; lia|].
  intros Hn. eapply run_io_final; [reflexivity|exact Hn|left; reflexivity].
Qed.

Lemma write_iov_benign bufs when skip t0 ps ios : bufs <> [] -> poll_timeout when t0 <> 0 ->
  Forall (benign_poll when) ps -> Forall benign_io ios ->
  let r := fd_timed_write_iov bufs false when skip t0 ps ios in
  exhausted r = true \/ (r_rc r = Ret (length (concat bufs)) /\ wv_out (r_x r) = concat bufs).
Proof.
  intros Hne Hnz HP HI r.
  assert (H : exhausted r = true \/ r_rc r = Ret (length (concat bufs))).
  { subst r. unfold fd_timed_write_iov. destruct bufs as [|b bs]; [contradiction|].
    rewrite iov_total_init.
    match goal with |- context [run ?X ?a ?b ?c ?d ?e ?f ?g ?h ?i ?j ?k] =>
      destruct (run_benign X a b c d e f g h i j k Hnz HP HI) as [Hf | [He | Hr]];
        [exfalso; revert Hf; apply run_fuel|left; exact He|right; exact Hr] end. }
  destruct H as [H|H]; [left; exact H|right]. split; [exact H|]. subst r. now apply write_iov_full.
Qed.

(* ---- write_n *)
Lemma write_n_prefix buf when skip t0 ps ios :
  prefix_of (wn_out (r_x (fd_timed_write_n buf when skip t0 ps ios))) buf.
Proof. apply (write_n_spec buf when skip t0 ps ios). Qed.

Lemma write_n_count buf when skip t0 ps ios k : r_rc (fd_timed_write_n buf when skip t0 ps ios) = Ret k ->
  length (wn_out (r_x (fd_timed_write_n buf when skip t0 ps ios))) = k /\ (k <= length buf)%nat.
Proof. intros Hrc. pose proof (write_n_spec buf when skip t0 ps ios) as [_ H]. rewrite Hrc in H. exact H. Qed.

Lemma write_n_full buf when skip t0 ps ios : r_rc (fd_timed_write_n buf when skip t0 ps ios) = Ret (length buf) ->
  wn_out (r_x (fd_timed_write_n buf when skip t0 ps ios)) = buf.
Proof. intros Hrc. apply prefix_full; [apply write_n_prefix|]. now apply write_n_count in Hrc. Qed.

Lemma write_n_deadline buf wv skip t0 ps ios Q :
  valid_when wv -> in_range wv t0 -> 0 <= Q -> Forall (late_within Q) ps ->
  t0 <= clock_of (fd_timed_write_n buf (Some wv) skip t0 ps ios) <= Z.max t0 (deadline_us wv + 1998) + Q.
Proof.
  intros Hv Hr HQ HF. unfold fd_timed_write_n.
  apply run_clock; auto; [apply deadline_window; assumption|cbn; lia].
Qed.

(* ---- read_n *)
Lemma read_n_conserves n sent when skip t0 ps ios :
  let r := fd_timed_read_n n sent when skip t0 ps ios in rd_buf (r_x r) ++ rd_peer (r_x r) = sent.
Proof. apply (read_n_spec n sent when skip t0 ps ios). Qed.

Lemma read_n_count n sent when skip t0 ps ios k : r_rc (fd_timed_read_n n sent when skip t0 ps ios) = Ret k ->
  (k <= n)%nat /\ rd_buf (r_x (fd_timed_read_n n sent when skip t0 ps ios)) = firstn k sent.
Proof.
  intros Hrc. pose proof (read_n_spec n sent when skip t0 ps ios) as [Hs H]. rewrite Hrc in H.
  destruct H as [Hl Hk]. split; [exact Hk|]. rewrite <- Hl. apply prefix_firstn. eexists; exact Hs.
Qed.

Lemma read_n_short n sent when skip t0 ps ios : 
  (forall k, r_rc (fd_timed_read_n n sent when skip t0 ps ios) <> Ret k) ->
  (length (rd_buf (r_x (fd_timed_read_n n sent when skip t0 ps ios))) < n)%nat /\
  prefix_of (rd_buf (r_x (fd_timed_read_n n sent when skip t0 ps ios))) sent.
Proof.
  intros Hrc. pose proof (read_n_spec n sent when skip t0 ps ios) as [Hs H].
  split; [|eexists; exact Hs]. destruct (r_rc _) as [k| | |]; [exfalso; eapply Hrc; reflexivity|exact H|exact H|contradiction].
Qed.

Lemma read_n_fuel n sent when skip t0 ps ios : r_rc (fd_timed_read_n n sent when skip t0 ps ios) <> NoFuel.
Proof. apply run_fuel. Qed.

Lemma write_n_fuel buf when skip t0 ps ios : r_rc (fd_timed_write_n buf when skip t0 ps ios) <> NoFuel.
Proof. apply run_fuel. Qed.

Lemma read_n_accepted n sent when skip t0 ps ios :
  accepted (fd_timed_read_n n sent when skip t0 ps ios) n = true ->
  rd_buf (r_x (fd_timed_read_n n sent when skip t0 ps ios)) = firstn n sent /\ (n <= length sent)%nat.
Proof.
  unfold accepted. intros H.
  destruct (r_rc (fd_timed_read_n n sent when skip t0 ps ios)) as [k| | |] eqn:Hrc; try discriminate.
  assert (k = n) by (destruct (w_errno _); try discriminate; lia). subst k.
  pose proof (read_n_spec n sent when skip t0 ps ios) as [Hs Hsp]. rewrite Hrc in Hsp. destruct Hsp as [Hl _].
  apply read_n_count in Hrc. destruct Hrc as [_ Hb]. split; [exact Hb|].
  rewrite <- Hs, app_length. lia.
Qed.

(* m_msg_recv: header, then body from what the socket still holds, both accepted: exactly the first
   hn + bn bytes the peer sent, in order *)
Lemma read_two_stage hn bn sent when sk1 sk2 t0 t1 ps1 ios1 ps2 ios2 :
  let r1 := fd_timed_read_n hn sent when sk1 t0 ps1 ios1 in
  let r2 := fd_timed_read_n bn (rd_peer (r_x r1)) when sk2 t1 ps2 ios2 in
  accepted r1 hn = true -> accepted r2 bn = true ->
  rd_buf (r_x r1) ++ rd_buf (r_x r2) = firstn (hn + bn) sent /\ (hn + bn <= length sent)%nat.
Proof.
  intros r1 r2 H1 H2. subst r1 r2.
  pose proof (read_n_conserves hn sent when sk1 t0 ps1 ios1) as Hc. cbv zeta in Hc.
  apply read_n_accepted in H1. apply read_n_accepted in H2. destruct H1 as [H1 L1]. destruct H2 as [H2 L2].
  set (r1 := fd_timed_read_n hn sent when sk1 t0 ps1 ios1) in *.
  rewrite H2. rewrite H1 in Hc |- *.
  assert (Hp : rd_peer (r_x r1) = skipn hn sent).
  { apply (app_inv_head (firstn hn sent)). rewrite Hc. symmetry. apply firstn_skipn. }
  rewrite Hp in L2 |- *. rewrite skipn_length in L2. split; [|lia].
  symmetry. apply firstn_add.
Qed.

Lemma read_n_timedout n sent when skip t0 ps ios :
  errno_of (fd_timed_read_n n sent when skip t0 ps ios) = ETIMEDOUT ->
  exists k, r_rc (fd_timed_read_n n sent when skip t0 ps ios) = Ret k /\ (k < n)%nat.
Proof. apply run_timedout. cbn. discriminate. Qed.

Lemma read_n_deadline n sent wv skip t0 ps ios Q :
  valid_when wv -> in_range wv t0 -> 0 <= Q -> Forall (late_within Q) ps ->
  t0 <= clock_of (fd_timed_read_n n sent (Some wv) skip t0 ps ios) <= Z.max t0 (deadline_us wv + 1998) + Q.
Proof.
  intros Hv Hr HQ HF. unfold fd_timed_read_n.
  apply run_clock; auto; [apply deadline_window; assumption|cbn; lia].
Qed.

Lemma read_n_polls n sent when skip t0 ps ios :
  Forall (fun p => snd p = poll_timeout when (fst p)) (polls_of (fd_timed_read_n n sent when skip t0 ps ios)).
Proof. apply run_trace. reflexivity. Qed.

(* end of file or an error is the last read() the call makes *)
Lemma read_n_eof_final n sent when skip t0 ps ios i e : nth_error ios i = Some e -> e = Zero \/ e = Err ->
  (S i < nio_of (fd_timed_read_n n sent when skip t0 ps ios))%nat -> False.
Proof.
  intros Hn He. eapply run_io_final; [reflexivity|exact Hn|].
  destruct He as [-> | ->]; [right; split; reflexivity|left; reflexivity].
Qed.

Lemma read_n_benign n sent when skip t0 ps ios : poll_timeout when t0 <> 0 ->
  Forall (benign_poll when) ps -> Forall benign_io ios ->
  let r := fd_timed_read_n n sent when skip t0 ps ios in
  exhausted r = true \/ (r_rc r = Ret n /\ rd_buf (r_x r) = firstn n sent).
Proof.
  intros Hnz HP HI r. subst r. unfold fd_timed_read_n at 1 2.
  match goal with |- context [run ?X ?a ?b ?c ?d ?e ?f ?g ?h ?i ?j ?k] =>
    destruct (run_benign X a b c d e f g h i j k Hnz HP HI) as [Hf | [He | Hr]] end.
  - exfalso. revert Hf. apply run_fuel.
  - left. exact He.
  - right. split; [exact Hr|]. now apply read_n_count in Hr.
Qed.

(* m_msg.c arms one absolute deadline per message: now + MUNGE_SOCKET_TIMEOUT_MSECS *)
Definition msg_when (t : Z) : Z * Z :=
  ((t + socket_timeout_msecs * 1000) / 1000000, (t + socket_timeout_msecs * 1000) mod 1000000).

Lemma msg_when_ok t : 0 <= t -> valid_when (msg_when t) /\ in_range (msg_when t) t /\
  deadline_us (msg_when t) = t + socket_timeout_msecs * 1000.
Proof.
  intros Ht. unfold valid_when, in_range, deadline_us, msg_when. cbn [fst snd].
  assert (Hs : 0 < socket_timeout_msecs * 1000 <= 2000000000000) by (vm_compute; split; [reflexivity|discriminate]).
  set (s := socket_timeout_msecs * 1000) in *. clearbody s.
  set (q := (t + s) / 1000000). set (m := (t + s) mod 1000000).
  assert (Hqm : t + s = 1000000 * q + m /\ 0 <= m < 1000000) by (subst q m; lia).
  clearbody q m. split; [split; lia|]. split; [split; lia|lia].
Qed.

(* ================================================================== a poll that times out ends the call, with ETIMEDOUT *)
Lemma sys_poll_step ms w r w1 : sys_poll ms w = (r, w1) ->
  w_np w1 = S (w_np w) /\
  match w_ps w with
  | [] => w_ps w1 = []
  | e :: ps => w_ps w1 = ps /\ (forall late, e = PTimeout late -> 0 <= ms -> r = PTimedOut)
  end.
Proof.
  unfold sys_poll. destruct (w_ps w) as [|e ps].
  - destruct (do_poll ms (w_clock w) (PTimeout 0)) as [r' c]. intros H; inversion H; subst; cbn; auto.
  - destruct (do_poll ms (w_clock w) e) as [r' c] eqn:E. intros H; inversion H; subst r w1; clear H. cbn.
    split; [reflexivity|]. split; [reflexivity|]. intros late -> Hms. unfold do_poll in E.
    destruct (ms <? 0) eqn:El; [lia|]. inversion E; reflexivity.
Qed.

Lemma pop_io_np w e w1 : pop_io w = (e, w1) -> w_np w1 = w_np w.
Proof. unfold pop_io. destruct (w_ios w); intros H; inversion H; subst; reflexivity. Qed.

Section EnginePollFinal.
  Variable X : Type.
  Variables (check_hup zero_is_eof : bool) (xfer : X -> nat -> nat -> option (X * nat))
            (bump : X -> nat -> X) (bbb : bool) (wv : Z * Z) (total : nat).
  Notation loop := (FdModel.loop X check_hup zero_is_eof xfer bump bbb (Some wv) total).

  Definition poll_final (w : world) (r : result X) : Prop :=
    exists c, w_np (r_w r) = (w_np w + c)%nat /\
      forall i late, nth_error (w_ps w) i = Some (PTimeout late) -> (i < c)%nat ->
        S i = c /\ errno_of r = ETIMEDOUT.

  Lemma poll_final_stop w (r : result X) n : w_np (r_w r) = (w_np w + n)%nat -> (n <= 1)%nat ->
    (forall late, nth_error (w_ps w) 0 = Some (PTimeout late) -> n = 1%nat -> errno_of r = ETIMEDOUT) ->
    poll_final w r.
  Proof.
    intros Hn Hle Hz. exists n. split; [exact Hn|]. intros i late Hnth Hlt.
    assert (i = 0%nat) by lia. subst i. assert (n = 1%nat) by lia. split; [lia|]. eapply Hz; eauto.
  Qed.

  Lemma loop_poll_final : forall fuel at_io ms x nl w, poll_final w (loop fuel at_io ms x nl w).
  Proof.
    induction fuel as [|f IH]; intros at_io ms x nl w; cbn [FdModel.loop].
    - apply (poll_final_stop w _ 0%nat); [cbn; lia|lia|intros; lia].
    - destruct at_io; cbn [negb].
      + destruct (pop_io w) as [e w1] eqn:Hp. pose proof (pop_io_np _ _ _ Hp) as Hnp. apply pop_io_facts in Hp.
        destruct Hp as (Hps & _).
        assert (Hstop : forall r : result X, w_np (r_w r) = w_np w1 -> poll_final w r).
        { intros r Hr. apply (poll_final_stop w r 0%nat); [lia|lia|intros; lia]. }
        assert (Hgo : forall ms' x' nl' w', w_np w' = w_np w1 -> w_ps w' = w_ps w1 ->
                  poll_final w (loop f false ms' x' nl' w')).
        { intros ms' x' nl' w' Hw Hps'. destruct (IH false ms' x' nl' w') as (c & Hc & Hall).
          exists c. split; [lia|]. intros i late Hnth. apply (Hall i late). rewrite Hps', Hps. exact Hnth. }
        destruct e as [k| | | |].
        * destruct (xfer x nl k) as [[x' c]|].
          -- destruct (ms =? 0); [apply Hstop; reflexivity|]. apply Hgo; reflexivity.
          -- apply Hgo; reflexivity.
        * destruct zero_is_eof; [apply Hstop; reflexivity|]. destruct (ms =? 0); [apply Hstop; reflexivity|].
          apply Hgo; reflexivity.
        * apply Hgo; reflexivity.
        * apply Hgo; reflexivity.
        * apply Hstop; reflexivity.
      + destruct (nl =? 0)%nat.
        { apply (poll_final_stop w _ 0%nat); [cbn; lia|lia|intros; lia]. }
        pose proof (poll_timeout_nonneg wv (w_clock w)) as Hms.
        destruct (sys_poll (poll_timeout (Some wv) (w_clock w)) w) as [r w1] eqn:Hp.
        destruct (sys_poll_step _ _ _ _ Hp) as [Hnp Hstep].
        assert (Hnot : forall late, nth_error (w_ps w) 0 = Some (PTimeout late) -> r = PTimedOut).
        { intros late Hn. destruct (w_ps w) as [|e ps]; [discriminate|]. cbn in Hn. inversion Hn; subst e.
          destruct Hstep as [_ Hs]. eapply Hs; eauto. }
        assert (Hstop : forall res : result X, w_np (r_w res) = w_np w1 -> r <> PTimedOut -> poll_final w res).
        { intros res Hr Hne. apply (poll_final_stop w res 1%nat); [lia|lia|].
          intros late Hn _. exfalso. apply Hne. eapply Hnot; eauto. }
        assert (Hgo : forall at_io' ms' x' nl', r <> PTimedOut -> poll_final w (loop f at_io' ms' x' nl' w1)).
        { intros at_io' ms' x' nl' Hne. destruct (IH at_io' ms' x' nl' w1) as (c & Hc & Hall).
          exists (S c). split; [lia|]. intros i late Hnth Hlt.
          destruct i as [|j]; [exfalso; apply Hne; eapply Hnot; eauto|].
          destruct (w_ps w) as [|e ps]; [discriminate|]. cbn in Hnth. destruct Hstep as [Hps1 _].
          destruct (Hall j late) as [Hj He]; [rewrite Hps1; exact Hnth|lia|]. split; [lia|exact He]. }
        destruct r as [hup nval err| |e|].
        * destruct (check_hup && hup); [apply Hstop; [reflexivity|discriminate]|].
          destruct nval; [apply Hstop; [reflexivity|discriminate]|].
          destruct err; [apply Hstop; [reflexivity|discriminate]|]. apply Hgo. discriminate.
        * apply (poll_final_stop w _ 1%nat); [cbn; lia|lia|]. intros; reflexivity.
        * destruct e; try (apply Hstop; [reflexivity|discriminate]); (apply Hgo; discriminate).
        * apply Hstop; [reflexivity|discriminate].
  Qed.
End EnginePollFinal.

Lemma run_poll_final (X : Type) ch ze (xfer : X -> nat -> nat -> option (X * nat)) bump bbb wv total fuel skip (x : X) w i late :
  w_np w = 0%nat -> nth_error (w_ps w) i = Some (PTimeout late) ->
  (i < npolls_of (run X ch ze xfer bump bbb (Some wv) total fuel skip x w))%nat ->
  S i = npolls_of (run X ch ze xfer bump bbb (Some wv) total fuel skip x w) /\
  errno_of (run X ch ze xfer bump bbb (Some wv) total fuel skip x w) = ETIMEDOUT.
Proof.
  intros Hw Hn. unfold npolls_of, run.
  destruct (skip && (0 <? total)%nat);
    match goal with |- context [FdModel.loop ?X ?a ?b ?c ?d ?e ?f ?g ?h ?i ?j ?k ?l ?m] =>
      destruct (loop_poll_final X a b c d e wv g h i j k l m) as (c0 & Hc & Hall) end;
    rewrite Hc, Hw; cbn [Nat.add]; intros Hlt; eapply Hall; eauto.
Qed.

(* with a deadline, a poll that reports a timeout is the last system call and the call says ETIMEDOUT *)
Lemma timeout_final n sent bufs oom wv skip t0 ps ios i late : nth_error ps i = Some (PTimeout late) ->
  ((i < npolls_of (fd_timed_read_n n sent (Some wv) skip t0 ps ios))%nat ->
   S i = npolls_of (fd_timed_read_n n sent (Some wv) skip t0 ps ios) /\
   errno_of (fd_timed_read_n n sent (Some wv) skip t0 ps ios) = ETIMEDOUT) /\
  ((i < npolls_of (fd_timed_write_iov bufs oom (Some wv) skip t0 ps ios))%nat ->
   S i = npolls_of (fd_timed_write_iov bufs oom (Some wv) skip t0 ps ios) /\
   errno_of (fd_timed_write_iov bufs oom (Some wv) skip t0 ps ios) = ETIMEDOUT).
Proof.
  intros Hn. split.
  - unfold fd_timed_read_n. apply (run_poll_final _ _ _ _ _ _ _ _ _ _ _ _ i late); [reflexivity|exact Hn].
  - unfold fd_timed_write_iov. destruct bufs; [unfold npolls_of; cbn; lia|].
    destruct oom; [unfold npolls_of; cbn; lia|]. apply (run_poll_final _ _ _ _ _ _ _ _ _ _ _ _ i late); [reflexivity|exact Hn].
Qed.

(* ================================================================== bundles stated in Properties_FD *)
Lemma write_n_all buf when skip t0 ps ios :
  let r := fd_timed_write_n buf when skip t0 ps ios in
  prefix_of (wn_out (r_x r)) buf /\
  (forall k, r_rc r = Ret k -> length (wn_out (r_x r)) = k /\ (k <= length buf)%nat) /\
  (r_rc r = Ret (length buf) -> wn_out (r_x r) = buf).
Proof.
  cbv zeta. split; [apply write_n_prefix|]. split; [intros k; apply write_n_count|apply write_n_full].
Qed.

Lemma final_events n sent bufs oom when skip t0 ps ios i e : nth_error ios i = Some e ->
  (e = Zero \/ e = Err -> (S i < nio_of (fd_timed_read_n n sent when skip t0 ps ios))%nat -> False) /\
  (e = Err -> (S i < nio_of (fd_timed_write_iov bufs oom when skip t0 ps ios))%nat -> False).
Proof.
  intros Hn. split.
  - intros He. eapply read_n_eof_final; eauto.
  - intros ->. eapply write_iov_err_final; eauto.
Qed.

Lemma polls_all n sent bufs oom buf when skip t0 ps ios :
  let asked := Forall (fun p : Z * Z => snd p = poll_timeout when (fst p)) in
  asked (polls_of (fd_timed_read_n n sent when skip t0 ps ios)) /\
  asked (polls_of (fd_timed_write_iov bufs oom when skip t0 ps ios)) /\
  asked (polls_of (fd_timed_write_n buf when skip t0 ps ios)).
Proof.
  cbv zeta. split; [apply read_n_polls|]. split; [apply write_iov_polls|]. apply run_trace. reflexivity.
Qed.

Lemma deadline_all n sent bufs oom buf wv skip t0 ps ios Q :
  valid_when wv -> in_range wv t0 -> 0 <= Q -> Forall (late_within Q) ps ->
  let bound := Z.max t0 (deadline_us wv + 1998) + Q in
  t0 <= clock_of (fd_timed_read_n n sent (Some wv) skip t0 ps ios) <= bound /\
  t0 <= clock_of (fd_timed_write_iov bufs oom (Some wv) skip t0 ps ios) <= bound /\
  t0 <= clock_of (fd_timed_write_n buf (Some wv) skip t0 ps ios) <= bound.
Proof.
  intros Hv Hr HQ HF. cbv zeta. split; [now apply read_n_deadline|]. split; [now apply write_iov_deadline|].
  now apply write_n_deadline.
Qed.

Lemma timedout_all n sent bufs oom when skip t0 ps ios :
  (errno_of (fd_timed_read_n n sent when skip t0 ps ios) = ETIMEDOUT ->
   exists k, r_rc (fd_timed_read_n n sent when skip t0 ps ios) = Ret k /\ (k < n)%nat) /\
  (errno_of (fd_timed_write_iov bufs oom when skip t0 ps ios) = ETIMEDOUT ->
   exists k, r_rc (fd_timed_write_iov bufs oom when skip t0 ps ios) = Ret k /\ (k < length (concat bufs))%nat).
Proof. split; [apply read_n_timedout|apply write_iov_timedout]. Qed.

Lemma msg_stall_bound n sent skip t0 ps ios Q : 0 <= t0 -> 0 <= Q -> Forall (late_within Q) ps ->
  clock_of (fd_timed_read_n n sent (Some (msg_when t0)) skip t0 ps ios)
    <= t0 + socket_timeout_msecs * 1000 + 1998 + Q.
Proof.
  intros Ht HQ HF.
  destruct (msg_when_ok t0 Ht) as (Hv & Hr & Hd).
  pose proof (read_n_deadline n sent (msg_when t0) skip t0 ps ios Q Hv Hr HQ HF) as H.
  rewrite Hd in H. assert (0 <= socket_timeout_msecs) by (vm_compute; discriminate). lia.
Qed.

Lemma timeout_source_all :
  (forall ws wu c res, In (ws, wu, c, res) timeout_table -> poll_timeout (Some (ws, wu)) c = res) /\
  poll_timeout None 0 = timeout_null /\ poll_timeout (Some (0, 0)) 1700000000000005 = timeout_zero_when.
Proof. split; [exact timeout_table_agrees|exact timeout_consts_agree]. Qed.

Lemma benign_all n sent bufs when skip t0 ps ios : bufs <> [] ->
  poll_timeout when t0 <> 0 -> Forall (benign_poll when) ps -> Forall benign_io ios ->
  (let r := fd_timed_write_iov bufs false when skip t0 ps ios in
   exhausted r = true \/ (r_rc r = Ret (length (concat bufs)) /\ wv_out (r_x r) = concat bufs)) /\
  (let r := fd_timed_read_n n sent when skip t0 ps ios in
   exhausted r = true \/ (r_rc r = Ret n /\ rd_buf (r_x r) = firstn n sent)).
Proof. intros Hne Hnz HP HI. split; [now apply write_iov_benign|now apply read_n_benign]. Qed.

Lemma terminate_all n sent bufs oom buf when skip t0 ps ios :
  r_rc (fd_timed_read_n n sent when skip t0 ps ios) <> NoFuel /\
  r_rc (fd_timed_write_iov bufs oom when skip t0 ps ios) <> NoFuel /\
  r_rc (fd_timed_write_n buf when skip t0 ps ios) <> NoFuel.
Proof. split; [apply read_n_fuel|]. split; [apply write_iov_fuel|apply write_n_fuel]. Qed.
