(* Properties_C02.v — statements only.  Any altered or foreign-key credential is rejected and discloses nothing.
   Proved as a reduction: no cryptographic strength is assumed; accepting a body nobody emitted EXHIBITS a valid
   (message, tag) pair the key holder never produced, i.e. an HMAC forgery under the MAC subkey. *)
From Coq Require Import List NArith ZArith Bool String.
From RecordUpdate Require Import RecordSet.
From MV Require Import Bytes Base64Model CredModel CredProofs CredRoundtrip CredForgery.
From MV.gen Require Import GenCred.
Import ListNotations RecordSetNotations.
Local Open Scope N_scope.

Section C02.
Variable hmac : N -> bytes -> bytes -> bytes.
Variable sha1 : bytes -> bytes.
Variable blk_enc blk_dec : N -> bytes -> bytes -> bytes.
Variable zdecomp : N -> bytes -> N -> option bytes.

(* (1) Whatever string is presented, by whichever client, at whatever time and replay state: if the reply is
   anything other than a hard error (i.e. success, expired, rewound or replayed) then the string's body parses
   and its tag IS the HMAC, under this daemon's MAC subkey, of its own outer header and decrypted interior. *)
Theorem C02_accept_implies_valid_mac :
  forall cf mem rs m pu pg now r rs' k,
  m_err m = e_success ->
  dec_process hmac sha1 blk_dec zdecomp cf mem rs m pu pg now = (r, rs', k) ->
  hard_code (m_err r) = false ->
  exists body o p,
    dec_unarmor (m_data m) = inl body /\
    dec_unpack_outer (m <| m_time0 := 0 |> <| m_time1 := u32 now |> <| m_client_uid := pu |> <| m_client_gid := pg |>
                        <| m_data := [] |> <| m_data_len := 0 |>) body = inr o /\
    dec_decrypt_mac hmac sha1 blk_dec cf o = inr p /\
    hmac (m_mac (oo_msg o)) (mac_subkey sha1 (cf_key cf)) (oo_outer o ++ p) = oo_tag o.
Proof. exact (accept_implies_valid_mac hmac sha1 blk_dec zdecomp). Qed.

(* (2) In every other case the reply discloses nothing and the replay state is untouched. *)
Theorem C02_reject_discloses_nothing :
  forall cf mem rs m pu pg now r rs' k,
  m_err m = e_success ->
  dec_process hmac sha1 blk_dec zdecomp cf mem rs m pu pg now = (r, rs', k) ->
  hard_code (m_err r) = true ->
  is_reset r /\ rs' = rs /\ k = None.
Proof. exact (hard_error_reply_is_reset hmac sha1 blk_dec zdecomp). Qed.

(* (3) The decoded body is a function of (outer header, tag, authenticated interior): every byte of the body is
   inside the outer header, is the tag, or is ciphertext whose plaintext is inside the MAC input.  Hence two
   different bodies that both pass the MAC check carry different (outer, tag, interior) triples: a body that
   differs from every emitted body — a flipped bit anywhere, a truncation, an extension, a splice, a rewritten
   header field — can only be accepted together with a valid MAC on a triple the key holder never MAC'd.
   Premises: the block cipher is a permutation per block (both directions) that preserves the block length. *)
Hypothesis blk_dec_len : forall c k b, cipher_valid c = true -> len b = cipher_blk_size c -> len (blk_dec c k b) = cipher_blk_size c.
Hypothesis blk_enc_dec : forall c k b, cipher_valid c = true -> len b = cipher_blk_size c -> blk_enc c k (blk_dec c k b) = b.

Theorem C02_unemitted_body_means_fresh_mac_pair :
  forall cf m1 m2 b1 b2 o1 o2 p1 p2,
  dec_unpack_outer m1 b1 = inr o1 -> dec_unpack_outer m2 b2 = inr o2 ->
  dec_decrypt_mac hmac sha1 blk_dec cf o1 = inr p1 -> dec_decrypt_mac hmac sha1 blk_dec cf o2 = inr p2 ->
  b1 <> b2 ->
  (oo_outer o1, oo_tag o1, p1) <> (oo_outer o2, oo_tag o2, p2).
Proof. exact (unemitted_body_means_fresh_mac_pair hmac sha1 blk_enc blk_dec blk_dec_len blk_enc_dec). Qed.
End C02.

Print Assumptions C02_accept_implies_valid_mac.
Print Assumptions C02_reject_discloses_nothing.
Print Assumptions C02_unemitted_body_means_fresh_mac_pair.

(* edits confined to the armor (whitespace inside the base64 text) leave the decoded body unchanged: such a
   string is the same credential and is, correctly, accepted — base64 ignores whitespace (C19_accepts_exactly) *)

(* non-vacuity: a garbage body is rejected with a reset reply under toy primitives *)
Example C02_example :
  let '(r, rs', k) := dec_process (fun _ _ _ => []) (fun x => x) (fun _ _ b => b) (fun _ _ _ => None)
                        cf_std (fun _ _ => false) [] (msg0 <| m_data := str "MUNGE:AwAFAAAAAAAAAAAAAAAA:"%string |> <| m_data_len := 27 |>) 7 8 1000 in
  hard_code (m_err r) = true /\ is_reset r /\ rs' = [].
Proof. vm_compute. repeat split; reflexivity. Qed.
