(* StartProofs.v — invariants of StartModel over all schedules, by induction over the schedule. *)
From Coq Require Import List Arith NArith Bool Lia.
From MV.gen Require Import GenStart.
From MV Require Import StartModel.
Import ListNotations.

Ltac inv H := inversion H; subst; clear H.

(* ---- facts about what lock.c asks for (gen/GenStart.v); each breaks when the source changes ---- *)
Lemma f_creat : lock_open_creat = true. Proof. reflexivity. Qed.
Lemma f_excl : lock_open_excl = false. Proof. reflexivity. Qed.
Lemma f_exclusive : lock_type_exclusive && lock_whole_file = true. Proof. reflexivity. Qed.
Lemma f_nonblocking : lock_cmd_nonblocking = true. Proof. reflexivity. Qed.
Lemma f_busy_exits : lock_busy_exits = true. Proof. reflexivity. Qed.
Lemma f_stat_new : stat_ok lock_inode = true. Proof. reflexivity. Qed.
(* random.c: the seed reader returns on an empty / short and on a complete seed file; the seed writer unlinks the
   old file, then creates the new one (O_CREAT, not O_EXCL, mode 0600), creating a missing and renewing an existing one *)
Lemma f_seed_read_returns : seed_read_short_returns = true /\ seed_read_full_returns = true.
Proof. split; reflexivity. Qed.
Lemma f_seed_write_shape : seed_write_unlinks_first = 1%N /\ seed_open_creat = true /\ seed_open_excl = false /\
  seed_create_mode = 384%N /\ seed_write_creates_missing = true /\ seed_write_renews_existing = true.
Proof. repeat split; reflexivity. Qed.
Lemma f_no_unlink_in_lock_create : lock_busy_unlinks = 0%N /\ lock_free_unlinks = 0%N /\ lock_free_exits = false.
Proof. repeat split; reflexivity. Qed.

Lemma upd_same : forall A (f : nat -> A) k v, upd f k v k = v.
Proof. intros; unfold upd; now rewrite Nat.eqb_refl. Qed.
Lemma upd_other : forall A (f : nat -> A) k v x, x <> k -> upd f k v x = f x.
Proof. intros; unfold upd; destruct (Nat.eqb_spec x k); congruence. Qed.

Lemma name_eqb_spec : forall a b, reflect (a = b) (name_eqb a b).
Proof. destruct a, b; cbn; constructor; congruence. Qed.

Ltac eqb_cases :=
  repeat match goal with
  | |- context [Nat.eqb ?a ?b] => destruct (Nat.eqb_spec a b); subst
  | H : context [Nat.eqb ?a ?b] |- _ => destruct (Nat.eqb_spec a b); subst
  | |- context [name_eqb ?a ?b] => destruct (name_eqb_spec a b); subst
  | H : context [name_eqb ?a ?b] |- _ => destruct (name_eqb_spec a b); subst
  end.

(* ---- shape of a transition ---- *)
Lemma step_Step_inv : forall s q s', step s (Step q) = Some s' ->
  startable (procs s q) = true /\
  exists a, nth_error prog (pc (procs s q)) = Some a /\
    ((exists s1 pr1, exec s q (procs s q) a = Cont s1 pr1 /\
        s' = set_proc s1 q (mkProc Running (S (pc (procs s q))) (lockfd pr1) (sockfd pr1)))
     \/ (exists s1, exec s q (procs s q) a = Fail s1 /\ s' = die s1 q Failed)
     \/ (exists s1, exec s q (procs s q) a = Done s1 /\ s' = die s1 q Exited)).
Proof.
  intros s q s' H. unfold step in H.
  destruct (startable (procs s q)); [|discriminate]. split; [reflexivity|].
  destruct (nth_error prog (pc (procs s q))) as [a|]; [|discriminate].
  exists a. split; [reflexivity|].
  destruct (exec s q (procs s q) a) as [s1 pr1|s1|s1|] eqn:E; inv H.
  - left. eauto.
  - right; left. eauto.
  - right; right. eauto.
Qed.

Lemma step_cont : forall s p a s1 pr1, startable (procs s p) = true ->
  nth_error prog (pc (procs s p)) = Some a -> exec s p (procs s p) a = Cont s1 pr1 ->
  step s (Step p) = Some (set_proc s1 p (mkProc Running (S (pc (procs s p))) (lockfd pr1) (sockfd pr1))).
Proof. intros s p a s1 pr1 H1 H2 H3. unfold step. now rewrite H1, H2, H3. Qed.

(* the program, by position *)
Lemma prog_at : forall n a, nth_error prog n = Some a ->
  (n = 0 /\ a = ReadSeed) \/
  (n = 1 /\ a = OpenLock) \/ (n = 2 /\ a = FstatLock) \/ (n = 3 /\ a = SetLk) \/ (n = 4 /\ a = Unlink NSock) \/
  (n = 5 /\ a = Bind) \/ (n = 6 /\ a = Listen) \/ (n = 7 /\ a = Unlink NPid) \/ (n = 8 /\ a = OpenPid) \/
  (n = 9 /\ a = WritePid) \/
  (n = 10 /\ a = Serve) \/ (n = 11 /\ a = Unlink NSock) \/ (n = 12 /\ a = CloseSock) \/ (n = 13 /\ a = Unlink NLock) \/
  (n = 14 /\ a = CloseLock) \/ (n = 15 /\ a = Unlink NSeed) \/ (n = 16 /\ a = OpenSeed) \/ (n = 17 /\ a = WriteSeed) \/
  (n = 18 /\ a = Unlink NPid) \/ (n = 19 /\ a = Exit).
Proof.
  intros n a H.
  do 20 (destruct n as [|n]; [cbn in H; inv H; tauto|]).
  cbn in H. destruct n; discriminate.
Qed.

(* ---- the general invariant: holds on every reachable state, clean stops included ---- *)
Record GInv (s : state) : Prop := {
  g_own : forall i p, lockown s i = Some p ->
            st (procs s p) = Running /\ lockfd (procs s p) = Some i /\ 4 <= pc (procs s p);
  g_lockino : forall i, names s NLock = Some i -> stat_ok (inodes s i) = true;
  g_names_lt : forall n i, names s n = Some i -> i < next s;
  g_fd_lt : forall p i, lockfd (procs s p) = Some i -> i < next s;
  g_fresh : forall p, st (procs s p) = NotStarted ->
            pc (procs s p) = 0 /\ lockfd (procs s p) = None /\ sockfd (procs s p) = None;
  g_run : forall p, st (procs s p) = Running -> 1 <= pc (procs s p) }.

Lemma GInv_init : GInv init.
Proof. constructor; cbn; intros; try discriminate; auto. Qed.

Lemma clear_Some : forall f p i q, clear f p i = Some q -> f i = Some q /\ q <> p.
Proof.
  unfold clear; intros f p i q H. destruct (f i) as [w|]; [|discriminate].
  destruct (Nat.eqb_spec w p); [discriminate|]. inv H. auto.
Qed.

Lemma GInv_die : forall s p how, how <> Running -> how <> NotStarted -> GInv s -> GInv (die s p how).
Proof.
  intros s p how Hr Hn G. destruct G. constructor; cbn; intros.
  - apply clear_Some in H as [H Hne]. apply g_own0 in H. unfold upd. eqb_cases; [congruence|auto].
  - auto.
  - eauto.
  - unfold upd in H. eqb_cases; [discriminate|eauto].
  - unfold upd in *. eqb_cases; cbn in *; [congruence|auto].
  - unfold upd in *. eqb_cases; cbn in *; [congruence|auto].
Qed.

Ltac break_exec H :=
  repeat match type of H with
  | context [match ?x with _ => _ end] => let E := fresh "E" in destruct x eqn:E
  end.

Lemma exec_Fail : forall s q pr a s1, exec s q pr a = Fail s1 -> s1 = s.
Proof. intros s q pr a s1 H. destruct a; cbn in H; break_exec H; now inv H. Qed.
Lemma exec_Done : forall s q pr a s1, exec s q pr a = Done s1 -> s1 = s /\ a = Exit.
Proof. intros s q pr a s1 H. destruct a; cbn in H; break_exec H; inv H. auto. Qed.

Lemma release1_Some : forall f i p x q, release1 f i p x = Some q -> f x = Some q /\ (x = i -> q <> p).
Proof.
  unfold release1; intros f i p x q H. destruct (Nat.eqb_spec x i).
  - destruct (f x) as [w|]; [|discriminate]. destruct (Nat.eqb_spec w p); [discriminate|]. inv H. auto.
  - split; [auto|congruence].
Qed.

Lemma GInv_cont : forall s q a s1 pr1, GInv s -> startable (procs s q) = true ->
  nth_error prog (pc (procs s q)) = Some a -> exec s q (procs s q) a = Cont s1 pr1 ->
  GInv (set_proc s1 q (mkProc Running (S (pc (procs s q))) (lockfd pr1) (sockfd pr1))).
Proof.
  intros s q a s1 pr1 G Hst Hn E.
  assert (Hq0 : pc (procs s q) = 0 -> lockfd (procs s q) = None /\ forall i, lockown s i <> Some q).
  { intros Hz. unfold startable in Hst. destruct (st (procs s q)) eqn:Es; try discriminate.
    - destruct (g_fresh _ G _ Es) as (_ & Hl & _). split; [auto|]. intros i Hi.
      apply (g_own _ G) in Hi. destruct Hi as (Hi & _). congruence.
    - apply (g_run _ G) in Es. lia. }
  destruct G.
  apply prog_at in Hn.
  repeat (destruct Hn as [[Hpc Ha]|Hn]); try destruct Hn as [Hpc Ha]; subst a; rewrite Hpc in *;
    cbn in E; break_exec E; inv E.
  all: constructor; cbn; intros.
  all: try match goal with H : release1 _ _ _ _ = Some _ |- _ => apply release1_Some in H; destruct H as [H ?] end.
  all: unfold upd, updn in *; eqb_cases; cbn in *.
  all: try match goal with H : lockown _ _ = Some _ |- _ =>
         let H' := fresh in pose proof (g_own0 _ _ H) as H'; destruct H' as (? & ? & ?) end.
  all: try solve [ eauto ].
  all: try solve [ exfalso; destruct (Hq0 eq_refl) as [? Hno]; eapply Hno; eassumption ].
  all: try solve [ repeat split; try discriminate; try congruence; try lia; eauto ].
  all: try solve [ repeat match goal with
                   | H : names _ _ = Some _ |- _ => apply g_names_lt0 in H
                   | H : lockfd _ = Some _ |- _ => apply g_fd_lt0 in H
                   end; try lia; exfalso; lia ].
  all: try match goal with H1 : ?x = Some _, H2 : ?x = Some _ |- _ => rewrite H1 in H2; inv H2 end.
  all: repeat match goal with H : Some _ = Some _ |- _ => inv H end.
  all: try solve [ eauto ].
  all: try solve [ repeat match goal with
                   | H : names _ _ = Some _ |- _ => apply g_names_lt0 in H
                   | H : lockfd _ = Some _ |- _ => apply g_fd_lt0 in H
                   end; try lia; exfalso; lia ].
  all: try solve [ repeat split; try discriminate; try congruence; try lia; eauto ].
Qed.

Lemma step_Term_inv : forall s q s', step s (Term q) = Some s' ->
  st (procs s q) = Running /\ pc (procs s q) = serve_pc /\
  s' = set_proc s q (mkProc Running (S (pc (procs s q))) (lockfd (procs s q)) (sockfd (procs s q))).
Proof.
  intros s q s' H. unfold step in H.
  destruct (st (procs s q)); try discriminate.
  destruct (nth_error prog (pc (procs s q))) as [a|] eqn:En; try discriminate.
  destruct a; try discriminate. inv H.
  apply prog_at in En. repeat (destruct En as [[Hpc Ha]|En]); try destruct En as [Hpc Ha]; try discriminate.
  auto.
Qed.

Lemma step_Crash_inv : forall s q s', step s (Crash q) = Some s' ->
  st (procs s q) = Running /\ s' = die s q Killed.
Proof. intros s q s' H. unfold step in H. destruct (st (procs s q)); inv H. auto. Qed.

Lemma GInv_step : forall s l s', GInv s -> step s l = Some s' -> GInv s'.
Proof.
  intros s l s' G H. destruct l as [q|q|q].
  - apply step_Step_inv in H. destruct H as (Hst & a & Hn & [(s1 & pr1 & E & ->)|[(s1 & E & ->)|(s1 & E & ->)]]).
    + eapply GInv_cont; eauto.
    + apply exec_Fail in E. subst. apply GInv_die; auto; discriminate.
    + apply exec_Done in E. destruct E; subst. apply GInv_die; auto; discriminate.
  - apply step_Crash_inv in H. destruct H as [_ ->]. apply GInv_die; auto; discriminate.
  - apply step_Term_inv in H. destruct H as (Es & Hpc & ->).
    destruct G. constructor; cbn; intros; unfold upd in *; eqb_cases; cbn in *;
      try discriminate; eauto.
    destruct (g_own0 _ _ H) as (? & ? & ?). repeat split; auto.
Qed.

Lemma GInv_run : forall sched s s', GInv s -> run s sched = Some s' -> GInv s'.
Proof.
  induction sched as [|l r IH]; cbn; intros s s' G H.
  - now inv H.
  - destruct (step s l) as [s1|] eqn:E; [|discriminate]. eapply IH; [|eassumption]. eapply GInv_step; eauto.
Qed.

(* ---- the invariant of the property's own quantifier: starts and SIGKILLs, no clean stop ---- *)
Record SInv (s : state) : Prop := {
  s_g : GInv s;
  s_pc : forall p, st (procs s p) = Running -> pc (procs s p) <= serve_pc;
  s_fd : forall p, st (procs s p) = Running -> 2 <= pc (procs s p) ->
           exists i, lockfd (procs s p) = Some i /\ names s NLock = Some i;
  s_held : forall p i, st (procs s p) = Running -> 4 <= pc (procs s p) ->
           lockfd (procs s p) = Some i -> lockown s i = Some p;
  s_sock : forall p, st (procs s p) = Running -> 6 <= pc (procs s p) ->
           exists j, sockfd (procs s p) = Some j /\ names s NSock = Some j;
  s_lis : forall p j, st (procs s p) = Running -> 7 <= pc (procs s p) ->
           sockfd (procs s p) = Some j -> listener s j = Some p;
  s_unl : forall p, st (procs s p) = Running -> pc (procs s p) = 5 -> names s NSock = None;
  s_pidname : forall p, st (procs s p) = Running -> 9 <= pc (procs s p) -> names s NPid <> None;
  s_pid : forall p, st (procs s p) = Running -> 10 <= pc (procs s p) ->
           exists f, names s NPid = Some f /\ content s f = Some p }.

Lemma SInv_unique : forall s p q, SInv s ->
  st (procs s p) = Running -> 4 <= pc (procs s p) ->
  st (procs s q) = Running -> 4 <= pc (procs s q) -> p = q.
Proof.
  intros s p q I Hp Hp3 Hq Hq3.
  destruct (s_fd _ I _ Hp ltac:(lia)) as (i & Hi & Hn). destruct (s_fd _ I _ Hq ltac:(lia)) as (i' & Hi' & Hn').
  rewrite Hn in Hn'. inv Hn'.
  pose proof (s_held _ I _ _ Hp Hp3 Hi) as A. pose proof (s_held _ I _ _ Hq Hq3 Hi') as B. congruence.
Qed.

Lemma clear_keep : forall f q i p, f i = Some p -> p <> q -> clear f q i = Some p.
Proof. intros f q i p H Hne. unfold clear. rewrite H. destruct (Nat.eqb_spec p q); congruence. Qed.

Lemma SInv_die : forall s q how, how <> Running -> how <> NotStarted -> SInv s -> SInv (die s q how).
Proof.
  intros s q how Hr Hn I. pose proof (GInv_die s q how Hr Hn (s_g _ I)) as G.
  destruct I. constructor; auto; cbn; intros; unfold upd in *; eqb_cases; cbn in *; try congruence; eauto.
  - apply clear_keep; eauto.
  - apply clear_keep; eauto.
Qed.

Lemma quiet_SInv : forall s, GInv s -> (forall p, st (procs s p) <> Running) -> SInv s.
Proof. intros s G Hq. constructor; auto; intros p; intros; exfalso; eapply Hq; eauto. Qed.

Lemma SInv_self : forall s q, SInv s -> startable (procs s q) = true ->
  pc (procs s q) <= 10 /\
  (1 <= pc (procs s q) -> st (procs s q) = Running) /\
  (2 <= pc (procs s q) -> exists i, lockfd (procs s q) = Some i /\ names s NLock = Some i) /\
  (4 <= pc (procs s q) -> forall i, lockfd (procs s q) = Some i -> lockown s i = Some q) /\
  (6 <= pc (procs s q) -> exists j, sockfd (procs s q) = Some j /\ names s NSock = Some j) /\
  (7 <= pc (procs s q) -> forall j, sockfd (procs s q) = Some j -> listener s j = Some q) /\
  (pc (procs s q) = 5 -> names s NSock = None) /\
  (4 <= pc (procs s q) -> forall p, st (procs s p) = Running -> 4 <= pc (procs s p) -> p = q) /\
  (9 <= pc (procs s q) -> names s NPid <> None).
Proof.
  intros s q I Hst.
  assert (Hr : 1 <= pc (procs s q) -> st (procs s q) = Running).
  { intros H1. unfold startable in Hst. destruct (st (procs s q)) eqn:Es; try discriminate; auto.
    apply (g_fresh _ (s_g _ I)) in Es. lia. }
  repeat split; auto.
  - unfold startable in Hst. destruct (st (procs s q)) eqn:Es; try discriminate.
    + apply (g_fresh _ (s_g _ I)) in Es. lia.
    + apply (s_pc _ I); auto.
  - intros. apply (s_fd _ I); auto. apply Hr; lia.
  - intros. apply (s_held _ I); auto. apply Hr; lia.
  - intros. apply (s_sock _ I); auto. apply Hr; lia.
  - intros. apply (s_lis _ I); auto. apply Hr; lia.
  - intros. apply (s_unl _ I q); auto. apply Hr; lia.
  - intros H3 p Hp Hp3. eapply SInv_unique; eauto. apply Hr; lia.
  - intros. apply (s_pidname _ I q); auto. apply Hr; lia.
Qed.

Lemma SInv_cont : forall s q a s1 pr1, SInv s -> startable (procs s q) = true ->
  nth_error prog (pc (procs s q)) = Some a -> exec s q (procs s q) a = Cont s1 pr1 ->
  SInv (set_proc s1 q (mkProc Running (S (pc (procs s q))) (lockfd pr1) (sockfd pr1))).
Proof.
  intros s q a s1 pr1 I Hst Hn E.
  pose proof (GInv_cont _ _ _ _ _ (s_g _ I) Hst Hn E) as G'.
  apply prog_at in Hn.
  repeat (destruct Hn as [[Hpc Ha]|Hn]); try destruct Hn as [Hpc Ha]; subst a;
    try (exfalso; pose proof (SInv_self _ _ I Hst) as (Hpcq & _); lia);
    rewrite Hpc in *; cbn in E; break_exec E; inv E.
  all: pose proof (SInv_self _ _ I Hst) as (Hpcq & Hrq & Hfdq & Hheldq & Hsockq & Hlisq & Hunlq & Huniq & Hpidq).
  all: rewrite Hpc in *.
  all: destruct I as [G s_pc0 s_fd0 s_held0 s_sock0 s_lis0 s_unl0 s_pidname0 s_pid0].
  all: constructor; [exact G'|..]; cbn; intros.
  all: unfold upd, updn in *; eqb_cases; cbn in *.
  all: try solve [ eauto ].
  all: try solve [ exfalso; lia ].
  all: try solve [ lia ].
  all: try solve [ apply Hfdq; lia ].
  all: try solve [ apply Hsockq; lia ].
  all: try solve [ eapply Hheldq; eauto; lia ].
  all: try solve [ eapply Hlisq; eauto; lia ].
  all: try solve [ exfalso; match goal with n : _ <> _ |- _ => apply n; apply Huniq; auto; lia end ].
  all: try solve [ congruence ].
  all: try solve [ exfalso; match goal with Hr : st (procs _ ?p) = Running |- _ =>
                     destruct (s_fd0 _ Hr ltac:(lia)) as (? & ? & ?); congruence end ].
  all: try solve [ exfalso; match goal with Hl : lockfd (procs _ ?p) = Some ?i, Hr : st (procs _ ?p) = Running |- _ =>
                     pose proof (s_held0 p i Hr ltac:(lia) Hl); congruence end ].
  all: try solve [ eexists; split; [eauto|]; rewrite ?Nat.eqb_refl; auto ].
  all: try solve [ exfalso; apply Hpidq; auto; lia ].
Qed.

Definition no_term (l : label) : Prop := match l with Term _ => False | _ => True end.

Lemma SInv_step : forall s l s', no_term l -> SInv s -> step s l = Some s' -> SInv s'.
Proof.
  intros s l s' Hl I H. destruct l as [q|q|q]; [| |destruct Hl].
  - apply step_Step_inv in H. destruct H as (Hst & a & Hn & [(s1 & pr1 & E & ->)|[(s1 & E & ->)|(s1 & E & ->)]]).
    + eapply SInv_cont; eauto.
    + apply exec_Fail in E. subst. apply SInv_die; auto; discriminate.
    + apply exec_Done in E. destruct E; subst. apply SInv_die; auto; discriminate.
  - apply step_Crash_inv in H. destruct H as [_ ->]. apply SInv_die; auto; discriminate.
Qed.

Lemma sc_cons : forall l r, starts_and_crashes (l :: r) = true -> no_term l /\ starts_and_crashes r = true.
Proof.
  unfold starts_and_crashes; cbn; intros l r H. apply andb_true_iff in H. destruct H as [H1 H2].
  split; auto. destruct l; cbn in *; auto; discriminate.
Qed.

Lemma SInv_run : forall sched s s', starts_and_crashes sched = true -> SInv s -> run s sched = Some s' -> SInv s'.
Proof.
  induction sched as [|l r IH]; cbn [run]; intros s s' Hsc I H.
  - now inv H.
  - apply sc_cons in Hsc. destruct Hsc as [Hl Hr].
    destruct (step s l) as [s1|] eqn:E; [|discriminate]. apply (IH s1); auto. eapply SInv_step; eauto.
Qed.

(* ---- statements' vocabulary ---- *)
Definition past_setlk (s : state) (p : nat) : Prop := st (procs s p) = Running /\ 4 <= pc (procs s p).
Definition holder (s : state) (p : nat) : Prop :=
  exists i, names s NLock = Some i /\ lockown s i = Some p /\ lockfd (procs s p) = Some i.
Definition quiet (s : state) : Prop := forall p, st (procs s p) <> Running.

Lemma SInv_holder : forall s p, SInv s -> past_setlk s p -> holder s p.
Proof.
  intros s p I [Hr H3]. destruct (s_fd _ I _ Hr ltac:(lia)) as (i & Hi & Hn). exists i. repeat split; auto.
  eapply s_held; eauto.
Qed.

Lemma opt_is_true : forall o v, o = Some v -> opt_is o v = true.
Proof. intros o v ->. cbn. apply Nat.eqb_refl. Qed.

Lemma SInv_serving : forall s p, SInv s -> at_serve s p = true -> serving s p = true.
Proof.
  intros s p I Ha. unfold serving. rewrite Ha. unfold at_serve in Ha.
  destruct (st (procs s p)) eqn:Es; try discriminate. apply Nat.eqb_eq in Ha. cbn in Ha.
  destruct (s_fd _ I _ Es ltac:(lia)) as (i & Hi & Hn). rewrite Hn.
  rewrite (opt_is_true _ _ (s_held _ I _ _ Es ltac:(lia) Hi)), (opt_is_true _ _ Hi).
  destruct (s_sock _ I _ Es ltac:(lia)) as (j & Hj & Hnj). rewrite Hnj.
  rewrite (opt_is_true _ _ (s_lis _ I _ _ Es ltac:(lia) Hj)), (opt_is_true _ _ Hj).
  destruct (s_pid _ I _ Es ltac:(lia)) as (f & Hf & Hc). rewrite Hf, (opt_is_true _ _ Hc). reflexivity.
Qed.

Theorem single_holder : forall s0 sched s,
  GInv s0 -> quiet s0 -> starts_and_crashes sched = true -> run s0 sched = Some s ->
  (forall p q, past_setlk s p -> past_setlk s q -> p = q) /\
  (forall p, past_setlk s p -> holder s p) /\
  (forall p, at_serve s p = true -> serving s p = true).
Proof.
  intros s0 sched s G Q Hsc Hrun.
  assert (I : SInv s) by (eapply SInv_run; eauto using quiet_SInv).
  split; [|split].
  - intros p q [Hp Hp3] [Hq Hq3]. eapply SInv_unique; eauto.
  - intros p Hp. now apply SInv_holder.
  - intros. now apply SInv_serving.
Qed.

(* ---- what a process that is not the lock holder can change ---- *)
Record untouched (s1 s2 : state) (p : nat) : Prop := {
  u_sock : names s2 NSock = names s1 NSock;
  u_pid : names s2 NPid = names s1 NPid;
  u_seed : names s2 NSeed = names s1 NSeed;
  u_lock : names s1 NLock <> None -> names s2 NLock = names s1 NLock;
  u_lockown : forall i w, w <> p -> lockown s1 i = Some w -> lockown s2 i = Some w;
  u_listener : forall j w, w <> p -> listener s1 j = Some w -> listener s2 j = Some w;
  u_content : forall f, content s2 f = content s1 f;
  u_inodes : forall i, i < next s1 -> inodes s2 i = inodes s1 i;
  u_procs : forall w, w <> p -> procs s2 w = procs s1 w }.

Lemma untouched_die : forall s p how, untouched s (die s p how) p.
Proof.
  intros. constructor; cbn; intros; auto using clear_keep.
  unfold upd. destruct (Nat.eqb_spec w p); congruence.
Qed.

Lemma mutating_needs_lock : forall s p a, GInv s -> startable (procs s p) = true ->
  next_prim s p = Some a -> mutating a = true -> past_setlk s p.
Proof.
  intros s p a G Hst Hn Hm. unfold next_prim in Hn. apply prog_at in Hn.
  assert (Hr : 1 <= pc (procs s p) -> st (procs s p) = Running).
  { intros H1. unfold startable in Hst. destruct (st (procs s p)) eqn:Es; try discriminate; auto.
    apply (g_fresh _ G) in Es. lia. }
  repeat (destruct Hn as [[Hpc Ha]|Hn]); try destruct Hn as [Hpc Ha]; subst a; try discriminate;
    (split; [apply Hr|]; lia).
Qed.

Lemma loser_frame : forall s1 p s2, GInv s1 -> step s1 (Step p) = Some s2 -> ~ past_setlk s1 p ->
  untouched s1 s2 p.
Proof.
  intros s1 p s2 G H Hnp.
  apply step_Step_inv in H. destruct H as (Hst & a & Hn & H).
  assert (Hlt : pc (procs s1 p) < 4).
  { unfold startable in Hst. destruct (st (procs s1 p)) eqn:Es; try discriminate.
    - apply (g_fresh _ G) in Es. lia.
    - destruct (le_lt_dec 4 (pc (procs s1 p))); auto. exfalso. apply Hnp. split; auto. }
  destruct H as [(s' & pr1 & E & ->)|[(s' & E & ->)|(s' & E & ->)]].
  - apply prog_at in Hn.
    repeat (destruct Hn as [[Hpc Ha]|Hn]); try destruct Hn as [Hpc Ha]; subst a; try (exfalso; lia);
      rewrite Hpc in *; cbn in E; break_exec E; inv E.
    all: constructor; cbn; intros; unfold upd, updn in *; eqb_cases; cbn in *; try congruence; auto.
    all: exfalso; lia.
  - apply exec_Fail in E. subst. apply untouched_die.
  - apply exec_Done in E. destruct E; subst. apply untouched_die.
Qed.

Lemma crash_frame : forall s1 p s2, step s1 (Crash p) = Some s2 -> untouched s1 s2 p.
Proof. intros s1 p s2 H. apply step_Crash_inv in H. destruct H as [_ ->]. apply untouched_die. Qed.

(* a process that finds the lock taken exits with an error at F_SETLK *)
Lemma loser_exits : forall s1 w p s2, SInv s1 -> past_setlk s1 w -> w <> p ->
  startable (procs s1 p) = true -> next_prim s1 p = Some SetLk ->
  step s1 (Step p) = Some s2 -> st (procs s2 p) = Failed /\ untouched s1 s2 p.
Proof.
  intros s1 w p s2 I [Hw Hw3] Hne Hst Hn H.
  assert (Hpc : pc (procs s1 p) = 3).
  { unfold next_prim in Hn. apply prog_at in Hn.
    repeat (destruct Hn as [[Hpc Ha]|Hn]); try destruct Hn as [Hpc Ha]; try discriminate; auto. }
  destruct (SInv_self _ _ I Hst) as (_ & Hr & Hfd & _).
  destruct (Hfd ltac:(lia)) as (i & Hi & Hni).
  destruct (s_fd _ I _ Hw ltac:(lia)) as (i' & Hi' & Hni'). rewrite Hni in Hni'. inv Hni'.
  pose proof (s_held _ I _ _ Hw Hw3 Hi') as Hown.
  unfold step in H. rewrite Hst in H. unfold next_prim in Hn. rewrite Hn in H.
  cbn in H. rewrite Hi, Hown in H. destruct (Nat.eqb_spec w p); [contradiction|]. inv H.
  split; [|apply untouched_die]. cbn. now rewrite upd_same.
Qed.

(* ---- the running daemon is not disturbed by later starts and by SIGKILLs of other processes ---- *)
Definition same_service (s s' : state) (w : nat) : Prop :=
  names s' NSock = names s NSock /\ names s' NLock = names s NLock /\ names s' NPid = names s NPid /\
  pid_content s' = pid_content s /\ procs s' w = procs s w.

Lemma serving_at_serve : forall s w, serving s w = true -> at_serve s w = true /\ names s NLock <> None.
Proof.
  unfold serving; intros s w H. repeat (apply andb_true_iff in H; destruct H as [H ?]).
  split; auto. destruct (names s NLock); [discriminate|]. discriminate.
Qed.

Lemma at_serve_inv : forall s w, at_serve s w = true -> st (procs s w) = Running /\ pc (procs s w) = 10.
Proof.
  unfold at_serve; intros s w H. destruct (st (procs s w)); try discriminate. apply Nat.eqb_eq in H. auto.
Qed.

Lemma winner_step : forall s w l s', SInv s -> serving s w = true -> no_term l -> l <> Crash w ->
  step s l = Some s' -> SInv s' /\ serving s' w = true /\ same_service s s' w.
Proof.
  intros s w l s' I Hs Hl Hc H.
  pose proof (SInv_step _ _ _ Hl I H) as I'.
  destruct (serving_at_serve _ _ Hs) as [Ha Hnl]. destruct (at_serve_inv _ _ Ha) as [Hr Hpc].
  assert (U : exists p, p <> w /\ untouched s s' p).
  { destruct l as [p|p|p]; [| |destruct Hl].
    - destruct (Nat.eq_dec p w) as [->|Hne].
      + exfalso. apply step_Step_inv in H. destruct H as (_ & a & Hn & H). rewrite Hpc in Hn. cbn in Hn. inv Hn.
        destruct H as [(? & ? & E & _)|[(? & E & _)|(? & E & _)]]; cbn in E; discriminate.
      + exists p. split; auto. apply loser_frame; auto using s_g.
        intros [Hp Hp3]. apply Hne. apply (SInv_unique s p w I Hp Hp3 Hr). lia.
    - exists p. split; [congruence|]. now apply crash_frame. }
  destruct U as (p & Hne & U).
  assert (Hpw : procs s' w = procs s w) by (apply (u_procs _ _ _ U); auto).
  split; auto. split.
  - apply SInv_serving; auto. unfold at_serve in *. now rewrite Hpw.
  - unfold same_service, pid_content. rewrite (u_sock _ _ _ U), (u_pid _ _ _ U), (u_lock _ _ _ U Hnl).
    repeat split; auto. destruct (names s NPid); auto. apply (u_content _ _ _ U).
Qed.

Theorem winner_undisturbed : forall sched s w s', SInv s -> serving s w = true ->
  Forall (fun l => no_term l /\ l <> Crash w) sched -> run s sched = Some s' ->
  serving s' w = true /\ same_service s s' w.
Proof.
  induction sched as [|l r IH]; cbn [run]; intros s w s' I Hs HF H.
  - inv H. split; auto. unfold same_service; auto.
  - inv HF. destruct H2 as [Hl Hc]. destruct (step s l) as [s1|] eqn:E; [|discriminate].
    destruct (winner_step _ _ _ _ I Hs Hl Hc E) as (I1 & Hs1 & (A1 & A2 & A3 & A4 & A5)).
    destruct (IH _ _ _ I1 Hs1 H3 H) as (Hs' & (B1 & B2 & B3 & B4 & B5)).
    split; auto. unfold same_service. repeat split; congruence.
Qed.

(* ---- progress: a starting process that meets no foreign lock reaches service; once it holds the lock
        it cannot be stopped by anything other processes do (only by SIGKILL) ---- *)
Lemma start_progress : forall s q, SInv s -> startable (procs s q) = true -> pc (procs s q) < 10 ->
  (pc (procs s q) < 4 -> forall i p, lockown s i = Some p -> p = q) ->
  exists s', step s (Step q) = Some s' /\ st (procs s' q) = Running /\ pc (procs s' q) = S (pc (procs s q)) /\
             (forall p, p <> q -> procs s' p = procs s p) /\
             (forall i p, lockown s' i = Some p -> p = q \/ lockown s i = Some p).
Proof.
  intros s q I Hst Hlt Hfree.
  pose proof (SInv_self _ _ I Hst) as (_ & Hrq & Hfdq & Hheldq & Hsockq & Hlisq & Hunlq & _ & Hpidq).
  assert (Hc : exists a s1 pr1, nth_error prog (pc (procs s q)) = Some a /\ exec s q (procs s q) a = Cont s1 pr1 /\
               (forall i p, lockown s1 i = Some p -> p = q \/ lockown s i = Some p) /\ procs s1 = procs s).
  { destruct (pc (procs s q)) as [|[|[|[|[|[|[|[|[|[|n]]]]]]]]]] eqn:Hpc; try (exfalso; lia).
    - exists ReadSeed. cbn. destruct (names s NSeed) as [f|]; [destruct (content s f)|]; cbn;
        do 2 eexists; repeat split; eauto.
    - exists OpenLock. cbn. destruct (names s NLock); do 2 eexists; repeat split; eauto.
    - exists FstatLock. cbn. destruct (Hfdq ltac:(lia)) as (i & Hi & Hn). rewrite Hi.
      rewrite (g_lockino _ (s_g _ I) _ Hn). do 2 eexists; repeat split; eauto.
    - exists SetLk. cbn. destruct (Hfdq ltac:(lia)) as (i & Hi & Hn). rewrite Hi.
      destruct (lockown s i) as [w|] eqn:Ew.
      + rewrite (Hfree ltac:(lia) _ _ Ew), Nat.eqb_refl. do 2 eexists; repeat split; eauto.
      + do 2 eexists; repeat split; eauto. cbn. intros i0 p. unfold upd. destruct (Nat.eqb_spec i0 i); intros H.
        * inv H. auto.
        * auto.
    - exists (Unlink NSock). cbn. do 2 eexists; repeat split; eauto.
    - exists Bind. cbn. rewrite (Hunlq eq_refl). do 2 eexists; repeat split; eauto.
    - exists Listen. cbn. destruct (Hsockq ltac:(lia)) as (j & Hj & _). rewrite Hj. do 2 eexists; repeat split; eauto.
    - exists (Unlink NPid). cbn. do 2 eexists; repeat split; eauto.
    - exists OpenPid. cbn. destruct (names s NPid); do 2 eexists; repeat split; eauto.
    - exists WritePid. cbn. destruct (names s NPid); do 2 eexists; repeat split; eauto. }
  destruct Hc as (a & s1 & pr1 & Hn & E & Hl & Hp).
  eexists. split; [eapply step_cont; eauto|]. cbn. rewrite upd_same. cbn. repeat split; auto.
  intros p Hne. rewrite upd_other; auto. now rewrite Hp.
Qed.

Lemma start_progress_n : forall n s q, SInv s -> startable (procs s q) = true -> pc (procs s q) + n <= 10 ->
  (pc (procs s q) < 4 -> forall i p, lockown s i = Some p -> p = q) ->
  exists s', run s (repeat (Step q) n) = Some s' /\ SInv s' /\ startable (procs s' q) = true /\
             pc (procs s' q) = pc (procs s q) + n /\ (forall p, p <> q -> procs s' p = procs s p).
Proof.
  induction n as [|n IH]; intros s q I Hst Hle Hfree; cbn [repeat run].
  - exists s. split; [reflexivity|]. split; [assumption|]. split; [assumption|]. split; [lia|auto].
  - destruct (start_progress s q I Hst ltac:(lia) Hfree) as (s1 & Hstep & Hr1 & Hpc1 & Hoth & Hlk).
    rewrite Hstep.
    assert (I1 : SInv s1) by (eapply SInv_step; eauto; exact Logic.I).
    assert (Hst1 : startable (procs s1 q) = true) by (unfold startable; now rewrite Hr1).
    destruct (IH s1 q I1 Hst1 ltac:(lia)) as (s' & Hrun & I' & Hst' & Hpc' & Hoth').
    { intros _ i p Hi. destruct (Hlk _ _ Hi) as [->|Hi']; auto.
      destruct (le_lt_dec 4 (pc (procs s q))) as [Hge|Hlt3]; [|eauto].
      (* q already holds the lock: any other owner would be a second holder *)
      destruct (g_own _ (s_g _ I) _ _ Hi') as (Hp & _ & Hp3).
      pose proof (SInv_self _ _ I Hst) as (_ & Hrq & _ & _ & _ & _ & _ & Huniq & _). now apply Huniq. }
    exists s'. split; [assumption|]. split; [assumption|]. split; [assumption|]. split; [lia|].
    intros p Hne. rewrite Hoth'; auto.
Qed.

Theorem fresh_start_serves : forall s q, GInv s -> quiet s -> st (procs s q) = NotStarted ->
  exists s', run s (repeat (Step q) serve_pc) = Some s' /\ serving s' q = true.
Proof.
  intros s q G Q Hq.
  assert (I : SInv s) by now apply quiet_SInv.
  assert (Hst : startable (procs s q) = true) by (unfold startable; now rewrite Hq).
  destruct (g_fresh _ G _ Hq) as (Hpc & _).
  destruct (start_progress_n serve_pc s q I Hst) as (s' & Hrun & I' & Hst' & Hpc' & _).
  - rewrite Hpc. cbn. lia.
  - intros _ i p Hi. exfalso. destruct (g_own _ G _ _ Hi) as (Hr & _). exact (Q _ Hr).
  - exists s'. split; auto. apply SInv_serving; auto.
    unfold at_serve. rewrite Hpc, Hpc' in *. cbn in *.
    unfold startable in Hst'. destruct (st (procs s' q)) eqn:Es; try discriminate; auto.
    apply (g_fresh _ (s_g _ I')) in Es. lia.
Qed.

Theorem crash_then_start : forall sched s q, run init sched = Some s -> quiet s ->
  st (procs s q) = NotStarted ->
  exists s', run s (repeat (Step q) serve_pc) = Some s' /\ serving s' q = true.
Proof.
  intros sched s q Hrun Q Hq. apply fresh_start_serves; auto. eapply GInv_run; eauto using GInv_init.
Qed.

(* the property's wording: the only running munged is killed, wherever it is in its program *)
Theorem kill_then_start : forall sched s p s1 q, run init sched = Some s ->
  st (procs s p) = Running -> (forall w, w <> p -> st (procs s w) <> Running) ->
  step s (Crash p) = Some s1 -> st (procs s q) = NotStarted ->
  exists s', run s1 (repeat (Step q) serve_pc) = Some s' /\ serving s' q = true.
Proof.
  intros sched s p s1 q Hrun Hp Hoth Hc Hq.
  assert (G1 : GInv s1). { eapply GInv_step; [|exact Hc]. eapply GInv_run; eauto using GInv_init. }
  apply step_Crash_inv in Hc. destruct Hc as [_ ->].
  apply fresh_start_serves; auto.
  - intros w. cbn. unfold upd. destruct (Nat.eqb_spec w p); cbn; [discriminate|auto].
  - cbn. unfold upd. destruct (Nat.eqb_spec q p); [subst; congruence|auto].
Qed.

(* ---- clean stop ---- *)
Definition seed_inode := mkIno Reg 384.

Record ShInv (s0 s : state) (p : nat) : Prop := {
  sh_run : st (procs s p) = Running;
  sh_pc : 11 <= pc (procs s p) <= 19;
  sh_next : next s0 <= next s;
  sh_sock : 12 <= pc (procs s p) -> names s NSock = None;
  sh_lock : 14 <= pc (procs s p) -> names s NLock = None;
  sh_unlseed : pc (procs s p) = 16 -> names s NSeed = None;
  sh_seedopen : pc (procs s p) = 17 ->
            exists f, names s NSeed = Some f /\ next s0 <= f /\ inodes s f = seed_inode;
  sh_seed : 18 <= pc (procs s p) ->
            exists f, names s NSeed = Some f /\ next s0 <= f /\ inodes s f = seed_inode /\ content s f = Some p;
  sh_pid : 19 <= pc (procs s p) -> names s NPid = None }.

Lemma shutdown_progress : forall s0 s p, ShInv s0 s p -> pc (procs s p) < 19 ->
  exists s', step s (Step p) = Some s' /\ ShInv s0 s' p /\ pc (procs s' p) = S (pc (procs s p)).
Proof.
  intros s0 s p [Hr Hpc Hnx Hsock Hlock Huseed Hsopen Hseed Hpid] Hlt.
  assert (Hst : startable (procs s p) = true) by (unfold startable; now rewrite Hr).
  assert (Hc : exists a s1 pr1, nth_error prog (pc (procs s p)) = Some a /\ exec s p (procs s p) a = Cont s1 pr1 /\
     next s0 <= next s1 /\
     (12 <= S (pc (procs s p)) -> names s1 NSock = None) /\
     (14 <= S (pc (procs s p)) -> names s1 NLock = None) /\
     (S (pc (procs s p)) = 16 -> names s1 NSeed = None) /\
     (S (pc (procs s p)) = 17 -> exists f, names s1 NSeed = Some f /\ next s0 <= f /\ inodes s1 f = seed_inode) /\
     (18 <= S (pc (procs s p)) -> exists f, names s1 NSeed = Some f /\ next s0 <= f /\ inodes s1 f = seed_inode /\
                                            content s1 f = Some p) /\
     (19 <= S (pc (procs s p)) -> names s1 NPid = None) /\ procs s1 = procs s).
  { assert (Hsock' : 12 <= pc (procs s p) -> names s NSock = None) by exact Hsock.
    assert (Hlock' : 14 <= pc (procs s p) -> names s NLock = None) by exact Hlock.
    destruct (pc (procs s p)) as [|[|[|[|[|[|[|[|[|[|[|[|[|[|[|[|[|[|[|n]]]]]]]]]]]]]]]]]]] eqn:Hk; try (exfalso; lia).
    - exists (Unlink NSock). cbn. do 2 eexists. repeat split; eauto; try (intros; exfalso; lia).
    - exists CloseSock. cbn. destruct (sockfd (procs s p)); do 2 eexists; repeat split; eauto;
        try (intros; exfalso; lia); cbn; auto with arith.
    - exists (Unlink NLock). cbn. do 2 eexists. repeat split; eauto; try (intros; exfalso; lia);
        try (cbn; apply Hsock; lia).
    - exists CloseLock. cbn. destruct (lockfd (procs s p)); do 2 eexists; repeat split; eauto;
        try (intros; exfalso; lia); cbn; auto with arith.
    - exists (Unlink NSeed). cbn. do 2 eexists. repeat split; eauto; try (intros; exfalso; lia); cbn;
        auto with arith.
    - exists OpenSeed. cbn. rewrite (Huseed eq_refl). do 2 eexists. repeat split; eauto;
        try (intros; exfalso; lia); cbn; auto with arith.
      intros _. exists (next s). cbn. unfold upd. rewrite Nat.eqb_refl. auto.
    - exists WriteSeed. cbn. destruct (Hsopen eq_refl) as (f & Hf & Hge & Hino). rewrite Hf.
      do 2 eexists. repeat split; eauto; try (intros; exfalso; lia); cbn; auto with arith.
      all: intros _; first [apply Hsock'; lia | apply Hlock'; lia
                           | exists f; cbn; unfold upd; rewrite Nat.eqb_refl; auto].
    - exists (Unlink NPid). cbn. do 2 eexists. repeat split; eauto; try (intros; exfalso; lia); cbn;
        auto with arith; intros; first [apply Hsock'|apply Hlock'|apply Hseed]; lia. }
  destruct Hc as (a & s1 & pr1 & Hn & E & A1 & A2 & A3 & A4 & A5 & A6 & A7 & Hp).
  eexists. split; [eapply step_cont; eauto|]. split; [|cbn; now rewrite upd_same].
  constructor; cbn; rewrite ?upd_same; cbn; auto. lia.
Qed.

Lemma clear_not : forall f p i, clear f p i <> Some p.
Proof. unfold clear; intros f p i. destruct (f i) as [w|]; [|discriminate]. destruct (Nat.eqb_spec w p); congruence. Qed.

Lemma shutdown_run : forall n s0 s p, ShInv s0 s p -> pc (procs s p) + n = 19 ->
  exists s', run s (repeat (Step p) n) = Some s' /\ ShInv s0 s' p /\ pc (procs s' p) = 19.
Proof.
  induction n as [|n IH]; intros s0 s p Sh Hk; cbn [repeat run].
  - exists s. split; [reflexivity|]. split; [assumption|lia].
  - destruct (shutdown_progress _ _ _ Sh ltac:(lia)) as (s1 & Hs & Sh1 & Hpc1). rewrite Hs.
    apply IH; auto. lia.
Qed.

(* the seed file after a clean stop is a NEW one: an inode that did not exist when the stop began, complete, and
   written by the stopping process itself (content = Some p: the generation that wrote it) *)
Theorem clean_stop_postcondition : forall s p, st (procs s p) = Running -> pc (procs s p) = serve_pc ->
  exists s', run s (Term p :: repeat (Step p) (length shutdown)) = Some s' /\
    st (procs s' p) = Exited /\
    names s' NSock = None /\ names s' NLock = None /\ names s' NPid = None /\
    (exists f, names s' NSeed = Some f /\ next s <= f /\ inodes s' f = seed_inode /\ content s' f = Some p) /\
    (forall i, lockown s' i <> Some p) /\ (forall j, listener s' j <> Some p).
Proof.
  intros s p Hr Hpc. cbn [run length shutdown].
  assert (Ht : step s (Term p) = Some (set_proc s p (mkProc Running 11 (lockfd (procs s p)) (sockfd (procs s p))))).
  { unfold step. rewrite Hr, Hpc. reflexivity. }
  rewrite Ht.
  set (s1 := set_proc s p _).
  assert (Sh : ShInv s s1 p).
  { subst s1. constructor; cbn; rewrite ?upd_same; cbn; auto; try (intros; exfalso; lia). lia. }
  change 9 with (S 8). cbn [repeat].
  destruct (shutdown_run 8 s s1 p Sh) as (s2 & Hrun & Sh2 & Hpc2).
  { subst s1. cbn. now rewrite upd_same. }
  assert (Hsplit : forall s, run s (repeat (Step p) 8 ++ [Step p]) = run s (Step p :: repeat (Step p) 8)) by reflexivity.
  rewrite <- Hsplit.
  assert (Happ : forall a b s, run s (a ++ b) = match run s a with Some s' => run s' b | None => None end).
  { induction a as [|x a IHa]; intros b s3; cbn; auto. destruct (step s3 x); auto. }
  rewrite Happ, Hrun. cbn [run].
  destruct Sh2 as [Hr2 _ _ Hsock Hlock _ _ Hseed Hpid].
  unfold step. unfold startable. rewrite Hr2, Hpc2. cbn.
  eexists. split; [reflexivity|]. cbn. rewrite upd_same. cbn.
  repeat split; auto; try (apply Hsock + apply Hlock + apply Hpid; lia).
  - apply Hseed. lia.
  - intros i. apply clear_not.
  - intros j. apply clear_not.
Qed.

(* in every reachable state: whatever seed file was there when the stop began, the one left by the stop is another *)
Theorem seed_renewed : forall sched s p, run init sched = Some s ->
  st (procs s p) = Running -> pc (procs s p) = serve_pc ->
  exists s', run s (Term p :: repeat (Step p) (length shutdown)) = Some s' /\
    exists f, names s' NSeed = Some f /\ names s NSeed <> Some f /\ content s' f = Some p /\
              (forall q, q <> p -> content s' f <> Some q).
Proof.
  intros sched s p Hrun Hr Hpc.
  destruct (clean_stop_postcondition s p Hr Hpc) as (s' & Hs' & _ & _ & _ & _ & (f & Hf & Hge & _ & Hc) & _).
  exists s'. split; [assumption|]. exists f. repeat split; auto.
  - intros Hold. assert (G : GInv s) by (eapply GInv_run; eauto using GInv_init).
    apply (g_names_lt _ G) in Hold. lia.
  - intros q Hne Hq. congruence.
Qed.

(* ---- wrappers in the vocabulary of the property ---- *)
Lemma reach_SInv : forall hist s0 sched s, run init hist = Some s0 -> quiet s0 ->
  starts_and_crashes sched = true -> run s0 sched = Some s -> SInv s.
Proof.
  intros hist s0 sched s Hh Q Hsc Hr. eapply SInv_run; eauto. apply quiet_SInv; auto.
  eapply GInv_run; eauto using GInv_init.
Qed.

Theorem single_holder_reach : forall hist s0 sched s, run init hist = Some s0 -> quiet s0 ->
  starts_and_crashes sched = true -> run s0 sched = Some s ->
  (forall p q, past_setlk s p -> past_setlk s q -> p = q) /\
  (forall p, past_setlk s p -> holder s p) /\
  (forall p, at_serve s p = true -> serving s p = true).
Proof.
  intros hist s0 sched s Hh Q Hsc Hr. eapply single_holder; eauto. eapply GInv_run; eauto using GInv_init.
Qed.

Theorem only_holder_mutates : forall hist s0 pre s1 l s2, run init hist = Some s0 -> quiet s0 ->
  starts_and_crashes pre = true -> run s0 pre = Some s1 -> step s1 l = Some s2 ->
  match l with
  | Step p => (forall a, next_prim s1 p = Some a -> mutating a = true -> past_setlk s1 p /\ holder s1 p)
              /\ (~ past_setlk s1 p -> untouched s1 s2 p)
  | Crash p => untouched s1 s2 p
  | Term _ => True
  end.
Proof.
  intros hist s0 pre s1 l s2 Hh Q Hsc Hr Hs.
  pose proof (reach_SInv _ _ _ _ Hh Q Hsc Hr) as I.
  destruct l as [p|p|p]; auto.
  - split.
    + intros a Hn Hm. assert (P : past_setlk s1 p).
      { eapply mutating_needs_lock; eauto using s_g. apply step_Step_inv in Hs. tauto. }
      split; auto. now apply SInv_holder.
    + intros Hnp. apply loser_frame; auto using s_g.
  - now apply crash_frame.
Qed.

Theorem loser_exits_reach : forall hist s0 pre s1 w p s2, run init hist = Some s0 -> quiet s0 ->
  starts_and_crashes pre = true -> run s0 pre = Some s1 ->
  past_setlk s1 w -> w <> p -> next_prim s1 p = Some SetLk -> step s1 (Step p) = Some s2 ->
  st (procs s2 p) = Failed /\ untouched s1 s2 p.
Proof.
  intros hist s0 pre s1 w p s2 Hh Q Hsc Hr Hw Hne Hn Hs.
  pose proof (reach_SInv _ _ _ _ Hh Q Hsc Hr) as I.
  eapply loser_exits; eauto. apply step_Step_inv in Hs. tauto.
Qed.

Theorem winner_undisturbed_reach : forall hist s0 pre s1 w sched s2, run init hist = Some s0 -> quiet s0 ->
  starts_and_crashes pre = true -> run s0 pre = Some s1 -> serving s1 w = true ->
  Forall (fun l => no_term l /\ l <> Crash w) sched -> run s1 sched = Some s2 ->
  serving s2 w = true /\ same_service s1 s2 w.
Proof.
  intros hist s0 pre s1 w sched s2 Hh Q Hsc Hr Hs HF Hr2.
  pose proof (reach_SInv _ _ _ _ Hh Q Hsc Hr) as I. eapply winner_undisturbed; eauto.
Qed.

(* once past F_SETLK, a starting daemon reaches service whatever the others do *)
Theorem holder_completes : forall hist s0 pre s1 p, run init hist = Some s0 -> quiet s0 ->
  starts_and_crashes pre = true -> run s0 pre = Some s1 -> past_setlk s1 p -> pc (procs s1 p) < serve_pc ->
  exists s2, step s1 (Step p) = Some s2 /\ st (procs s2 p) = Running /\ pc (procs s2 p) = S (pc (procs s1 p)).
Proof.
  intros hist s0 pre s1 p Hh Q Hsc Hr [Hp Hp3] Hlt.
  pose proof (reach_SInv _ _ _ _ Hh Q Hsc Hr) as I.
  destruct (start_progress s1 p I) as (s2 & A & B & C & _); eauto.
  - unfold startable. now rewrite Hp.
  - intros; exfalso; lia.
Qed.

(* ---- finding F-C15-unlink: with a clean stop between another start's open and F_SETLK ---- *)
Definition two_daemons (s : state) (b c : nat) : bool :=
  at_serve s b && at_serve s c && negb (Nat.eqb b c) && negb (serving s b) && serving s c
  && match lockfd (procs s b) with Some i => opt_is (lockown s i) b | None => false end
  && match sockfd (procs s b) with Some j => opt_is (listener s j) b | None => false end.

Lemma overlap_computed :
  match run init (overlap_sched 0 1 2) with Some s => two_daemons s 1 2 | None => false end = true.
Proof. vm_compute. reflexivity. Qed.

Theorem shutdown_overlap_refuted : exists sched s b c,
  run init sched = Some s /\ b <> c /\
  past_setlk s b /\ past_setlk s c /\ at_serve s b = true /\ at_serve s c = true /\
  serving s b = false /\ serving s c = true /\
  (exists i, lockfd (procs s b) = Some i /\ lockown s i = Some b /\ names s NLock <> Some i).
Proof.
  pose proof overlap_computed as H.
  destruct (run init (overlap_sched 0 1 2)) as [s|] eqn:E; [|discriminate].
  exists (overlap_sched 0 1 2), s, 1, 2. split; auto.
  unfold two_daemons in H.
  apply andb_true_iff in H; destruct H as [H Hsb].
  apply andb_true_iff in H; destruct H as [H Hlb].
  apply andb_true_iff in H; destruct H as [H Hsc].
  apply andb_true_iff in H; destruct H as [H Hnsb].
  apply andb_true_iff in H; destruct H as [H Hne].
  apply andb_true_iff in H; destruct H as [Hab Hac].
  destruct (at_serve_inv _ _ Hab) as [Hb Hb8]. destruct (at_serve_inv _ _ Hac) as [Hc Hc8].
  apply negb_true_iff in Hnsb.
  split; [discriminate|]. split; [split; auto; lia|]. split; [split; auto; lia|].
  repeat split; auto.
  destruct (lockfd (procs s 1)) as [i|] eqn:Ei; [|discriminate]. exists i. split; auto.
  unfold opt_is in Hlb. destruct (lockown s i) as [w|] eqn:Ew; [|discriminate]. apply Nat.eqb_eq in Hlb. subst w.
  split; auto. intros Hn.
  (* were the lock name still b's inode, c could not be serving: the lock is b's *)
  unfold serving in Hsc. rewrite Hn, Ew in Hsc. cbn in Hsc. rewrite andb_false_r in Hsc. discriminate.
Qed.

(* ---- the pid file of a serving daemon ---- *)
(* in the property's own domain (starts and SIGKILLs) a daemon at service still has the pid file it wrote *)
Theorem pidfile_kept : forall hist s0 sched s p, run init hist = Some s0 -> quiet s0 ->
  starts_and_crashes sched = true -> run s0 sched = Some s -> at_serve s p = true -> has_pidfile s p = true.
Proof.
  intros hist s0 sched s p Hh Q Hsc Hr Ha.
  pose proof (reach_SInv _ _ _ _ Hh Q Hsc Hr) as I. destruct (at_serve_inv _ _ Ha) as [Hp Hpc].
  destruct (s_pid _ I _ Hp ltac:(lia)) as (f & Hf & Hc). unfold has_pidfile. rewrite Hf. now apply opt_is_true.
Qed.

(* finding F-C15-pidfile-late-unlink: with a clean stop overlapping a start the invariant fails although the lock
   protocol is followed: B is the one live daemon, holds the lock of the named lock file, listens on the named
   socket — and its pid file has been removed by the stopping A, which has exited successfully *)
Definition pidfile_lost (s : state) (a b : nat) : bool :=
  at_serve s b && negb (has_pidfile s b) && negb (serving s b)
  && match names s NPid with None => true | Some _ => false end
  && match names s NLock with Some i => opt_is (lockown s i) b && opt_is (lockfd (procs s b)) i | None => false end
  && match names s NSock with Some j => opt_is (listener s j) b && opt_is (sockfd (procs s b)) j | None => false end
  && Nat.eqb (status_code (st (procs s a))) 3.

Lemma late_unlink_computed :
  match run init (late_unlink_sched 0 1) with Some s => pidfile_lost s 0 1 | None => false end = true.
Proof. vm_compute. reflexivity. Qed.

Theorem pidfile_late_unlink_refuted : exists sched s a b,
  run init sched = Some s /\ a <> b /\ st (procs s a) = Exited /\
  at_serve s b = true /\ holder s b /\
  (exists j, names s NSock = Some j /\ listener s j = Some b /\ sockfd (procs s b) = Some j) /\
  names s NPid = None /\ has_pidfile s b = false /\ serving s b = false.
Proof.
  pose proof late_unlink_computed as H.
  destruct (run init (late_unlink_sched 0 1)) as [s|] eqn:E; [|discriminate].
  exists (late_unlink_sched 0 1), s, 0, 1. split; [exact E|]. clear E. split; [discriminate|].
  unfold pidfile_lost in H.
  apply andb_true_iff in H; destruct H as [H K].
  apply andb_true_iff in H; destruct H as [H K0].
  apply andb_true_iff in H; destruct H as [H K1].
  apply andb_true_iff in H; destruct H as [H K2].
  apply andb_true_iff in H; destruct H as [H K3].
  apply andb_true_iff in H; destruct H as [H K4].
  apply negb_true_iff in K4. apply negb_true_iff in K3.
  destruct (names s NPid) eqn:En; [discriminate|].
  destruct (names s NLock) as [i|] eqn:El; [|discriminate].
  destruct (names s NSock) as [j|] eqn:Es; [|discriminate].
  apply andb_true_iff in K1; destruct K1 as [K1a K1b]. apply andb_true_iff in K0; destruct K0 as [K0a K0b].
  assert (Hopt : forall o v, opt_is o v = true -> o = Some v).
  { intros [x|] v Hx; cbn in Hx; [apply Nat.eqb_eq in Hx; now subst|discriminate]. }
  split.
  - destruct (st (procs s 0)); cbn in K; try discriminate; reflexivity.
  - split; [exact H|]. split.
    + exists i. repeat split; auto.
    + split; [exists j; repeat split; auto|]. repeat split; auto.
Qed.

Corollary single_holder_needs_no_clean_stop :
  ~ (forall sched s, run init sched = Some s -> forall p q, past_setlk s p -> past_setlk s q -> p = q).
Proof.
  intros H. destruct shutdown_overlap_refuted as (sched & s & b & c & Hr & Hne & Hb & Hc & _).
  apply Hne. eapply H; eauto.
Qed.
