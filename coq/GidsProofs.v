(* GidsProofs.v — lemmas about GidsModel (C17). *)
From Coq Require Import List NArith ZArith Bool Lia Sorted.
From Coq.Strings Require Import Byte.
From MV Require Import Bytes GidsModel.
From MV.gen Require Import GenGids.
Import ListNotations.
Local Open Scope N_scope.

(* ------------------------------------------------------------------ names *)
Lemma name_eqb_eq a b : name_eqb a b = true <-> a = b.
Proof.
  revert b; induction a as [|x a IH]; intros [|y b]; cbn [name_eqb]; split; intros H;
    try reflexivity; try discriminate.
  - apply andb_true_iff in H. destruct H as [H1 H2].
    apply N.eqb_eq in H1. apply b2n_inj in H1. apply IH in H2. subst. reflexivity.
  - inversion H; subst. rewrite N.eqb_refl. cbn [andb]. apply IH. reflexivity.
Qed.

Lemma name_eqb_refl a : name_eqb a a = true.
Proof. apply name_eqb_eq. reflexivity. Qed.

Lemma name_eqb_neq a b : name_eqb a b = false <-> a <> b.
Proof.
  split.
  - intros H E. apply name_eqb_eq in E. congruence.
  - intros H. destruct (name_eqb a b) eqn:E; [|reflexivity]. apply name_eqb_eq in E. contradiction.
Qed.

(* ------------------------------------------------------------------ user cache *)
(* what the passwd database says about a name, after the two exclusions of the code:
   the empty name is never looked up, and the reserved uid means "no such user" *)
Definition resolve (pw : pwfun) (n : name) : option N :=
  match xgetpwnam pw n with
  | PwOk u => if u =? uid_sentinel then None else Some u
  | _ => None
  end.

Lemma resolve_spec pw n u :
  resolve pw n = Some u <-> n <> [] /\ pw n = PwOk u /\ u <> uid_sentinel.
Proof.
  unfold resolve, xgetpwnam. destruct n as [|x n].
  - split; [discriminate|]. intros [H _]. contradiction.
  - destruct (pw (x :: n)) as [v| |] eqn:E.
    + destruct (N.eqb_spec v uid_sentinel) as [Hs|Hs].
      * split; [discriminate|]. intros (_ & H & H'). inversion H; subst. contradiction.
      * split.
        -- intros H. inversion H; subst. repeat split; [discriminate|assumption].
        -- intros (_ & H & _). inversion H; subst. reflexivity.
    + split; [discriminate|]. intros (_ & H & _). discriminate.
    + split; [discriminate|]. intros (_ & H & _). discriminate.
Qed.

(* every cache entry agrees with the passwd database *)
Definition coh (pw : pwfun) (c : ucache) : Prop :=
  forall n u, cache_find c n = Some u ->
    n <> [] /\ (pw n = PwOk u \/ (pw n = PwNone /\ u = uid_sentinel)).

Lemma coh_nil pw : coh pw [].
Proof. intros n u H. discriminate. Qed.

Lemma cache_find_app c n k u :
  cache_find (c ++ [(k, u)]) n =
  match cache_find c n with Some x => Some x | None => if name_eqb k n then Some u else None end.
Proof.
  induction c as [|[k' u'] c IH]; cbn [cache_find app].
  - reflexivity.
  - destruct (name_eqb k' n); [reflexivity|exact IH].
Qed.

Lemma coh_add pw c n u :
  coh pw c -> n <> [] -> (pw n = PwOk u \/ (pw n = PwNone /\ u = uid_sentinel)) ->
  coh pw (cache_add c n u).
Proof.
  intros Hc Hn Hu. unfold cache_add. destruct n as [|x n]; [contradiction|].
  destruct (cache_find c (x :: n)) eqn:E; [exact Hc|].
  intros n' u' H. rewrite cache_find_app in H.
  destruct (cache_find c n') eqn:E'.
  - inversion H; subst. apply Hc. exact E'.
  - destruct (name_eqb (x :: n) n') eqn:En; [|discriminate].
    apply name_eqb_eq in En. subst n'. inversion H; subst. split; [discriminate|exact Hu].
Qed.

Lemma user_to_uid_spec pw c n :
  coh pw c ->
  coh pw (fst (user_to_uid pw c n)) /\ snd (user_to_uid pw c n) = resolve pw n.
Proof.
  intros Hc. unfold user_to_uid, resolve.
  destruct (cache_find c n) as [u|] eqn:E.
  - cbn [fst snd]. split; [exact Hc|].
    destruct (Hc n u E) as [Hn [Hu|[Hu Hs]]].
    + unfold xgetpwnam. destruct n; [contradiction|]. rewrite Hu. reflexivity.
    + unfold xgetpwnam. destruct n; [contradiction|]. rewrite Hu. subst u.
      rewrite N.eqb_refl. reflexivity.
  - destruct (xgetpwnam pw n) as [u| |] eqn:Ex; cbn [fst snd].
    + split; [|reflexivity]. unfold xgetpwnam in Ex. destruct n as [|x n]; [discriminate|].
      apply coh_add; [exact Hc|discriminate|left; exact Ex].
    + rewrite N.eqb_refl. split; [|reflexivity].
      unfold xgetpwnam in Ex. destruct n as [|x n]; [discriminate|].
      apply coh_add; [exact Hc|discriminate|right; split; [exact Ex|reflexivity]].
    + rewrite N.eqb_refl. split; [exact Hc|reflexivity].
Qed.

(* ------------------------------------------------------------------ gid lists *)
Lemma In_gid_ins x g l : In x (gid_ins g l) <-> x = g \/ In x l.
Proof.
  induction l as [|y r IH]; cbn [gid_ins].
  - cbn. intuition.
  - destruct (y <? g) eqn:E1.
    + cbn [In]. rewrite IH. intuition.
    + destruct (N.eqb_spec y g) as [->|E2].
      * cbn [In]. intuition.
      * cbn [In]. intuition.
Qed.

Lemma gid_ins_sorted g l : StronglySorted N.lt l -> StronglySorted N.lt (gid_ins g l).
Proof.
  induction l as [|y r IH]; intros Hs; cbn [gid_ins].
  - constructor; constructor.
  - apply StronglySorted_inv in Hs. destruct Hs as [Hr Hy].
    destruct (N.ltb_spec y g) as [E1|E1].
    + constructor; [apply IH; exact Hr|].
      apply Forall_forall. intros z Hz. apply In_gid_ins in Hz. destruct Hz as [->|Hz]; [exact E1|].
      rewrite Forall_forall in Hy. apply Hy. exact Hz.
    + destruct (N.eqb_spec y g) as [->|E2].
      * constructor; assumption.
      * constructor; [constructor; assumption|].
        constructor; [lia|].
        rewrite Forall_forall in Hy. apply Forall_forall. intros z Hz. specialize (Hy z Hz). lia.
Qed.

(* soundness of the walk needs nothing; completeness of the early exit needs the order *)
Lemma mem_walk_sound l g : mem_walk l g = true -> In g l.
Proof.
  induction l as [|x r IH]; cbn [mem_walk]; [discriminate|].
  destruct (x <=? g); [|discriminate].
  destruct (N.eqb_spec x g) as [->|E]; [intros _; left; reflexivity|].
  intros H. right. apply IH. exact H.
Qed.

Lemma mem_walk_spec l g : StronglySorted N.lt l -> (mem_walk l g = true <-> In g l).
Proof.
  intros Hs. split; [apply mem_walk_sound|].
  induction l as [|x r IH]; cbn [mem_walk In]; [contradiction|].
  apply StronglySorted_inv in Hs. destruct Hs as [Hr Hx]. intros [->|Hin].
  - rewrite N.leb_refl, N.eqb_refl. reflexivity.
  - rewrite Forall_forall in Hx. specialize (Hx g Hin).
    destruct (N.leb_spec x g) as [E|E]; [|lia].
    destruct (N.eqb_spec x g) as [E2|E2]; [reflexivity|]. apply IH; assumption.
Qed.

Lemma sorted_lt_nodup l : StronglySorted N.lt l -> NoDup l.
Proof.
  induction l as [|x r IH]; intros Hs; constructor;
    apply StronglySorted_inv in Hs; destruct Hs as [Hr Hx].
  - intros Hin. rewrite Forall_forall in Hx. specialize (Hx x Hin). lia.
  - apply IH. exact Hr.
Qed.

(* ------------------------------------------------------------------ gid map *)
Definition has (m : gmap) (u g : N) : Prop := exists l, gfind m u = Some l /\ In g l.
Definition msorted (m : gmap) : Prop := forall u l, gfind m u = Some l -> StronglySorted N.lt l.

Lemma gfind_gid_add m u g u' :
  gfind (gid_add m u g) u' =
  if u =? u' then Some (gid_ins g (match gfind m u with Some l => l | None => [] end))
  else gfind m u'.
Proof.
  induction m as [|[k l] r IH]; cbn [gid_add gfind].
  - destruct (u =? u'); reflexivity.
  - destruct (N.eqb_spec k u) as [->|Eku]; cbn [gfind].
    + destruct (N.eqb_spec u u') as [->|Euu']; reflexivity.
    + destruct (N.eqb_spec k u') as [->|Eku'].
      * destruct (N.eqb_spec u u') as [->|Euu']; [contradiction|reflexivity].
      * exact IH.
Qed.

Lemma has_gid_add m u g u' g' :
  has (gid_add m u g) u' g' <-> has m u' g' \/ (u' = u /\ g' = g).
Proof.
  unfold has. rewrite gfind_gid_add. destruct (N.eqb_spec u u') as [->|E].
  - split.
    + intros (l & Hl & Hin). inversion Hl; subst. apply In_gid_ins in Hin.
      destruct Hin as [->|Hin]; [right; split; reflexivity|].
      left. destruct (gfind m u') as [l'|]; [|contradiction]. exists l'. split; [reflexivity|exact Hin].
    + intros [(l & Hl & Hin)|[_ ->]].
      * rewrite Hl. eexists; split; [reflexivity|]. apply In_gid_ins. right. exact Hin.
      * eexists; split; [reflexivity|]. apply In_gid_ins. left. reflexivity.
  - split.
    + intros H. left. exact H.
    + intros [H|[H _]]; [exact H|]. congruence.
Qed.

Lemma msorted_gid_add m u g : msorted m -> msorted (gid_add m u g).
Proof.
  intros Hm u' l H. rewrite gfind_gid_add in H. destruct (u =? u').
  - inversion H; subst. apply gid_ins_sorted.
    destruct (gfind m u) as [l'|] eqn:E; [apply (Hm u); exact E|constructor].
  - apply (Hm u'). exact H.
Qed.

Definition adds (m : gmap) (ps : list (N * N)) : gmap :=
  fold_left (fun m p => gid_add m (fst p) (snd p)) ps m.

Lemma adds_app m a b : adds m (a ++ b) = adds (adds m a) b.
Proof. unfold adds. apply fold_left_app. Qed.

Lemma has_adds ps : forall m u g, has (adds m ps) u g <-> has m u g \/ In (u, g) ps.
Proof.
  induction ps as [|[pu pg] ps IH]; intros m u g; cbn [adds fold_left In].
  - intuition.
  - fold (adds (gid_add m (fst (pu, pg)) (snd (pu, pg))) ps). rewrite IH. cbn [fst snd].
    rewrite has_gid_add. split.
    + intros [[H|[-> ->]]|H]; auto.
    + intros [H|[H|H]]; auto. inversion H; subst. auto.
Qed.

Lemma msorted_adds ps : forall m, msorted m -> msorted (adds m ps).
Proof.
  induction ps as [|p ps IH]; intros m Hm; cbn [adds fold_left]; [exact Hm|].
  apply IH. apply msorted_gid_add. exact Hm.
Qed.

Lemma msorted_nil : msorted [].
Proof. intros u l H. discriminate. Qed.

Lemma has_nil u g : ~ has [] u g.
Proof. intros (l & H & _). discriminate. Qed.

Lemma is_member_has m u g : msorted m -> (is_member (Some m) u g = true <-> has m u g).
Proof.
  intros Hm. unfold is_member, has. destruct (gfind m u) as [l|] eqn:E.
  - rewrite (mem_walk_spec l g (Hm u l E)). split.
    + intros H. exists l. split; [reflexivity|exact H].
    + intros (l' & Hl' & Hin). inversion Hl'; subst. exact Hin.
  - split; [discriminate|]. intros (l & H & _). discriminate.
Qed.

(* keys of the map are distinct (one gid_head per uid) *)
Lemma gid_add_keys m u g :
  map fst (gid_add m u g) = if existsb (N.eqb u) (map fst m) then map fst m else map fst m ++ [u].
Proof.
  induction m as [|[k l] r IH]; cbn [gid_add map fst existsb app]; [reflexivity|].
  rewrite (N.eqb_sym u k). destruct (N.eqb_spec k u) as [->|E]; cbn [map fst orb]; [reflexivity|].
  rewrite IH. destruct (existsb (N.eqb u) (map fst r)); reflexivity.
Qed.

Lemma NoDup_snoc (l : list N) x : NoDup l -> ~ In x l -> NoDup (l ++ [x]).
Proof.
  induction l as [|y r IH]; intros Hn Hx; cbn [app].
  - constructor; [intros []|constructor].
  - inversion Hn; subst. constructor.
    + intros Hin. apply in_app_or in Hin. destruct Hin as [Hin|[->|[]]]; [contradiction|].
      apply Hx. left. reflexivity.
    + apply IH; [assumption|]. intros Hin. apply Hx. right. exact Hin.
Qed.

Lemma gid_add_nodup m u g : NoDup (map fst m) -> NoDup (map fst (gid_add m u g)).
Proof.
  intros H. rewrite gid_add_keys. destruct (existsb (N.eqb u) (map fst m)) eqn:E; [exact H|].
  apply NoDup_snoc; [exact H|].
  intros Hin. assert (existsb (N.eqb u) (map fst m) = true); [|congruence].
  apply existsb_exists. exists u. split; [exact Hin|apply N.eqb_refl].
Qed.

Lemma adds_nodup ps : forall m, NoDup (map fst m) -> NoDup (map fst (adds m ps)).
Proof.
  induction ps as [|p ps IH]; intros m Hm; cbn [adds fold_left]; [exact Hm|].
  apply IH. apply gid_add_nodup. exact Hm.
Qed.

(* ------------------------------------------------------------------ the scan *)
Definition mpairs (pw : pwfun) (g : N) (ns : list name) : list (N * N) :=
  flat_map (fun n => match resolve pw n with Some u => [(u, g)] | None => [] end) ns.
Definition pairs (pw : pwfun) (db : grdb) : list (N * N) :=
  flat_map (fun e => mpairs pw (fst e) (snd e)) db.

Lemma scan_members_spec pw g ns : forall c m, coh pw c ->
  coh pw (fst (scan_members pw c m g ns)) /\
  snd (scan_members pw c m g ns) = adds m (mpairs pw g ns).
Proof.
  induction ns as [|n r IH]; intros c m Hc; cbn [scan_members mpairs flat_map].
  - split; [exact Hc|reflexivity].
  - destruct (user_to_uid_spec pw c n Hc) as [Hc' Hr].
    destruct (user_to_uid pw c n) as [c' ou]. cbn [fst snd] in Hc', Hr. subst ou.
    fold (mpairs pw g r). rewrite adds_app.
    destruct (resolve pw n) as [u|]; apply IH; exact Hc'.
Qed.

Lemma scan_spec pw db : forall c m, coh pw c ->
  coh pw (fst (scan pw c m db)) /\ snd (scan pw c m db) = adds m (pairs pw db).
Proof.
  induction db as [|[g ns] r IH]; intros c m Hc; cbn [scan pairs flat_map].
  - split; [exact Hc|reflexivity].
  - destruct (scan_members_spec pw g ns c m Hc) as [Hc' Hm].
    destruct (scan_members pw c m g ns) as [c' m']. cbn [fst snd] in Hc', Hm. subst m'.
    fold (pairs pw r). rewrite adds_app. cbn [fst snd]. apply IH. exact Hc'.
Qed.

Lemma build_adds pw db : build pw db = adds [] (pairs pw db).
Proof. unfold build. apply (scan_spec pw db [] []). apply coh_nil. Qed.

Lemma In_mpairs pw g ns u g' :
  In (u, g') (mpairs pw g ns) <-> g' = g /\ exists n, In n ns /\ resolve pw n = Some u.
Proof.
  unfold mpairs. rewrite in_flat_map. split.
  - intros (n & Hn & Hin). destruct (resolve pw n) as [v|] eqn:E; [|contradiction].
    destruct Hin as [Hin|[]]. inversion Hin; subst. split; [reflexivity|]. exists n. auto.
  - intros (-> & n & Hn & Hr). exists n. split; [exact Hn|]. rewrite Hr. left. reflexivity.
Qed.

Lemma In_pairs pw db u g :
  In (u, g) (pairs pw db) <->
  exists ns n, In (g, ns) db /\ In n ns /\ resolve pw n = Some u.
Proof.
  unfold pairs. rewrite in_flat_map. split.
  - intros ([g' ns] & He & Hin). cbn [fst snd] in Hin. apply In_mpairs in Hin.
    destruct Hin as (-> & n & Hn & Hr). exists ns, n. auto.
  - intros (ns & n & He & Hn & Hr). exists (g, ns). split; [exact He|]. cbn [fst snd].
    apply In_mpairs. split; [reflexivity|]. exists n. auto.
Qed.

Lemma build_sorted pw db : msorted (build pw db).
Proof. rewrite build_adds. apply msorted_adds. apply msorted_nil. Qed.

(* the statement of the property, as a predicate on the two databases *)
Definition member_spec (pw : pwfun) (db : grdb) (u g : N) : Prop :=
  exists ns n, In (g, ns) db /\ In n ns /\ n <> [] /\ pw n = PwOk u /\ u <> uid_sentinel.

Lemma membership_spec pw db u g :
  is_member (Some (build pw db)) u g = true <-> member_spec pw db u g.
Proof.
  rewrite (is_member_has _ _ _ (build_sorted pw db)). rewrite build_adds, has_adds.
  unfold member_spec. split.
  - intros [H|H]; [destruct (has_nil _ _ H)|]. apply In_pairs in H.
    destruct H as (ns & n & H1 & H2 & H3). apply resolve_spec in H3. exists ns, n. tauto.
  - intros (ns & n & H1 & H2 & H3). right. apply In_pairs. exists ns, n.
    split; [exact H1|]. split; [exact H2|]. apply resolve_spec. exact H3.
Qed.

Lemma lists_sorted_nodup pw db u l :
  gfind (build pw db) u = Some l -> StronglySorted N.lt l /\ NoDup l.
Proof.
  intros H. pose proof (build_sorted pw db u l H) as Hs. split; [exact Hs|apply sorted_lt_nodup; exact Hs].
Qed.

Lemma keys_nodup pw db : NoDup (map fst (build pw db)).
Proof. rewrite build_adds. apply adds_nodup. constructor. Qed.

(* ------------------------------------------------------------------ restarts *)
Lemma run_spec pw db sched : forall k c m, coh pw c ->
  run pw db sched k c = Some m -> m = build pw db.
Proof.
  induction sched as [|f rest IH]; intros k c m Hc H; cbn [run] in H.
  - inversion H; subst. rewrite build_adds. apply (scan_spec pw db c [] Hc).
  - destruct f as [j|j].
    + destruct (j <=? length db)%nat.
      * destruct (k <? max_inits); [|discriminate].
        apply (IH (k + 1) (fst (scan pw c [] (firstn j db))) m); [|exact H].
        apply (scan_spec pw (firstn j db) c [] Hc).
      * inversion H; subst. rewrite build_adds. apply (scan_spec pw db c [] Hc).
    + destruct (j <=? length db)%nat; [discriminate|].
      inversion H; subst. rewrite build_adds. apply (scan_spec pw db c [] Hc).
Qed.

Definition is_erange (f : fault) : Prop := match f with FErange _ => True | FFail _ => False end.

Lemma run_erange_ok pw db sched : forall k c, coh pw c -> Forall is_erange sched ->
  k + N.of_nat (length sched) <= max_inits ->
  run pw db sched k c = Some (build pw db).
Proof.
  induction sched as [|f rest IH]; intros k c Hc Hall Hk; cbn [run].
  - f_equal. rewrite build_adds. apply (scan_spec pw db c [] Hc).
  - inversion Hall as [|? ? Hf Hrest]; subst. destruct f as [j|j]; [|destruct Hf].
    cbn [length] in Hk. destruct (j <=? length db)%nat.
    + destruct (N.ltb_spec k max_inits) as [E|E]; [|lia].
      apply IH; [apply (scan_spec pw (firstn j db) c [] Hc)|exact Hrest|lia].
    + f_equal. rewrite build_adds. apply (scan_spec pw db c [] Hc).
Qed.

Definition triggered_erange (db : grdb) (f : fault) : Prop :=
  match f with FErange j => (j <= length db)%nat | FFail _ => False end.

Lemma run_too_many pw db sched : forall k c, Forall (triggered_erange db) sched ->
  k <= max_inits -> max_inits < k + N.of_nat (length sched) ->
  run pw db sched k c = None.
Proof.
  induction sched as [|f rest IH]; intros k c Hall Hk1 Hk2; cbn [run].
  - cbn [length] in Hk2. lia.
  - inversion Hall as [|? ? Hf Hrest]; subst. destruct f as [j|j]; [|destruct Hf].
    cbn [triggered_erange] in Hf. apply Nat.leb_le in Hf. rewrite Hf.
    destruct (N.ltb_spec k max_inits) as [E|E]; [|reflexivity].
    apply IH; [exact Hrest|lia|cbn [length] in Hk2; lia].
Qed.

Lemma restart_on_erange pw db sched m :
  map_create pw db sched = Some m -> m = build pw db.
Proof. apply run_spec. apply coh_nil. Qed.

Lemma restart_on_erange_ok pw db sched :
  Forall is_erange sched -> (length sched < 16)%nat ->
  map_create pw db sched = Some (build pw db).
Proof.
  intros Hall Hlen. apply run_erange_ok; [apply coh_nil|exact Hall|]. unfold max_inits. lia.
Qed.

Lemma too_many_restarts_fail pw db sched :
  Forall (triggered_erange db) sched -> (16 <= length sched)%nat ->
  map_create pw db sched = None.
Proof.
  intros Hall Hlen. apply run_too_many; [exact Hall|unfold max_inits; lia|unfold max_inits; lia].
Qed.

Lemma hard_error_fails pw db j rest :
  (j <= length db)%nat -> map_create pw db (FFail j :: rest) = None.
Proof.
  intros H. unfold map_create. cbn [run]. apply Nat.leb_le in H. rewrite H. reflexivity.
Qed.

(* the scan of any prefix followed by a full rescan (cache kept, map reset) = one clean scan *)
Lemma rescan_after_prefix pw db j :
  snd (scan pw (fst (scan pw [] [] (firstn j db))) [] db) = build pw db.
Proof.
  rewrite build_adds. apply scan_spec. apply (scan_spec pw (firstn j db) [] []). apply coh_nil.
Qed.

(* ------------------------------------------------------------------ buffer growth *)
Lemma xgetgrent_buf_sound fuel : forall len need len',
  xgetgrent_buf fuel len need = Some len' -> need <= len' /\ len <= len'.
Proof.
  induction fuel as [|f IH]; intros len need len' H; cbn [xgetgrent_buf] in H.
  - destruct (N.leb_spec need len) as [E|E]; [|discriminate]. inversion H; subst. lia.
  - destruct (N.leb_spec need len) as [E|E]; [inversion H; subst; lia|].
    destruct (2 ^ size_bits <=? grbuf_grow_factor * len); [discriminate|].
    apply IH in H. assert (Hf : grbuf_grow_factor = 2) by reflexivity. rewrite Hf in H. lia.
Qed.

(* the buffer is only ever doubled as far as needed *)
Lemma xgetgrent_buf_minimal fuel : forall len need len',
  xgetgrent_buf fuel len need = Some len' -> len' = len \/ len' < grbuf_grow_factor * need.
Proof.
  induction fuel as [|f IH]; intros len need len' H; cbn [xgetgrent_buf] in H.
  - destruct (need <=? len); [|discriminate]. inversion H; subst. left. reflexivity.
  - destruct (N.leb_spec need len) as [E|E]; [inversion H; subst; left; reflexivity|].
    destruct (2 ^ size_bits <=? grbuf_grow_factor * len); [discriminate|].
    assert (Hf : grbuf_grow_factor = 2) by reflexivity.
    apply IH in H. right. rewrite Hf in *. destruct H as [->|H]; lia.
Qed.

Lemma xgetgrent_buf_total fuel : forall len need,
  0 < len -> need <= 2 ^ (size_bits - 1) -> need <= len * 2 ^ N.of_nat fuel ->
  exists len', xgetgrent_buf fuel len need = Some len'.
Proof.
  assert (Hf : grbuf_grow_factor = 2) by reflexivity.
  assert (Hs : 2 ^ size_bits = 2 * 2 ^ (size_bits - 1)) by reflexivity.
  induction fuel as [|f IH]; intros len need Hl Hn Hb; cbn [xgetgrent_buf].
  - destruct (N.leb_spec need len) as [E|E]; [eexists; reflexivity|].
    cbn in Hb. lia.
  - destruct (N.leb_spec need len) as [E|E]; [eexists; reflexivity|].
    rewrite Hf. destruct (N.leb_spec (2 ^ size_bits) (2 * len)) as [E2|E2]; [lia|].
    apply IH; [lia|exact Hn|].
    rewrite Nat2N.inj_succ, N.pow_succ_r' in Hb. lia.
Qed.

Lemma scan_buf_sound needs : forall len len',
  scan_buf len needs = Some len' -> len <= len' /\ Forall (fun n => n <= len') needs.
Proof.
  induction needs as [|n r IH]; intros len len' H; cbn [scan_buf] in H.
  - inversion H; subst. split; [lia|constructor].
  - destruct (xgetgrent_buf (N.to_nat size_bits) len n) as [l1|] eqn:E; [|discriminate].
    apply xgetgrent_buf_sound in E. apply IH in H. destruct H as [H1 H2].
    split; [lia|]. constructor; [lia|exact H2].
Qed.

(* ------------------------------------------------------------------ refresh *)
Local Open Scope Z_scope.

(* the update is attempted: mtime check off or disabled, stat() failed, or mtime newer *)
Definition should_load (st : gstate) (mtime : option Z) : Prop :=
  g_dostat st <= 0 \/ match mtime with None => True | Some mt => g_tlast st < mt end.

Lemma should_load_dec st mtime : {should_load st mtime} + {~ should_load st mtime}.
Proof.
  unfold should_load. destruct (Z_le_gt_dec (g_dostat st) 0) as [H|H]; [left; left; exact H|].
  destruct mtime as [mt|]; [|left; right; exact I].
  destruct (Z_lt_le_dec (g_tlast st) mt) as [H2|H2]; [left; right; exact H2|].
  right. intros [H3|H3]; lia.
Qed.

Lemma begin_map st now mtime pw db sched :
  p_map (refresh_begin st now mtime pw db sched) =
  if should_load_dec st mtime then map_create pw db sched else None.
Proof.
  unfold refresh_begin, begin_decide. destruct (should_load_dec st mtime) as [H|H]; unfold should_load in H.
  - destruct (Z.ltb_spec 0 (g_dostat st)) as [E|E]; [|reflexivity].
    destruct mtime as [mt|]; [|reflexivity]. cbn [p_map].
    destruct (Z.leb_spec mt (g_tlast st)) as [E2|E2]; [lia|reflexivity].
  - destruct (Z.ltb_spec 0 (g_dostat st)) as [E|E]; [|exfalso; apply H; left; exact E].
    destruct mtime as [mt|]; [|exfalso; apply H; right; exact I]. cbn [p_map].
    destruct (Z.leb_spec mt (g_tlast st)) as [E2|E2]; [reflexivity|exfalso; apply H; right; exact E2].
Qed.

Lemma begin_now st now mtime pw db sched : p_now (refresh_begin st now mtime pw db sched) = now.
Proof.
  unfold refresh_begin, begin_decide. destruct (0 <? g_dostat st); [destruct mtime|]; reflexivity.
Qed.

Lemma refresh_loads st now mtime pw db sched m :
  should_load st mtime -> map_create pw db sched = Some m ->
  g_map (refresh st now mtime pw db sched) = Some (build pw db) /\
  g_tlast (refresh st now mtime pw db sched) = now.
Proof.
  intros Hs Hm. unfold refresh, refresh_commit. cbn [g_map g_tlast].
  rewrite begin_map, begin_now. destruct (should_load_dec st mtime) as [_|Hn]; [|contradiction].
  rewrite Hm. apply restart_on_erange in Hm. subst m. split; reflexivity.
Qed.

Lemma refresh_keeps st now mtime pw db sched :
  ~ should_load st mtime \/ map_create pw db sched = None ->
  g_map (refresh st now mtime pw db sched) = g_map st /\
  g_tlast (refresh st now mtime pw db sched) = g_tlast st.
Proof.
  intros H. unfold refresh, refresh_commit. cbn [g_map g_tlast]. rewrite begin_map.
  destruct (should_load_dec st mtime) as [Hs|Hn].
  - destruct H as [H|H]; [contradiction|]. rewrite H. split; reflexivity.
  - split; reflexivity.
Qed.

(* the flag: a failed stat() switches the check off (-1) until gids_update resets it *)
Lemma refresh_dostat st now mtime pw db sched :
  -1 <= g_dostat st ->
  g_dostat (refresh st now mtime pw db sched) =
  if (0 <? g_dostat st) && (match mtime with None => true | Some _ => false end)
  then -1 else g_dostat st.
Proof.
  intros Hge. unfold refresh, refresh_commit, refresh_begin, begin_decide. cbn [g_dostat].
  destruct (Z.ltb_spec 0 (g_dostat st)) as [E|E]; cbn [andb].
  - destruct mtime as [mt|]; cbn [p_dostat]; [|reflexivity].
    destruct (Z.ltb_spec (g_dostat st) (-1)); [lia|reflexivity].
  - cbn [p_dostat]. destruct (Z.ltb_spec (g_dostat st) (-1)) as [E2|E2]; [lia|reflexivity].
Qed.

Lemma sighup_fields st :
  g_map (sighup st) = g_map st /\ g_tlast (sighup st) = g_tlast st /\
  g_dostat (sighup st) = notnot (g_dostat st) /\ g_timer (sighup st) = Some 0%N.
Proof. repeat split. Qed.

(* gids_update schedules an update but does not by-pass the mtime comparison *)
Lemma sighup_does_not_force st now mt pw db sched :
  g_dostat st <> 0 -> mt <= g_tlast st ->
  g_map (refresh (sighup st) now (Some mt) pw db sched) = g_map st.
Proof.
  intros Hd Hm. change (g_map st) with (g_map (sighup st)).
  apply (refresh_keeps (sighup st)). left. unfold should_load. cbn [sighup g_dostat g_tlast].
  unfold notnot. destruct (Z.eqb_spec (g_dostat st) 0); [contradiction|]. lia.
Qed.

(* ------------------------------------------------------------------ the LTS *)
Local Open Scope N_scope.

Definition complete_for (ws : list world) (m : option gmap) : Prop :=
  m = None \/ exists w, In w ws /\ m = Some (build (w_pw w) (w_db w)).

Lemma complete_for_mono ws ws' m : incl ws ws' -> complete_for ws m -> complete_for ws' m.
Proof.
  intros Hi [H|(w & Hw & H)]; [left; exact H|right]. exists w. split; [apply Hi; exact Hw|exact H].
Qed.

Definition inv (ws : list world) (s : sys) : Prop :=
  In (s_w s) ws /\ complete_for ws (g_map (s_g s)) /\
  match s_pend s with Some p => complete_for ws (p_map p) | None => True end.

Definition edit_of (l : label) : list world := match l with LEdit w => [w] | _ => [] end.
Definition edits (tr : list label) : list world := flat_map edit_of tr.

Lemma begin_complete ws st now w sched : In w ws ->
  complete_for ws (p_map (refresh_begin st now (w_mtime w) (w_pw w) (w_db w) sched)).
Proof.
  intros Hw. rewrite begin_map. destruct (should_load_dec st (w_mtime w)); [|left; reflexivity].
  destruct (map_create (w_pw w) (w_db w) sched) as [m|] eqn:E; [|left; reflexivity].
  apply restart_on_erange in E. subst m. right. exists w. split; [exact Hw|reflexivity].
Qed.

Lemma step_inv ws s l s' o :
  inv ws s -> step s l = Some (s', o) -> inv (edit_of l ++ ws) s'.
Proof.
  intros (Hw & Hm & Hp) H. destruct l as [w|now sched| | |u g]; cbn [step] in H; cbn [edit_of app].
  - inversion H; subst. cbn [inv s_w s_g s_pend]. unfold inv. cbn [s_w s_g s_pend].
    split; [left; reflexivity|]. split.
    + apply (complete_for_mono ws); [apply incl_tl, incl_refl|exact Hm].
    + destruct (s_pend s); [|exact I].
      apply (complete_for_mono ws); [apply incl_tl, incl_refl|exact Hp].
  - destruct (s_pend s) eqn:E; [discriminate|]. inversion H; subst. unfold inv. cbn [s_w s_g s_pend].
    split; [exact Hw|]. split; [exact Hm|]. apply begin_complete. exact Hw.
  - destruct (s_pend s) as [p|] eqn:E; [|discriminate]. inversion H; subst. unfold inv.
    cbn [s_w s_g s_pend]. split; [exact Hw|]. split; [|exact I].
    unfold refresh_commit. cbn [g_map]. destruct (p_map p) eqn:Ep; [exact Hp|exact Hm].
  - inversion H; subst. unfold inv. cbn [s_w s_g s_pend]. split; [exact Hw|]. split; [exact Hm|exact Hp].
  - inversion H; subst. unfold inv. split; [exact Hw|]. split; [exact Hm|exact Hp].
Qed.

(* the visible map changes only at LCommit, and then to the pending complete build *)
Lemma map_changes_only_at_commit s l s' o :
  step s l = Some (s', o) ->
  g_map (s_g s') = g_map (s_g s) \/
  (l = LCommit /\ exists p, s_pend s = Some p /\ p_map p <> None /\ g_map (s_g s') = p_map p).
Proof.
  intros H. destruct l as [w|now sched| | |u g]; cbn [step] in H.
  - inversion H; subst. left. reflexivity.
  - destruct (s_pend s); [discriminate|]. inversion H; subst. left. reflexivity.
  - destruct (s_pend s) as [p|] eqn:E; [|discriminate]. inversion H; subst. cbn [s_g].
    unfold refresh_commit. cbn [g_map]. destruct (p_map p) as [m|] eqn:Ep.
    + right. split; [reflexivity|]. exists p. rewrite Ep. repeat split. discriminate.
    + left. reflexivity.
  - inversion H; subst. left. reflexivity.
  - inversion H; subst. left. reflexivity.
Qed.

Definition answer_ok (ws : list world) (r : N * N * bool) : Prop :=
  let '(u, g, b) := r in
  exists m, complete_for ws m /\ b = is_member m u g.

Lemma answer_ok_mono ws ws' r : incl ws ws' -> answer_ok ws r -> answer_ok ws' r.
Proof.
  destruct r as [[u g] b]. intros Hi (m & Hm & Hb). exists m. split; [|exact Hb].
  apply (complete_for_mono ws); assumption.
Qed.

Lemma exec_inv tr : forall ws s s' outs,
  inv ws s -> exec s tr = Some (s', outs) ->
  inv (rev (edits tr) ++ ws) s' /\ Forall (answer_ok (rev (edits tr) ++ ws)) outs.
Proof.
  induction tr as [|l r IH]; intros ws s s' outs Hi H; cbn [exec] in H.
  - inversion H; subst. cbn. split; [exact Hi|constructor].
  - destruct (step s l) as [[s1 o]|] eqn:Es; [|discriminate].
    destruct (exec s1 r) as [[s2 outs2]|] eqn:Ee; [|discriminate].
    pose proof (step_inv ws s l s1 o Hi Es) as Hi1.
    destruct (IH _ _ _ _ Hi1 Ee) as [Hi2 Ho2].
    assert (Hl : rev (edits (l :: r)) ++ ws = rev (edits r) ++ edit_of l ++ ws).
    { unfold edits. cbn [flat_map]. fold (edits r). rewrite rev_app_distr, <- app_assoc.
      f_equal. destruct l; reflexivity. }
    rewrite Hl. inversion H; subst. split; [exact Hi2|].
    destruct l as [w|now sched| | |u g]; try exact Ho2.
    cbn [step] in Es. inversion Es; subst. constructor; [|exact Ho2].
    cbn [edit_of app]. unfold answer_ok. exists (g_map (s_g s1)). split; [|reflexivity].
    destruct Hi as (_ & Hm & _).
    apply (complete_for_mono ws); [apply incl_appr, incl_refl|exact Hm].
Qed.

(* every answer ever given is the answer for one whole version of the databases
   (or "no" before the first successful build) *)
Lemma atomic_swap interval dostat w0 tr s outs :
  exec (sys_init interval dostat w0) tr = Some (s, outs) ->
  Forall (fun r => let '(u, g, b) := r in
            b = false \/
            exists w, In w (w0 :: edits tr) /\
                      (b = true <-> member_spec (w_pw w) (w_db w) u g)) outs.
Proof.
  intros H.
  assert (Hi : inv [w0] (sys_init interval dostat w0)).
  { unfold inv, sys_init. cbn [s_w s_g s_pend]. split; [left; reflexivity|].
    split; [left; reflexivity|exact I]. }
  destruct (exec_inv tr [w0] _ _ _ Hi H) as [_ Ho].
  rewrite Forall_forall in *. intros [[u g] b] Hr. specialize (Ho _ Hr).
  destruct Ho as (m & [->|(w & Hw & ->)] & Hb).
  - left. exact Hb.
  - right. exists w. split.
    + apply in_app_or in Hw. destruct Hw as [Hw|[<-|[]]]; [right; apply in_rev; exact Hw|left; reflexivity].
    + rewrite Hb. apply membership_spec.
Qed.

(* ------------------------------------------------------------------ traces *)
Lemma exec_app a : forall s b,
  exec s (a ++ b) =
  match exec s a with
  | None => None
  | Some (s1, o1) => match exec s1 b with
                     | None => None
                     | Some (s2, o2) => Some (s2, o1 ++ o2)
                     end
  end.
Proof.
  induction a as [|l r IH]; intros s b; cbn [app exec].
  - destruct (exec s b) as [[s2 o2]|]; reflexivity.
  - destruct (step s l) as [[s1 o]|]; [|reflexivity]. rewrite IH.
    destruct (exec s1 r) as [[s2 o2]|]; [|reflexivity].
    destruct (exec s2 b) as [[s3 o3]|]; [|reflexivity].
    destruct l; destruct o; reflexivity.
Qed.

(* a SIGHUP followed by a complete fault-free update, at each of the given times *)
Definition refreshes (ts : list Z) : list label :=
  flat_map (fun t => [LSighup; LBegin t []; LCommit]) ts.

(* ------------------------------------------------------------------ witnesses *)
(* the two stronger readings of "a completed refresh reflects the databases" fail on the
   unchanged code; both witnesses are replayed on the C code by the check *)
Definition alice : name := ["a"%byte].
Definition pwA : pwfun := pw_of_list [(alice, Some 1000)].
Definition pwB : pwfun := pw_of_list [(alice, Some 2000)].

(* (1) /etc/group edited in the very second the previous load started, after it was read *)
Definition wS0 : world := mkW [(100, [])] pwA (Some 5%Z).
Definition wS1 : world := mkW [(100, [alice])] pwA (Some 10%Z).
Definition sS : sys :=
  mkS (mkG (Some []) 10%Z 1%Z (Some 3600000) 3600%Z) wS1 None.

Lemma sS_reached :
  exec (sys_init 3600 1 wS0) [LBegin 10 []; LCommit; LEdit wS1] = Some (sS, []).
Proof. reflexivity. Qed.

Lemma sS_stuck ts : exec sS (refreshes ts) = Some (sS, []).
Proof.
  induction ts as [|t r IH]; [reflexivity|].
  change (refreshes (t :: r)) with ([LSighup; LBegin t []; LCommit] ++ refreshes r).
  rewrite exec_app.
  assert (H : exec sS [LSighup; LBegin t []; LCommit] = Some (sS, [])) by reflexivity.
  rewrite H, IH. reflexivity.
Qed.

Lemma same_second_witness :
  w_mtime wS1 = Some 10%Z /\ member_spec (w_pw wS1) (w_db wS1) 1000 100 /\
  forall ts, exec (sys_init 3600 1 wS0)
               ([LBegin 10 []; LCommit; LEdit wS1] ++ refreshes ts ++ [LLookup 1000 100])
             = Some (sS, [(1000, 100, false)]).
Proof.
  split; [reflexivity|]. split.
  - exists [alice], alice. repeat split; try (left; reflexivity); discriminate.
  - intros ts. rewrite exec_app, sS_reached, exec_app, sS_stuck. reflexivity.
Qed.

(* (2) only the passwd database changes (usermod -u): the group file's mtime stays put *)
Definition wP0 : world := mkW [(100, [alice])] pwA (Some 5%Z).
Definition wP1 : world := mkW [(100, [alice])] pwB (Some 5%Z).
Definition sP : sys :=
  mkS (mkG (Some [(1000, [100])]) 10%Z 1%Z (Some 3600000) 3600%Z) wP1 None.

Lemma sP_reached :
  exec (sys_init 3600 1 wP0) [LBegin 10 []; LCommit; LEdit wP1] = Some (sP, []).
Proof. reflexivity. Qed.

Lemma sP_stuck ts : exec sP (refreshes ts) = Some (sP, []).
Proof.
  induction ts as [|t r IH]; [reflexivity|].
  change (refreshes (t :: r)) with ([LSighup; LBegin t []; LCommit] ++ refreshes r).
  rewrite exec_app.
  assert (H : exec sP [LSighup; LBegin t []; LCommit] = Some (sP, [])) by reflexivity.
  rewrite H, IH. reflexivity.
Qed.

Lemma passwd_edit_witness :
  w_db wP1 = w_db wP0 /\ w_mtime wP1 = w_mtime wP0 /\
  member_spec (w_pw wP1) (w_db wP1) 2000 100 /\ ~ member_spec (w_pw wP1) (w_db wP1) 1000 100 /\
  forall ts, exec (sys_init 3600 1 wP0)
               ([LBegin 10 []; LCommit; LEdit wP1] ++ refreshes ts
                ++ [LLookup 2000 100; LLookup 1000 100])
             = Some (sP, [(2000, 100, false); (1000, 100, true)]).
Proof.
  split; [reflexivity|]. split; [reflexivity|]. split; [|split].
  - exists [alice], alice. repeat split; try (left; reflexivity); discriminate.
  - intros (ns & n & Hin & Hn & _ & Hpw & _). cbn in Hin. destruct Hin as [Hin|[]].
    inversion Hin; subst. destruct Hn as [<-|[]]. vm_compute in Hpw. discriminate.
  - intros ts. rewrite exec_app, sP_reached, exec_app, sP_stuck. reflexivity.
Qed.

(* ------------------------------------------------------------------ "a failed refresh keeps the old map": refuted when
   the database cannot be opened (EMFILE).  The scan is given nothing and no error, the build "succeeds" with the empty
   map, and the update installs it: the member that the unchanged databases still list gets "no". *)
Definition stE0 : gstate := refresh (gids_create 0 0) 10 (Some 5%Z) pwA [(100, [alice])] [].

Lemma silent_open_failure_witness :
  is_member (g_map stE0) 1000 100 = true /\ member_spec pwA [(100, [alice])] 1000 100 /\
  map_create pwA (delivered_by_scan false [(100, [alice])]) [] = Some [] /\
  forall (now : Z) (mtime : option Z),
    g_map (refresh stE0 now mtime pwA (delivered_by_scan false [(100, [alice])]) []) = Some [] /\
    is_member (g_map (refresh stE0 now mtime pwA (delivered_by_scan false [(100, [alice])]) [])) 1000 100 = false /\
    (* with the database opened, the same refresh keeps the answer *)
    is_member (g_map (refresh stE0 now mtime pwA (delivered_by_scan true [(100, [alice])]) [])) 1000 100 = true.
Proof.
  split; [vm_compute; reflexivity|]. split.
  - exists [alice], alice. split; [left; reflexivity|]. split; [left; reflexivity|].
    split; [discriminate|]. split; [vm_compute; reflexivity|]. vm_compute. discriminate.
  - split; [vm_compute; reflexivity|]. intros now mtime.
    assert (Hd : g_dostat stE0 = 0%Z) by (vm_compute; reflexivity).
    assert (Hs : should_load stE0 mtime) by (left; rewrite Hd; apply Z.le_refl).
    split; [|split].
    + destruct (refresh_loads stE0 now mtime pwA (delivered_by_scan false [(100, [alice])]) [] []) as [H _];
        [exact Hs|vm_compute; reflexivity|]. rewrite H. vm_compute. reflexivity.
    + destruct (refresh_loads stE0 now mtime pwA (delivered_by_scan false [(100, [alice])]) [] []) as [H _];
        [exact Hs|vm_compute; reflexivity|]. rewrite H. vm_compute. reflexivity.
    + destruct (refresh_loads stE0 now mtime pwA (delivered_by_scan true [(100, [alice])]) []
                              (build pwA [(100, [alice])])) as [H _];
        [exact Hs|vm_compute; reflexivity|]. rewrite H. vm_compute. reflexivity.
Qed.
