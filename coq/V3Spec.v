(* V3Spec.v — the v3 credential format as a declarative relation, transcribed from
   /repo/doc/credential_v3_format.txt (layout table + encoding steps 1-5) without using the functions of
   CredModel (armor, pack_outer, pack_inner, cbc_encrypt, pkcs_pad, xorb, blocks, zip_compress, be32 ...).
   Shared with the model are only: the primitives (Section variables), the per-algorithm size tables
   (cipher_blk_size / cipher_key_size / cipher_iv_size, generated from the source) and byte<->number
   conversion.  Base64 is the independent RFC 4648 description of Base64Proofs (rfc4648), not the modelled
   encoder.  Theorem enc_satisfies_spec: whatever enc_core emits satisfies the relation. *)
From Coq Require Import List NArith ZArith Bool Lia ZifyBool ZifyN ZifyNat.
From Coq.Strings Require Import Byte.
From RecordUpdate Require Import RecordSet.
From MV Require Import Bytes Base64Model Base64Proofs CredModel CredProofs CbcProofs CredRoundtrip.
From MV.gen Require Import GenCred.
Import ListNotations RecordSetNotations.
Local Open Scope N_scope.
Ltac Zify.zify_post_hook ::= Z.div_mod_to_equations.

(* ------------------------------------------------------------------ *)
(* vocabulary of the format document                                    *)
(* ------------------------------------------------------------------ *)
(* "08b" field holding the number n *)
Definition octet (n : N) (b : byte) : Prop := b2n b = n.
(* "32b" field, network byte order *)
Definition word32 (n : N) (w : bytes) : Prop :=
  exists a b c d, w = [a; b; c; d] /\ n = b2n a * 16777216 + b2n b * 65536 + b2n c * 256 + b2n d.

(* bytewise exclusive or of equally long strings *)
Inductive bxor : bytes -> bytes -> bytes -> Prop :=
| bxor_nil : bxor [] [] []
| bxor_cons a b c x y z : b2n c = N.lxor (b2n a) (b2n b) -> bxor x y z -> bxor (a :: x) (b :: y) (c :: z).

(* cipher block chaining over whole blocks: C_0 = IV, C_i = E (P_i xor C_(i-1)) *)
Inductive cbc_rel (E : bytes -> bytes) (bs : nat) : bytes -> bytes -> bytes -> Prop :=
| cbc_done prev : cbc_rel E bs prev [] []
| cbc_step prev p x rest crest :
    length p = bs -> bxor p prev x -> cbc_rel E bs (E x) rest crest ->
    cbc_rel E bs prev (p ++ rest) (E x ++ crest).

(* PKCS #5: n bytes of value n, 1 <= n <= block size, completing the last block *)
Definition pkcs5 (bs : nat) (plain padded : bytes) : Prop :=
  exists n pb, (1 <= n <= bs)%nat /\ octet (N.of_nat n) pb /\
    padded = plain ++ repeat pb n /\ (length padded mod bs = 0)%nat.

Record v3_fields := {
  f_cipher : N; f_mac : N; f_zip : N; f_realm : bytes;
  f_salt : bytes; f_addr : bytes; f_time : N; f_ttl : N;
  f_uid : N; f_gid : N; f_auth_uid : N; f_auth_gid : N; f_data : bytes }.

Definition munge_prefix : bytes := ["M"; "U"; "N"; "G"; "E"; ":"]%byte.
Definition munge_suffix : bytes := [":"]%byte.
Definition zip_magic : N := 0xCACACACA.    (* src/munged/zip.c: ZIP_MAGIC *)

Section Spec.
Variable hmac : N -> bytes -> bytes -> bytes.
Variable sha1 : bytes -> bytes.
Variable blk_enc : N -> bytes -> bytes -> bytes.
Variable zcomp : N -> bytes -> option bytes.

(* conf.c:create_subkeys *)
Definition spec_dek_subkey (key : bytes) : bytes := sha1 (key ++ ["1"%byte]).
Definition spec_mac_subkey (key : bytes) : bytes := sha1 (key ++ ["2"%byte]).

Definition v3_cred (key : bytes) (f : v3_fields) (cred : bytes) : Prop :=
  exists ver ci ma zi rl iv            (* OUTER *)
         al wt wl wu wg wau wag wdl    (* INNER *)
         outer inner innerz tag wire,
    (* OUTER layer *)
    octet 3 ver /\ octet (f_cipher f) ci /\ octet (f_mac f) ma /\ octet (f_zip f) zi /\
    octet (len (f_realm f)) rl /\
    len iv = (if f_cipher f =? 0 then 0 else cipher_iv_size (f_cipher f)) /\
    outer = [ver; ci; ma; zi; rl] ++ f_realm f ++ iv /\
    (* INNER layer *)
    len (f_salt f) = 8 /\ octet (len (f_addr f)) al /\
    word32 (f_time f) wt /\ word32 (f_ttl f) wl /\ word32 (f_uid f) wu /\ word32 (f_gid f) wg /\
    word32 (f_auth_uid f) wau /\ word32 (f_auth_gid f) wag /\ word32 (len (f_data f)) wdl /\
    inner = f_salt f ++ [al] ++ f_addr f ++ wt ++ wl ++ wu ++ wg ++ wau ++ wag ++ wdl ++ f_data f /\
    (* step 1: compression; 64-bit header = magic, original length *)
    ((f_zip f = 0 /\ innerz = inner) \/
     (f_zip f <> 0 /\ exists wm wn raw, word32 zip_magic wm /\ word32 (len inner) wn /\
        zcomp (f_zip f) inner = Some raw /\ innerz = wm ++ wn ++ raw)) /\
    (* step 2: MAC over OUTER + INNER (compressed, not yet encrypted) with the MAC subkey *)
    tag = hmac (f_mac f) (spec_mac_subkey key) (outer ++ innerz) /\
    (* step 3: CBC with PKCS #5; DEK = HMAC (DEK subkey, MAC) cut to the key size *)
    ((f_cipher f = 0 /\ wire = innerz) \/
     (f_cipher f <> 0 /\ exists padded,
        pkcs5 (N.to_nat (cipher_blk_size (f_cipher f))) innerz padded /\
        cbc_rel (blk_enc (f_cipher f)
                   (firstn (N.to_nat (cipher_key_size (f_cipher f)))
                           (hmac (f_mac f) (spec_dek_subkey key) tag)))
                (N.to_nat (cipher_blk_size (f_cipher f))) iv padded wire)) /\
    (* steps 4 and 5: base64 of OUTER + MAC + INNER between "MUNGE:" and ":" *)
    cred = munge_prefix ++ rfc4648 (outer ++ tag ++ wire) ++ munge_suffix.

(* ------------------------------------------------------------------ *)
(* the model's helpers meet the declarative notions                     *)
(* ------------------------------------------------------------------ *)
Lemma word32_be32 n : n < 4294967296 -> word32 n (be32 n).
Proof.
  intros H. pose proof (rd32_be32 n H) as E. unfold be32 in *. unfold rd32 in E.
  do 4 eexists. split; [reflexivity|]. symmetry. exact E.
Qed.

Lemma octet_n2b n : n < 256 -> octet n (n2b n).
Proof. apply b2n_n2b. Qed.

Lemma xorb_bxor a : forall b, length a = length b -> bxor a b (xorb a b).
Proof.
  induction a as [|x a IH]; intros b H; destruct b as [|y b]; cbn [length] in H; try lia.
  - constructor.
  - rewrite xorb_cons. constructor.
    + apply b2n_n2b. apply lxor_byte; apply b2n_lt.
    + apply IH. lia.
Qed.

Lemma cbc_enc_rel (E : bytes -> bytes) (bs : nat) :
  (forall b, length b = bs -> length (E b) = bs) ->
  forall bl iv, length iv = bs -> Forall (fun b => length b = bs) bl ->
  cbc_rel E bs iv (concat bl) (cbc_enc_blocks E iv bl).
Proof.
  intros E_len. induction bl as [|b r IH]; intros iv Hiv F.
  - constructor.
  - pose proof (Forall_inv F) as Hb. pose proof (Forall_inv_tail F) as Fr. cbv beta in Hb.
    cbn [concat cbc_enc_blocks].
    assert (Lx : length (xorb b iv) = bs) by (rewrite xorb_length, Hb, Hiv; apply Nat.min_id).
    apply cbc_step.
    + exact Hb.
    + apply xorb_bxor. congruence.
    + apply IH; [apply E_len; exact Lx|exact Fr].
Qed.

Lemma pkcs_pad_pkcs5 bs p : (0 < bs)%nat -> (bs < 256)%nat -> pkcs5 bs p (pkcs_pad bs p).
Proof.
  intros H0 H256. pose proof (pkcs_pad_length bs p H0) as L. unfold pkcs_pad in *.
  pose proof (Nat.mod_upper_bound (length p) bs).
  exists (bs - length p mod bs)%nat, (n2b (N.of_nat (bs - length p mod bs))).
  split; [lia|]. split; [apply octet_n2b; lia|]. split; [reflexivity|].
  rewrite L. apply Nat.mod_mul. lia.
Qed.

(* ------------------------------------------------------------------ *)
(* conformance of the encoder                                           *)
(* ------------------------------------------------------------------ *)
Hypothesis blk_len : forall c k b, cipher_valid c = true -> len b = cipher_blk_size c ->
  len (blk_enc c k b) = cipher_blk_size c.

(* what enc_core may assume of its input: a validated, identified, time-stamped request (enc_pre) with
   consistent length fields and 32-bit quantities in range *)
Definition core_input_ok (cf : conf) (m : msg) (salt ivr : bytes) : Prop :=
  opts_ok m /\
  m_realm_len m = len (m_realm m) /\ m_realm_len m < 256 /\
  m_data_len m = len (m_data m) /\ m_data_len m + 41 < 4294967296 /\   (* 41 = fixed part of INNER *)
  m_time0 m < 4294967296 /\ m_ttl m < 4294967296 /\
  m_client_uid m < 4294967296 /\ m_client_gid m < 4294967296 /\
  m_auth_uid m < 4294967296 /\ m_auth_gid m < 4294967296 /\
  len (cf_addr cf) = c_addr_size /\ len salt = c_salt_len /\ 16 <= len ivr.

(* the fields a credential carries: options as resolved by the encoder (after the compression fall-back) *)
Definition fields_of (cf : conf) (m : msg) (salt : bytes) (o : enc_out) : v3_fields :=
  {| f_cipher := m_cipher (eo_msg o); f_mac := m_mac (eo_msg o); f_zip := m_zip (eo_msg o);
     f_realm := m_realm m; f_salt := salt; f_addr := cf_addr cf;
     f_time := m_time0 m; f_ttl := m_ttl m; f_uid := m_client_uid m; f_gid := m_client_gid m;
     f_auth_uid := m_auth_uid m; f_auth_gid := m_auth_gid m; f_data := m_data m |}.

Theorem enc_satisfies_spec cf m salt ivr o :
  core_input_ok cf m salt ivr ->
  enc_core hmac sha1 blk_enc zcomp cf m salt ivr = inr o ->
  exists c, eo_cred o = c ++ [x00] /\ v3_cred (cf_key cf) (fields_of cf m salt o) c.
Proof.
  intros (O & Hrl & Hrl2 & Hdl & Hdl2 & Ht0 & Httl & Hcu & Hcg & Hau & Hag & Haddr & Hsalt & Hivr) Hcore.
  destruct O as (Ocv & Oc & Omv & Om & Oks & Ozv & Oz).
  destruct (enc_core_inv _ _ _ _ _ _ _ _ _ Hcore)
    as (m3 & inner1 & C3 & M3 & R3 & RL3 & Zrel & Etag & Ecred & Ec & Ema & Ez).
  set (iv := core_iv m ivr) in *.
  set (tag := core_tag hmac sha1 cf m3 iv inner1) in *.
  set (wire := core_wire hmac sha1 blk_enc cf m3 iv inner1) in *.
  assert (Hz3 : m_zip m3 < 256).
  { destruct Zrel as [(Z & _)|(Z & _)]; rewrite Z; [reflexivity|exact Oz]. }
  exists (munge_prefix ++ rfc4648 (pack_outer m3 iv ++ tag ++ wire) ++ munge_suffix).
  split.
  { rewrite Ecred. unfold armor. rewrite chunking_independent0, canonical. cbn [concat].
    rewrite app_nil_r. reflexivity. }
  unfold v3_cred, fields_of. cbn [f_cipher f_mac f_zip f_realm f_salt f_addr f_time f_ttl f_uid f_gid
                                  f_auth_uid f_auth_gid f_data].
  rewrite Ec, Ema, Ez.
  exists (n2b c_cred_version), (n2b (m_cipher m3)), (n2b (m_mac m3)), (n2b (m_zip m3)), (n2b (m_realm_len m3)), iv.
  exists (n2b c_addr_size), (be32 (m_time0 m)), (be32 (m_ttl m)), (be32 (m_client_uid m)), (be32 (m_client_gid m)),
         (be32 (m_auth_uid m)), (be32 (m_auth_gid m)), (be32 (m_data_len m)).
  exists (pack_outer m3 iv), (pack_inner cf m salt), inner1, tag, wire.
  split; [apply octet_n2b; reflexivity|].
  split; [apply octet_n2b; rewrite C3; exact Oc|].
  split; [apply octet_n2b; rewrite M3; exact Om|].
  split; [apply octet_n2b; exact Hz3|].
  split; [rewrite <- Hrl, <- RL3; apply octet_n2b; rewrite RL3; exact Hrl2|].
  split; [rewrite C3; apply core_iv_len; assumption|].
  split; [unfold pack_outer; rewrite R3; reflexivity|].
  split; [exact Hsalt|].
  split; [rewrite Haddr; apply octet_n2b; reflexivity|].
  split; [apply word32_be32; exact Ht0|]. split; [apply word32_be32; exact Httl|].
  split; [apply word32_be32; exact Hcu|]. split; [apply word32_be32; exact Hcg|].
  split; [apply word32_be32; exact Hau|]. split; [apply word32_be32; exact Hag|].
  split; [rewrite <- Hdl; apply word32_be32; lia|].
  split; [reflexivity|].
  split.
  { destruct Zrel as [(Z & ->)|(Z & Zn & Cz)]; [left; split; [exact Z|reflexivity]|].
    right. rewrite Z. split; [exact Zn|].
    unfold zip_compress in Cz. destruct (zcomp (m_zip m) (pack_inner cf m salt)) as [raw|]; [|discriminate].
    injection Cz as <-.
    exists (be32 c_zip_magic), (be32 (len (pack_inner cf m salt))), raw.
    split; [apply word32_be32; reflexivity|].
    split; [|split; reflexivity].
    apply word32_be32. rewrite pack_inner_len, Hsalt, Haddr, <- Hdl.
    change c_salt_len with 8. change c_addr_size with 4. lia. }
  split; [reflexivity|].
  split; [|reflexivity].
  subst wire. unfold core_wire.
  destruct (m_cipher m3 =? c_cipher_none) eqn:Cn.
  - left. split; [apply N.eqb_eq; exact Cn|reflexivity].
  - right. apply N.eqb_neq in Cn. split; [exact Cn|].
    assert (V : cipher_valid (m_cipher m3) = true).
    { rewrite C3 in *. destruct Ocv as [E|E]; [contradiction|exact E]. }
    assert (C256 : m_cipher m3 < 256) by (rewrite C3; exact Oc).
    destruct (cipher_tab_facts _ C256 V) as (Hb0 & Hb256 & Hivb & _ & _).
    set (bs := N.to_nat (cipher_blk_size (m_cipher m3))).
    assert (Hbs : (0 < bs)%nat) by (subst bs; lia).
    assert (Hbs2 : (bs < 256)%nat) by (subst bs; lia).
    exists (pkcs_pad bs inner1). split; [apply pkcs_pad_pkcs5; assumption|].
    unfold cbc_encrypt. fold bs.
    destruct (blocks_spec bs Hbs _ _ (pkcs_pad_length bs inner1 Hbs)) as (F & Cc & _).
    rewrite <- Cc at 1. apply cbc_enc_rel.
    + intros b Hb.
      match goal with |- length (blk_enc ?c ?k ?x) = _ => pose proof (blk_len c k x V) as BL end.
      unfold len in BL. subst bs. lia.
    + assert (L : len iv = cipher_iv_size (m_cipher m3)).
      { subst iv. rewrite C3. rewrite core_iv_len by assumption.
        rewrite <- C3. destruct (m_cipher m3 =? c_cipher_none) eqn:E; [apply N.eqb_eq in E; contradiction|reflexivity]. }
      unfold len in L. subst bs. lia.
    + exact F.
Qed.

(* every request that passes enc_pre (validation, identification, time stamp) is such an input *)
Lemma enc_pre_core_input cf m pu pg now m1 salt ivr :
  wf_conf cf -> wf_enc_req m -> pu < 4294967296 -> pg < 4294967296 ->
  len salt = c_salt_len -> 16 <= len ivr ->
  enc_pre cf m pu pg now = inl m1 -> core_input_ok cf m1 salt ivr.
Proof.
  intros Hcf Hm Hpu Hpg Hsalt Hivr Hpre.
  destruct (enc_pre_facts _ _ _ _ _ _ Hcf Hm Hpre) as (O & P & Httl & U & G & T0).
  destruct P as (Pd & Pdl & Pr & Prl & Pau & Pag & _ & _).
  destruct Hm as (_ & _ & _ & _ & _ & Wrl & Wrl2 & _ & Wau & Wag & Wdl & Wdl2).
  destruct Hcf as (Haddr & _).
  unfold core_input_ok. rewrite Prl, Pr, Pdl, Pd, Pau, Pag, U, G, T0.
  split; [exact O|].
  assert (u32 now < 4294967296) by (unfold u32; apply N.mod_lt; discriminate).
  repeat split; try assumption; try lia.
Qed.

Corollary enc_request_satisfies_spec cf m pu pg now m1 salt ivr o :
  wf_conf cf -> wf_enc_req m -> pu < 4294967296 -> pg < 4294967296 ->
  len salt = c_salt_len -> 16 <= len ivr ->
  enc_pre cf m pu pg now = inl m1 ->
  enc_core hmac sha1 blk_enc zcomp cf m1 salt ivr = inr o ->
  exists c, eo_cred o = c ++ [x00] /\ v3_cred (cf_key cf) (fields_of cf m1 salt o) c.
Proof.
  intros Hcf Hm Hpu Hpg Hsalt Hivr Hpre Hcore.
  apply (enc_satisfies_spec cf m1 salt ivr o); [|exact Hcore].
  exact (enc_pre_core_input _ _ _ _ _ _ _ _ Hcf Hm Hpu Hpg Hsalt Hivr Hpre).
Qed.

End Spec.
