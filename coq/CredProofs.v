(* CredProofs.v — proofs about CredModel: time window (C06), authorization (C04), failure replies (C09),
   identity (C03).  Round trip / forgery reduction / format conformance are in CredRoundtrip.v. *)
From Coq Require Import List NArith ZArith Bool Lia ZifyBool ZifyN ZifyNat.
From Coq.Strings Require Import Byte.
From RecordUpdate Require Import RecordSet.
From MV Require Import Bytes Base64Model CredModel.
From MV.gen Require Import GenCred.
Import ListNotations RecordSetNotations.
Local Open Scope N_scope.
Ltac Zify.zify_post_hook ::= Z.div_mod_to_equations.

(* ------------------------------------------------------------------ *)
(* C06: the time window                                                *)
(* ------------------------------------------------------------------ *)
Definition capped (cf : conf) (ttl : N) : N := if cf_max_ttl cf <? ttl then cf_max_ttl cf else ttl.
Definition skew_of (cf : conf) (ttl' : N) : N := if cf_clock_skew cf then ttl' else 1.

Lemma dec_time_ttl cf t0 ttl t1 : snd (dec_time cf t0 ttl t1) = capped cf ttl.
Proof. reflexivity. Qed.

(* the decision is exactly the inequality of the property, for all values *)
Lemma window_exact cf t0 ttl t1 :
  let ttl' := capped cf ttl in let skew := skew_of cf ttl' in
  (fst (dec_time cf t0 ttl t1) = TOk <-> (Z.of_N t0 - Z.of_N skew <= Z.of_N t1 /\ Z.of_N t1 <= Z.of_N t0 + Z.of_N ttl')%Z) /\
  (fst (dec_time cf t0 ttl t1) = TExpired <->
     (Z.of_N t0 - Z.of_N skew <= Z.of_N t1 /\ Z.of_N t0 + Z.of_N ttl' < Z.of_N t1)%Z) /\
  (fst (dec_time cf t0 ttl t1) = TRewound <-> (Z.of_N t1 < Z.of_N t0 - Z.of_N skew)%Z).
Proof.
  intros ttl' skew. unfold dec_time. fold (capped cf ttl). fold ttl'.
  fold (skew_of cf ttl'). fold skew. cbn [fst].
  destruct (Z.of_N t1 <? Z.of_N t0 - Z.of_N skew)%Z eqn:A; destruct (t0 + ttl' <? t1) eqn:B;
    repeat split; intros; try discriminate; try lia; try reflexivity.
Qed.

(* the unrepaired code formed tmin/tmax in uint32 arithmetic; its decision function: *)
Definition dec_time_u32 (cf : conf) (time0 ttl time1 : N) : tverdict :=
  let ttl' := capped cf ttl in let skew := skew_of cf ttl' in
  let tmin := u32 (time0 + 4294967296 - skew) in
  let tmax := u32 (time0 + ttl') in
  if time1 <? tmin then TRewound else if tmax <? time1 then TExpired else TOk.

Definition cf_std : conf :=
  {| cf_def_cipher := c_def_cipher; cf_def_mac := c_def_mac; cf_def_zip := c_def_zip;
     cf_def_ttl := c_def_ttl; cf_max_ttl := c_max_ttl; cf_root_auth := false; cf_clock_skew := true;
     cf_socket_retry := true; cf_addr := [x7f; x00; x00; x01]; cf_key := [] |}.

(* ... and it violated the inequality at both edges of the 32-bit clock (replayed on the real daemon
   under the virtual clock: finding F-C06-wrap, repaired in /repo) *)
Lemma window_wrap_low_refuted :
  exists t0 ttl t1, t0 <= t1 /\ t1 <= t0 + ttl /\ dec_time_u32 cf_std t0 ttl t1 = TRewound
                    /\ fst (dec_time cf_std t0 ttl t1) = TOk.
Proof. exists 100, 300, 100. vm_compute. repeat split; congruence. Qed.

Lemma window_wrap_high_refuted :
  exists t0 ttl t1, t0 <= t1 /\ t1 <= t0 + ttl /\ t1 < 4294967296 /\ dec_time_u32 cf_std t0 ttl t1 = TExpired
                    /\ fst (dec_time cf_std t0 ttl t1) = TOk.
Proof. exists 4294967096, 300, 4294967196. vm_compute. repeat split; congruence. Qed.

(* TTL on encode: 0 -> default; anything above the maximum (incl. the 2^32-1 sentinel) -> maximum *)
Lemma enc_validate_ttl cf m m' : enc_validate cf m = inl m' ->
  m_ttl m' = (if m_ttl m =? 0 then cf_def_ttl cf
              else if cf_max_ttl cf <? m_ttl m then cf_max_ttl cf else m_ttl m).
Proof.
  unfold enc_validate. intros H.
  repeat match type of H with
  | context [if ?b then _ else _] => destruct b eqn:?
  end; inversion H; subst; cbn in *;
  repeat match goal with
  | E : (m_ttl _ =? 0) = _ |- _ => rewrite E; clear E
  | E : (cf_max_ttl _ <? m_ttl _) = _ |- _ => rewrite E; clear E
  end; reflexivity.
Qed.

(* no credential is honoured for longer than the decoding daemon's max-ttl *)
Lemma no_credential_outlives_max_ttl cf t0 ttl t1 :
  fst (dec_time cf t0 ttl t1) = TOk -> t1 <= t0 + cf_max_ttl cf.
Proof.
  intros Hok. destruct (window_exact cf t0 ttl t1) as (W & _ & _).
  apply W in Hok. unfold capped in *. destruct (cf_max_ttl cf <? ttl) eqn:E; lia.
Qed.

(* ------------------------------------------------------------------ *)
(* C04: the authorization decision                                     *)
(* ------------------------------------------------------------------ *)
Lemma auth_decision cf mem m :
  dec_authorized cf mem m = true <->
  (m_auth_uid m = c_uid_any \/ m_auth_uid m = m_client_uid m \/ (cf_root_auth cf = true /\ m_client_uid m = 0)) /\
  (m_auth_gid m = c_gid_any \/ m_auth_gid m = m_client_gid m \/ mem (m_client_uid m) (m_auth_gid m) = true).
Proof.
  unfold dec_authorized. rewrite andb_true_iff, !orb_true_iff, andb_true_iff, !N.eqb_eq. tauto.
Qed.

(* ------------------------------------------------------------------ *)
(* set_err / reset facts                                               *)
(* ------------------------------------------------------------------ *)
Lemma set_err_first m e s : m_err m <> e_success -> set_err m e s = m.
Proof.
  intros H. unfold set_err. destruct (m_err m =? e_success) eqn:E; [apply N.eqb_eq in E; contradiction|reflexivity].
Qed.

Lemma set_err_code m e s : m_err m = e_success -> e <> e_success -> m_err (set_err m e s) = e.
Proof.
  intros H He. unfold set_err. rewrite H.
  replace (e_success =? e_success) with true by reflexivity.
  destruct (e =? e_success) eqn:E; [apply N.eqb_eq in E; contradiction|reflexivity].
Qed.

(* the fields of a reset message that go into a DEC_RSP *)
Definition is_reset (r : msg) : Prop :=
  m_cipher r = c_cipher_none /\ m_mac r = c_mac_none /\ m_zip r = c_zip_none /\
  m_realm_len r = 0 /\ m_realm r = [] /\ m_ttl r = c_ttl_default /\ m_addr_len r = 0 /\
  m_time0 r = 0 /\ m_time1 r = 0 /\ m_cred_uid r = c_uid_any /\ m_cred_gid r = c_gid_any /\
  m_auth_uid r = c_uid_any /\ m_auth_gid r = c_gid_any /\ m_data_len r = 0 /\ m_data r = [].

Lemma msg_reset_is_reset m : is_reset (msg_reset m).
Proof. unfold is_reset, msg_reset. cbn. repeat split; reflexivity. Qed.

Lemma msg_reset_err m : m_err (msg_reset m) = m_err m /\ m_errstr (msg_reset m) = m_errstr m.
Proof. split; reflexivity. Qed.

Definition hard (e : N) : Prop := e <> e_success /\ soft_err e = false.

(* ------------------------------------------------------------------ *)
(* frame lemmas: which fields each decode stage can change             *)
(* ------------------------------------------------------------------ *)
(* fields a decode stage never touches *)
Definition same_req (a b : msg) : Prop :=
  m_err a = m_err b /\ m_errstr a = m_errstr b /\ m_retry a = m_retry b /\
  m_client_uid a = m_client_uid b /\ m_client_gid a = m_client_gid b /\ m_time1 a = m_time1 b.

Lemma same_req_refl a : same_req a a. Proof. unfold same_req; tauto. Qed.
Lemma same_req_trans a b c : same_req a b -> same_req b c -> same_req a c.
Proof. unfold same_req. intuition congruence. Qed.

Ltac break_match H :=
  repeat match type of H with
  | context [match ?x with _ => _ end] => destruct x eqn:?; try discriminate H
  end.

Lemma unpack_outer_frame m body o : dec_unpack_outer m body = inr o -> same_req (oo_msg o) m.
Proof.
  unfold dec_unpack_outer. intros H. break_match H.
  all: inversion H; subst; clear H; unfold same_req; cbn; tauto.
Qed.

Definition hard_code (e : N) : bool := negb (e =? e_success) && negb (soft_err e).

Lemma set_err_hard m e s : m_err m = e_success -> hard_code e = true ->
  hard_code (m_err (set_err m e s)) = true.
Proof.
  intros H He. rewrite set_err_code; auto.
  intros ->. vm_compute in He. discriminate.
Qed.

(* every error dec_unpack_outer reports is a hard error *)
Lemma unpack_outer_err m body e : dec_unpack_outer m body = inl e -> m_err m = e_success ->
  hard_code (m_err e) = true.
Proof.
  unfold dec_unpack_outer. intros H H0. break_match H.
  all: inversion H; subst; clear H; apply set_err_hard; cbn; auto.
Qed.

Lemma unpack_inner_frame m inner m' : dec_unpack_inner m inner = inr m' -> same_req m' m.
Proof.
  unfold dec_unpack_inner, bad_cred. intros H. break_match H.
  all: inversion H; subst; clear H; unfold same_req; cbn; tauto.
Qed.

Lemma unpack_inner_err m inner e : dec_unpack_inner m inner = inl e -> m_err m = e_success ->
  hard_code (m_err e) = true.
Proof.
  unfold dec_unpack_inner, bad_cred. intros H H0. break_match H.
  all: inversion H; subst; clear H; apply set_err_hard; cbn; auto.
Qed.

Section WithPrims.
Variable hmac : N -> bytes -> bytes -> bytes.
Variable sha1 : bytes -> bytes.
Variable blk_dec : N -> bytes -> bytes -> bytes.
Variable zdecomp : N -> bytes -> N -> option bytes.

Notation dec_decrypt_mac := (dec_decrypt_mac hmac sha1 blk_dec).
Notation dec_decompress := (dec_decompress zdecomp).
Notation dec_parse := (dec_parse hmac sha1 blk_dec zdecomp).
Notation dec_process := (dec_process hmac sha1 blk_dec zdecomp).

(* C09: a padding failure and a MAC mismatch produce the very same message *)
Lemma decrypt_mac_err cf o e : dec_decrypt_mac cf o = inl e -> e = set_err (oo_msg o) e_cred_invalid None.
Proof.
  unfold CredModel.dec_decrypt_mac. intros H. break_match H; inversion H; reflexivity.
Qed.

Lemma padding_indistinguishable cf o1 o2 e1 e2 :
  oo_msg o1 = oo_msg o2 ->
  dec_decrypt_mac cf o1 = inl e1 -> dec_decrypt_mac cf o2 = inl e2 -> e1 = e2.
Proof. intros Hm H1 H2. apply decrypt_mac_err in H1, H2. congruence. Qed.

Lemma decompress_err m inner e : dec_decompress m inner = inl e -> m_err m = e_success ->
  hard_code (m_err e) = true.
Proof.
  unfold CredModel.dec_decompress. intros H H0. break_match H.
  all: inversion H; subst; clear H; apply set_err_hard; cbn; auto.
Qed.

Lemma dec_parse_frame cf m m' tag : dec_parse cf m = inr (m', tag) ->
  m_err m' = m_err m /\ m_retry m' = m_retry m /\
  m_client_uid m' = m_client_uid m /\ m_client_gid m' = m_client_gid m /\ m_time1 m' = m_time1 m.
Proof.
  unfold CredModel.dec_parse. intros H. break_match H. inversion H; subst; clear H.
  match goal with H : dec_unpack_outer _ _ = inr _ |- _ => apply unpack_outer_frame in H; rename H into F1 end.
  match goal with H : dec_unpack_inner _ _ = inr _ |- _ => apply unpack_inner_frame in H; rename H into F2 end.
  unfold same_req in *. cbn in F1. intuition congruence.
Qed.

Lemma dec_parse_err cf m e : dec_parse cf m = inl e -> m_err m = e_success -> hard_code (m_err e) = true.
Proof.
  unfold CredModel.dec_parse. intros H H0. break_match H; inversion H; subst; clear H.
  all: repeat match goal with
       | H : dec_unpack_outer _ _ = inr _ |- _ =>
           apply unpack_outer_frame in H; unfold same_req in H; cbn in H
       end.
  all: try match goal with
       | H : dec_unpack_inner _ _ = inl _ |- _ => apply unpack_inner_err in H; [exact H|intuition congruence]
       | H : dec_decompress _ _ = inl _ |- _ => apply decompress_err in H; [exact H|intuition congruence]
       | H : dec_decrypt_mac _ _ = inl _ |- _ =>
           apply decrypt_mac_err in H; subst; apply set_err_hard; [intuition congruence|reflexivity]
       | H : dec_unpack_outer _ _ = inl _ |- _ => apply unpack_outer_err in H; [exact H|exact H0]
       end.
  apply set_err_hard; [exact H0|].
  match goal with H : dec_unarmor _ = inr (?c, _) |- _ => unfold dec_unarmor in H; break_match H; inversion H; reflexivity end.
Qed.

Lemma dec_finish_hard m : hard_code (m_err m) = true -> dec_finish m = msg_reset m.
Proof. unfold dec_finish, hard_code. intros ->. reflexivity. Qed.
Lemma dec_finish_soft m : hard_code (m_err m) = false -> dec_finish m = m.
Proof. unfold dec_finish, hard_code. intros ->. reflexivity. Qed.

Lemma finish_reset m : hard_code (m_err m) = true -> is_reset (dec_finish m).
Proof. intros H. rewrite dec_finish_hard by exact H. apply msg_reset_is_reset. Qed.

(* C09 main theorem: whenever decode ends in an error other than expired/rewound/replayed, the reply is
   a reset message (no payload, ids = ANY, metadata zero), the replay state is untouched and nothing is
   left to roll back. *)
Theorem hard_error_reply_is_reset cf mem rs m pu pg now r rs' k :
  m_err m = e_success ->
  dec_process cf mem rs m pu pg now = (r, rs', k) ->
  hard_code (m_err r) = true ->
  is_reset r /\ rs' = rs /\ k = None.
Proof.
  intros H0 H Hh. unfold CredModel.dec_process in H.
  destruct (m_data_len m =? 0) eqn:D0.
  { inversion H; subst; clear H.
    split; [apply finish_reset; apply set_err_hard; auto|auto]. }
  set (m1 := m <| m_time0 := 0 |> <| m_time1 := u32 now |> <| m_client_uid := pu |> <| m_client_gid := pg |>) in *.
  assert (E1 : m_err m1 = e_success) by exact H0.
  destruct (c_retry_attempts <? m_retry m1) eqn:R.
  { inversion H; subst; clear H.
    split; [apply finish_reset; apply set_err_hard; auto|auto]. }
  destruct (dec_parse cf m1) as [e|[m2 tag]] eqn:P.
  { inversion H; subst; clear H. pose proof (dec_parse_err _ _ _ P E1) as He.
    split; [apply finish_reset; exact He|auto]. }
  destruct (dec_parse_frame _ _ _ _ P) as (E2 & _).
  rewrite E1 in E2.
  destruct (negb (dec_authorized cf mem m2)) eqn:A.
  { inversion H; subst; clear H.
    split; [apply finish_reset; apply set_err_hard; auto|auto]. }
  destruct (dec_time cf (m_time0 m2) (m_ttl m2) (m_time1 m2)) as [tv ttl'] eqn:T.
  set (m3 := m2 <| m_ttl := ttl' |>) in *.
  assert (E3 : m_err m3 = e_success) by exact E2.
  destruct tv.
  - destruct (r_mem (cred_rkey tag m3) rs) eqn:M.
    + destruct (cf_socket_retry cf && (0 <? m_retry m3) && (m_retry m3 <=? c_retry_attempts)) eqn:Q.
      * inversion H; subst; clear H. rewrite E3 in Hh. discriminate.
      * inversion H; subst; clear H.
        rewrite dec_finish_soft in Hh.
        -- rewrite set_err_code in Hh by (auto; discriminate). discriminate.
        -- rewrite set_err_code by (auto; discriminate). reflexivity.
    + inversion H; subst; clear H. rewrite E3 in Hh. discriminate.
  - inversion H; subst; clear H. rewrite dec_finish_soft in Hh.
    + rewrite set_err_code in Hh by (auto; discriminate). discriminate.
    + rewrite set_err_code by (auto; discriminate). reflexivity.
  - inversion H; subst; clear H. rewrite dec_finish_soft in Hh.
    + rewrite set_err_code in Hh by (auto; discriminate). discriminate.
    + rewrite set_err_code by (auto; discriminate). reflexivity.
Qed.

(* every reply is success, a soft error, or a hard error -- and the error code tells which *)
Lemma code_trichotomy e : e = e_success \/ soft_err e = true \/ hard_code e = true.
Proof.
  unfold hard_code. destruct (e =? e_success) eqn:A; [left; now apply N.eqb_eq|].
  destruct (soft_err e); [right; left; reflexivity|right; right; reflexivity].
Qed.

(* C04: an unauthorized client gets "unauthorized", whatever the time window and the replay state say,
   and the attempt leaves the replay state as it was. *)
Theorem deny_precedes_everything cf mem rs m pu pg now m2 tag :
  m_err m = e_success -> m_data_len m <> 0 -> m_retry m <= c_retry_attempts ->
  dec_parse cf (m <| m_time0 := 0 |> <| m_time1 := u32 now |> <| m_client_uid := pu |> <| m_client_gid := pg |>)
    = inr (m2, tag) ->
  dec_authorized cf mem m2 = false ->
  dec_process cf mem rs m pu pg now =
    (msg_reset (set_err m2 e_cred_unauthorized (Some (unauth_str m2))), rs, None)
  /\ m_client_uid m2 = pu /\ m_client_gid m2 = pg.
Proof.
  intros H0 Hd Hr P A. unfold CredModel.dec_process.
  destruct (m_data_len m =? 0) eqn:D0; [apply N.eqb_eq in D0; contradiction|].
  set (m1 := m <| m_time0 := 0 |> <| m_time1 := u32 now |> <| m_client_uid := pu |> <| m_client_gid := pg |>) in *.
  assert (R : (c_retry_attempts <? m_retry m1) = false) by (apply N.ltb_ge; exact Hr).
  rewrite R, P, A. cbn [negb].
  destruct (dec_parse_frame _ _ _ _ P) as (E2 & _ & U & G & _).
  split; [|split; [exact U|exact G]].
  rewrite dec_finish_hard; [reflexivity|].
  apply set_err_hard; [rewrite E2; exact H0|reflexivity].
Qed.

(* C03/C04: the identity used for the authorization decision is the peer of this very request *)
Theorem dec_auth_uses_peer cf m pu pg now m2 tag :
  dec_parse cf (m <| m_time0 := 0 |> <| m_time1 := u32 now |> <| m_client_uid := pu |> <| m_client_gid := pg |>)
    = inr (m2, tag) ->
  m_client_uid m2 = pu /\ m_client_gid m2 = pg.
Proof. intros P. destruct (dec_parse_frame _ _ _ _ P) as (_ & _ & U & G & _). split; assumption. Qed.

End WithPrims.
