(* Properties_C12.v — statements only.  Accepted work is done exactly once and a
   graceful stop drains the queue.  Model: WorkModel (LTS of work.c for one
   acceptor and n workers; every label is one critical section or one call made
   outside the lock), guards of the two wait loops probed from
   src/munged/work.c into gen/GenWork.v on every run.
   All statements are for every worker count n >= 1, every label sequence
   (= every interleaving of acceptor, workers, wake-ups, cancellation, with
   every queue length) that the LTS can run from its initial state.
   The acceptor (job.c, job_accept) is in Properties_C12_job.v.             *)
From Coq Require Import List Arith Bool Permutation.
From MV Require Import WorkModel WorkProofs GenWork.
Import ListNotations.

(* Whatever the guards: queue ++ in-progress ++ done is a permutation of the
   accepted items, the dequeue log (item, worker) lists exactly the items in
   progress or done, and with distinct accepted items nothing is duplicated:
   every item is dequeued at most once, by one worker. *)
Theorem C12_exactly_once : forall wc fc n tr s, n <> 0 -> run wc fc (init n) tr = Some s ->
  Permutation (queue s ++ in_progress s ++ done s) (accepted s) /\
  Permutation (map fst (deqlog s)) (in_progress s ++ done s) /\
  (NoDup (accepted s) -> NoDup (queue s ++ in_progress s ++ done s) /\ NoDup (map fst (deqlog s))).
Proof. exact exactly_once. Qed.
Print Assumptions C12_exactly_once.

(* With the guard  n_working != 0 || work_head != NULL  every transition on which
   work_wait returns leads to a state with nothing queued and nothing in progress
   (and everything accepted so far done). *)
Theorem C12_wait_returns_idle : forall fc n tr s l s', n <> 0 ->
  run guard_or fc (init n) tr = Some s -> step guard_or fc s l = Some s' -> wait_return s l s' ->
  queue s' = [] /\ nworking s' = 0 /\ in_progress s' = [] /\ Permutation (done s') (accepted s').
Proof. exact wait_returns_idle. Qed.
Print Assumptions C12_wait_returns_idle.

(* With that guard in work_fini (w, 1): in every state at or after the first
   pthread_cancel — and in every state in which any worker has a cancel request
   pending — every accepted item is done. *)
Theorem C12_fini_drains : forall wc n tr s, n <> 0 -> run wc guard_or (init n) tr = Some s ->
  dwait s = true ->
  (past_wait (acc s) = true \/ exists i w, nth_error (workers s) i = Some w /\ cp w = true) ->
  queue s = [] /\ in_progress s = [] /\ Permutation (done s) (accepted s).
Proof. exact fini_drains. Qed.
Print Assumptions C12_fini_drains.

(* No lost wake-up, for every guard that is true only when something is
   outstanding (both || and &&): before cancellation queued work always has a
   worker that will look at the queue without further help, or the signal for it
   is still to be sent and a worker is waiting for it; and a thread blocked on
   finished_work always has work outstanding (whose last finisher signals). *)
Theorem C12_no_lost_wakeup : forall wc fc n tr s, n <> 0 -> sound_guard wc -> sound_guard fc ->
  run wc fc (init n) tr = Some s ->
  (past_wait (acc s) = false -> queue s <> [] ->
     existsb is_active (workers s) = true \/ (acc s = ASig /\ existsb is_waiting (workers s) = true)) /\
  (forall k, acc s = ABlocked k -> nworking s <> 0 \/ queue s <> []).
Proof. exact no_lost_wakeup. Qed.
Print Assumptions C12_no_lost_wakeup.

(* Progress: from every reachable state (post-cancellation states of a
   work_fini (w, 0) excepted, where dropping work is the specified behaviour) a
   finite schedule made of worker steps and the delivery of the pending signal
   only — no spurious wake-up, no help from the acceptor — reaches the state
   with nothing queued, nothing in progress and everything accepted done; when
   work is outstanding the schedule is non-empty, i.e. such a step is enabled. *)
Theorem C12_progress : forall wc n tr s, n <> 0 -> run wc guard_or (init n) tr = Some s ->
  (past_wait (acc s) = true -> dwait s = true) ->
  exists sched s', forallb worker_label sched = true /\ run wc guard_or s sched = Some s' /\
                   queue s' = [] /\ nworking s' = 0 /\ in_progress s' = [] /\
                   Permutation (done s') (accepted s') /\ (pending s -> sched <> []).
Proof. exact drain_schedule. Qed.
Print Assumptions C12_progress.

(* No deadlock: whenever the acceptor is inside work.c (sending the signal, blocked
   or woken in a wait loop, cancelling, joining), some step other than a spurious
   wake-up is enabled. *)
Theorem C12_no_deadlock : forall n tr s, n <> 0 -> run guard_or guard_or (init n) tr = Some s ->
  ~ stuck guard_or guard_or s.
Proof. exact no_deadlock. Qed.
Print Assumptions C12_no_deadlock.

(* work_fini terminates: from every reachable state inside work_fini (either value
   of do_wait, any position of the cancel requests relative to the workers' waits)
   a finite schedule lets it return; with do_wait every accepted item is then done. *)
Theorem C12_fini_terminates : forall n tr s, n <> 0 -> run guard_or guard_or (init n) tr = Some s ->
  in_fini (acc s) = true ->
  exists sched s', run guard_or guard_or s sched = Some s' /\ acc s' = ADone /\
                   (dwait s' = true -> Permutation (done s') (accepted s')).
Proof. exact fini_terminates. Qed.
Print Assumptions C12_fini_terminates.

(* The guard of the unchanged source,  n_working != 0 && work_head != NULL :
   work_wait returns with an item in progress (one worker, one item) ... *)
Theorem C12_guard_and_refuted_wait : forall fc, early_return guard_and fc.
Proof. exact and_wait_refuted. Qed.
Print Assumptions C12_guard_and_refuted_wait.

(* ... and work_fini (w, 1) returns with an accepted item never processed (idle
   worker, enqueue, fini before the woken worker re-acquires the lock). *)
Theorem C12_guard_and_refuted_fini : forall wc, lost_at_stop wc guard_and.
Proof. exact and_fini_refuted. Qed.
Print Assumptions C12_guard_and_refuted_fini.

(* The guards the source has now (tables probed from work.c): either both are the
   || guard and the model instance is exactly the verified one, or there is a
   concrete violating schedule. *)
Definition code_guards_ok : bool := tab_eqb code_wait_tab tab_or && tab_eqb code_fini_tab tab_or.
Theorem C12_code_verdict :
  if code_guards_ok
  then forall n tr, run code_wait_cond code_fini_cond (init n) tr = run guard_or guard_or (init n) tr
  else wait_bad code_wait_cond code_fini_cond \/ fini_bad code_wait_cond code_fini_cond.
Proof. apply verdict_tabs; reflexivity. Qed.
Print Assumptions C12_code_verdict.

(* Finding F-C12-accept: in  while (!got_terminate) { accept (); ... }  with an
   asynchronous handler a stop request can be latched while the daemon blocks in
   accept() with no connection pending; nothing the daemon does by itself is
   enabled. *)
Theorem C12_sigterm_window_refuted : exists tr s, arun false ainit tr = Some s /\ stop_lost false s /\
  a_flag s = true /\ a_pc s = PInAccept.
Proof. exact sigterm_window. Qed.
Print Assumptions C12_sigterm_window_refuted.

(* With signals delivered only inside an atomic unblock-and-wait the state is unreachable. *)
Theorem C12_atomic_wait_ok : forall tr s, arun true ainit tr = Some s -> ~ stop_lost true s.
Proof. intros tr s. apply atomic_wait_ok. intros H; discriminate H. Qed.
Print Assumptions C12_atomic_wait_ok.

(* non-vacuity: three workers, two items, a work_wait that really blocks and is
   woken by the last finisher, then a draining stop — a complete run of the LTS *)
Example C12_run_example :
  exists s, run guard_or guard_or (init 3)
    [LStart 0; LEnqueue 1; LSignal (Some 0); LEnqueue 2; LSignal None; LStart 1; LRetest 0; LWaitEnter;
     LFinish 1; LFinish 0; LWaitWake; LStart 2; LFiniEnter true;
     LCancel; LCancel; LCancel; LCancel; LDie 0; LDie 1; LDie 2; LJoin; LJoin; LJoin; LJoin] = Some s
    /\ acc s = ADone /\ done s = [1; 2] /\ map snd (deqlog s) = [1; 0].
Proof. eexists. split; [vm_compute; reflexivity|]. cbn. auto. Qed.
