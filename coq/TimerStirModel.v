(* TimerStirModel.v — executable model of the PRNG stir service of src/munged/random.c as a periodic service on
   timer.c (C18: "the periodic services built on it — ..., PRNG stirring — keep recurring for the life of the
   daemon").  No proofs here.

   Read off random.c:
   * random_init counts the bytes of entropy it could add (kernel source, seed file, process) and chooses the
     first interval: fewer than RANDOM_BYTES_WANTED -> 1 ("enhanced stirring"), otherwise RANDOM_STIR_MAX_SECS
     (RANDOM_BYTES_WANTED is chosen so that this needs the kernel source AND a complete seed file, i.e. a second
     or later start of the daemon); then, if the interval is positive, it CALLS _random_stir_entropy — the only
     place where the first stir timer is set.  (got_benchmark / RANDOM_STIR_MAX_SECS <= 0 disable the service:
     interval 0, no timer; not a daemon configuration.)
   * _random_stir_entropy: interval := min (2 * interval, max) while below max; re-arms itself with
     timer_set_relative (interval * 1000 + (entropy word & 0x3FF)).
   The timer side (a set timer fires exactly once, at the first scan at or after its expiry; the callback may
   set timers) is TimerModel's; here the service is followed on its own clock line: state = interval, the
   pending expiry, the clock; labels = the clock moves forward (any amount), the pending timer is dispatched.
   Numbers from the source (gen/GenTimer.v, measured by running random.c): stir_max_secs, random_bytes_wanted,
   stir_jitter_max and the sample tables the model is checked against. *)
From Coq Require Import List ZArith Bool.
From MV.gen Require Import GenTimer.
Import ListNotations.
Local Open Scope Z_scope.

(* the interval random_init starts from, by bytes of entropy counted *)
Definition stir_start (nbytes : Z) : Z :=
  if stir_max_secs <=? 0 then 0
  else if nbytes <? random_bytes_wanted then 1 else stir_max_secs.

(* the back-off step of _random_stir_entropy *)
Definition stir_next (secs : Z) : Z :=
  if secs <? stir_max_secs then Z.min (secs * 2) stir_max_secs else secs.

(* one run of _random_stir_entropy with stagger bits j: (new interval, delay in ms of the timer it sets) *)
Definition stir_cb (secs j : Z) : Z * Z :=
  let s' := stir_next secs in (s', s' * 1000 + j).

Record stir := mkStir {
  s_secs : Z;                  (* _random_stir_secs *)
  s_pend : option Z;           (* expiry (ms) of the stir timer, None = no timer *)
  s_clock : Z;                 (* ms *)
  s_armed : Z                  (* ghost: clock reading when that timer was set *)
}.

(* which call arms the first timer: the code as it is, or the variant that skips the start-up stir of a fully
   seeded pool (excluded by the theorems; refuted by a witness) *)
Inductive stir_variant := SRepo | SSkipWhenSeeded.

Definition stir_init (v : stir_variant) (nbytes j : Z) : stir :=
  let secs := stir_start nbytes in
  let call := match v with
              | SRepo => 0 <? secs
              | SSkipWhenSeeded => (0 <? secs) && (secs <? stir_max_secs)
              end in
  if call then let (s', d) := stir_cb secs j in mkStir s' (Some d) 0 0
  else mkStir secs None 0 0.

(* delay of the timer random_init sets, -1 when it sets none (shape of GenTimer.stir_init_samples) *)
Definition stir_first_delay (v : stir_variant) (nbytes j : Z) : Z :=
  match s_pend (stir_init v nbytes j) with Some d => d | None => -1 end.

Inductive slabel :=
| SClock (t : Z)               (* the clock moves forward to t (steps and jumps of any size) *)
| SFire (j : Z).               (* the timer thread dispatches the stir timer; j = low bits of the entropy word *)

Definition jitter_ok (j : Z) : bool := (0 <=? j) && (j <=? stir_jitter_max).

Definition stir_step (s : stir) (l : slabel) : option stir :=
  match l with
  | SClock t => if s_clock s <=? t then Some (mkStir (s_secs s) (s_pend s) t (s_armed s)) else None
  | SFire j =>
      match s_pend s with
      | Some e =>
          if (e <=? s_clock s) && jitter_ok j && (0 <? s_secs s) then
            let (s', d) := stir_cb (s_secs s) j in
            Some (mkStir s' (Some (s_clock s + d)) (s_clock s) (s_clock s))
          else None
      | None => None
      end
  end.

Fixpoint stir_run (s : stir) (ls : list slabel) : option stir :=
  match ls with
  | [] => Some s
  | l :: r => match stir_step s l with Some s' => stir_run s' r | None => None end
  end.

(* the interval after k stirs *)
Fixpoint stir_iter (k : nat) (secs : Z) : Z :=
  match k with O => secs | S k' => stir_iter k' (stir_next secs) end.

(* k successive runs of the callback with stagger 0: (interval variable after the run, delay armed) — the shape of
   GenTimer.stir_seq_first_start / stir_seq_seeded, which the probe measures far past the point where the maximum
   is reached (so that any state kept behind the interval would show) *)
Fixpoint stir_seq (k : nat) (secs : Z) : list (Z * Z) :=
  match k with
  | O => []
  | S k' => let (s', d) := stir_cb secs 0 in (s', d) :: stir_seq k' s'
  end.

(* the model against the measured tables *)
Definition init_sample_ok (p : Z * Z) : bool := stir_first_delay SRepo (fst p) 0 =? snd p.
Definition run_sample_ok (p : Z * Z) : bool := snd (stir_cb (fst p) 0) =? snd p.
