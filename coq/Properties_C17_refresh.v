(* Properties_C17_refresh.v — statements only.  C17, the clause "after a refresh (periodic or SIGHUP)
   completes it reflects any database whose modification time is newer than the previous load", over the
   model of the PAIR gids.c + timer.c (GidsTimerModel): the refresh is a callback on the timer thread, a
   SIGHUP is gids_update () from another thread, and it may arrive at any point — also INSIDE a running
   refresh, before or after that refresh has read the databases.

   gt_exec VRepo s tr = Some (s', evs): the label sequence tr (database edits, clock changes, gids_update
   calls, lookups, and the timer thread's steps XDetach / XFire / XScan sched / XCommit) is executable from s.
   gt_init interval dostat w0 = the daemon after gids_create (interval >= 0), databases w0, clock 0.
   x_owed s = Some c: gids_update ran at clock reading c and no refresh has STARTED since. *)
From Coq Require Import List NArith ZArith Bool.
From MV Require Import Bytes GidsModel GidsProofs GidsTimerModel GidsTimerProofs.
Import ListNotations.
Local Open Scope Z_scope.

(* a SIGHUP is never lost: from the moment gids_update has run until a refresh STARTS, a timer that was
   already due when gids_update ran stays pending (on the active list or detached for dispatch) — for every
   event sequence, whether the SIGHUP found the daemon idle, between two callbacks, or inside a running
   refresh, whatever that refresh does when it completes, and however many further SIGHUPs follow *)
Theorem C17_sighup_refresh_pending :
  forall (interval dostat : Z) (w0 : world) (tr : list glabel) (s : gt) (evs : list gev),
  gt_exec VRepo (gt_init interval dostat w0) tr = Some (s, evs) ->
  (forall s' e', gt_step VRepo s XSighup = Some (s', e') -> x_owed s' = Some (x_clock s)) /\
  (forall c, x_owed s = Some c ->
     c <= x_hi s /\ exists t, In t (x_active s ++ x_batch s) /\ snd t <= c) /\
  (forall c l s' e', x_owed s = Some c -> gt_step VRepo s l = Some (s', e') -> x_owed s' = None ->
     l = XFire).
Proof.
  intros interval dostat w0 tr s evs H. split; [intros s' e'; apply sighup_owes|].
  split; [intros c; apply (sighup_refresh_pending _ _ _ _ _ _ _ H)|].
  intros c l s' e' Ho Hs. apply (owed_cleared_only_by_fire _ _ _ _ _ _ Hs Ho).
Qed.
Print Assumptions C17_sighup_refresh_pending.

(* ... and that refresh can always start and run to completion: the timer thread is never stuck *)
Theorem C17_refresh_can_run :
  forall (interval dostat : Z) (w0 : world) (tr : list glabel) (s : gt) (evs : list gev),
  gt_exec VRepo (gt_init interval dostat w0) tr = Some (s, evs) ->
  match x_phase s with
  | PIdle => (exists t, In t (x_active s ++ x_batch s) /\ snd t <= x_clock s) ->
             exists l s' e, (l = XDetach \/ l = XFire) /\ gt_step VRepo s l = Some (s', e)
  | PStarted _ _ => forall sched, exists s' e, gt_step VRepo s (XScan sched) = Some (s', e)
  | PBuilt _ _ _ _ => exists s' e, gt_step VRepo s XCommit = Some (s', e)
  end.
Proof.
  intros interval dostat w0 tr s evs H. apply thread_progress.
  apply (reach_inv _ _ _ _ _ _ H).
Qed.
Print Assumptions C17_refresh_can_run.

(* what the refresh that starts after a SIGHUP installs.  From any state: gids_update; then anything
   (tr_a: the rest of a refresh that was running, whole refreshes, edits, clock changes, more SIGHUPs); then a
   refresh starts (XFire), other threads act (tr_b), it scans, other threads act (tr_c), it commits.  The
   databases it reads are those current at its scan — every edit made before the SIGHUP and up to the scan
   (world_after (x_w s) (tr_a ++ tr_b)) — and when it is obliged to load (mtime check off or disabled, stat
   failed, or mtime newer than the previous good load) and the build succeeds, the visible map is exactly the
   build of those databases; otherwise map and version are those before this refresh *)
Theorem C17_refresh_after_sighup_reflects :
  forall (s : gt) (tr_a tr_b : list glabel) (sched : list fault) (tr_c : list glabel) (s' : gt) (evs : list gev),
  Forall quiet tr_b -> Forall quiet tr_c ->
  gt_exec VRepo s (XSighup :: tr_a ++ XFire :: tr_b ++ XScan sched :: tr_c ++ [XCommit]) = Some (s', evs) ->
  exists s1 e1,
    gt_exec VRepo s (XSighup :: tr_a) = Some (s1, e1) /\
    let w := world_after (x_w s) (tr_a ++ tr_b) in
    x_phase s' = PIdle /\
    (should_load (x_g s1) (w_mtime w) -> forall m, map_create (w_pw w) (w_db w) sched = Some m ->
       g_map (x_g s') = Some (build (w_pw w) (w_db w)) /\ x_loaded s' = Some w) /\
    (~ should_load (x_g s1) (w_mtime w) \/ map_create (w_pw w) (w_db w) sched = None ->
       g_map (x_g s') = g_map (x_g s1) /\ x_loaded s' = x_loaded s1).
Proof. exact refresh_after_sighup_reflects. Qed.
Print Assumptions C17_refresh_after_sighup_reflects.

(* every refresh, however it was triggered: snapshot of the flag and of the time of the last good load in its
   first critical section, the databases as they are at the scan, the swap in the second critical section;
   a failed or skipped build keeps map, version and load time *)
Theorem C17_started_refresh_installs :
  forall (s : gt) (tm : ptimer) (snap : gstate) (tr_b : list glabel) (sched : list fault)
         (tr_c : list glabel) (s' : gt) (evs : list gev),
  x_phase s = PStarted tm snap -> Forall quiet tr_b -> Forall quiet tr_c ->
  gt_exec VRepo s (tr_b ++ XScan sched :: tr_c ++ [XCommit]) = Some (s', evs) ->
  let w := world_after (x_w s) tr_b in
  let now := clock_after (x_clock s) tr_b / 1000 in
  x_phase s' = PIdle /\
  (should_load snap (w_mtime w) -> forall m, map_create (w_pw w) (w_db w) sched = Some m ->
     g_map (x_g s') = Some (build (w_pw w) (w_db w)) /\ x_loaded s' = Some w /\
     g_tlast (x_g s') = now) /\
  (~ should_load snap (w_mtime w) \/ map_create (w_pw w) (w_db w) sched = None ->
     g_map (x_g s') = g_map (x_g s) /\ x_loaded s' = x_loaded s /\
     g_tlast (x_g s') = g_tlast (x_g s)).
Proof. exact started_refresh_installs. Qed.
Print Assumptions C17_started_refresh_installs.

(* at every moment of every run the answers are the exact answers for ONE database version: the one the last
   loading refresh read at its scan (none before the first good load) *)
Theorem C17_lookup_answers_loaded :
  forall (interval dostat : Z) (w0 : world) (tr : list glabel) (s : gt) (evs : list gev) (u g : N),
  gt_exec VRepo (gt_init interval dostat w0) tr = Some (s, evs) ->
  (is_member (g_map (x_g s)) u g = true <->
   exists w, x_loaded s = Some w /\ member_spec (w_pw w) (w_db w) u g).
Proof. exact lookup_answers_loaded. Qed.
Print Assumptions C17_lookup_answers_loaded.

(* every scan is bracketed by setgrent() ... endgrent(): glibc keeps ONE group stream — setgrent() opens the file only
   when the stream is not open, otherwise it rewinds the file it has, even if that one has since been replaced by
   rename() —, so a refresh sees the CURRENT file only if the previous scan closed the stream.  Along every run the
   stream (EOpen/EClose events) is open exactly between a refresh's scan and its second critical section, on the success
   and on the error path of the build; whenever no refresh is running it is closed.  (This is what lets XScan read
   x_w s, the databases as they are at the scan; the harnesses' group stream behaves like glibc's, and a refresh that
   returns with the stream open is reported.) *)
Theorem C17_scan_bracketed :
  forall (interval dostat : Z) (w0 : world) (tr : list glabel) (s : gt) (evs : list gev),
  gt_exec VRepo (gt_init interval dostat w0) tr = Some (s, evs) ->
  stream_after false evs = stream_open s /\ (x_phase s = PIdle -> stream_after false evs = false).
Proof. exact scan_bracketed. Qed.
Print Assumptions C17_scan_bracketed.

(* REFUTED variant of the code (not the code as it is): a `timer_cancel (gids->timer)` before
   `gids->timer = 0` at the end of _gids_map_update.  With refreshes on SIGHUP only (interval 0): the
   start-up refresh is running and has read the databases; /etc/group is edited (mtime newer than the load);
   SIGHUP arrives and is acknowledged; the running refresh completes — and cancels the refresh the SIGHUP
   asked for.  Nothing is pending, nothing will ever start a refresh, the old answer stays.  The code as it is
   keeps that timer on the same trace. *)
Theorem C17_cancel_at_commit_refuted :
  exists s e,
    gt_exec VCancelAtCommit (gt_init 0 1 wA) lost_sighup_trace = Some (s, e) /\
    x_phase s = PIdle /\ x_owed s = Some 10000 /\ x_active s ++ x_batch s = [] /\
    member_spec (w_pw (x_w s)) (w_db (x_w s)) 1000%N 100%N /\
    is_member (g_map (x_g s)) 1000%N 100%N = false /\
    exists s2 e2, gt_exec VRepo (gt_init 0 1 wA) lost_sighup_trace = Some (s2, e2) /\
                  x_active s2 = [(2, 10000)].
Proof. exact cancel_at_commit_loses_sighup. Qed.
Print Assumptions C17_cancel_at_commit_refuted.

(* non-vacuity: a SIGHUP inside the running start-up refresh, after an edit that refresh no longer sees; the
   refresh it asked for runs afterwards and installs the edited databases *)
Example C17_refresh_example :
  exists s e,
    gt_exec VRepo (gt_init 0 1 wA)
            (lost_sighup_trace ++ [XDetach; XFire; XScan []; XCommit; XLookup 1000%N 100%N]) = Some (s, e) /\
    x_loaded s = Some wB /\ last e EStuck = EAns 1000%N 100%N true /\ x_owed s = None.
Proof. eexists. eexists. split; [vm_compute; reflexivity|]. repeat split. Qed.
