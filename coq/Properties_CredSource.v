(* Properties_CredSource.v — the source-level tie of the credential pipeline, statements only.
   Every `src_*` function below is GENERATED from the C text of src/munged/dec.c and enc.c on every run
   (tools/facts/cfun.py -> gen/GenCredFun.v; the C subset and every modelling decision are in that file's docstring).
   Part A: the small decision functions are the model's.  Part B: the control skeleton of dec_process_msg /
   enc_process_msg is the reference control structure over the model's stage order, for every interpretation of the
   stages.  Part C: CredModel's dec_process + dec_rollback, RetryModel's dec_attempt and enc_process are that control
   structure over the model's stage functions, i.e. the translated source function run over them IS the model. *)
From Coq Require Import List NArith ZArith Bool String.
From RecordUpdate Require Import RecordSet.
From MV Require Import Bytes CredModel RetryModel CredFun CredPipe.
From MV.gen Require Import GenCred GenCredFun.
Import ListNotations RecordSetNotations.
Local Open Scope N_scope.

(* ------------------------------------------------------------------ *)
(* A. decision functions                                               *)
(* ------------------------------------------------------------------ *)
(* a decode request without a credential (p = the address in m->data, 0 = NULL) *)
Theorem CS_dec_validate_msg : forall (cf : conf) (p : Z) (m : msg),
  src_dec_validate_msg cf p m = ((if (m_data_len m =? 0) || (p =? 0)%Z then e_snafu else 0), m).
Proof. exact dec_validate_msg_is_source. Qed.
Print Assumptions CS_dec_validate_msg.

(* the retry limit, decode and encode: more than MUNGE_SOCKET_RETRY_ATTEMPTS is refused, that many is served *)
Theorem CS_dec_check_retry : forall (cf : conf) (m : msg),
  src_dec_check_retry cf m = ((if c_retry_attempts <? m_retry m then e_socket else 0), m).
Proof. exact dec_check_retry_is_source. Qed.
Print Assumptions CS_dec_check_retry.
Theorem CS_enc_check_retry : forall (cf : conf) (m : msg),
  src_enc_check_retry cf m = ((if c_retry_attempts <? m_retry m then e_socket else 0), m).
Proof. exact enc_check_retry_is_source. Qed.
Print Assumptions CS_enc_check_retry.

(* which members are set from the clock (a 64-bit time_t stored into uint32_t members) *)
Theorem CS_dec_timestamp : forall (cf : conf) (now : N) (m : msg),
  src_dec_timestamp cf (Z.of_N now) m = (0, m <| m_time0 := 0 |> <| m_time1 := u32 now |>).
Proof. exact dec_timestamp_is_source. Qed.
Print Assumptions CS_dec_timestamp.
Theorem CS_enc_timestamp : forall (cf : conf) (now : N) (m : msg),
  src_enc_timestamp cf (Z.of_N now) m = (0, m <| m_time0 := u32 now |> <| m_time1 := 0 |>).
Proof. exact enc_timestamp_is_source. Qed.
Print Assumptions CS_enc_timestamp.
Theorem CS_timestamp_clock_failure : forall (cf : conf) (m : msg),
  src_dec_timestamp cf (-1) m = (e_snafu, m) /\ src_enc_timestamp cf (-1) m = (e_snafu, m).
Proof. exact timestamp_clock_failure_is_source. Qed.
Print Assumptions CS_timestamp_clock_failure.

(* which members receive the peer's uid and gid (auth_recv: an opaque source of (rc, uid, gid)); every rc other than
   EMUNGE_SUCCESS fails the request *)
Theorem CS_dec_authenticate : forall (cf : conf) (rc : Z) (pu pg : N) (m : msg),
  src_dec_authenticate cf rc (Z.of_N pu) (Z.of_N pg) m =
  if (rc =? 0)%Z then (0, m <| m_client_uid := pu |> <| m_client_gid := pg |>) else (e_snafu, m).
Proof. exact dec_authenticate_is_source. Qed.
Print Assumptions CS_dec_authenticate.
Theorem CS_enc_authenticate : forall (cf : conf) (rc : Z) (pu pg : N) (m : msg),
  src_enc_authenticate cf rc (Z.of_N pu) (Z.of_N pg) m =
  if (rc =? 0)%Z then (0, m <| m_client_uid := pu |> <| m_client_gid := pg |>) else (e_snafu, m).
Proof. exact enc_authenticate_is_source. Qed.
Print Assumptions CS_enc_authenticate.

(* replay_insert's outcome x the retry exemption: `already there` is success exactly for 0 < retry <= the retry limit
   with retries enabled, and EMUNGE_CRED_REPLAYED otherwise *)
Theorem CS_dec_validate_replay : forall (cf : conf) (clk ins en c : Z) (m : msg),
  src_dec_validate_replay cf clk ins en c m =
  ((if (ins =? 0)%Z then (if (clk =? -1)%Z then e_snafu
                          else if (clk >? Z.of_N (m_time0 m) + Z.of_N (m_ttl m))%Z then e_cred_expired else 0)
    else if (ins >? 0)%Z
         then (if cf_socket_retry cf && (0 <? m_retry m) && (m_retry m <=? c_retry_attempts) then 0 else e_cred_replayed)
    else if (en =? 12)%Z then e_no_memory else e_snafu), m,
   (if (ins =? 0)%Z && negb (clk =? -1)%Z && negb (clk >? Z.of_N (m_time0 m) + Z.of_N (m_ttl m))%Z then 1 else c)%Z).
Proof. exact dec_validate_replay_is_source. Qed.
Print Assumptions CS_dec_validate_replay.

(* ------------------------------------------------------------------ *)
(* B. the control skeletons                                            *)
(* ------------------------------------------------------------------ *)
(* for EVERY state type and every interpretation of the stage functions, of m_msg_reset, m_msg_send and
   replay_remove: the stages in the model's order, the chain ends at the first failing stage, the reply is sanitised
   unless the error is expired/rewound/replayed, the reply is sent, and replay_remove is called exactly when the send
   failed, every stage had succeeded and c->is_replay_new is set (this request added the record) *)
Theorem CS_dec_process_msg_control : forall (S : Type) (ops : pipe_ops S) (s : S),
  src_dec_process_msg ops s = pipe_control ops dec_stage_order soft_err (Some "is_replay_new"%string) s.
Proof. exact src_dec_process_msg_is_pipe. Qed.
Print Assumptions CS_dec_process_msg_control.
Theorem CS_enc_process_msg_control : forall (S : Type) (ops : pipe_ops S) (s : S),
  src_enc_process_msg ops s = pipe_control ops enc_stage_order (fun _ => false) None s.
Proof. exact src_enc_process_msg_is_pipe. Qed.
Print Assumptions CS_enc_process_msg_control.

(* the same over abstract stage outcomes (fail n = Some e: stage n fails leaving code e): which stages ran, whether
   the reply was sanitised, sent, the replay record taken back, and the return code *)
Theorem CS_dec_outcomes : forall (fail : string -> option N) (added send_ok : bool),
  src_dec_process_msg (trace_ops fail added send_ok) t0 =
  outcomes dec_stage_order soft_err (Some "is_replay_new"%string) fail added send_ok.
Proof. exact src_dec_outcomes. Qed.
Print Assumptions CS_dec_outcomes.
Theorem CS_enc_outcomes : forall (fail : string -> option N) (added send_ok : bool),
  src_enc_process_msg (trace_ops fail added send_ok) t0 = outcomes enc_stage_order (fun _ => false) None fail added send_ok.
Proof. exact src_enc_outcomes. Qed.
Print Assumptions CS_enc_outcomes.

(* the record is taken back iff the reply of a SUCCESSFUL decode THAT ADDED THE RECORD ITSELF could not be sent (added =
   the request's c->is_replay_new when the tail reads it); an encode never touches it *)
Theorem CS_unplay_exactly_when : forall (fail : string -> option N) (added send_ok : bool),
  t_unplayed (snd (src_dec_process_msg (trace_ops fail added send_ok) t0)) =
  negb send_ok && all_succeed fail dec_stage_order && added.
Proof. exact src_dec_unplay_iff. Qed.
Print Assumptions CS_unplay_exactly_when.
Theorem CS_enc_never_unplays : forall (fail : string -> option N) (added send_ok : bool),
  t_unplayed (snd (src_enc_process_msg (trace_ops fail added send_ok) t0)) = false.
Proof. exact src_enc_never_unplays. Qed.
Print Assumptions CS_enc_never_unplays.

(* the order of the checks, as run by the source when nothing fails *)
Theorem CS_stage_order : forall added send_ok,
  t_log (snd (src_dec_process_msg (trace_ops (fun _ => None) added send_ok) t0)) =
    ["dec_validate_msg"; "cred_create"; "dec_timestamp"; "dec_authenticate"; "dec_check_retry"; "dec_unarmor";
     "dec_unpack_outer"; "dec_decrypt"; "dec_validate_mac"; "dec_decompress"; "dec_unpack_inner"; "dec_validate_auth";
     "dec_validate_time"; "dec_validate_replay"]%string /\
  t_log (snd (src_enc_process_msg (trace_ops (fun _ => None) added send_ok) t0)) =
    ["enc_validate_msg"; "cred_create"; "enc_init"; "enc_authenticate"; "enc_check_retry"; "enc_timestamp";
     "enc_pack_outer"; "enc_pack_inner"; "enc_compress"; "enc_mac"; "enc_encrypt"; "enc_armor"; "enc_fini"]%string.
Proof. exact (fun ad so => conj (src_dec_stage_order ad so) (src_enc_stage_order ad so)). Qed.
Print Assumptions CS_stage_order.

(* ------------------------------------------------------------------ *)
(* C. the model is the source's control structure over its stages      *)
(* ------------------------------------------------------------------ *)
Section Prims.
Variable hmac : N -> bytes -> bytes -> bytes.
Variable sha1 : bytes -> bytes.
Variable blk_enc blk_dec : N -> bytes -> bytes -> bytes.
Variable zcomp : N -> bytes -> option bytes.
Variable zdecomp : N -> bytes -> N -> option bytes.

(* the translated dec_process_msg over the model's stage functions is dec_process2 (now = the clock at receipt, now2 =
   the clock read again after replay_insert) followed by dec_rollback when the reply could not be sent: the reply, the
   replay hash afterwards, the return code *)
Theorem CS_dec_process_is_source : forall (cf : conf) (mem : N -> N -> bool) (pu pg now now2 : N) (rs : rstate) (m : msg)
  (send_ok : bool),
  let '(rc, s) := src_dec_process_msg (dec_ops hmac sha1 blk_dec zdecomp cf mem pu pg now now2 send_ok) (dinit m rs) in
  let '(r, rs', k) := dec_process2 hmac sha1 blk_dec zdecomp cf mem rs m pu pg now now2 in
  d_msg s = r /\ d_rs s = (if send_ok then rs' else dec_rollback rs' k) /\
  rc = (if send_ok && dec_accepts hmac sha1 blk_dec zdecomp cf mem pu pg now now2 rs m then 0 else -1)%Z.
Proof. exact (dec_process_is_source hmac sha1 blk_dec zdecomp). Qed.

(* RetryModel's per-attempt use of dec_process / dec_rollback (the clock does not advance within an attempt: the second
   reading is the first one as stored in the message, u32 now) *)
Theorem CS_dec_attempt_is_source : forall (cf : conf) (mem : N -> N -> bool) (pu pg now : N) (cred : bytes)
  (rs : rstate) (i : nat),
  let run so := src_dec_process_msg (dec_ops hmac sha1 blk_dec zdecomp cf mem pu pg now (u32 now) so) (dinit (attempt_msg cred i) rs) in
  let att f := dec_attempt hmac sha1 blk_dec zdecomp cf mem cred pu pg now rs i f in
  att (Some ReqCut) = (rs, None) /\
  att (Some RspLost) = (d_rs (snd (run true)), None) /\
  att (Some RspSendFailed) = (d_rs (snd (run false)), None) /\
  att None = (d_rs (snd (run true)), Some (d_msg (snd (run true)))).
Proof.
  exact (fun cf mem pu pg now cred rs i => dec_attempt_is_source hmac sha1 blk_dec zdecomp cf mem pu pg now (u32 now) cred rs i eq_refl).
Qed.

(* no stage but the replay stage touches the replay hash; the replay stage is last; when it fails it has inserted
   nothing (`already there`) or the record of a credential that expired between receipt and the replay step *)
Theorem CS_only_replay_stage_touches_replay_state : forall (cf : conf) (mem : N -> N -> bool) (pu pg now now2 : N)
  (n : string) (s : dst),
  (n <> "dec_validate_replay"%string ->
   d_rs (snd (dec_stage hmac sha1 blk_dec zdecomp cf mem pu pg now now2 n s)) = d_rs s) /\
  (stage_failed "dec_validate_replay" (fst (st_validate_replay cf now2 s)) = true ->
   let k := cred_rkey (oo_tag (d_out s)) (d_msg s) in
   d_rs (snd (st_validate_replay cf now2 s)) = d_rs s \/
   (d_rs (snd (st_validate_replay cf now2 s)) = k :: d_rs s /\ r_mem k (d_rs s) = false /\ snd k < now2)) /\
  last dec_stage_order ""%string = "dec_validate_replay"%string.
Proof.
  exact (fun cf mem pu pg now now2 n s =>
           conj (stage_keeps_replay_state hmac sha1 blk_dec zdecomp cf mem pu pg now now2 n s)
                (conj (failed_replay_stage_keeps_replay_state cf now2 s) replay_stage_is_last)).
Qed.

Theorem CS_enc_process_is_source : forall (cf : conf) (pu pg now : N) (salt ivr : bytes) (m : msg) (send_ok : bool),
  let '(rc, s) := src_enc_process_msg (enc_ops hmac sha1 blk_enc zcomp cf pu pg now salt ivr send_ok)
                                       {| e_msg := m; e_core := None |} in
  rsp_of (e_msg s) = enc_process hmac sha1 blk_enc zcomp cf m pu pg now salt ivr /\
  rc = (if send_ok && enc_succeeds hmac sha1 blk_enc zcomp cf pu pg now salt ivr m then 0 else -1)%Z.
Proof. exact (enc_process_is_source hmac sha1 blk_enc zcomp). Qed.
End Prims.
Print Assumptions CS_dec_process_is_source.
Print Assumptions CS_dec_attempt_is_source.
Print Assumptions CS_only_replay_stage_touches_replay_state.
Print Assumptions CS_enc_process_is_source.

(* the model's small stage functions are the translated C functions lifted to the request state (lift: code 0 = the
   stage returned 0 with the message as the C function left it, any other code = m_msg_set_err (m, code, ...) and -1) *)
Theorem CS_dec_stages_are_source : forall (cf : conf) (mem : N -> N -> bool) (pu pg now now2 : N) (s : dst),
  (forall p : Z, (p = 0%Z <-> m_data_len (d_msg s) = 0) ->
     st_validate_msg s = lift s (src_dec_validate_msg cf p (d_msg s)) (Some (str "No credential specified in decode request"))) /\
  st_timestamp now s = lift s (src_dec_timestamp cf (Z.of_N now) (d_msg s)) (Some (str "Failed to query current time")) /\
  st_authenticate pu pg s = lift s (src_dec_authenticate cf 0 (Z.of_N pu) (Z.of_N pg) (d_msg s))
                                   (Some (str "Failed to determine client identity")) /\
  st_check_retry s = lift s (src_dec_check_retry cf (d_msg s)) (Some (str "Exceeded maximum number of decode attempts")) /\
  st_validate_auth cf mem s = lift s (src_dec_validate_auth cf mem (d_msg s)) (Some (unauth_str (d_msg s))) /\
  (cf_max_ttl cf < 2147483648 -> m_ttl (d_msg s) < 4294967296 ->
     st_validate_time cf s = lift s (src_dec_validate_time cf (d_msg s)) None) /\
  (forall en : Z,
     let k := cred_rkey (oo_tag (d_out s)) (d_msg s) in
     let present := r_mem k (d_rs s) in
     st_validate_replay cf now2 s =
     let '(r, c') := src_dec_validate_replay cf (Z.of_N now2) (if present then 1 else 0) en (b2z (d_new s)) (d_msg s) in
     let '(v, s') := lift s r None in
     (v, with_new (if present then s' else with_rs s' (k :: d_rs s')) (negb (c' =? 0)%Z))).
Proof.
  exact (fun cf mem pu pg now now2 s =>
    conj (st_validate_msg_is_source cf s)
   (conj (st_timestamp_is_source cf now s)
   (conj (st_authenticate_is_source cf pu pg s)
   (conj (st_check_retry_is_source cf s)
   (conj (st_validate_auth_is_source cf mem s)
   (conj (st_validate_time_is_source cf s)
         (st_validate_replay_is_source cf now2 s))))))).
Qed.
Print Assumptions CS_dec_stages_are_source.

Theorem CS_enc_stages_are_source : forall (cf : conf) (pu pg now : N) (s : est),
  se_authenticate pu pg s = elift s (src_enc_authenticate cf 0 (Z.of_N pu) (Z.of_N pg) (e_msg s))
                                  (Some (str "Failed to determine client identity")) /\
  se_check_retry s = elift s (src_enc_check_retry cf (e_msg s)) (Some (str "Exceeded maximum number of encode attempts")) /\
  se_timestamp now s = elift s (src_enc_timestamp cf (Z.of_N now) (e_msg s)) (Some (str "Failed to query current time")).
Proof.
  exact (fun cf pu pg now s =>
    conj (se_authenticate_is_source cf pu pg s) (conj (se_check_retry_is_source cf s) (se_timestamp_is_source cf now s))).
Qed.
Print Assumptions CS_enc_stages_are_source.

(* non-vacuity, computed on the translated function itself: an expired credential whose reply cannot be sent - the
   chain stops at dec_validate_time, the reply keeps its fields (no reset), it is sent, and the replay record is NOT
   taken back; a successful decode that added the record and whose reply cannot be sent - the record is taken back; an
   allowed replay (nothing added) whose reply cannot be sent - it is not *)
Example CS_example :
  let expired n := if String.eqb n "dec_validate_time" then Some e_cred_expired else None in
  src_dec_process_msg (trace_ops expired true false) t0 =
    ((-1)%Z, {| t_log := ["dec_validate_msg"; "cred_create"; "dec_timestamp"; "dec_authenticate"; "dec_check_retry";
                          "dec_unarmor"; "dec_unpack_outer"; "dec_decrypt"; "dec_validate_mac"; "dec_decompress";
                          "dec_unpack_inner"; "dec_validate_auth"; "dec_validate_time"]%string;
                t_err := e_cred_expired; t_reset := false; t_sent := true; t_unplayed := false |}) /\
  t_unplayed (snd (src_dec_process_msg (trace_ops (fun _ => None) true false) t0)) = true /\
  t_unplayed (snd (src_dec_process_msg (trace_ops (fun _ => None) false false) t0)) = false /\
  t_unplayed (snd (src_dec_process_msg (trace_ops (fun _ => None) true true) t0)) = false.
Proof. vm_compute. repeat split; reflexivity. Qed.
