(* StartFdProofs.v — with sanitize_std_fds, the lock and socket descriptors survive daemonize_fini for every initial
   descriptor table and whatever is opened before them; without it, a start with 0-2 closed loses the lock. *)
From Coq Require Import List Arith Bool Lia.
From MV.gen Require Import GenStart.
From MV Require Import StartFdModel.
Import ListNotations.

Lemma get_put_same : forall t n v, get (put t n v) n = v.
Proof.
  unfold get. intros t n. revert t. induction n as [|n IH]; intros [|x r] v; cbn; auto.
Qed.

Lemma get_nil : forall n, get [] n = None.
Proof. unfold get. destruct n; reflexivity. Qed.

Lemma get_put_other : forall t n m v, m <> n -> get (put t n v) m = get t m.
Proof.
  unfold get. intros t n. revert t. induction n as [|n IH]; intros [|x r] m v H; destruct m as [|m]; cbn; try congruence; auto.
  - destruct m; reflexivity.
  - rewrite (IH [] m v) by lia. destruct m; reflexivity.
Qed.

Lemma get_lowest_free : forall t, get t (lowest_free t) = None.
Proof. unfold get. induction t as [|[o|] r IH]; cbn; auto. Qed.

Definition low3 (t : table) : Prop := forall n, n <= 2 -> get t n <> None.

Lemma low3_free : forall t, low3 t -> 3 <= lowest_free t.
Proof.
  intros t H. destruct (le_lt_dec 3 (lowest_free t)); auto. exfalso. apply (H (lowest_free t)); [lia|apply get_lowest_free].
Qed.

Lemma low3_put_some : forall t n o, low3 t -> low3 (put t n (Some o)).
Proof.
  intros t n o H m Hm. destruct (Nat.eq_dec m n) as [->|Hne]; [rewrite get_put_same; discriminate|].
  rewrite get_put_other; auto.
Qed.

Lemma low3_put_high : forall t n v, low3 t -> 3 <= n -> low3 (put t n v).
Proof. intros t n v H Hn m Hm. rewrite get_put_other by lia. auto. Qed.

Lemma sanitize_low3 : forall t, low3 (sanitize t).
Proof.
  intros t n Hn. unfold sanitize.
  destruct t as [|a [|b [|c r]]]; try destruct a; try destruct b; try destruct c;
    destruct n as [|[|[|n]]]; try lia; cbn; discriminate.
Qed.

Definition has (t : table) (n : nat) (x : obj) : Prop := get t n = Some x.

Lemma fopen_keeps : forall t o n x, has t n x -> has (fst (fopen t o)) n x.
Proof.
  intros t o n x H. unfold fopen, has. cbn [fst]. rewrite get_put_other; auto.
  intros ->. unfold has in H. rewrite get_lowest_free in H. discriminate.
Qed.

Lemma fopen_low3 : forall t o, low3 t -> low3 (fst (fopen t o)).
Proof. intros. unfold fopen. cbn [fst]. now apply low3_put_some. Qed.

Lemma fopen_has : forall t o, has (fst (fopen t o)) (snd (fopen t o)) o.
Proof. intros. unfold fopen, has. cbn. apply get_put_same. Qed.

Lemma open_all_low3 : forall l t, low3 t -> low3 (open_all t l).
Proof. induction l as [|o l IH]; intros t H; cbn; auto. apply IH. now apply fopen_low3. Qed.

Lemma f_dups_low : Forall (fun n => n <= 2) fini_dup2_targets.
Proof. repeat constructor. Qed.

Lemma dups_keep : forall l t dn n x, Forall (fun m => m <= 2) l -> 3 <= n -> has t n x ->
  has (fold_left (fun t m => dup2 t dn m) l t) n x.
Proof.
  induction l as [|m l IH]; intros t dn n x HF Hn H; cbn; auto. inversion HF; subst.
  apply IH; auto. unfold dup2, has. rewrite get_put_other by lia. exact H.
Qed.

Lemma fini_keeps : forall t n x, low3 t -> 3 <= n -> x <> Null -> has t n x -> has (fini t) n x.
Proof.
  intros t n x L Hn Hx H. unfold fini.
  pose proof (fopen_keeps t Null n x H) as H1. pose proof (fopen_has t Null) as Hdn.
  destruct (fopen t Null) as [t1 dn] eqn:E. cbn [fst snd] in *.
  pose proof (dups_keep fini_dup2_targets t1 dn n x f_dups_low Hn H1) as H2.
  destruct (2 <? dn) eqn:Ed; auto.
  unfold fclose, has. rewrite get_put_other; auto.
  intros ->. unfold has in H1, Hdn. rewrite Hdn in H1. congruence.
Qed.

Theorem rest_keeps_fds : forall t1 pre, low3 t1 -> fds_intact (rest_fds t1 pre) = true.
Proof.
  intros t1 pre L1. unfold rest_fds.
  pose proof (open_all_low3 pre _ L1) as L2. set (t2 := open_all t1 pre) in *.
  pose proof (fopen_has t2 LockF) as Hl. pose proof (fopen_low3 t2 LockF L2) as L3. pose proof (low3_free _ L2) as F2.
  destruct (fopen t2 LockF) as [t3 lf] eqn:E3. cbn [fst snd] in *.
  assert (Hlf : 3 <= lf) by (unfold fopen in E3; inversion E3; subst; exact F2).
  pose proof (fopen_has t3 SockF) as Hs. pose proof (fopen_keeps t3 SockF lf LockF Hl) as Hl4.
  pose proof (fopen_low3 t3 SockF L3) as L4. pose proof (low3_free _ L3) as F3.
  destruct (fopen t3 SockF) as [t4 sf] eqn:E4. cbn [fst snd] in *.
  assert (Hsf : 3 <= sf) by (unfold fopen in E4; inversion E4; subst; exact F3).
  pose proof (fopen_has t4 Tmp) as Hp. pose proof (fopen_keeps t4 Tmp lf LockF Hl4) as Hl5.
  pose proof (fopen_keeps t4 Tmp sf SockF Hs) as Hs5.
  pose proof (fopen_low3 t4 Tmp L4) as L5. pose proof (low3_free _ L4) as F4.
  destruct (fopen t4 Tmp) as [t5 pf] eqn:E5. cbn [fst snd] in *.
  assert (Hpf : 3 <= pf) by (unfold fopen in E5; inversion E5; subst; exact F4).
  assert (L6 : low3 (fclose t5 pf)) by (apply low3_put_high; auto).
  assert (Hl6 : has (fclose t5 pf) lf LockF).
  { unfold fclose, has. rewrite get_put_other; auto. intros ->. unfold has in *. congruence. }
  assert (Hs6 : has (fclose t5 pf) sf SockF).
  { unfold fclose, has. rewrite get_put_other; auto. intros ->. unfold has in *. congruence. }
  unfold fds_intact. cbn [tab lock_fd sock_fd].
  rewrite (fini_keeps _ lf LockF L6 Hlf ltac:(discriminate) Hl6), (fini_keeps _ sf SockF L6 Hsf ltac:(discriminate) Hs6).
  reflexivity.
Qed.

Theorem sanitized_start_keeps_fds : forall t0 pre, fds_intact (start_fds true t0 pre) = true.
Proof. intros t0 pre. unfold start_fds, start_fds_mode. apply rest_keeps_fds. apply sanitize_low3. Qed.

(* background or --syslog alike, once both sanitize steps are there *)
Theorem sanitized_modes_keep_fds : forall syslog t0 pre, fds_intact (start_fds_mode true true syslog t0 pre) = true.
Proof. intros [|] t0 pre; unfold start_fds_mode; apply rest_keeps_fds; apply sanitize_low3. Qed.

(* the program between the two repairs: sanitized at the start, but --syslog closes stderr afterwards and nothing
   re-opens it: with every descriptor open at exec and nothing kept open before the lock (no /dev/log to connect to),
   the lock file gets descriptor 2 and daemonize_fini's dup2 closes it *)
Theorem syslog_start_loses_lock : exists t0 pre,
  fds_intact (start_fds_mode true false true t0 pre) = false /\
  lock_fd (start_fds_mode true false true t0 pre) = 2.
Proof. exists [Some Std; Some Std; Some Std], []. split; vm_compute; reflexivity. Qed.

(* the pre-repair program: started with descriptors 0-2 closed and nothing opened before the lock, the lock file
   gets descriptor 0 and daemonize_fini's dup2 closes it *)
Theorem unsanitized_start_loses_lock : exists t0 pre,
  fds_intact (start_fds false t0 pre) = false /\
  lock_fd (start_fds false t0 pre) <= 2 /\
  get (tab (start_fds false t0 pre)) (lock_fd (start_fds false t0 pre)) = Some Null.
Proof. exists [], []. repeat split; vm_compute; auto. Qed.

(* what the current source does *)
Theorem current_start_keeps_fds : forall syslog t0 pre,
  fds_intact (start_fds_mode main_sanitizes_std_fds syslog_branch_resanitizes syslog t0 pre) = true.
Proof. exact sanitized_modes_keep_fds. Qed.
