(* FdModel.v — executable model of the timed, restartable socket I/O loops of src/libcommon/fd.c:
   fd_timed_read_n, fd_timed_write_n, fd_timed_write_iov and _fd_get_poll_timeout.  No proofs.

   The kernel side is an adversary: one script of poll() events and one script of read()/write()/writev()
   events, consumed one event per system call, plus a virtual clock in microseconds that only poll() advances
   (the descriptors are non-blocking: job.c / m_msg_client.c call fd_set_nonblocking first, so read/write
   return at once).  The three C functions are the same loop text with three differences (the POLLHUP test,
   the EOF test, the pointer bookkeeping); the loop is written once (Section Engine, one clause per C
   statement) and instantiated three times with the differing statements as arguments.

   Sizes are nat (they only index lists), time is Z. *)
From Coq Require Import List NArith ZArith Bool Arith.
From Coq.Strings Require Import Byte.
From MV Require Import Bytes.
Import ListNotations.
Local Open Scope Z_scope.

(* ------------------------------------------------------------------ errno, as far as fd.c and m_msg.c look at it *)
Inductive errno := E0 | EINTR | EAGAIN | ETIMEDOUT | EBADF | EIO | EINVAL | ENOMEM | EOTHER.

(* ------------------------------------------------------------------ the adversary *)
(* poll(): [PRev dt hup nval err] "after dt us the descriptor is reported with POLLIN/POLLOUT plus these
   flags"; [PEintr dt]/[PEagain dt]/[PFail dt] "after dt us poll fails with EINTR / EAGAIN / another errno";
   [PTimeout late] "nothing happens; poll returns 0, [late] us after the requested timeout". *)
Inductive pev :=
| PRev (dt : Z) (hup nval err : bool)
| PEintr (dt : Z)
| PEagain (dt : Z)
| PFail (dt : Z)
| PTimeout (late : Z).

(* read()/write()/writev(): [Xfer k] "transfer k bytes (at least 1, at most what was asked for / is there)",
   [Zero] "return 0", [Eintr], [Eagain], [Err] "fail with another errno". *)
Inductive ioev := Xfer (k : nat) | Zero | Eintr | Eagain | Err.

Inductive pollres := PReady (hup nval err : bool) | PTimedOut | PError (e : errno) | PBlocked.

(* what poll (&pfd, 1, ms) does at time [clock] when the adversary plays [e]: an event later than the
   timeout is a timeout; a negative timeout waits for ever *)
Definition do_poll (ms clock : Z) (e : pev) : pollres * Z :=
  let lim := ms * 1000 in
  let ev (dt : Z) (r : pollres) :=
    let dt := Z.max 0 dt in
    if (0 <=? ms) && (lim <? dt) then (PTimedOut, clock + lim) else (r, clock + dt) in
  match e with
  | PRev dt hup nval err => ev dt (PReady hup nval err)
  | PEintr dt => ev dt (PError EINTR)
  | PEagain dt => ev dt (PError EAGAIN)
  | PFail dt => ev dt (PError EOTHER)
  | PTimeout late => if ms <? 0 then (PBlocked, clock) else (PTimedOut, clock + lim + Z.max 0 late)
  end.

(* ------------------------------------------------------------------ _fd_get_poll_timeout *)
(* [when]: None = NULL pointer, Some (tv_sec, tv_usec).  The C expression is evaluated in long and stored in
   an int: the value wraps modulo 2^32 (the "XXX: msecs can overflow" of the source). *)
Definition wrap32 (z : Z) : Z := (z + 2147483648) mod 4294967296 - 2147483648.

Definition poll_timeout (when : option (Z * Z)) (clock : Z) : Z :=
  match when with
  | None => -1                                                  (* if (when == NULL) return (-1); *)
  | Some (ws, wu) =>
      if (ws =? 0) && (wu =? 0) then 0                          (* tv_sec == 0 && tv_usec == 0: return (0) *)
      else
        let ns := clock / 1000000 in                            (* gettimeofday (&now, NULL) *)
        let nu := clock mod 1000000 in
        let ms := wrap32 ((ws - ns) * 1000 + Z.quot (wu - nu + 999) 1000) in
        if ms <? 0 then 0 else ms                               (* return ((msecs < 0) ? 0 : msecs); *)
  end.

(* ------------------------------------------------------------------ the world the loop runs in *)
Record world := mkW {
  w_clock : Z;                  (* virtual gettimeofday, us *)
  w_errno : errno;
  w_ps : list pev;              (* poll events not yet played *)
  w_ios : list ioev;            (* read/write/writev events not yet played *)
  w_trace : list (Z * Z);       (* (clock, msecs) of every poll call made so far, newest first *)
  w_np : nat;                   (* poll calls made *)
  w_nio : nat;                  (* read/write/writev calls made *)
  w_exh : bool                  (* a call found its script empty (then: poll times out, I/O fails) *)
}.

Definition set_errno (w : world) (e : errno) : world :=
  mkW (w_clock w) e (w_ps w) (w_ios w) (w_trace w) (w_np w) (w_nio w) (w_exh w).

(* one poll() call *)
Definition sys_poll (ms : Z) (w : world) : pollres * world :=
  let tr := (w_clock w, ms) :: w_trace w in
  match w_ps w with
  | [] =>
      let '(r, c) := do_poll ms (w_clock w) (PTimeout 0) in
      (r, mkW c (w_errno w) [] (w_ios w) tr (S (w_np w)) (w_nio w) true)
  | e :: ps =>
      let '(r, c) := do_poll ms (w_clock w) e in
      let en := match r with PError x => x | _ => w_errno w end in
      (r, mkW c en ps (w_ios w) tr (S (w_np w)) (w_nio w) (w_exh w))
  end.

(* one read()/write()/writev() call: pops the event (an empty script plays Err) *)
Definition pop_io (w : world) : ioev * world :=
  match w_ios w with
  | [] => (Err, mkW (w_clock w) (w_errno w) (w_ps w) [] (w_trace w) (w_np w) (S (w_nio w)) true)
  | e :: ios => (e, mkW (w_clock w) (w_errno w) (w_ps w) ios (w_trace w) (w_np w) (S (w_nio w)) (w_exh w))
  end.

Inductive rcode := Ret (n : nat) | Fail | Blocked | NoFuel.

Record result (X : Type) := mkR { r_rc : rcode; r_x : X; r_w : world }.
Arguments mkR {X}. Arguments r_rc {X}. Arguments r_x {X}. Arguments r_w {X}.

(* ------------------------------------------------------------------ the loop *)
Section Engine.
  Variable X : Type.                 (* memory the call works on + what the peer has seen / still holds *)
  Variable check_hup : bool.         (* else if (pfd.revents & POLLHUP) break;        (the two writers) *)
  Variable zero_is_eof : bool.       (* else if (nread == 0) break;                   (the reader) *)
  (* the system call proper: given the state, nleft and the adversary's k, Some (state', count >= 1) or
     None for "nothing can be transferred now" (EAGAIN) *)
  Variable xfer : X -> nat -> nat -> option (X * nat).
  Variable bump : X -> nat -> X.     (* p += n;  /  the for-loop over iov[] *)
  Variable bump_before_break : bool. (* is the bookkeeping done before  if (msecs == 0) break;  ? *)
  Variable when : option (Z * Z).
  Variable total : nat.              (* n  /  iov_len *)

  Definition done (x : X) (nleft : nat) (w : world) : result X := mkR (Ret (total - nleft)) x w.

  (* at_io = false: at the top of  while (nleft > 0)  ;  at_io = true: at the label read_me / write_me /
     writev_me with [ms] the value of msecs *)
  Fixpoint loop (fuel : nat) (at_io : bool) (ms : Z) (x : X) (nleft : nat) (w : world) : result X :=
    match fuel with
    | O => mkR NoFuel x w
    | S f =>
      if negb at_io then
        if (nleft =? 0)%nat then done x nleft w                          (* while (nleft > 0) *)
        else
          let ms := poll_timeout when (w_clock w) in                     (* msecs = _fd_get_poll_timeout (when) *)
          let '(r, w1) := sys_poll ms w in                               (* nfd = poll (&pfd, 1, msecs) *)
          match r with
          | PError EINTR | PError EAGAIN => loop f false ms x nleft w1   (* continue *)
          | PError _ => mkR Fail x w1                                    (* return (-1) / goto err *)
          | PTimedOut => done x nleft (set_errno w1 ETIMEDOUT)           (* errno = ETIMEDOUT; break *)
          | PBlocked => mkR Blocked x w1                                 (* poll (.., -1) never returns *)
          | PReady hup nval err =>
              if check_hup && hup then done x nleft w1                   (* POLLHUP: break *)
              else if nval then mkR Fail x (set_errno w1 EBADF)          (* POLLNVAL *)
              else if err then mkR Fail x (set_errno w1 EIO)             (* POLLERR *)
              else loop f true ms x nleft w1
          end
      else
        let '(e, w1) := pop_io w in                                      (* nread = read (fd, p, nleft) ... *)
        let moved (x' : X) (c : nat) :=
          let nleft' := (nleft - c)%nat in                               (* nleft -= n *)
          if ms =? 0 then done (if bump_before_break then bump x' c else x') nleft' w1   (* if (msecs == 0) break *)
          else loop f false ms (bump x' c) nleft' w1 in
        match e with
        | Eintr => loop f false ms x nleft (set_errno w1 EINTR)          (* continue *)
        | Eagain => loop f false ms x nleft (set_errno w1 EAGAIN)        (* continue *)
        | Err => mkR Fail x (set_errno w1 EOTHER)
        | Zero => if zero_is_eof then done x nleft w1                    (* EOF: break *)
                  else moved x 0%nat
        | Xfer k =>
            match xfer x nleft k with
            | None => loop f false ms x nleft (set_errno w1 EAGAIN)      (* non-blocking, nothing there *)
            | Some (x', c) => moved x' c
            end
        end
    end.

  (* if (do_skip_first_poll && (nleft > 0)) { msecs = -1; goto xxx_me; }  while (nleft > 0) ... *)
  Definition run (fuel : nat) (skip : bool) (x : X) (w : world) : result X :=
    if skip && (0 <? total)%nat then loop fuel true (-1) x total w
    else loop fuel false 0 x total w.
End Engine.

Definition world0 (t0 : Z) (ps : list pev) (ios : list ioev) : world := mkW t0 E0 ps ios [] 0 0 false.
(* every iteration plays an event or returns: this much fuel is never used up (FdProofs.fuel_enough) *)
Definition fuel_for (ps : list pev) (ios : list ioev) : nat := 2 * (length ps + length ios) + 4.

(* ------------------------------------------------------------------ fd_timed_read_n *)
(* rd_buf: the bytes stored at buf[0..] so far (p = buf + length rd_buf); rd_peer: what the peer has sent
   and the socket still holds *)
Record rd := mkRd { rd_buf : bytes; rd_peer : bytes }.

(* read (fd, p, nleft) with the adversary's k: min (max k 1, nleft, available) bytes *)
Definition rd_xfer (x : rd) (nleft k : nat) : option (rd * nat) :=
  let c := Nat.min (Nat.max 1 k) (Nat.min nleft (length (rd_peer x))) in
  if (c =? 0)%nat then None
  else Some (mkRd (rd_buf x ++ firstn c (rd_peer x)) (skipn c (rd_peer x)), c).

Definition fd_timed_read_n (n : nat) (peer : bytes) (when : option (Z * Z)) (skip : bool)
    (t0 : Z) (ps : list pev) (ios : list ioev) : result rd :=
  run rd false true rd_xfer (fun x _ => x) true when n (fuel_for ps ios) skip (mkRd [] peer) (world0 t0 ps ios).

(* ------------------------------------------------------------------ fd_timed_write_n *)
(* wn_src: the caller's buffer; wn_off: p - buf; wn_out: what the peer has received *)
Record wn := mkWn { wn_src : bytes; wn_off : nat; wn_out : bytes }.

Definition wn_xfer (x : wn) (nleft k : nat) : option (wn * nat) :=
  let data := firstn nleft (skipn (wn_off x) (wn_src x)) in         (* write (fd, p, nleft) *)
  let acc := firstn (Nat.max 1 k) data in
  if (length acc =? 0)%nat then None
  else Some (mkWn (wn_src x) (wn_off x) (wn_out x ++ acc), length acc).

Definition wn_bump (x : wn) (c : nat) : wn := mkWn (wn_src x) (wn_off x + c) (wn_out x).   (* p += nwritten *)

Definition fd_timed_write_n (buf : bytes) (when : option (Z * Z)) (skip : bool)
    (t0 : Z) (ps : list pev) (ios : list ioev) : result wn :=
  run wn true false wn_xfer wn_bump true when (length buf) (fuel_for ps ios) skip (mkWn buf 0 [])
      (world0 t0 ps ios).

(* ------------------------------------------------------------------ fd_timed_write_iov *)
(* one struct iovec of the private copy: iov_base = io_buf + io_off, iov_len = io_len *)
Record iovent := mkIo { io_buf : bytes; io_off : nat; io_len : nat }.
Record wv := mkWv { wv_iov : list iovent; wv_out : bytes }.

Definition ent_bytes (e : iovent) : bytes := firstn (io_len e) (skipn (io_off e) (io_buf e)).
(* what writev (fd, iov, iov_cnt) offers to the kernel, in order *)
Definition gather (iov : list iovent) : bytes := concat (map ent_bytes iov).

(* memcpy (iov, iov_orig, iov_mem_len) *)
Definition iov_init (bufs : list bytes) : list iovent := map (fun b => mkIo b 0 (length b)) bufs.
(* for (i = 0, n = 0; i < iov_cnt; i++) n += iov[i].iov_len; *)
Definition iov_total (iov : list iovent) : nat := fold_right (fun e a => (io_len e + a)%nat) 0%nat iov.

Definition wv_xfer (x : wv) (nleft k : nat) : option (wv * nat) :=
  let acc := firstn (Nat.max 1 k) (gather (wv_iov x)) in             (* writev (fd, iov, iov_cnt) *)
  if (length acc =? 0)%nat then None
  else Some (mkWv (wv_iov x) (wv_out x ++ acc), length acc).

(* for (i = 0; (i < iov_cnt) && (nwritten > 0); i++) {
       n = (nwritten > iov[i].iov_len) ? iov[i].iov_len : nwritten;
       if (n == 0) continue;
       nwritten -= n;  iov[i].iov_len -= n;  iov[i].iov_base = (char * ) iov[i].iov_base + n;  } *)
Fixpoint advance (iov : list iovent) (nw : nat) : list iovent :=
  match iov with
  | [] => []
  | e :: r =>
      if (nw =? 0)%nat then iov
      else
        let n := if (io_len e <? nw)%nat then io_len e else nw in
        if (n =? 0)%nat then e :: advance r nw
        else mkIo (io_buf e) (io_off e + n) (io_len e - n) :: advance r (nw - n)
  end.

Definition wv_bump (x : wv) (c : nat) : wv := mkWv (advance (wv_iov x) c) (wv_out x).

(* [oom]: malloc of the private iovec copy fails *)
Definition fd_timed_write_iov (bufs : list bytes) (oom : bool) (when : option (Z * Z)) (skip : bool)
    (t0 : Z) (ps : list pev) (ios : list ioev) : result wv :=
  let w := world0 t0 ps ios in
  let x0 := mkWv (iov_init bufs) [] in
  match bufs with
  | [] => mkR Fail x0 (set_errno w EINVAL)                           (* iov_cnt <= 0 *)
  | _ =>
      if oom then mkR Fail x0 (set_errno w ENOMEM)
      else run wv true false wv_xfer wv_bump false when (iov_total (iov_init bufs)) (fuel_for ps ios) skip x0 w
  end.

(* ------------------------------------------------------------------ what m_msg.c makes of the result *)
(* m_msg_send / m_msg_recv: (errno = 0, n = fd_timed_xxx (...)) < 0 -> error; errno == ETIMEDOUT -> error;
   n != wanted -> error; else success *)
Definition accepted {X} (r : result X) (wanted : nat) : bool :=
  match r_rc r with
  | Ret k => match w_errno (r_w r) with ETIMEDOUT => false | _ => (k =? wanted)%nat end
  | _ => false
  end.

(* deadline in microseconds *)
Definition deadline_us (when : Z * Z) : Z := fst when * 1000000 + snd when.

(* ------------------------------------------------------------------ vocabulary of the statements *)
Definition prefix_of (a b : bytes) : Prop := exists rest, a ++ rest = b.
Definition clock_of {X} (r : result X) : Z := w_clock (r_w r).
Definition errno_of {X} (r : result X) : errno := w_errno (r_w r).
Definition polls_of {X} (r : result X) : list (Z * Z) := rev (w_trace (r_w r)).   (* (clock, msecs), oldest first *)
Definition npolls_of {X} (r : result X) : nat := w_np (r_w r).
Definition nio_of {X} (r : result X) : nat := w_nio (r_w r).
Definition exhausted {X} (r : result X) : bool := w_exh (r_w r).

Definition late_within (Q : Z) (e : pev) : Prop := match e with PTimeout late => late <= Q | _ => True end.
(* a poll event that neither fails nor lets the deadline pass: ready / EINTR / EAGAIN, and (when there is a
   deadline) immediate *)
Definition benign_poll (when : option (Z * Z)) (e : pev) : Prop :=
  match e with
  | PRev dt false false false | PEintr dt | PEagain dt => when = None \/ dt <= 0
  | _ => False
  end.
Definition benign_io (e : ioev) : Prop := match e with Xfer _ | Eintr | Eagain => True | _ => False end.
(* a struct timeval the callers can produce: usec normalised, not the "do not block" value {0,0} *)
Definition valid_when (wv : Z * Z) : Prop := 0 <= snd wv < 1000000 /\ ~ (fst wv = 0 /\ snd wv = 0).
(* the int msecs does not wrap: the deadline is within 2*10^12 us (23 days) of the clock *)
Definition in_range (wv : Z * Z) (t0 : Z) : Prop :=
  0 <= t0 /\ -2000000000000 <= deadline_us wv - t0 <= 2000000000000.
