(* Properties_FD.v — statements only.  The timed, restartable socket I/O loops of src/libcommon/fd.c
   (fd_timed_read_n, fd_timed_write_n, fd_timed_write_iov, _fd_get_poll_timeout) that every MUNGE message
   goes through; they carry part of C01 (payload never altered or truncated), C08 (a stalled client is
   dropped after the timeout) and C13 (never a wrong or partial result).

   Model: FdModel.  The kernel and the peer are an adversary: a script of poll() events and a script of
   read()/write()/writev() events (short counts, 0, EINTR, EAGAIN, other errors, POLLHUP/POLLNVAL/POLLERR,
   timeouts, late wake-ups), one event per system call, and a virtual clock in microseconds.  All theorems
   quantify over EVERY script, every iovec shape (any number of elements, empty ones included), both values
   of do_skip_first_poll and every start time.  An exhausted script lets poll time out and I/O fail, so
   every run ends; [exhausted r] tells.  Time passes only inside poll(): the descriptors are non-blocking
   (job.c, m_msg_client.c), read/write return at once.

   What fd.c guarantees about time, read off the code: [when] is an ABSOLUTE deadline, so the timeout is
   cumulative over the whole call — and over the whole message, since m_msg_recv passes the same timeval to
   the header read and to the body read.  Each poll is asked for the time remaining at that moment, rounded
   up to a millisecond or the one after it (FD_poll_timeout_spec: at most 1998 us beyond the deadline), so the
   call returns by max (start, deadline + 1998 us) + the lateness Q of the one poll wake-up that reports the
   timeout.  when = NULL: no bound (FD_no_deadline_can_block).  when = {0,0}: never blocks. *)
From Coq Require Import List NArith ZArith Bool.
From Coq.Strings Require Import Byte.
From MV Require Import Bytes FdModel FdProofs.
From MV.gen Require Import GenFd.
Import ListNotations.
Local Open Scope Z_scope.

(* ===================================================================== (1) fd_timed_write_iov: the byte stream *)
(* what reached the peer is always a prefix of iov[0] ++ iov[1] ++ ... : nothing duplicated, dropped or
   reordered, for any number of short writes at any offsets, interleaved with any failures *)
Theorem FD_write_iov_prefix : forall bufs oom when skip t0 ps ios,
  prefix_of (wv_out (r_x (fd_timed_write_iov bufs oom when skip t0 ps ios))) (concat bufs).
Proof. exact write_iov_prefix. Qed.
Print Assumptions FD_write_iov_prefix.

(* the value returned is the number of bytes that reached the peer *)
Theorem FD_write_iov_count : forall bufs oom when skip t0 ps ios k,
  r_rc (fd_timed_write_iov bufs oom when skip t0 ps ios) = Ret k ->
  length (wv_out (r_x (fd_timed_write_iov bufs oom when skip t0 ps ios))) = k /\ (k <= length (concat bufs))%nat.
Proof. exact write_iov_count. Qed.
Print Assumptions FD_write_iov_count.

(* full count reported  ->  the peer has exactly the concatenation *)
Theorem FD_write_iov_full : forall bufs oom when skip t0 ps ios,
  r_rc (fd_timed_write_iov bufs oom when skip t0 ps ios) = Ret (length (concat bufs)) ->
  wv_out (r_x (fd_timed_write_iov bufs oom when skip t0 ps ios)) = concat bufs.
Proof. exact write_iov_full. Qed.
Print Assumptions FD_write_iov_full.

(* ... and only then: if everything reached the peer, the full count is what is returned (not -1) *)
Theorem FD_write_iov_full_only_if : forall bufs when skip t0 ps ios, bufs <> [] ->
  wv_out (r_x (fd_timed_write_iov bufs false when skip t0 ps ios)) = concat bufs ->
  r_rc (fd_timed_write_iov bufs false when skip t0 ps ios) = Ret (length (concat bufs)).
Proof. exact write_iov_full_conv. Qed.
Print Assumptions FD_write_iov_full_only_if.

(* the test m_msg_send applies (n >= 0, errno != ETIMEDOUT, n == nsend) accepts only complete messages *)
Theorem FD_write_iov_accepted_is_complete : forall bufs oom when skip t0 ps ios,
  accepted (fd_timed_write_iov bufs oom when skip t0 ps ios) (length (concat bufs)) = true ->
  wv_out (r_x (fd_timed_write_iov bufs oom when skip t0 ps ios)) = concat bufs.
Proof. exact write_iov_accepted. Qed.
Print Assumptions FD_write_iov_accepted_is_complete.

(* the bookkeeping loop over iov[] after a short writev: what is offered next is exactly the rest *)
Theorem FD_iov_advance : forall iov nw, Forall wf_ent iov -> (nw <= length (gather iov))%nat ->
  gather (advance iov nw) = skipn nw (gather iov) /\ Forall wf_ent (advance iov nw).
Proof. exact advance_gather. Qed.
Print Assumptions FD_iov_advance.

(* fd_timed_write_n: the same three statements *)
Theorem FD_write_n_stream : forall buf when skip t0 ps ios,
  let r := fd_timed_write_n buf when skip t0 ps ios in
  prefix_of (wn_out (r_x r)) buf /\
  (forall k, r_rc r = Ret k -> length (wn_out (r_x r)) = k /\ (k <= length buf)%nat) /\
  (r_rc r = Ret (length buf) -> wn_out (r_x r) = buf).
Proof. exact write_n_all. Qed.
Print Assumptions FD_write_n_stream.

(* ===================================================================== (2) fd_timed_read_n: the buffer *)
(* buffer ++ what the socket still holds = what the peer sent: nothing lost, nothing read past the buffer *)
Theorem FD_read_n_conserves : forall n sent when skip t0 ps ios,
  let r := fd_timed_read_n n sent when skip t0 ps ios in rd_buf (r_x r) ++ rd_peer (r_x r) = sent.
Proof. exact read_n_conserves. Qed.
Print Assumptions FD_read_n_conserves.

(* return value k: the buffer holds exactly the first k <= n bytes the peer sent (k < n on EOF / timeout) *)
Theorem FD_read_n_count : forall n sent when skip t0 ps ios k,
  r_rc (fd_timed_read_n n sent when skip t0 ps ios) = Ret k ->
  (k <= n)%nat /\ rd_buf (r_x (fd_timed_read_n n sent when skip t0 ps ios)) = firstn k sent.
Proof. exact read_n_count. Qed.
Print Assumptions FD_read_n_count.

(* no count returned (-1, or blocked for ever): still a strict prefix, fewer than n bytes *)
Theorem FD_read_n_failure_is_short : forall n sent when skip t0 ps ios,
  (forall k, r_rc (fd_timed_read_n n sent when skip t0 ps ios) <> Ret k) ->
  (length (rd_buf (r_x (fd_timed_read_n n sent when skip t0 ps ios))) < n)%nat /\
  prefix_of (rd_buf (r_x (fd_timed_read_n n sent when skip t0 ps ios))) sent.
Proof. exact read_n_short. Qed.
Print Assumptions FD_read_n_failure_is_short.

(* the test m_msg_recv applies accepts only the complete first n bytes *)
Theorem FD_read_n_accepted_is_complete : forall n sent when skip t0 ps ios,
  accepted (fd_timed_read_n n sent when skip t0 ps ios) n = true ->
  rd_buf (r_x (fd_timed_read_n n sent when skip t0 ps ios)) = firstn n sent /\ (n <= length sent)%nat.
Proof. exact read_n_accepted. Qed.
Print Assumptions FD_read_n_accepted_is_complete.

(* m_msg_recv: header read, then body read from what the socket still holds; both accepted -> together
   exactly the first hn + bn bytes of the stream, in order *)
Theorem FD_read_header_then_body : forall hn bn sent when sk1 sk2 t0 t1 ps1 ios1 ps2 ios2,
  let r1 := fd_timed_read_n hn sent when sk1 t0 ps1 ios1 in
  let r2 := fd_timed_read_n bn (rd_peer (r_x r1)) when sk2 t1 ps2 ios2 in
  accepted r1 hn = true -> accepted r2 bn = true ->
  rd_buf (r_x r1) ++ rd_buf (r_x r2) = firstn (hn + bn) sent /\ (hn + bn <= length sent)%nat.
Proof. exact read_two_stage. Qed.
Print Assumptions FD_read_header_then_body.

(* end of file or an error ends the call: no further read() / writev() follows it *)
Theorem FD_eof_and_errors_are_final : forall n sent bufs oom when skip t0 ps ios i e,
  nth_error ios i = Some e ->
  (e = Zero \/ e = Err -> (S i < nio_of (fd_timed_read_n n sent when skip t0 ps ios))%nat -> False) /\
  (e = Err -> (S i < nio_of (fd_timed_write_iov bufs oom when skip t0 ps ios))%nat -> False).
Proof. exact final_events. Qed.
Print Assumptions FD_eof_and_errors_are_final.

(* ===================================================================== (3) the deadline *)
(* _fd_get_poll_timeout: 0 once the deadline is reached; otherwise the remaining time rounded up, by at most
   1998 us (valid_when: a normalised timeval other than {0,0}; in_range: within 2*10^12 us of the clock, so
   that the int does not wrap) *)
Theorem FD_poll_timeout_spec : forall wv clock, valid_when wv -> in_range wv clock ->
  let D := deadline_us wv - clock in
  let ms := poll_timeout (Some wv) clock in
  (D <= 0 -> ms = 0) /\ (0 < D -> D <= ms * 1000 <= D + 1998).
Proof. exact poll_timeout_spec. Qed.
Print Assumptions FD_poll_timeout_spec.

(* every poll() the loops make is asked for exactly that value at the clock it is made *)
Theorem FD_polls_use_remaining_time : forall n sent bufs oom buf when skip t0 ps ios,
  let asked := Forall (fun p : Z * Z => snd p = poll_timeout when (fst p)) in
  asked (polls_of (fd_timed_read_n n sent when skip t0 ps ios)) /\
  asked (polls_of (fd_timed_write_iov bufs oom when skip t0 ps ios)) /\
  asked (polls_of (fd_timed_write_n buf when skip t0 ps ios)).
Proof. exact polls_all. Qed.
Print Assumptions FD_polls_use_remaining_time.

(* whatever the peer and the kernel do, the call is back by max (start, deadline + 1998 us) + Q, where Q bounds
   how late a timed-out poll wakes up *)
Theorem FD_deadline : forall n sent bufs oom buf wv skip t0 ps ios Q,
  valid_when wv -> in_range wv t0 -> 0 <= Q -> Forall (late_within Q) ps ->
  let bound := Z.max t0 (deadline_us wv + 1998) + Q in
  t0 <= clock_of (fd_timed_read_n n sent (Some wv) skip t0 ps ios) <= bound /\
  t0 <= clock_of (fd_timed_write_iov bufs oom (Some wv) skip t0 ps ios) <= bound /\
  t0 <= clock_of (fd_timed_write_n buf (Some wv) skip t0 ps ios) <= bound.
Proof. exact deadline_all. Qed.
Print Assumptions FD_deadline.

(* instance for m_msg.c (deadline = now + MUNGE_SOCKET_TIMEOUT_MSECS, value probed from the source): a peer
   that stalls anywhere in a message is given up on within timeout + 1998 us + Q of the start *)
Theorem FD_msg_stall_bound : forall n sent skip t0 ps ios Q, 0 <= t0 -> 0 <= Q -> Forall (late_within Q) ps ->
  clock_of (fd_timed_read_n n sent (Some (msg_when t0)) skip t0 ps ios)
    <= t0 + socket_timeout_msecs * 1000 + 1998 + Q.
Proof. exact msg_stall_bound. Qed.
Print Assumptions FD_msg_stall_bound.

(* a timeout is told apart from a short transfer: errno == ETIMEDOUT only goes with a count below n *)
Theorem FD_timeout_is_short : forall n sent bufs oom when skip t0 ps ios,
  (errno_of (fd_timed_read_n n sent when skip t0 ps ios) = ETIMEDOUT ->
   exists k, r_rc (fd_timed_read_n n sent when skip t0 ps ios) = Ret k /\ (k < n)%nat) /\
  (errno_of (fd_timed_write_iov bufs oom when skip t0 ps ios) = ETIMEDOUT ->
   exists k, r_rc (fd_timed_write_iov bufs oom when skip t0 ps ios) = Ret k /\ (k < length (concat bufs))%nat).
Proof. exact timedout_all. Qed.
Print Assumptions FD_timeout_is_short.

(* ... and with a deadline, a poll that reports a timeout is the last system call of the call, which then says
   ETIMEDOUT (m_msg.c turns that into "Timed-out"): a stalled peer is dropped there and then *)
Theorem FD_timeout_ends_the_call : forall n sent bufs oom wv skip t0 ps ios i late,
  nth_error ps i = Some (PTimeout late) ->
  ((i < npolls_of (fd_timed_read_n n sent (Some wv) skip t0 ps ios))%nat ->
   S i = npolls_of (fd_timed_read_n n sent (Some wv) skip t0 ps ios) /\
   errno_of (fd_timed_read_n n sent (Some wv) skip t0 ps ios) = ETIMEDOUT) /\
  ((i < npolls_of (fd_timed_write_iov bufs oom (Some wv) skip t0 ps ios))%nat ->
   S i = npolls_of (fd_timed_write_iov bufs oom (Some wv) skip t0 ps ios) /\
   errno_of (fd_timed_write_iov bufs oom (Some wv) skip t0 ps ios) = ETIMEDOUT).
Proof. exact timeout_final. Qed.
Print Assumptions FD_timeout_ends_the_call.

(* when = {0,0}: never blocks *)
Theorem FD_write_iov_zero_when_nonblocking : forall bufs oom skip t0 ps ios Q, 0 <= Q -> Forall (late_within Q) ps ->
  t0 <= clock_of (fd_timed_write_iov bufs oom (Some (0, 0)) skip t0 ps ios) <= t0 + Q.
Proof. exact write_iov_nonblocking. Qed.
Print Assumptions FD_write_iov_zero_when_nonblocking.

(* the loops end on every script: the fuel the model is run with is never used up *)
Theorem FD_loops_terminate : forall n sent bufs oom buf when skip t0 ps ios,
  r_rc (fd_timed_read_n n sent when skip t0 ps ios) <> NoFuel /\
  r_rc (fd_timed_write_iov bufs oom when skip t0 ps ios) <> NoFuel /\
  r_rc (fd_timed_write_n buf when skip t0 ps ios) <> NoFuel.
Proof. exact terminate_all. Qed.
Print Assumptions FD_loops_terminate.

(* the model's timeout function takes the values of the C function on the probe grid (GenFd, regenerated
   from fd.c on every run; the grid covers every rounding case and the int wrap) *)
Theorem FD_timeout_matches_source :
  (forall ws wu c res, In (ws, wu, c, res) timeout_table -> poll_timeout (Some (ws, wu)) c = res) /\
  poll_timeout None 0 = timeout_null /\ poll_timeout (Some (0, 0)) 1700000000000005 = timeout_zero_when.
Proof. exact timeout_source_all. Qed.
Print Assumptions FD_timeout_matches_source.

(* ---- what does NOT hold (witnesses; the first two are replayed on the C code by the harness) *)
(* without a deadline a silent peer blocks the call for ever *)
Theorem FD_no_deadline_can_block : exists ps ios,
  r_rc (fd_timed_read_n 4 [] None false 0 ps ios) = Blocked.
Proof. exists [PTimeout 0], []. vm_compute. reflexivity. Qed.
Print Assumptions FD_no_deadline_can_block.

(* "0 if [when] is in the past" fails once the deadline is more than 2^31 ms (24.8 days) in the past: the
   int wraps and poll is asked to wait 15 days (the source's "XXX: msecs can overflow"); m_msg.c cannot get
   there, its deadline is now + 2 s *)
Theorem FD_past_deadline_zero_timeout_refuted : exists wv clock,
  valid_when wv /\ 0 <= clock /\ deadline_us wv < clock /\ poll_timeout (Some wv) clock = 1294967296.
Proof.
  exists (1697000000, 0), 1700000000000000. unfold valid_when, deadline_us. cbn [fst snd].
  repeat split; try (vm_compute; congruence). intros [H _]; discriminate.
Qed.
Print Assumptions FD_past_deadline_zero_timeout_refuted.

(* "rounded up to the next millisecond" is refuted by one millisecond: 1 ms before the deadline, poll is asked for 2 *)
Theorem FD_round_up_to_next_msec_refuted : exists wv clock,
  valid_when wv /\ in_range wv clock /\ deadline_us wv - clock = 1000 /\ poll_timeout (Some wv) clock = 2.
Proof.
  exists (10, 0), 9999000. unfold valid_when, in_range, deadline_us. cbn [fst snd].
  repeat split; try (vm_compute; congruence). intros [H _]; discriminate.
Qed.
Print Assumptions FD_round_up_to_next_msec_refuted.

(* ===================================================================== (4) EINTR / EAGAIN *)
(* (1) and (2) hold for every script, so no interleaving of EINTR/EAGAIN loses or duplicates a byte.  They
   also cost nothing but time: if every poll reports ready / EINTR / EAGAIN before the deadline and every
   I/O call transfers something or fails with EINTR / EAGAIN, then — unless the script ends first — the call
   returns the full count with the full data, however many interruptions there are and wherever they fall *)
Theorem FD_interrupts_harmless : forall n sent bufs when skip t0 ps ios, bufs <> [] ->
  poll_timeout when t0 <> 0 -> Forall (benign_poll when) ps -> Forall benign_io ios ->
  (let r := fd_timed_write_iov bufs false when skip t0 ps ios in
   exhausted r = true \/ (r_rc r = Ret (length (concat bufs)) /\ wv_out (r_x r) = concat bufs)) /\
  (let r := fd_timed_read_n n sent when skip t0 ps ios in
   exhausted r = true \/ (r_rc r = Ret n /\ rd_buf (r_x r) = firstn n sent)).
Proof. exact benign_all. Qed.
Print Assumptions FD_interrupts_harmless.

(* non-vacuity: header-like element, an empty element and a body; short writes inside the first element,
   across the boundary and inside the body, with EINTR and EAGAIN in between: 8 bytes, in order *)
Example FD_example_short_writes :
  let r := fd_timed_write_iov [["a";"b";"c"]; []; ["d";"e";"f";"g";"h"]]%byte false None true 0
             [PRev 5 false false false; PEintr 1; PRev 0 false false false; PRev 0 false false false;
              PRev 7 false false false; PRev 0 false false false]
             [Xfer 2; Xfer 2; Eintr; Xfer 1; Eagain; Xfer 99] in
  r_rc r = Ret 8 /\ wv_out (r_x r) = ["a";"b";"c";"d";"e";"f";"g";"h"]%byte /\ exhausted r = false /\
  nio_of r = 6%nat /\ npolls_of r = 6%nat.
Proof. vm_compute. repeat split; reflexivity. Qed.
