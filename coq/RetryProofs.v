(* RetryProofs.v — C13: retries mask connection faults and never burn a credential. *)
From Coq Require Import List NArith ZArith Bool Lia ZifyBool ZifyN ZifyNat.
From Coq.Strings Require Import Byte.
From RecordUpdate Require Import RecordSet.
From MV Require Import Bytes Base64Model CredModel CredProofs CredForgery RetryModel.
From MV.gen Require Import GenCred.
Import ListNotations RecordSetNotations.
Local Open Scope N_scope.

(* replies are compared up to the retry counter, which is not a field of DEC_RSP *)
Definition strip (m : msg) : msg := m <| m_retry := 0 |>.

Lemma rkey_eqb_refl k : rkey_eqb k k = true.
Proof.
  unfold rkey_eqb, bytes_eqb. rewrite Nat.eqb_refl, N.eqb_refl. cbn. rewrite andb_true_r.
  induction (fst k) as [|x l IH]; cbn; [reflexivity|]. now rewrite N.eqb_refl, IH.
Qed.

Lemma rkey_eqb_eq a b : rkey_eqb a b = true -> a = b.
Proof.
  unfold rkey_eqb. intros H. apply andb_true_iff in H. destruct H as [H1 H2].
  apply bytes_eqb_eq in H1. apply N.eqb_eq in H2. destruct a, b; cbn in *; subst; reflexivity.
Qed.

Lemma r_remove_fresh k rs : r_mem k rs = false -> r_remove k rs = rs.
Proof.
  unfold r_mem, r_remove. induction rs as [|x rs IH]; cbn; [reflexivity|].
  intros H. apply orb_false_iff in H. destruct H as [H1 H2]. rewrite H1. cbn. f_equal. now apply IH.
Qed.

(* rolling back the record a request inserted restores the cache exactly *)
Lemma rollback_insert k rs : r_mem k rs = false -> dec_rollback (k :: rs) (Some k) = rs.
Proof.
  intros H. unfold dec_rollback, r_remove. cbn. rewrite rkey_eqb_refl. cbn. now apply r_remove_fresh.
Qed.

Lemma r_mem_head k rs : r_mem k (k :: rs) = true.
Proof. unfold r_mem. cbn. now rewrite rkey_eqb_refl. Qed.

(* ---- the retry counter commutes with every stage of the decoder ----------------------------------- *)
(* rt r m: m with the retry counter set to r.  Each stage, run on rt r m, returns rt r of what it returns
   on m (no stage reads m_retry; record updates in different orders are convertible). *)
Definition rt (r : N) (m : msg) : msg := m <| m_retry := r |>.

Lemma rt_rt r1 r2 m : rt r2 (rt r1 m) = rt r2 m.
Proof. reflexivity. Qed.

Lemma set_err_rt r m e s : set_err (rt r m) e s = rt r (set_err m e s).
Proof. unfold set_err, rt. destruct m; cbn. destruct (_ && _); reflexivity. Qed.

Lemma msg_reset_rt r m : msg_reset (rt r m) = rt r (msg_reset m).
Proof. reflexivity. Qed.

Lemma dec_finish_rt r m : dec_finish (rt r m) = rt r (dec_finish m).
Proof. unfold dec_finish. change (m_err (rt r m)) with (m_err m). destruct (_ && _); reflexivity. Qed.

Definition oo_rt (r : N) (o : outer_out) : outer_out :=
  {| oo_msg := rt r (oo_msg o); oo_outer := oo_outer o; oo_iv := oo_iv o; oo_tag := oo_tag o; oo_inner := oo_inner o |}.
Ltac bm := repeat match goal with |- context [match ?x with _ => _ end] => destruct x end.
Ltac rt_leaf :=
  try (f_equal; match goal with |- _ = rt ?q (set_err ?y ?e ?s) => exact (set_err_rt q y e s) end); try reflexivity.

Lemma dec_unpack_outer_rt r m body :
  dec_unpack_outer (rt r m) body =
  match dec_unpack_outer m body with inl e => inl (rt r e) | inr o => inr (oo_rt r o) end.
Proof.
  unfold dec_unpack_outer. bm.
  all: rt_leaf.
Qed.

Lemma dec_unpack_inner_rt r m inner :
  dec_unpack_inner (rt r m) inner =
  match dec_unpack_inner m inner with inl e => inl (rt r e) | inr o => inr (rt r o) end.
Proof.
  unfold dec_unpack_inner, bad_cred. bm.
  all: rt_leaf.
Qed.

Section R.
Variable hmac : N -> bytes -> bytes -> bytes.
Variable sha1 : bytes -> bytes.
Variable blk_dec : N -> bytes -> bytes -> bytes.
Variable zdecomp : N -> bytes -> N -> option bytes.

Notation dec_process := (dec_process hmac sha1 blk_dec zdecomp).
Notation dec_pre := (dec_pre hmac sha1 blk_dec zdecomp).
Notation dec_attempt := (dec_attempt hmac sha1 blk_dec zdecomp).
Notation dec_client := (dec_client hmac sha1 blk_dec zdecomp).

(* dec_process_msg = the cache-independent part, then the replay step *)
Lemma dec_process_factor cf mem rs m pu pg now :
  dec_process cf mem rs m pu pg now =
  match dec_pre cf mem m pu pg now with
  | inl r => (r, rs, None)
  | inr (m', k) =>
      if r_mem k rs then
        if cf_socket_retry cf && (0 <? m_retry m') && (m_retry m' <=? c_retry_attempts)
        then (m', rs, None)
        else (dec_finish (set_err m' e_cred_replayed None), rs, None)
      else (m', k :: rs, Some k)
  end.
Proof.
  unfold CredModel.dec_process, RetryModel.dec_pre.
  destruct (m_data_len m =? 0); [reflexivity|].
  destruct (c_retry_attempts <? _); [reflexivity|].
  destruct (CredModel.dec_parse _ _ _ _ _ _) as [e|[m2 tag]]; [reflexivity|].
  destruct (negb _); [reflexivity|].
  destruct (dec_time _ _ _ _) as [tv ttl']. destruct tv; reflexivity.
Qed.

(* the same for the two clock readings: the cache-independent part (which uses the reading at receipt only), then the
   replay step with the FRESH reading now2 - a credential that was not recorded is accepted only if now2 is not beyond
   the record's expiry (snd k = time0 + capped ttl) *)
Lemma dec_process2_factor cf mem rs m pu pg now now2 :
  dec_process2 hmac sha1 blk_dec zdecomp cf mem rs m pu pg now now2 =
  match dec_pre cf mem m pu pg now with
  | inl r => (r, rs, None)
  | inr (m', k) =>
      if r_mem k rs then
        if cf_socket_retry cf && (0 <? m_retry m') && (m_retry m' <=? c_retry_attempts)
        then (m', rs, None)
        else (dec_finish (set_err m' e_cred_replayed None), rs, None)
      else if snd k <? now2 then (dec_finish (set_err m' e_cred_expired None), k :: rs, None)
           else (m', k :: rs, Some k)
  end.
Proof.
  unfold CredModel.dec_process2, RetryModel.dec_pre.
  destruct (m_data_len m =? 0); [reflexivity|].
  destruct (c_retry_attempts <? _); [reflexivity|].
  destruct (CredModel.dec_parse _ _ _ _ _ _) as [e|[m2 tag]]; [reflexivity|].
  destruct (negb _); [reflexivity|].
  destruct (dec_time _ _ _ _) as [tv ttl']. destruct tv; reflexivity.
Qed.

(* an accepted presentation is never later than the record's expiry (by the reading at receipt) *)
Lemma dec_pre_expiry cf mem m pu pg now m' k :
  dec_pre cf mem m pu pg now = inr (m', k) -> u32 now <= snd k /\ m_retry m' = m_retry m.
Proof.
  unfold RetryModel.dec_pre. intros H.
  destruct (m_data_len m =? 0); [discriminate|].
  destruct (c_retry_attempts <? _); [discriminate|].
  destruct (CredModel.dec_parse _ _ _ _ _ _) as [e|[m2 tag]] eqn:P; [discriminate|].
  destruct (negb _); [discriminate|].
  destruct (dec_time cf (m_time0 m2) (m_ttl m2) (m_time1 m2)) as [tv ttl'] eqn:T.
  destruct tv; try discriminate. inversion H; subst; clear H.
  destruct (dec_parse_frame hmac sha1 blk_dec zdecomp _ _ _ _ P) as (_ & Hr & _ & _ & Ht1).
  cbn in Hr, Ht1. split; [|exact Hr].
  unfold cred_rkey. cbn.
  pose proof (window_exact cf (m_time0 m2) (m_ttl m2) (m_time1 m2)) as W. cbv zeta in W.
  destruct W as (W & _). rewrite T in W. cbn [fst] in W. destruct (proj1 W eq_refl) as [_ W2].
  assert (ttl' = capped cf (m_ttl m2)) as -> by (pose proof (dec_time_ttl cf (m_time0 m2) (m_ttl m2) (m_time1 m2)) as X; rewrite T in X; exact X).
  rewrite Ht1 in W2. lia.
Qed.

(* the one-clock dec_process is the case in which the clock has not advanced by the replay step *)
Lemma dec_process_atomic cf mem rs m pu pg now :
  dec_process cf mem rs m pu pg now = dec_process2 hmac sha1 blk_dec zdecomp cf mem rs m pu pg now (u32 now).
Proof.
  rewrite dec_process_factor, dec_process2_factor.
  destruct (dec_pre cf mem m pu pg now) as [r|[m' k]] eqn:P; [reflexivity|].
  destruct (dec_pre_expiry _ _ _ _ _ _ _ _ P) as [L _].
  replace (snd k <? u32 now) with false by (symmetry; apply N.ltb_ge; exact L). reflexivity.
Qed.

(* ---- TARGETS (to be proved; statements fixed by the maintainer) ---------------------------------- *)

Definition retag (r : N) (x : msg + (msg * rkey)) : msg + (msg * rkey) :=
  match x with inl a => inl (a <| m_retry := r |>) | inr (a, k) => inr (a <| m_retry := r |>, k) end.

Lemma dec_decrypt_mac_rt r cf o :
  dec_decrypt_mac hmac sha1 blk_dec cf (oo_rt r o) =
  match dec_decrypt_mac hmac sha1 blk_dec cf o with inl e => inl (rt r e) | inr p => inr p end.
Proof.
  unfold dec_decrypt_mac. cbn [oo_rt oo_msg oo_outer oo_iv oo_tag oo_inner].
  change (m_cipher (rt r (oo_msg o))) with (m_cipher (oo_msg o)).
  change (m_mac (rt r (oo_msg o))) with (m_mac (oo_msg o)).
  bm; rt_leaf.
Qed.

Lemma dec_decompress_rt r m inner :
  dec_decompress zdecomp (rt r m) inner =
  match dec_decompress zdecomp m inner with inl e => inl (rt r e) | inr p => inr p end.
Proof.
  unfold dec_decompress. change (m_zip (rt r m)) with (m_zip m).
  bm; rt_leaf.
Qed.

Lemma dec_parse_rt r cf m :
  dec_parse hmac sha1 blk_dec zdecomp cf (rt r m) =
  match dec_parse hmac sha1 blk_dec zdecomp cf m with inl e => inl (rt r e) | inr (m', tag) => inr (rt r m', tag) end.
Proof.
  unfold dec_parse. change (m_data (rt r m)) with (m_data m).
  destruct (dec_unarmor (m_data m)) as [body|[e s]]; [|rt_leaf].
  change (rt r m <| m_data := [] |> <| m_data_len := 0 |>) with (rt r (m <| m_data := [] |> <| m_data_len := 0 |>)).
  rewrite dec_unpack_outer_rt.
  destruct (dec_unpack_outer _ body) as [e|o]; [reflexivity|].
  rewrite dec_decrypt_mac_rt.
  destruct (CredModel.dec_decrypt_mac _ _ _ cf o) as [e|p]; [reflexivity|].
  change (oo_msg (oo_rt r o)) with (rt r (oo_msg o)).
  rewrite dec_decompress_rt.
  destruct (CredModel.dec_decompress _ _ p) as [e|inner]; [reflexivity|].
  rewrite dec_unpack_inner_rt.
  destruct (dec_unpack_inner _ inner) as [e|m2]; reflexivity.
Qed.

Lemma dec_pre_rt cf mem m pu pg now r :
  m_retry m <= c_retry_attempts -> r <= c_retry_attempts ->
  dec_pre cf mem (rt r m) pu pg now = retag r (dec_pre cf mem m pu pg now).
Proof.
  intros H1 H2. unfold RetryModel.dec_pre, retag.
  change (m_data_len (rt r m)) with (m_data_len m).
  destruct (m_data_len m =? 0).
  { rewrite set_err_rt, dec_finish_rt. reflexivity. }
  change (rt r m <| m_time0 := 0 |> <| m_time1 := u32 now |> <| m_client_uid := pu |> <| m_client_gid := pg |>)
    with (rt r (m <| m_time0 := 0 |> <| m_time1 := u32 now |> <| m_client_uid := pu |> <| m_client_gid := pg |>)).
  set (m1 := m <| m_time0 := 0 |> <| m_time1 := u32 now |> <| m_client_uid := pu |> <| m_client_gid := pg |>).
  change (m_retry (rt r m1)) with r. change (m_retry m1) with (m_retry m).
  replace (c_retry_attempts <? r) with false by (symmetry; apply N.ltb_ge; exact H2).
  replace (c_retry_attempts <? m_retry m) with false by (symmetry; apply N.ltb_ge; exact H1).
  rewrite dec_parse_rt.
  destruct (dec_parse _ _ _ _ cf m1) as [e|[m2 tag]].
  { rewrite dec_finish_rt. reflexivity. }
  change (dec_authorized cf mem (rt r m2)) with (dec_authorized cf mem m2).
  destruct (negb (dec_authorized cf mem m2)).
  { change (unauth_str (rt r m2)) with (unauth_str m2). rewrite set_err_rt, dec_finish_rt. reflexivity. }
  change (m_time0 (rt r m2)) with (m_time0 m2). change (m_ttl (rt r m2)) with (m_ttl m2).
  change (m_time1 (rt r m2)) with (m_time1 m2).
  destruct (dec_time cf (m_time0 m2) (m_ttl m2) (m_time1 m2)) as [tv ttl'].
  change (rt r m2 <| m_ttl := ttl' |>) with (rt r (m2 <| m_ttl := ttl' |>)).
  destruct tv.
  - reflexivity.
  - rewrite set_err_rt, dec_finish_rt. reflexivity.
  - rewrite set_err_rt, dec_finish_rt. reflexivity.
Qed.

(* the cache-independent part does not depend on the retry counter (as long as it is within bounds) *)
Lemma dec_pre_retry cf mem m pu pg now r1 r2 :
  r1 <= c_retry_attempts -> r2 <= c_retry_attempts ->
  dec_pre cf mem (m <| m_retry := r2 |>) pu pg now = retag r2 (dec_pre cf mem (m <| m_retry := r1 |>) pu pg now).
Proof.
  intros H1 H2. change (m <| m_retry := r2 |>) with (rt r2 (rt r1 m)).
  apply dec_pre_rt; [exact H1|exact H2].
Qed.

Definition req (cred : bytes) (retry : N) : msg :=
  msg0 <| m_data := cred |> <| m_data_len := len cred |> <| m_retry := retry |>.

(* attempt i (1..5) sees the retry-0 result, re-tagged *)
Lemma req_pre cf mem cred pu pg now i : (i <= 5)%nat ->
  dec_pre cf mem (req cred (N.of_nat (i - 1))) pu pg now
  = retag (N.of_nat (i - 1)) (dec_pre cf mem (req cred 0) pu pg now).
Proof.
  intros H. unfold req. apply dec_pre_retry; [apply N.le_0_l|].
  change c_retry_attempts with 5. lia.
Qed.

Lemma attempt_req cf mem cred pu pg now C i f :
  dec_attempt cf mem cred pu pg now C i f =
  match f with
  | Some ReqCut => (C, None)
  | Some RspLost => let '(_, rs', _) := dec_process cf mem C (req cred (N.of_nat (i - 1))) pu pg now in (rs', None)
  | Some RspSendFailed =>
      let '(_, rs', k) := dec_process cf mem C (req cred (N.of_nat (i - 1))) pu pg now in (dec_rollback rs' k, None)
  | None => let '(r, rs', _) := dec_process cf mem C (req cred (N.of_nat (i - 1))) pu pg now in (rs', Some r)
  end.
Proof. reflexivity. Qed.

(* (a) the cache-independent part already answers: every attempt leaves the cache alone *)
Lemma attempt_final cf mem cred pu pg now C i f r0 :
  dec_pre cf mem (req cred 0) pu pg now = inl r0 -> (i <= 5)%nat ->
  dec_attempt cf mem cred pu pg now C i f =
  (C, match f with None => Some (rt (N.of_nat (i - 1)) r0) | Some _ => None end).
Proof.
  intros Hp Hi. rewrite attempt_req, dec_process_factor, req_pre, Hp by exact Hi. cbn [retag].
  destruct f as [[| |]|]; reflexivity.
Qed.

(* (b) accepted, record absent *)
Lemma attempt_fresh cf mem cred pu pg now rs i f m0 k :
  dec_pre cf mem (req cred 0) pu pg now = inr (m0, k) -> r_mem k rs = false -> (i <= 5)%nat ->
  dec_attempt cf mem cred pu pg now rs i f =
  match f with
  | None => (k :: rs, Some (rt (N.of_nat (i - 1)) m0))
  | Some RspLost => (k :: rs, None)
  | Some _ => (rs, None)
  end.
Proof.
  intros Hp Hm Hi. rewrite attempt_req, dec_process_factor, req_pre, Hp by exact Hi. cbn [retag]. rewrite Hm.
  destruct f as [[| |]|]; try reflexivity.
  rewrite (rollback_insert _ _ Hm). reflexivity.
Qed.

(* (b) accepted, record present (left by an earlier attempt of this very request): the retry exception.  The record
   stays whatever happens to this attempt's reply: the attempt added nothing, so a reply that cannot be sent takes
   nothing back (the earlier attempt's reply was sent as far as the daemon can tell) *)
Lemma attempt_present cf mem cred pu pg now rs i f m0 k :
  cf_socket_retry cf = true ->
  dec_pre cf mem (req cred 0) pu pg now = inr (m0, k) -> (2 <= i <= 5)%nat ->
  dec_attempt cf mem cred pu pg now (k :: rs) i f =
  match f with
  | None => (k :: rs, Some (rt (N.of_nat (i - 1)) m0))
  | Some _ => (k :: rs, None)
  end.
Proof.
  intros Hc Hp Hi. rewrite attempt_req, dec_process_factor, req_pre, Hp by lia. cbn [retag].
  rewrite r_mem_head, Hc.
  change (m_retry (m0 <| m_retry := N.of_nat (i - 1) |>)) with (N.of_nat (i - 1)).
  replace (0 <? N.of_nat (i - 1)) with true by lia.
  replace (N.of_nat (i - 1) <=? c_retry_attempts) with true by (change c_retry_attempts with 5; lia).
  cbn [andb].
  destruct f as [[| |]|]; reflexivity.
Qed.

Lemma client_step fuel cf mem cred pu pg now C i faults :
  dec_client (S fuel) cf mem cred pu pg now C i faults =
  match dec_attempt cf mem cred pu pg now C i (match faults with [] => None | f :: _ => Some f end) with
  | (rs', Some r) => (rs', Some r)
  | (rs', None) =>
      if Nat.leb 5 i then (rs', None)
      else dec_client fuel cf mem cred pu pg now rs' (S i) (match faults with [] => [] | _ :: r => r end)
  end.
Proof. destruct faults; reflexivity. Qed.

Lemma client_final cf mem cred pu pg now rs r0 :
  dec_pre cf mem (req cred 0) pu pg now = inl r0 ->
  forall faults fuel i, (1 <= i)%nat -> (i + length faults <= 5)%nat -> (length faults < fuel)%nat ->
  exists r, dec_client fuel cf mem cred pu pg now rs i faults = (rs, Some r) /\ strip r = strip r0.
Proof.
  intros Hp. induction faults as [|f rest IH]; intros fuel i H1 H2 H3.
  - destruct fuel as [|fuel]; [cbn in H3; lia|]. cbn [length] in *.
    rewrite client_step, (attempt_final _ _ _ _ _ _ _ _ _ _ Hp) by lia.
    eexists; split; reflexivity.
  - destruct fuel as [|fuel]; [cbn in H3; lia|]. cbn [length] in *.
    rewrite client_step, (attempt_final _ _ _ _ _ _ _ _ _ _ Hp) by lia.
    replace (Nat.leb 5 i) with false by lia.
    apply IH; lia.
Qed.

Lemma client_accept cf mem cred pu pg now rs m0 k :
  cf_socket_retry cf = true ->
  dec_pre cf mem (req cred 0) pu pg now = inr (m0, k) -> r_mem k rs = false ->
  forall faults fuel i C, (1 <= i)%nat -> (i + length faults <= 5)%nat -> (length faults < fuel)%nat ->
  C = rs \/ (C = k :: rs /\ (2 <= i)%nat) ->
  exists r, dec_client fuel cf mem cred pu pg now C i faults = (k :: rs, Some r) /\ strip r = strip m0.
Proof.
  intros Hc Hp Hm. induction faults as [|f rest IH]; intros fuel i C H1 H2 H3 HC.
  - destruct fuel as [|fuel]; [cbn in H3; lia|]. cbn [length] in *. rewrite client_step.
    destruct HC as [->|[-> Hi]].
    + rewrite (attempt_fresh _ _ _ _ _ _ _ _ _ _ _ Hp Hm) by lia. eexists; split; reflexivity.
    + rewrite (attempt_present _ _ _ _ _ _ _ _ _ _ _ Hc Hp) by lia. eexists; split; reflexivity.
  - destruct fuel as [|fuel]; [cbn in H3; lia|]. cbn [length] in *. rewrite client_step.
    assert (L : Nat.leb 5 i = false) by lia.
    destruct HC as [->|[-> Hi]].
    + rewrite (attempt_fresh _ _ _ _ _ _ _ _ _ _ _ Hp Hm) by lia.
      destruct f; rewrite L; apply IH; try lia; auto.
      right. split; [reflexivity|lia].
    + rewrite (attempt_present _ _ _ _ _ _ _ _ _ _ _ Hc Hp) by lia.
      destruct f; rewrite L; apply IH; try lia; auto.
      all: right; split; [reflexivity|lia].
Qed.

(* C13 main theorem.  Up to four faulty attempts of any kind, in any order, then a clean one: munge_decode returns
   exactly what a fault-free first decode returns (up to the retry counter, which DEC_RSP does not carry), and the
   cache ends up as after that fault-free decode — in the three cases a first decode can be in:
   (a) the cache-independent part already fails (hard error / unauthorized / expired / rewound);
   (b) it accepts and the credential has not been seen: success, exactly one record inserted. *)
Theorem retry_masks_faults cf mem cred pu pg now rs faults :
  cf_socket_retry cf = true -> (length faults <= 4)%nat ->
  match dec_pre cf mem (req cred 0) pu pg now with
  | inl r0 =>
      exists r, munge_decode_under_faults hmac sha1 blk_dec zdecomp cf mem cred pu pg now rs faults = (rs, Some r)
                /\ strip r = strip r0
  | inr (m0, k) =>
      r_mem k rs = false ->
      exists r, munge_decode_under_faults hmac sha1 blk_dec zdecomp cf mem cred pu pg now rs faults = (k :: rs, Some r)
                /\ strip r = strip m0
  end.
Proof.
  intros Hc Hl. unfold munge_decode_under_faults. change (N.to_nat c_retry_attempts) with 5%nat.
  destruct (dec_pre cf mem (req cred 0) pu pg now) as [r0|[m0 k]] eqn:Hp.
  - apply (client_final _ _ _ _ _ _ _ _ Hp); lia.
  - intros Hm. apply (client_accept _ _ _ _ _ _ _ _ _ Hc Hp Hm); try lia. left; reflexivity.
Qed.

(* a reply that could not be sent, and no retry: the credential stays decodable (cache exactly as before) *)
Theorem unsent_reply_keeps_credential cf mem cred pu pg now rs m0 k :
  dec_pre cf mem (req cred 0) pu pg now = inr (m0, k) -> r_mem k rs = false ->
  fst (dec_attempt cf mem cred pu pg now rs 1 (Some RspSendFailed)) = rs.
Proof.
  intros Hp Hm. rewrite (attempt_fresh _ _ _ _ _ _ _ _ _ _ _ Hp Hm) by lia. reflexivity.
Qed.

(* ... in general: an attempt whose reply munged could not send leaves the cache exactly as it found it, for every
   cache, attempt number and credential - it takes back the record IT added and nothing else *)
Theorem unsent_reply_restores_cache cf mem cred pu pg now rs i :
  fst (dec_attempt cf mem cred pu pg now rs i (Some RspSendFailed)) = rs.
Proof.
  rewrite attempt_req, dec_process_factor.
  destruct (dec_pre cf mem (req cred (N.of_nat (i - 1))) pu pg now) as [r0|[m' k]]; [reflexivity|].
  destruct (r_mem k rs) eqn:M.
  - destruct (_ && _ && _); reflexivity.
  - cbn [fst]. apply rollback_insert. exact M.
Qed.

(* a retry that finds the record of its own earlier attempt is served (the retry exemption) and the record STAYS,
   whatever happens to this attempt's reply: the earlier attempt's reply was sent as far as the daemon can tell *)
Theorem retry_on_own_record_keeps_it cf mem cred pu pg now rs i f m0 k :
  cf_socket_retry cf = true ->
  dec_pre cf mem (req cred 0) pu pg now = inr (m0, k) -> (2 <= i <= 5)%nat ->
  dec_attempt cf mem cred pu pg now (k :: rs) i f =
  (k :: rs, match f with None => Some (rt (N.of_nat (i - 1)) m0) | Some _ => None end).
Proof.
  intros Hc Hp Hi. rewrite (attempt_present _ _ _ _ _ _ _ _ _ _ _ Hc Hp Hi). destruct f; reflexivity.
Qed.

Lemma attempt_fault cf mem cred pu pg now C i f :
  snd (dec_attempt cf mem cred pu pg now C i (Some f)) = None.
Proof.
  rewrite attempt_req. destruct f; [reflexivity| |];
    destruct (dec_process cf mem C _ pu pg now) as [[? ?] ?]; reflexivity.
Qed.

Lemma client_exhausted cf mem cred pu pg now :
  forall fuel i C faults, (fuel + i <= 6)%nat -> (fuel <= length faults)%nat ->
  snd (dec_client fuel cf mem cred pu pg now C i faults) = None.
Proof.
  induction fuel as [|fuel IH]; intros i C faults H1 H2; [reflexivity|].
  destruct faults as [|f rest]; [cbn in H2; lia|]. cbn [length] in H2.
  rewrite client_step.
  pose proof (attempt_fault cf mem cred pu pg now C i f) as Hf.
  destruct (dec_attempt cf mem cred pu pg now C i (Some f)) as [C' [r|]]; [discriminate Hf|].
  destruct (Nat.leb 5 i); [reflexivity|]. apply IH; lia.
Qed.

(* five faulty attempts: a socket error (None), never a partial or wrong result; and whatever happened, the
   cache holds at most the one record of this credential *)
Theorem exhausted_is_socket_error cf mem cred pu pg now rs faults :
  (5 <= length faults)%nat ->
  snd (munge_decode_under_faults hmac sha1 blk_dec zdecomp cf mem cred pu pg now rs faults) = None.
Proof.
  intros H. unfold munge_decode_under_faults. change (N.to_nat c_retry_attempts) with 5%nat.
  apply client_exhausted; [lia|exact H].
Qed.

(* the retry counter a client can legitimately send is 0..4; munged refuses anything above 5 *)
Theorem retry_bounds cf mem rs m pu pg now :
  m_err m = e_success -> m_data_len m <> 0 -> c_retry_attempts < m_retry m ->
  let '(r, rs', k) := dec_process cf mem rs m pu pg now in
  m_err r = e_socket /\ is_reset r /\ rs' = rs /\ k = None.
Proof.
  intros H0 Hd Hr. unfold CredModel.dec_process.
  destruct (m_data_len m =? 0) eqn:D0; [apply N.eqb_eq in D0; contradiction|].
  set (m1 := m <| m_time0 := 0 |> <| m_time1 := u32 now |> <| m_client_uid := pu |> <| m_client_gid := pg |>).
  change (m_retry m1) with (m_retry m).
  replace (c_retry_attempts <? m_retry m) with true by (symmetry; apply N.ltb_lt; exact Hr).
  assert (E1 : m_err m1 = e_success) by exact H0.
  match goal with |- context [dec_finish ?x] =>
    assert (Hh : hard_code (m_err x) = true) by (apply set_err_hard; [exact E1|reflexivity]) end.
  rewrite (dec_finish_hard _ Hh).
  split; [|split; [apply msg_reset_is_reset|split; reflexivity]].
  change (m_err (msg_reset ?x)) with (m_err x).
  apply set_err_code; [exact E1|discriminate].
Qed.

End R.

(* ==================================================================================================== *)
(* ENCODE counterpart                                                                                   *)
(* ==================================================================================================== *)
From Coq Require Import String.   (* string literals; imported late: it shadows List.length *)

Ltac msg_cbn := cbn [set m_retry m_cipher m_mac m_zip m_realm_len m_realm m_ttl m_addr_len m_addr m_time0 m_time1
   m_client_uid m_client_gid m_cred_uid m_cred_gid m_auth_uid m_auth_gid m_data_len m_data m_err m_errstr].
Ltac msg_cbn_in H := cbn [set m_retry m_cipher m_mac m_zip m_realm_len m_realm m_ttl m_addr_len m_addr m_time0 m_time1
   m_client_uid m_client_gid m_cred_uid m_cred_gid m_auth_uid m_auth_gid m_data_len m_data m_err m_errstr] in H.
Ltac bm_if_in H :=
  repeat (match type of H with
  | context [if ?b then _ else _] =>
      lazymatch b with context [match _ with _ => _ end] => fail | _ => idtac end;
      lazymatch type of b with bool => destruct b end
  end; msg_cbn_in H).
Ltac bm_if :=
  repeat (match goal with
  | |- context [if ?b then _ else _] =>
      lazymatch b with context [match _ with _ => _ end] => fail | _ => idtac end;
      lazymatch type of b with bool => destruct b end
  end; msg_cbn).

Lemma enc_validate_rt r cf m :
  enc_validate cf (rt r m) =
  match enc_validate cf m with inl a => inl (rt r a) | inr e => inr (rt r e) end.
Proof.
  destruct m. unfold enc_validate, rt, set_err. msg_cbn. bm_if. all: reflexivity.
Qed.

Lemma rt_eta m : rt (m_retry m) m = m.
Proof. destruct m; reflexivity. Qed.

Lemma enc_validate_retry cf m a : enc_validate cf m = inl a -> m_retry a = m_retry m.
Proof.
  intros H. rewrite <- (rt_eta m), enc_validate_rt in H.
  destruct (enc_validate cf m); [|discriminate]. injection H as <-. reflexivity.
Qed.

Lemma enc_validate_err cf m a : enc_validate cf m = inl a -> m_err a = m_err m.
Proof.
  destruct m. unfold enc_validate. intros H. msg_cbn_in H.
  bm_if_in H; try discriminate H; injection H as <-; reflexivity.
Qed.

(* a request enc_validate refuses is refused with one of the three "bad algorithm" codes *)
Lemma enc_validate_refusal cf m e : enc_validate cf m = inr e -> m_err m = e_success ->
  m_err e = e_bad_cipher \/ m_err e = e_bad_mac \/ m_err e = e_bad_zip.
Proof.
  destruct m. unfold enc_validate. intros H H0. msg_cbn_in H. msg_cbn_in H0. subst.
  bm_if_in H; try discriminate H; injection H as <-; (rewrite set_err_code; [tauto|reflexivity|discriminate]).
Qed.

Section E.
Variable hmac : N -> bytes -> bytes -> bytes.
Variable sha1 : bytes -> bytes.
Variable blk_enc : N -> bytes -> bytes -> bytes.
Variable zcomp : N -> bytes -> option bytes.

Notation enc_core := (enc_core hmac sha1 blk_enc zcomp).
Notation enc_process := (enc_process hmac sha1 blk_enc zcomp).

Definition eo_rt (r : N) (o : enc_out) : enc_out :=
  {| eo_msg := rt r (eo_msg o); eo_outer := eo_outer o; eo_tag := eo_tag o; eo_inner_plain := eo_inner_plain o;
     eo_inner_wire := eo_inner_wire o; eo_cred := eo_cred o |}.

Lemma enc_core_rt r cf m salt ivr :
  enc_core cf (rt r m) salt ivr =
  match enc_core cf m salt ivr with inl e => inl (rt r e) | inr o => inr (eo_rt r o) end.
Proof.
  unfold CredModel.enc_core.
  change (m_cipher (rt r m)) with (m_cipher m).
  change (rt r m <| m_addr_len := c_addr_size |>) with (rt r (m <| m_addr_len := c_addr_size |>)).
  set (m1 := m <| m_addr_len := c_addr_size |>).
  change (pack_inner cf (rt r m1) salt) with (pack_inner cf m1 salt).
  change (m_zip (rt r m1)) with (m_zip m1).
  destruct (m_zip m1 =? c_zip_none); [reflexivity|].
  destruct (zip_compress zcomp (m_zip m1) (pack_inner cf m1 salt)) as [z|]; [|rt_leaf].
  destruct (len (pack_inner cf m1 salt) <=? len z); reflexivity.
Qed.

Lemma enc_pre_rt r cf m pu pg now :
  m_retry m <= c_retry_attempts -> r <= c_retry_attempts ->
  enc_pre cf (rt r m) pu pg now =
  match enc_pre cf m pu pg now with inl a => inl (rt r a) | inr e => inr (rt r e) end.
Proof.
  intros H1 H2. unfold enc_pre. rewrite enc_validate_rt.
  destruct (enc_validate cf m) as [a|e] eqn:V; [|reflexivity].
  apply enc_validate_retry in V.
  change (m_retry (rt r a <| m_client_uid := pu |> <| m_client_gid := pg |>)) with r.
  change (m_retry (a <| m_client_uid := pu |> <| m_client_gid := pg |>)) with (m_retry a). rewrite V.
  replace (c_retry_attempts <? r) with false by (symmetry; apply N.ltb_ge; exact H2).
  replace (c_retry_attempts <? m_retry m) with false by (symmetry; apply N.ltb_ge; exact H1).
  reflexivity.
Qed.

Lemma enc_process_rt r cf m pu pg now salt ivr :
  m_retry m <= c_retry_attempts -> r <= c_retry_attempts ->
  enc_process cf (rt r m) pu pg now salt ivr = enc_process cf m pu pg now salt ivr.
Proof.
  intros H1 H2. unfold CredModel.enc_process. rewrite (enc_pre_rt _ _ _ _ _ _ H1 H2).
  destruct (enc_pre cf m pu pg now) as [a|e]; [|reflexivity].
  rewrite enc_core_rt. destruct (enc_core cf a salt ivr) as [e|o]; reflexivity.
Qed.

(* ENCODE counterpart of dec_pre_retry: the ENC_RSP does not depend on the retry counter of the request, as
   long as the counter is within bounds.  A retried munge_encode (same salt, IV and clock reading) is answered
   exactly like the first attempt. *)
Theorem enc_process_retry cf m pu pg now salt ivr r1 r2 :
  r1 <= c_retry_attempts -> r2 <= c_retry_attempts ->
  enc_process cf (m <| m_retry := r2 |>) pu pg now salt ivr = enc_process cf (m <| m_retry := r1 |>) pu pg now salt ivr.
Proof.
  intros H1 H2. change (m <| m_retry := r2 |>) with (rt r2 (rt r1 m)).
  apply enc_process_rt; [exact H1|exact H2].
Qed.

Definition enc_rsp_exceeded : enc_rsp :=
  {| er_err := e_socket; er_errstr := str "Exceeded maximum number of encode attempts"%string; er_data := [] |}.

(* above the bound: a request that passes enc_validate is answered by the reset ENC_RSP with EMUNGE_SOCKET *)
Theorem enc_retry_exceeded cf m pu pg now salt ivr :
  m_err m = e_success -> c_retry_attempts < m_retry m ->
  enc_process cf m pu pg now salt ivr =
  match enc_validate cf m with
  | inl _ => enc_rsp_exceeded
  | inr e => {| er_err := m_err e; er_errstr := m_errstr e; er_data := [] |}
  end.
Proof.
  intros H0 Hr. unfold CredModel.enc_process, enc_pre.
  destruct (enc_validate cf m) as [a|e] eqn:V; [|reflexivity].
  pose proof (enc_validate_retry _ _ _ V) as R. pose proof (enc_validate_err _ _ _ V) as E.
  change (m_retry (a <| m_client_uid := pu |> <| m_client_gid := pg |>)) with (m_retry a). rewrite R.
  replace (c_retry_attempts <? m_retry m) with true by (symmetry; apply N.ltb_lt; exact Hr).
  unfold set_err. change (m_err (a <| m_client_uid := pu |> <| m_client_gid := pg |>)) with (m_err a).
  rewrite E, H0. reflexivity.
Qed.

(* hence: no credential is ever issued for a retry counter above the bound *)
Corollary enc_retry_exceeded_no_cred cf m pu pg now salt ivr :
  m_err m = e_success -> c_retry_attempts < m_retry m ->
  let r := enc_process cf m pu pg now salt ivr in
  er_data r = [] /\ (er_err r = e_socket \/ er_err r = e_bad_cipher \/ er_err r = e_bad_mac \/ er_err r = e_bad_zip).
Proof.
  intros H0 Hr. cbv zeta. rewrite enc_retry_exceeded by assumption.
  destruct (enc_validate cf m) as [a|e] eqn:V.
  - split; [reflexivity|left; reflexivity].
  - split; [reflexivity|right; exact (enc_validate_refusal _ _ _ V H0)].
Qed.
End E.

(* ==================================================================================================== *)
(* Non-vacuity and sharpness, computed inside Coq under toy primitives (constant-size "MAC", identity     *)
(* "cipher" and "compression"), as in Properties_C01.v                                                    *)
(* ==================================================================================================== *)
Definition toy_hmac (a : N) (k d : bytes) : bytes := repeat x2a (N.to_nat (mac_size a)).
Definition toy_blk (_ : N) (_ b : bytes) : bytes := b.
Definition toy_enc cf m := enc_process toy_hmac (fun x => x) toy_blk (fun _ x => Some x) cf m 1000 1001 5000
                                       (repeat x00 8) (repeat x00 16).
Definition toy_cred : bytes :=
  er_data (toy_enc cf_std (msg0 <| m_cipher := 0 |> <| m_mac := 5 |> <| m_zip := 0 |> <| m_ttl := 60 |>
                                <| m_auth_uid := c_uid_any |> <| m_auth_gid := c_gid_any |>
                                <| m_data := str "hello" |> <| m_data_len := 5 |>)).
Definition toy_decode cf now faults :=
  munge_decode_under_faults toy_hmac (fun x => x) toy_blk (fun _ x _ => Some x) cf (fun _ _ => false)
                            toy_cred 7 8 now [] faults.
Definition toy_view (x : rstate * option msg) :=
  match x with (rs, Some r) => Some (List.length rs, m_err r, m_data r, m_cred_uid r) | (_, None) => None end.
Definition cf_noretry : conf :=
  {| cf_def_cipher := c_def_cipher; cf_def_mac := c_def_mac; cf_def_zip := c_def_zip;
     cf_def_ttl := c_def_ttl; cf_max_ttl := c_max_ttl; cf_root_auth := false; cf_clock_skew := true;
     cf_socket_retry := false; cf_addr := [x7f; x00; x00; x01]; cf_key := [] |}.

(* case (b) of retry_masks_faults is inhabited: four faults of all three kinds, then success, one record *)
Example retry_example_accept :
  toy_view (toy_decode cf_std 5010 [RspLost; RspSendFailed; ReqCut; RspLost]) = Some (1%nat, e_success, str "hello", 1000).
Proof. vm_compute. reflexivity. Qed.
(* case (a): an expired credential stays "expired" (never "replayed") and leaves no record *)
Example retry_example_expired :
  toy_view (toy_decode cf_std 9000 [RspLost; RspSendFailed; ReqCut; RspLost]) = Some (0%nat, e_cred_expired, str "hello", 1000).
Proof. vm_compute. reflexivity. Qed.
(* the bound of four faults is sharp *)
Example retry_example_exhausted :
  toy_view (toy_decode cf_std 5010 [RspLost; RspSendFailed; ReqCut; RspLost; ReqCut]) = None.
Proof. vm_compute. reflexivity. Qed.
(* the hypothesis cf_socket_retry = true is needed: without the option one lost reply burns the credential *)
Example retry_example_needs_option :
  toy_view (toy_decode cf_noretry 5010 [RspLost]) = Some (1%nat, e_cred_replayed, str "hello", 1000).
Proof. vm_compute. reflexivity. Qed.
(* encode, retry counter 6: EMUNGE_SOCKET if the request validates, but validation comes first *)
Example enc_retry_example_socket :
  toy_enc cf_std (msg0 <| m_mac := 5 |> <| m_retry := 6 |>) = enc_rsp_exceeded.
Proof. vm_compute. reflexivity. Qed.
Example enc_retry_example_validate_first :
  er_err (toy_enc cf_std (msg0 <| m_cipher := 99 |> <| m_retry := 6 |>)) = e_bad_cipher.
Proof. vm_compute. reflexivity. Qed.
