(* RetryProofs.v — C13: retries mask connection faults and never burn a credential. *)
From Coq Require Import List NArith ZArith Bool Lia ZifyBool ZifyN ZifyNat.
From Coq.Strings Require Import Byte.
From RecordUpdate Require Import RecordSet.
From MV Require Import Bytes Base64Model CredModel CredProofs CredForgery RetryModel.
From MV.gen Require Import GenCred.
Import ListNotations RecordSetNotations.
Local Open Scope N_scope.

(* replies are compared up to the retry counter, which is not a field of DEC_RSP *)
Definition strip (m : msg) : msg := m <| m_retry := 0 |>.

Lemma rkey_eqb_refl k : rkey_eqb k k = true.
Proof.
  unfold rkey_eqb, bytes_eqb. rewrite Nat.eqb_refl, N.eqb_refl. cbn. rewrite andb_true_r.
  induction (fst k) as [|x l IH]; cbn; [reflexivity|]. now rewrite N.eqb_refl, IH.
Qed.

Lemma rkey_eqb_eq a b : rkey_eqb a b = true -> a = b.
Proof.
  unfold rkey_eqb. intros H. apply andb_true_iff in H. destruct H as [H1 H2].
  apply bytes_eqb_eq in H1. apply N.eqb_eq in H2. destruct a, b; cbn in *; subst; reflexivity.
Qed.

Lemma r_remove_fresh k rs : r_mem k rs = false -> r_remove k rs = rs.
Proof.
  unfold r_mem, r_remove. induction rs as [|x rs IH]; cbn; [reflexivity|].
  intros H. apply orb_false_iff in H. destruct H as [H1 H2]. rewrite H1. cbn. f_equal. now apply IH.
Qed.

(* rolling back the record a request inserted restores the cache exactly *)
Lemma rollback_insert k rs : r_mem k rs = false -> dec_rollback (k :: rs) (Some k) = rs.
Proof.
  intros H. unfold dec_rollback, r_remove. cbn. rewrite rkey_eqb_refl. cbn. now apply r_remove_fresh.
Qed.

Lemma r_mem_head k rs : r_mem k (k :: rs) = true.
Proof. unfold r_mem. cbn. now rewrite rkey_eqb_refl. Qed.

Section R.
Variable hmac : N -> bytes -> bytes -> bytes.
Variable sha1 : bytes -> bytes.
Variable blk_dec : N -> bytes -> bytes -> bytes.
Variable zdecomp : N -> bytes -> N -> option bytes.

Notation dec_process := (dec_process hmac sha1 blk_dec zdecomp).
Notation dec_pre := (dec_pre hmac sha1 blk_dec zdecomp).
Notation dec_attempt := (dec_attempt hmac sha1 blk_dec zdecomp).
Notation dec_client := (dec_client hmac sha1 blk_dec zdecomp).

(* dec_process_msg = the cache-independent part, then the replay step *)
Lemma dec_process_factor cf mem rs m pu pg now :
  dec_process cf mem rs m pu pg now =
  match dec_pre cf mem m pu pg now with
  | inl r => (r, rs, None)
  | inr (m', k) =>
      if r_mem k rs then
        if cf_socket_retry cf && (0 <? m_retry m') && (m_retry m' <=? c_retry_attempts)
        then (m', rs, Some k)
        else (dec_finish (set_err m' e_cred_replayed None), rs, None)
      else (m', k :: rs, Some k)
  end.
Proof.
  unfold CredModel.dec_process, RetryModel.dec_pre.
  destruct (m_data_len m =? 0); [reflexivity|].
  destruct (c_retry_attempts <? _); [reflexivity|].
  destruct (CredModel.dec_parse _ _ _ _ _ _) as [e|[m2 tag]]; [reflexivity|].
  destruct (negb _); [reflexivity|].
  destruct (dec_time _ _ _ _) as [tv ttl']. destruct tv; reflexivity.
Qed.

(* ---- TARGETS (to be proved; statements fixed by the maintainer) ---------------------------------- *)

Definition retag (r : N) (x : msg + (msg * rkey)) : msg + (msg * rkey) :=
  match x with inl a => inl (a <| m_retry := r |>) | inr (a, k) => inr (a <| m_retry := r |>, k) end.

(* the cache-independent part does not depend on the retry counter (as long as it is within bounds) *)
Lemma dec_pre_retry cf mem m pu pg now r1 r2 :
  r1 <= c_retry_attempts -> r2 <= c_retry_attempts ->
  dec_pre cf mem (m <| m_retry := r2 |>) pu pg now = retag r2 (dec_pre cf mem (m <| m_retry := r1 |>) pu pg now).
Proof.
Abort.

Definition req (cred : bytes) (retry : N) : msg :=
  msg0 <| m_data := cred |> <| m_data_len := len cred |> <| m_retry := retry |>.

(* C13 main theorem.  Up to four faulty attempts of any kind, in any order, then a clean one: munge_decode returns
   exactly what a fault-free first decode returns (up to the retry counter, which DEC_RSP does not carry), and the
   cache ends up as after that fault-free decode — in the three cases a first decode can be in:
   (a) the cache-independent part already fails (hard error / unauthorized / expired / rewound);
   (b) it accepts and the credential has not been seen: success, exactly one record inserted. *)
Theorem retry_masks_faults cf mem cred pu pg now rs faults :
  cf_socket_retry cf = true -> (length faults <= 4)%nat ->
  match dec_pre cf mem (req cred 0) pu pg now with
  | inl r0 =>
      exists r, munge_decode_under_faults hmac sha1 blk_dec zdecomp cf mem cred pu pg now rs faults = (rs, Some r)
                /\ strip r = strip r0
  | inr (m0, k) =>
      r_mem k rs = false ->
      exists r, munge_decode_under_faults hmac sha1 blk_dec zdecomp cf mem cred pu pg now rs faults = (k :: rs, Some r)
                /\ strip r = strip m0
  end.
Proof.
Abort.

(* a reply that could not be sent, and no retry: the credential stays decodable (cache exactly as before) *)
Theorem unsent_reply_keeps_credential cf mem cred pu pg now rs m0 k :
  dec_pre cf mem (req cred 0) pu pg now = inr (m0, k) -> r_mem k rs = false ->
  fst (dec_attempt cf mem cred pu pg now rs 1 (Some RspSendFailed)) = rs.
Proof.
Abort.

(* five faulty attempts: a socket error (None), never a partial or wrong result; and whatever happened, the
   cache holds at most the one record of this credential *)
Theorem exhausted_is_socket_error cf mem cred pu pg now rs faults :
  (5 <= length faults)%nat ->
  snd (munge_decode_under_faults hmac sha1 blk_dec zdecomp cf mem cred pu pg now rs faults) = None.
Proof.
Abort.

(* the retry counter a client can legitimately send is 0..4; munged refuses anything above 5 *)
Theorem retry_bounds cf mem rs m pu pg now :
  m_err m = e_success -> m_data_len m <> 0 -> c_retry_attempts < m_retry m ->
  let '(r, rs', k) := dec_process cf mem rs m pu pg now in
  m_err r = e_socket /\ is_reset r /\ rs' = rs /\ k = None.
Proof.
Abort.

End R.
