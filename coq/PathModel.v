(* PathModel.v — executable model of munged's start-up file/path security checks (C16).
   No proofs here.  Sources modelled (read line by line):
     src/munged/path.c     path_is_secure, path_is_accessible   (loop over the canonical path, leaf to "/")
     src/munged/conf.c     _conf_open_keyfile
     src/munged/random.c   _random_read_entropy_from_file, _random_read_seed
     src/munged/munged.c   open_logfile, sock_create, write_pidfile, main (order of the checks)
     src/munged/lock.c     lock_create, _lock_stat
   Numbers taken from the source (flag values, permission bits, flags per call site, mode/umask recipe
   of every created file) come from gen/GenPath.v, regenerated on every run.

   Process identity: every predicate takes the whole identity of the process (real, effective, saved uid
   and gid); which of them an ownership test consults is a fact observed from the source (GenPath's
   *_owner_id).  Files the daemon creates: "create" is an operation on the state of one directory entry
   (absent / file of some type, owner, mode / symlink to a file / dangling symlink), composed of unlink(2)
   and open(2)/bind(2) as the source orders them (GenPath's *_how, observed with strace).  Whether a site's
   directory walk runs at all is a function of the site and of what is at the file's name (GenPath's *_walk).

   A directory chain is the list of lstat() records of the directories that path_is_secure visits:
   the canonical directory first, then each parent, "/" last.  Modes are st_mode land 07777. *)
From Coq Require Import List NArith Bool.
From MV Require Import GenPath.
Import ListNotations.
Local Open Scope N_scope.

Record dstat := mkd { d_uid : N; d_gid : N; d_mode : N }.

Inductive reason := ROwner | RGroupW | RWorldW.
Inductive verdict := Secure | Insecure (i : nat) (r : reason).

(* C: (m & k) != 0 *)
Definition has (m k : N) : bool := negb (N.land m k =? 0).

(* one iteration of the while loop of path_is_secure: the three tests in source order *)
Definition check_dir (euid tg flags : N) (d : dstat) : option reason :=
  if negb (d_uid d =? 0) && negb (d_uid d =? euid) then Some ROwner
  else if negb (has flags path_security_ignore_group_write)
          && has (d_mode d) s_iwgrp
          && negb (has (d_mode d) s_isvtx)
          && (negb (d_gid d =? tg) || (tg =? gid_sentinel)) then Some RGroupW
  else if has (d_mode d) s_iwoth && negb (has (d_mode d) s_isvtx) then Some RWorldW
  else None.

(* the loop: returns at the first directory (counted from the leaf) that fails a test *)
Fixpoint walk (euid tg flags : N) (i : nat) (chain : list dstat) : verdict :=
  match chain with
  | [] => Secure
  | d :: rest => match check_dir euid tg flags d with
                 | Some r => Insecure i r
                 | None => walk euid tg flags (S i) rest
                 end
  end.

(* tg = _path_trusted_gid (gid_sentinel when --trusted-group is not given) *)
Definition path_is_secure (euid tg flags : N) (chain : list dstat) : verdict :=
  walk euid tg flags 0 chain.

(* path_is_accessible: execute permission for user, group and other on every directory *)
Definition x_all : N := N.lor s_ixusr (N.lor s_ixgrp s_ixoth).
Fixpoint walk_x (i : nat) (chain : list dstat) : option nat :=
  match chain with
  | [] => None
  | d :: rest => if N.land (d_mode d) x_all =? x_all then walk_x (S i) rest else Some i
  end.
Definition path_is_accessible (chain : list dstat) : option nat := walk_x 0 chain.

(* which prefixes the loop visits: a non-directory leaf is cut off first (strrchr) *)
Definition visited {A} (leaf_is_dir : bool) (prefixes : list A) : list A :=
  if leaf_is_dir then prefixes else tl prefixes.

(* ---- process identity ---- *)
Record ident := mkid { i_ruid : N; i_euid : N; i_suid : N; i_rgid : N; i_egid : N; i_sgid : N }.

(* the uid an ownership test compares with: sel is one of GenPath's *_owner_id *)
Definition pick_uid (sel : N) (id : ident) : N := if sel =? id_real then i_ruid id else i_euid id.

(* path_is_secure as the process with identity id runs it *)
Definition path_secure_as (id : ident) (tg flags : N) (chain : list dstat) : verdict :=
  path_is_secure (pick_uid dir_owner_id id) tg flags chain.

(* ---- files ---- *)
Inductive ftype := TReg | TDir | TLnk | TFifo | TSock | TChr | TBlk.
Record fstat := mkf { f_type : ftype; f_uid : N; f_gid : N; f_mode : N }.
(* what lstat and stat say about a name: o_symlink = lstat succeeded and S_ISLNK;
   o_stat = result of stat()/fstat() (symlinks followed), None when that fails with ENOENT.
   The same record is the state of a directory entry: (false, None) absent, (false, Some s) a file,
   (true, Some s) a symlink to a file, (true, None) a dangling symlink. *)
Record fobs := mko { o_symlink : bool; o_stat : option fstat }.

Definition is_reg (s : fstat) : bool := match f_type s with TReg => true | _ => false end.
Definition is_dir (s : fstat) : bool := match f_type s with TDir => true | _ => false end.

(* ---- which directory walks run: a function of the site AND of what is at the file's name ---- *)
Inductive fsite := FKey | FSeed | FLog | FSock | FPid.
Definition site_flags (s : fsite) : N :=
  match s with FKey => key_flags | FSeed => seed_flags | FLog => log_flags | FSock => sock_flags | FPid => pid_flags end.
(* GenPath <site>_walk = (walk runs when nothing is at the name, walk runs when a file is there), observed *)
Definition walk_fact (s : fsite) : bool * bool :=
  match s with FKey => key_walk | FSeed => seed_walk | FLog => log_walk | FSock => sock_walk | FPid => pid_walk end.
Definition walks (s : fsite) (leaf : fobs) : bool :=
  match o_stat leaf with Some _ => snd (walk_fact s) | None => fst (walk_fact s) end.
(* the verdict of site s on its directory chain, given the prior state of the leaf *)
Definition dir_verdict (s : fsite) (leaf : fobs) (id : ident) (tg : N) (chain : list dstat) : verdict :=
  if walks s leaf then path_secure_as id tg (site_flags s) chain else Secure.

Inductive why :=
| WMissing | WType | WSymlink | WOwner | WGroup | WOther
| WDir (i : nat) (r : reason) | WAccess (i : nat) | WLock | WHang
| WCreate      (* open(O_CREAT) of a file the daemon needs failed *)
| WExists.     (* what is at the socket's name cannot be removed *)

Definition dir_why (v : verdict) : option why :=
  match v with Secure => None | Insecure i r => Some (WDir i r) end.

Definition grp_rw : N := N.lor s_irgrp s_iwgrp.
Definition oth_rw : N := N.lor s_iroth s_iwoth.

(* conf.c _conf_open_keyfile: None = the key is opened; Some w = the daemon dies with that complaint.
   log_err is fatal always, log_err_or_warn only without --force. *)
Definition keyfile_check (force : bool) (id : ident) (tg : N) (o : fobs) (chain : list dstat) : option why :=
  match o_stat o with
  | None => Some WMissing
  | Some s =>
    if negb (is_reg s) then Some WType
    else if force then None
    else if o_symlink o then Some WSymlink
    else if negb (f_uid s =? pick_uid key_owner_id id) then Some WOwner
    else if has (f_mode s) grp_rw then Some WGroup
    else if has (f_mode s) oth_rw then Some WOther
    else dir_why (dir_verdict FKey o id tg chain)
  end.

(* random.c _random_read_seed: (bad, used) — bad = returns -1 (caller unlinks), used = bytes reach the pool.
   (A seed the process may not read fails in open(): bad and unused as well.) *)
Definition seed_valid (id : ident) (s : fstat) : bool :=
  is_reg s && (f_uid s =? pick_uid seed_owner_id id) && negb (has (f_mode s) grp_rw) && negb (has (f_mode s) oth_rw).

Definition seed_read (id : ident) (o : fobs) : bool * bool :=
  if o_symlink o then (true, false)
  else match o_stat o with
       | None => (false, false)
       | Some s => if seed_valid id s then (false, true) else (true, false)
       end.

Definition is_fifo (s : fstat) : bool := match f_type s with TFifo => true | _ => false end.

(* open(path, O_RDONLY) on a FIFO without a writer blocks (and is retried on EINTR, so SIGTERM does not
   help) unless the source opens with O_NONBLOCK; seed_open_nonblock is observed by the facts probe *)
Definition seed_blocks (o : fobs) : bool :=
  negb (o_symlink o) &&
  match o_stat o with Some s => is_fifo s && negb seed_open_nonblock | None => false end.

Record seedres := mks { sr_refuse : option why;   (* start refused (seed directory insecure, no --force) *)
                        sr_hang : bool;           (* start-up blocks for ever in open() *)
                        sr_used : bool;           (* file contents added to the entropy pool *)
                        sr_removed : bool;        (* unlink(path) succeeded *)
                        sr_keep : bool }.         (* seed name kept: a new seed is written at exit *)

(* random.c _random_read_entropy_from_file + random_init + munged.c main;
   can_remove = the process may remove names from the seed's directory *)
Definition seed_step (force : bool) (id : ident) (tg : N) (can_remove : bool) (o : fobs) (chain : list dstat)
  : seedres :=
  let v := dir_verdict FSeed o id tg chain in
  match v, force with
  | Insecure i r, false => mks (Some (WDir i r)) false false false false
  | _, _ =>
    if seed_blocks o then mks None true false false false else
    let '(bad, used) := seed_read id o in
    (* unlink(2) of the rejected seed: EISDIR on a directory, EACCES when the process may not write to the
       directory that holds the name (a warning either way: the seed stays where it is, unused) *)
    let removed := bad && can_remove
                   && (o_symlink o || match o_stat o with Some s => negb (is_dir s) | None => false end) in
    mks None false used removed (match v with Secure => true | _ => false end)
  end.

(* munged.c open_logfile (daemon mode only) *)
Definition logfile_check (force : bool) (id : ident) (tg : N) (o : fobs) (chain : list dstat) : option why :=
  if o_symlink o && negb force then Some WSymlink
  else match (match o_stat o with
              | None => None
              | Some s =>
                if negb (is_reg s) then Some WType
                else if force then None
                else if negb (f_uid s =? pick_uid log_owner_id id) then Some WOwner
                else if has (f_mode s) s_iwgrp then Some WGroup
                else if has (f_mode s) s_iwoth then Some WOther
                else None
              end) with
       | Some w => Some w
       | None => if force then None else dir_why (dir_verdict FLog o id tg chain)
       end.

(* ---- created files: mode arithmetic ---- *)
Record recipe := mkr { r_req : N; r_keep : N; r_or : N; r_chmod : option N }.
Definition recipe_of (t : N * N * N * option N) : recipe :=
  let '(a, b, c, d) := t in mkr a b c d.

Definition created_mode (requested umask : N) : N := N.ldiff requested umask.   (* requested & ~umask *)
Definition in_force (r : recipe) (inherited : N) : N := N.lor (N.land inherited (r_keep r)) (r_or r).
Definition created (r : recipe) (inherited : N) : N :=
  match r_chmod r with
  | Some m => m
  | None => created_mode (r_req r) (in_force r inherited)
  end.

Definition sock_recipe (fg : bool) := recipe_of (if fg then fg_sock else bg_sock).
Definition lock_recipe (fg : bool) := recipe_of (if fg then fg_lock else bg_lock).
Definition pid_recipe (fg : bool) := recipe_of (if fg then fg_pid else bg_pid).
Definition seed_recipe (fg : bool) := recipe_of (if fg then fg_seed else bg_seed).
Definition log_recipe := recipe_of bg_log.

(* ---- created files: the directory entry before and after ---- *)
Definition e_absent : fobs := mko false None.
Definition e_file (s : fstat) : fobs := mko false (Some s).

(* what the process may do in the directory that holds the name: remove the name (write permission on the
   directory and the sticky-bit rule), create a name (write permission).  uid 0 may both. *)
Record dperm := mkp { p_remove : bool; p_create : bool }.
Definition all_perm : dperm := mkp true true.

Definition present (e : fobs) : bool :=
  o_symlink e || match o_stat e with Some _ => true | None => false end.
Definition is_dir_entry (e : fobs) : bool :=
  negb (o_symlink e) && match o_stat e with Some s => is_dir s | None => false end.

(* unlink(2) removes the name — a symlink itself, never its target.  It fails with an errno other than ENOENT
   on a directory (EISDIR) and when the process may not remove names there (EACCES/EPERM) *)
Definition unlink_fails (p : dperm) (e : fobs) : bool :=
  is_dir_entry e || (present e && negb (p_remove p)).
Definition fs_unlink (p : dperm) (e : fobs) : fobs := if unlink_fails p e then e else e_absent.

(* write permission of the process on an existing file (Linux: the effective ids decide; uid 0 may always;
   the harness drops all supplementary groups) *)
Definition may_write (id : ident) (s : fstat) : bool :=
  (i_euid id =? 0) ||
  (if f_uid s =? i_euid id then has (f_mode s) s_iwusr
   else if f_gid s =? i_egid id then has (f_mode s) s_iwgrp
   else has (f_mode s) s_iwoth).

(* fchmod(2): the owner of the file and uid 0 only *)
Definition may_chmod (id : ident) (s : fstat) : bool := (i_euid id =? 0) || (f_uid s =? i_euid id).

(* a file the process creates belongs to its effective uid and gid (no set-group-ID directories here) *)
Definition fresh_file (id : ident) (mode : N) : fstat := mkf TReg (i_euid id) (i_egid id) mode.

Inductive ores :=
| OOpened (e' : fobs) (s : fstat)    (* entry afterwards, file the descriptor refers to *)
| OFail                              (* open fails: EISDIR, ENXIO, EACCES, EEXIST, ELOOP *)
| OBlock                             (* a FIFO nobody reads: open for writing never returns *)
| OAbandon (e' : fobs).              (* opened (and truncated), then given up: nothing is written *)

Definition open_existing (id : ident) (s : fstat) (e : fobs) : ores :=
  match f_type s with
  | TReg | TChr | TBlk => if may_write id s then OOpened e s else OFail
  | TFifo => if may_write id s then OBlock else OFail
  | TDir | TSock | TLnk => OFail
  end.

(* open(name, O_WRONLY|O_CREAT[|O_TRUNC|O_APPEND][|O_EXCL][|O_NOFOLLOW], mode) under umask; no O_NONBLOCK.
   An existing file keeps owner and mode (the inode is REUSED); a dangling symlink is followed and its target
   created; creating needs write permission on the directory (EACCES otherwise). *)
Definition fs_open_creat (excl nofollow can_create : bool) (id : ident) (mode : N) (e : fobs) : ores :=
  let f := fresh_file id mode in
  if o_symlink e then
    if excl || nofollow then OFail
    else match o_stat e with
         | None => if can_create then OOpened (mko true (Some f)) f else OFail
         | Some s => open_existing id s e
         end
  else match o_stat e with
       | None => if can_create then OOpened (e_file f) f else OFail
       | Some s => if excl then OFail else open_existing id s e
       end.

(* how the source creates a file: is the name unlinked first, O_EXCL, O_NOFOLLOW (GenPath *_how) *)
Record how := mkh { h_unlink : bool; h_excl : bool; h_nofollow : bool }.
Definition how_of (t : bool * bool * bool) : how := let '(a, b, c) := t in mkh a b c.

Definition sock_how (fg : bool) := how_of (if fg then fg_sock_how else bg_sock_how).
Definition lock_how (fg : bool) := how_of (if fg then fg_lock_how else bg_lock_how).
Definition pid_how (fg : bool) := how_of (if fg then fg_pid_how else bg_pid_how).
Definition seed_how (fg : bool) := how_of (if fg then fg_seed_how else bg_seed_how).
Definition log_how := how_of bg_log_how.

Definition set_mode (s : fstat) (m : N) : fstat := mkf (f_type s) (f_uid s) (f_gid s) m.

(* what the source does to an old file that it could not unlink and that open() therefore reused, mode and all:
   Some (base, keep, fatal) = fchmod (fd, base & ~(inherited & keep)), and when that fails (not the owner) either
   the file is given up (fatal) or used as it is; None = nothing: the old mode stays (GenPath *_rechmod, observed) *)
Definition rechmod := option (N * N * bool).
Definition reuse_mode (base keep inherited : N) : N := created_mode base (N.land inherited keep).
Definition rechmod_step (rc : rechmod) (id : ident) (inherited : N) (e' : fobs) (s : fstat) : ores :=
  match rc with
  | None => OOpened e' s
  | Some (base, keep, fatal) =>
    if may_chmod id s
    then let s' := set_mode s (reuse_mode base keep inherited) in OOpened (mko (o_symlink e') (Some s')) s'
    else if fatal then OAbandon e' else OOpened e' s
  end.

Definition pid_rechmod (fg : bool) : rechmod := if fg then fg_pid_rechmod else bg_pid_rechmod.
Definition seed_rechmod (fg : bool) : rechmod := if fg then fg_seed_rechmod else bg_seed_rechmod.

(* [unlink;] open(O_CREAT) under the recipe's umask [; fchmod] — on any prior state of the entry and any
   permissions on its directory.  stuck = the unlink failed with an errno other than ENOENT. *)
Definition create_with (rc : rechmod) (h : how) (r : recipe) (id : ident) (inherited : N) (p : dperm) (e : fobs)
  : ores :=
  let stuck := h_unlink h && unlink_fails p e in
  let e1 := if h_unlink h then fs_unlink p e else e in
  match fs_open_creat (h_excl h) (h_nofollow h) (p_create p) id (created_mode (r_req r) (in_force r inherited)) e1 with
  | OOpened e' s =>
    let e2 := match r_chmod r with Some m => mko (o_symlink e') (Some (set_mode s m)) | None => e' end in
    let s2 := match r_chmod r with Some m => set_mode s m | None => s end in
    if stuck then rechmod_step rc id inherited e2 s2 else OOpened e2 s2
  | x => x
  end.
Definition create_at := create_with None.

(* result of writing a file that is not vital: entry afterwards, the file written (if any), blocked *)
Record wres := mkw { w_entry : fobs; w_file : option fstat; w_hang : bool }.

(* munged.c write_pidfile after the directory check: a failure is a warning, and the name is unlinked again.
   rc is a parameter so that the source before and after the repair can both be stated (pid_write = as observed) *)
Definition pid_write_with (rc : rechmod) (fg : bool) (id : ident) (inherited : N) (p : dperm) (e : fobs) : wres :=
  match create_with rc (pid_how fg) (pid_recipe fg) id inherited p e with
  | OOpened e' s => mkw e' (Some s) false
  | OFail => mkw (fs_unlink p e) None false
  | OAbandon e' => mkw (fs_unlink p e') None false
  | OBlock => mkw e None true
  end.
Definition pid_write (fg : bool) := pid_write_with (pid_rechmod fg) fg.

(* random.c _random_write_seed at exit: a failure is a warning *)
Definition seed_write_with (rc : rechmod) (fg : bool) (id : ident) (inherited : N) (p : dperm) (e : fobs) : wres :=
  match create_with rc (seed_how fg) (seed_recipe fg) id inherited p e with
  | OOpened e' s => mkw e' (Some s) false
  | OFail => mkw (if h_unlink (seed_how fg) then fs_unlink p e else e) None false
  | OAbandon e' => mkw e' None false
  | OBlock => mkw e None true
  end.
Definition seed_write (fg : bool) := seed_write_with (seed_rechmod fg) fg.

(* munged.c sock_create after the lock: unlink (an error other than ENOENT is fatal), bind under umask 0
   (EADDRINUSE when the name still exists).  None = the daemon dies. *)
Definition sock_bind (fg : bool) (id : ident) (inherited : N) (p : dperm) (e : fobs) : option fobs :=
  let h := sock_how fg in
  if h_unlink h && unlink_fails p e then None
  else let e1 := if h_unlink h then fs_unlink p e else e in
       if present e1 || negb (p_create p) then None
       else Some (e_file (mkf TSock (i_euid id) (i_egid id) (created (sock_recipe fg) inherited))).

(* lock.c lock_create + _lock_stat: with --force an old lock file is unlinked first; open(O_CREAT) keeps owner
   and mode of an existing file; what was opened must be a regular file of mode exactly 0200 owned by the
   process (fatal even with --force); a failing open is fatal unless --force (then: no lock) *)
Inductive lres :=
| LLocked (e' : fobs) (s : fstat)
| LNoLock (e' : fobs)
| LRefuse (w : why)
| LHang.

Definition lock_step (fg force : bool) (id : ident) (inherited : N) (p : dperm) (e : fobs) : lres :=
  let h := lock_how fg in
  let e1 := if force || h_unlink h then fs_unlink p e else e in
  match create_at (mkh false (h_excl h) (h_nofollow h)) (lock_recipe fg) id inherited p e1 with
  | OOpened e' s =>
    if is_reg s && (f_mode s =? s_iwusr) && (f_uid s =? pick_uid lock_owner_id id)
    then LLocked e' s else LRefuse WLock
  | OFail | OAbandon _ => if force then LNoLock e1 else LRefuse WCreate
  | OBlock => LHang
  end.

Definition lock_why (l : lres) : option why :=
  match l with LRefuse w => Some w | LHang => Some WHang | _ => None end.
Definition lock_entry (e : fobs) (l : lres) : fobs :=
  match l with LLocked e' _ => e' | LNoLock e' => e' | _ => e end.
Definition lock_file (l : lres) : option fstat :=
  match l with LLocked _ s => Some s | _ => None end.

(* munged.c open_logfile after the checks: fopen(name, "a") *)
Definition log_open (id : ident) (inherited : N) (p : dperm) (e : fobs) : ores :=
  create_at log_how log_recipe id inherited p e.
Definition open_why (r : ores) : option why :=
  match r with OOpened _ _ => None | OFail | OAbandon _ => Some WCreate | OBlock => Some WHang end.

(* munged.c sock_create up to the lock *)
Definition sock_check (force : bool) (id : ident) (tg : N) (leaf : fobs) (chain : list dstat) : option why :=
  if force then None
  else match dir_why (dir_verdict FSock leaf id tg chain) with
       | Some w => Some w
       | None => match path_is_accessible chain with Some i => Some (WAccess i) | None => None end
       end.

Definition pid_check (force : bool) (id : ident) (tg : N) (leaf : fobs) (chain : list dstat) : option why :=
  if force then None else dir_why (dir_verdict FPid leaf id tg chain).

(* ---- the whole start-up, in the order of main() ---- *)
Inductive site := SLog | SSeed | SKey | SSock | SLock | SBind | SPid.

Record config := mkc {
  c_fg : bool; c_force : bool; c_id : ident; c_tg : N; c_umask : N;
  c_key : fobs; c_keydir : list dstat;
  c_seed : fobs; c_seeddir : list dstat;
  c_log : fobs; c_logdir : list dstat;
  c_sock : fobs; c_sockdir : list dstat; c_lock : fobs;
  c_pid : fobs; c_piddir : list dstat }.

Definition tag (s : site) (w : option why) : option (site * why) :=
  match w with Some x => Some (s, x) | None => None end.

Fixpoint first_some {A} (l : list (option A)) : option A :=
  match l with [] => None | Some x :: _ => Some x | None :: r => first_some r end.

(* permissions of the process in the directory that holds a name (chain: that directory first).  Write
   permission by owner/group/other class (the harness drops all supplementary groups; search permission is
   taken for granted: without it nothing at the name could be looked at); in a sticky directory a name is
   removed only by the owner of the directory or of the file (a symlink's own owner is not in the model) *)
Definition dir_writable (id : ident) (d : dstat) : bool :=
  (i_euid id =? 0) ||
  (if d_uid d =? i_euid id then has (d_mode d) s_iwusr
   else if d_gid d =? i_egid id then has (d_mode d) s_iwgrp
   else has (d_mode d) s_iwoth).
Definition sticky_allows (id : ident) (d : dstat) (e : fobs) : bool :=
  (i_euid id =? 0) || negb (has (d_mode d) s_isvtx) || (d_uid d =? i_euid id) ||
  (negb (o_symlink e) && match o_stat e with Some s => f_uid s =? i_euid id | None => false end).
Definition perm_at (id : ident) (chain : list dstat) (e : fobs) : dperm :=
  match chain with
  | [] => all_perm
  | d :: _ => mkp (dir_writable id d && sticky_allows id d e) (dir_writable id d)
  end.

Definition seed_of (c : config) : seedres :=
  seed_step (c_force c) (c_id c) (c_tg c) (p_remove (perm_at (c_id c) (c_seeddir c) (c_seed c)))
            (c_seed c) (c_seeddir c).
Definition log_of (c : config) : ores :=
  log_open (c_id c) (c_umask c) (perm_at (c_id c) (c_logdir c) (c_log c)) (c_log c).
Definition lock_of (c : config) : lres :=
  lock_step (c_fg c) (c_force c) (c_id c) (c_umask c) (perm_at (c_id c) (c_sockdir c) (c_lock c)) (c_lock c).
Definition bind_of (c : config) : option fobs :=
  sock_bind (c_fg c) (c_id c) (c_umask c) (perm_at (c_id c) (c_sockdir c) (c_sock c)) (c_sock c).
Definition pid_of (c : config) : wres :=
  pid_write (c_fg c) (c_id c) (c_umask c) (perm_at (c_id c) (c_piddir c) (c_pid c)) (c_pid c).

(* None = the daemon starts; Some (site, why) = it exits (or, WHang, blocks) with that first complaint *)
Definition startup (c : config) : option (site * why) :=
  first_some
    [ if c_fg c then None
      else tag SLog (logfile_check (c_force c) (c_id c) (c_tg c) (c_log c) (c_logdir c));
      if c_fg c then None else tag SLog (open_why (log_of c));
      tag SSeed (sr_refuse (seed_of c));
      tag SSeed (if sr_hang (seed_of c) then Some WHang else None);
      tag SKey (keyfile_check (c_force c) (c_id c) (c_tg c) (c_key c) (c_keydir c));
      tag SSock (sock_check (c_force c) (c_id c) (c_tg c) (c_sock c) (c_sockdir c));
      tag SLock (lock_why (lock_of c));
      tag SBind (match bind_of c with None => Some WExists | Some _ => None end);
      tag SPid (pid_check (c_force c) (c_id c) (c_tg c) (c_pid c) (c_piddir c));
      tag SPid (if w_hang (pid_of c) then Some WHang else None) ].

(* the entries a successful start leaves behind (what lstat/stat report at each name) *)
Record after := mka { a_sock : fobs; a_lock : fobs; a_pid : fobs; a_log : option fobs }.
Definition after_start (c : config) : after :=
  mka (match bind_of c with Some e => e | None => c_sock c end)
      (lock_entry (c_lock c) (lock_of c))
      (w_entry (pid_of c))
      (if c_fg c then None
       else Some (match log_of c with OOpened e' _ => e' | _ => c_log c end)).

(* the seed name after a clean stop: start-up may have removed it; when the name was kept
   (seed directory secure) a new seed is written at exit *)
Definition seed_at_exit (c : config) : fobs :=
  if sr_removed (seed_of c) then e_absent else c_seed c.
Definition seed_written (c : config) : wres :=
  if sr_keep (seed_of c)
  then seed_write (c_fg c) (c_id c) (c_umask c) (perm_at (c_id c) (c_seeddir c) (seed_at_exit c)) (seed_at_exit c)
  else mkw (seed_at_exit c) None false.
Definition seed_after (c : config) : fobs := w_entry (seed_written c).

(* modes a start on a clean slate leaves behind (every name absent) *)
Record modes := mkm { m_sock : N; m_lock : N; m_pid : N; m_log : N; m_seed : N }.
Definition fresh_modes (fg : bool) (u : N) : modes :=
  mkm (created (sock_recipe fg) u) (created (lock_recipe fg) u) (created (pid_recipe fg) u)
      (created log_recipe u) (created (seed_recipe fg) u).

(* bound check used in the statements: every permission bit of m is in bound *)
Definition within (m bound : N) : bool := N.ldiff m bound =? 0.
