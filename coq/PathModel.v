(* PathModel.v — executable model of munged's start-up file/path security checks (C16).
   No proofs here.  Sources modelled (read line by line):
     src/munged/path.c     path_is_secure, path_is_accessible   (loop over the canonical path, leaf to "/")
     src/munged/conf.c     _conf_open_keyfile
     src/munged/random.c   _random_read_entropy_from_file, _random_read_seed
     src/munged/munged.c   open_logfile, sock_create, write_pidfile, main (order of the checks)
     src/munged/lock.c     lock_create, _lock_stat
   Numbers taken from the source (flag values, permission bits, flags per call site, mode/umask recipe
   of every created file) come from gen/GenPath.v, regenerated on every run.

   A directory chain is the list of lstat() records of the directories that path_is_secure visits:
   the canonical directory first, then each parent, "/" last.  Modes are st_mode land 07777. *)
From Coq Require Import List NArith Bool.
From MV Require Import GenPath.
Import ListNotations.
Local Open Scope N_scope.

Record dstat := mkd { d_uid : N; d_gid : N; d_mode : N }.

Inductive reason := ROwner | RGroupW | RWorldW.
Inductive verdict := Secure | Insecure (i : nat) (r : reason).

(* C: (m & k) != 0 *)
Definition has (m k : N) : bool := negb (N.land m k =? 0).

(* one iteration of the while loop of path_is_secure: the three tests in source order *)
Definition check_dir (euid tg flags : N) (d : dstat) : option reason :=
  if negb (d_uid d =? 0) && negb (d_uid d =? euid) then Some ROwner
  else if negb (has flags path_security_ignore_group_write)
          && has (d_mode d) s_iwgrp
          && negb (has (d_mode d) s_isvtx)
          && (negb (d_gid d =? tg) || (tg =? gid_sentinel)) then Some RGroupW
  else if has (d_mode d) s_iwoth && negb (has (d_mode d) s_isvtx) then Some RWorldW
  else None.

(* the loop: returns at the first directory (counted from the leaf) that fails a test *)
Fixpoint walk (euid tg flags : N) (i : nat) (chain : list dstat) : verdict :=
  match chain with
  | [] => Secure
  | d :: rest => match check_dir euid tg flags d with
                 | Some r => Insecure i r
                 | None => walk euid tg flags (S i) rest
                 end
  end.

(* tg = _path_trusted_gid (gid_sentinel when --trusted-group is not given) *)
Definition path_is_secure (euid tg flags : N) (chain : list dstat) : verdict :=
  walk euid tg flags 0 chain.

(* path_is_accessible: execute permission for user, group and other on every directory *)
Definition x_all : N := N.lor s_ixusr (N.lor s_ixgrp s_ixoth).
Fixpoint walk_x (i : nat) (chain : list dstat) : option nat :=
  match chain with
  | [] => None
  | d :: rest => if N.land (d_mode d) x_all =? x_all then walk_x (S i) rest else Some i
  end.
Definition path_is_accessible (chain : list dstat) : option nat := walk_x 0 chain.

(* which prefixes the loop visits: a non-directory leaf is cut off first (strrchr) *)
Definition visited {A} (leaf_is_dir : bool) (prefixes : list A) : list A :=
  if leaf_is_dir then prefixes else tl prefixes.

(* ---- files ---- *)
Inductive ftype := TReg | TDir | TLnk | TFifo | TSock | TChr | TBlk.
Record fstat := mkf { f_type : ftype; f_uid : N; f_gid : N; f_mode : N }.
(* what lstat and stat say about a name: o_symlink = lstat succeeded and S_ISLNK;
   o_stat = result of stat()/fstat() (symlinks followed), None when that fails with ENOENT *)
Record fobs := mko { o_symlink : bool; o_stat : option fstat }.

Definition is_reg (s : fstat) : bool := match f_type s with TReg => true | _ => false end.
Definition is_dir (s : fstat) : bool := match f_type s with TDir => true | _ => false end.

Inductive why :=
| WMissing | WType | WSymlink | WOwner | WGroup | WOther
| WDir (i : nat) (r : reason) | WAccess (i : nat) | WLock | WHang.

Definition dir_why (v : verdict) : option why :=
  match v with Secure => None | Insecure i r => Some (WDir i r) end.

Definition grp_rw : N := N.lor s_irgrp s_iwgrp.
Definition oth_rw : N := N.lor s_iroth s_iwoth.

(* conf.c _conf_open_keyfile: None = the key is opened; Some w = the daemon dies with that complaint.
   log_err is fatal always, log_err_or_warn only without --force. *)
Definition keyfile_check (force : bool) (euid tg : N) (o : fobs) (chain : list dstat) : option why :=
  match o_stat o with
  | None => Some WMissing
  | Some s =>
    if negb (is_reg s) then Some WType
    else if force then None
    else if o_symlink o then Some WSymlink
    else if negb (f_uid s =? euid) then Some WOwner
    else if has (f_mode s) grp_rw then Some WGroup
    else if has (f_mode s) oth_rw then Some WOther
    else dir_why (path_is_secure euid tg key_flags chain)
  end.

(* random.c _random_read_seed: (bad, used) — bad = returns -1 (caller unlinks), used = bytes reach the pool *)
Definition seed_valid (euid : N) (s : fstat) : bool :=
  is_reg s && (f_uid s =? euid) && negb (has (f_mode s) grp_rw) && negb (has (f_mode s) oth_rw).

Definition seed_read (euid : N) (o : fobs) : bool * bool :=
  if o_symlink o then (true, false)
  else match o_stat o with
       | None => (false, false)
       | Some s => if seed_valid euid s then (false, true) else (true, false)
       end.

Definition is_fifo (s : fstat) : bool := match f_type s with TFifo => true | _ => false end.

(* open(path, O_RDONLY) on a FIFO without a writer blocks (and is retried on EINTR, so SIGTERM does not
   help) unless the source opens with O_NONBLOCK; seed_open_nonblock is observed by the facts probe *)
Definition seed_blocks (o : fobs) : bool :=
  negb (o_symlink o) &&
  match o_stat o with Some s => is_fifo s && negb seed_open_nonblock | None => false end.

Record seedres := mks { sr_refuse : option why;   (* start refused (seed directory insecure, no --force) *)
                        sr_hang : bool;           (* start-up blocks for ever in open() *)
                        sr_used : bool;           (* file contents added to the entropy pool *)
                        sr_removed : bool;        (* unlink(path) succeeded *)
                        sr_keep : bool }.         (* seed name kept: a new seed is written at exit *)

(* random.c _random_read_entropy_from_file + random_init + munged.c main *)
Definition seed_step (force : bool) (euid tg : N) (o : fobs) (chain : list dstat) : seedres :=
  let v := path_is_secure euid tg seed_flags chain in
  match v, force with
  | Insecure i r, false => mks (Some (WDir i r)) false false false false
  | _, _ =>
    if seed_blocks o then mks None true false false false else
    let '(bad, used) := seed_read euid o in
    let removed := bad && (o_symlink o || match o_stat o with Some s => negb (is_dir s) | None => false end) in
    mks None false used removed (match v with Secure => true | _ => false end)
  end.

(* munged.c open_logfile (daemon mode only) *)
Definition logfile_check (force : bool) (euid tg : N) (o : fobs) (chain : list dstat) : option why :=
  if o_symlink o && negb force then Some WSymlink
  else match (match o_stat o with
              | None => None
              | Some s =>
                if negb (is_reg s) then Some WType
                else if force then None
                else if negb (f_uid s =? euid) then Some WOwner
                else if has (f_mode s) s_iwgrp then Some WGroup
                else if has (f_mode s) s_iwoth then Some WOther
                else None
              end) with
       | Some w => Some w
       | None => if force then None else dir_why (path_is_secure euid tg log_flags chain)
       end.

(* ---- created files ---- *)
Record recipe := mkr { r_req : N; r_keep : N; r_or : N; r_chmod : option N }.
Definition recipe_of (t : N * N * N * option N) : recipe :=
  let '(a, b, c, d) := t in mkr a b c d.

Definition created_mode (requested umask : N) : N := N.ldiff requested umask.   (* requested & ~umask *)
Definition in_force (r : recipe) (inherited : N) : N := N.lor (N.land inherited (r_keep r)) (r_or r).
Definition created (r : recipe) (inherited : N) : N :=
  match r_chmod r with
  | Some m => m
  | None => created_mode (r_req r) (in_force r inherited)
  end.

Definition sock_recipe (fg : bool) := recipe_of (if fg then fg_sock else bg_sock).
Definition lock_recipe (fg : bool) := recipe_of (if fg then fg_lock else bg_lock).
Definition pid_recipe (fg : bool) := recipe_of (if fg then fg_pid else bg_pid).
Definition seed_recipe (fg : bool) := recipe_of (if fg then fg_seed else bg_seed).
Definition log_recipe := recipe_of bg_log.

(* lock.c lock_create + _lock_stat: with --force an old lock file is unlinked first; open(O_CREAT) keeps
   the mode of an existing file; the result must be a regular file of mode exactly 0200 owned by euid *)
Definition lock_mode (fg force : bool) (umask : N) (existing : option fstat) : N :=
  match (if force then None else existing) with
  | Some s => f_mode s
  | None => created (lock_recipe fg) umask
  end.
Definition lock_check (fg force : bool) (euid umask : N) (existing : option fstat) : option why :=
  match (if force then None else existing) with
  | Some s => if is_reg s && (f_mode s =? s_iwusr) && (f_uid s =? euid) then None else Some WLock
  | None => if created (lock_recipe fg) umask =? s_iwusr then None else Some WLock
  end.

(* munged.c sock_create up to the lock *)
Definition sock_check (force : bool) (euid tg : N) (chain : list dstat) : option why :=
  if force then None
  else match dir_why (path_is_secure euid tg sock_flags chain) with
       | Some w => Some w
       | None => match path_is_accessible chain with Some i => Some (WAccess i) | None => None end
       end.

Definition pid_check (force : bool) (euid tg : N) (chain : list dstat) : option why :=
  if force then None else dir_why (path_is_secure euid tg pid_flags chain).

(* ---- the whole start-up, in the order of main() ---- *)
Inductive site := SLog | SSeed | SKey | SSock | SLock | SPid.

Record config := mkc {
  c_fg : bool; c_force : bool; c_euid : N; c_tg : N; c_umask : N;
  c_key : fobs; c_keydir : list dstat;
  c_seed : fobs; c_seeddir : list dstat;
  c_log : fobs; c_logdir : list dstat;
  c_sockdir : list dstat; c_lock : option fstat;
  c_piddir : list dstat }.

Definition tag (s : site) (w : option why) : option (site * why) :=
  match w with Some x => Some (s, x) | None => None end.

Fixpoint first_some {A} (l : list (option A)) : option A :=
  match l with [] => None | Some x :: _ => Some x | None :: r => first_some r end.

Definition seed_of (c : config) : seedres :=
  seed_step (c_force c) (c_euid c) (c_tg c) (c_seed c) (c_seeddir c).

(* None = the daemon starts; Some (site, why) = it exits with that first complaint *)
Definition startup (c : config) : option (site * why) :=
  first_some
    [ if c_fg c then None
      else tag SLog (logfile_check (c_force c) (c_euid c) (c_tg c) (c_log c) (c_logdir c));
      tag SSeed (sr_refuse (seed_of c));
      tag SSeed (if sr_hang (seed_of c) then Some WHang else None);
      tag SKey (keyfile_check (c_force c) (c_euid c) (c_tg c) (c_key c) (c_keydir c));
      tag SSock (sock_check (c_force c) (c_euid c) (c_tg c) (c_sockdir c));
      tag SLock (lock_check (c_fg c) (c_force c) (c_euid c) (c_umask c) (c_lock c));
      tag SPid (pid_check (c_force c) (c_euid c) (c_tg c) (c_piddir c)) ].

(* modes of the files a successful start leaves behind; the log file keeps its mode when it existed *)
Record modes := mkm { m_sock : N; m_lock : N; m_pid : N; m_log : option N; m_seed : N }.
Definition created_modes (c : config) : modes :=
  let u := c_umask c in
  mkm (created (sock_recipe (c_fg c)) u)
      (lock_mode (c_fg c) (c_force c) u (c_lock c))
      (created (pid_recipe (c_fg c)) u)
      (if c_fg c then None
       else Some (match o_stat (c_log c) with Some s => f_mode s | None => created log_recipe u end))
      (created (seed_recipe (c_fg c)) u).

(* mode of the regular file found at the seed path after a clean stop: the new seed when the name was
   kept; otherwise (--force with an insecure seed directory) the old file if it was not unlinked *)
Definition seed_after (c : config) : option N :=
  let sr := seed_of c in
  if sr_keep sr then Some (m_seed (created_modes c))
  else if sr_removed sr then None
  else match o_stat (c_seed c) with
       | Some s => if is_reg s then Some (f_mode s) else None
       | None => None
       end.

(* bound check used in the statements: every permission bit of m is in bound *)
Definition within (m bound : N) : bool := N.ldiff m bound =? 0.
