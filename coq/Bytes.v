(* Bytes.v — byte strings, byte<->N conversion, finite sweeps lifted once. *)
From Coq Require Import List NArith ZArith Bool Lia.
From Coq.Strings Require Import Byte.
Import ListNotations.
Local Open Scope N_scope.

Notation bytes := (list byte).

Definition b2n (b : byte) : N := Byte.to_N b.
Definition n2b (n : N) : byte :=
  match Byte.of_N (n mod 256) with Some b => b | None => x00 end.

Lemma b2n_lt b : b2n b < 256.
Proof. unfold b2n. pose proof (Byte.to_N_bounded b). lia. Qed.

Lemma n2b_b2n b : n2b (b2n b) = b.
Proof.
  unfold n2b, b2n. rewrite N.mod_small by apply b2n_lt.
  now rewrite Byte.of_to_N.
Qed.

Lemma b2n_n2b n : n < 256 -> b2n (n2b n) = n.
Proof.
  intros H. unfold n2b, b2n. rewrite N.mod_small by assumption.
  destruct (Byte.of_N n) as [b|] eqn:E.
  - now apply Byte.to_of_N.
  - apply Byte.of_N_None_iff in E. lia.
Qed.

Lemma b2n_n2b_mod n : b2n (n2b n) = n mod 256.
Proof.
  assert (H : n mod 256 < 256) by (apply N.mod_lt; lia).
  assert (E : n2b n = n2b (n mod 256)).
  { unfold n2b. rewrite N.mod_mod by lia. reflexivity. }
  rewrite E. now apply b2n_n2b.
Qed.

Lemma b2n_inj a b : b2n a = b2n b -> a = b.
Proof. intros H. rewrite <- (n2b_b2n a), <- (n2b_b2n b). now rewrite H. Qed.

(* ---- finite sweeps: allb n p checks p on 0..n-1 ---- *)
Fixpoint allb (n : nat) (p : N -> bool) : bool :=
  match n with O => true | S k => p (N.of_nat k) && allb k p end.

Lemma allb_spec n p : allb n p = true -> forall x, x < N.of_nat n -> p x = true.
Proof.
  induction n as [|k IH]; cbn [allb]; intros H x Hx.
  - lia.
  - apply andb_true_iff in H. destruct H as [H1 H2].
    destruct (N.eq_dec x (N.of_nat k)) as [->|Hne]; [exact H1|].
    apply IH; [exact H2|lia].
Qed.

Definition allb2 (n m : nat) (p : N -> N -> bool) : bool :=
  allb n (fun x => allb m (p x)).

Lemma allb2_spec n m p : allb2 n m p = true ->
  forall x y, x < N.of_nat n -> y < N.of_nat m -> p x y = true.
Proof.
  intros H x y Hx Hy. unfold allb2 in H.
  pose proof (allb_spec n _ H x Hx) as H1. cbv beta in H1.
  exact (allb_spec m _ H1 y Hy).
Qed.

(* sweeps over bytes *)
Lemma byte_sweep (p : byte -> bool) :
  allb 256 (fun n => p (n2b n)) = true -> forall b, p b = true.
Proof.
  intros H b. rewrite <- (n2b_b2n b).
  apply (allb_spec 256 _ H). apply b2n_lt.
Qed.

Lemma byte_sweep2 (p : byte -> byte -> bool) :
  allb2 256 256 (fun n m => p (n2b n) (n2b m)) = true -> forall a b, p a b = true.
Proof.
  intros H a b. rewrite <- (n2b_b2n a), <- (n2b_b2n b).
  apply (allb2_spec 256 256 _ H); apply b2n_lt.
Qed.

(* ---- big-endian words ---- *)
Definition be32 (n : N) : bytes :=
  [n2b (n / 16777216); n2b (n / 65536); n2b (n / 256); n2b n].
Definition rd32 (a b c d : byte) : N :=
  b2n a * 16777216 + b2n b * 65536 + b2n c * 256 + b2n d.

Ltac Zify.zify_post_hook ::= Z.div_mod_to_equations.

Lemma div_65536 n : n / 65536 = n / 256 / 256.
Proof. rewrite N.div_div by lia. reflexivity. Qed.
Lemma div_16777216 n : n / 16777216 = n / 256 / 256 / 256.
Proof. rewrite !N.div_div by lia. reflexivity. Qed.

Lemma rd32_be32 n : n < 4294967296 ->
  match be32 n with [a;b;c;d] => rd32 a b c d = n | _ => False end.
Proof.
  intros H. unfold be32, rd32. rewrite !b2n_n2b_mod.
  rewrite div_16777216, div_65536.
  set (q3 := n / 256). set (q2 := q3 / 256). set (q1 := q2 / 256).
  assert (n = 256 * q3 + n mod 256) by (subst q3; apply N.div_mod; lia).
  assert (q3 = 256 * q2 + q3 mod 256) by (subst q2; apply N.div_mod; lia).
  assert (q2 = 256 * q1 + q2 mod 256) by (subst q1; apply N.div_mod; lia).
  assert (n mod 256 < 256) by (apply N.mod_lt; lia).
  assert (q3 mod 256 < 256) by (apply N.mod_lt; lia).
  assert (q2 mod 256 < 256) by (apply N.mod_lt; lia).
  assert (q1 < 256) by lia.
  rewrite (N.mod_small q1) by assumption.
  lia.
Qed.

Lemma rd32_lt a b c d : rd32 a b c d < 4294967296.
Proof.
  unfold rd32. pose proof (b2n_lt a). pose proof (b2n_lt b).
  pose proof (b2n_lt c). pose proof (b2n_lt d). lia.
Qed.

Lemma be32_rd32 a b c d : be32 (rd32 a b c d) = [a;b;c;d].
Proof.
  unfold be32. rewrite div_16777216, div_65536. unfold rd32.
  pose proof (b2n_lt a). pose proof (b2n_lt b).
  pose proof (b2n_lt c). pose proof (b2n_lt d).
  set (n := b2n a * 16777216 + b2n b * 65536 + b2n c * 256 + b2n d).
  assert (E3 : n / 256 = b2n a * 65536 + b2n b * 256 + b2n c).
  { symmetry. apply (N.div_unique n 256 _ (b2n d)); [assumption|]. subst n. lia. }
  assert (E2 : n / 256 / 256 = b2n a * 256 + b2n b).
  { rewrite E3. symmetry. apply (N.div_unique _ 256 _ (b2n c)); [assumption|]. lia. }
  assert (E1 : n / 256 / 256 / 256 = b2n a).
  { rewrite E2. symmetry. apply (N.div_unique _ 256 _ (b2n b)); [assumption|]. lia. }
  rewrite E1, E2, E3.
  repeat f_equal; apply b2n_inj; rewrite b2n_n2b_mod.
  - apply N.mod_small; assumption.
  - symmetry. apply (N.mod_unique _ 256 (b2n a)); [assumption|]. lia.
  - symmetry. apply (N.mod_unique _ 256 (b2n a * 256 + b2n b)); [assumption|]. lia.
  - symmetry. apply (N.mod_unique _ 256 (b2n a * 65536 + b2n b * 256 + b2n c)); [assumption|]. subst n. lia.
Qed.

Lemma be32_length n : length (be32 n) = 4%nat.
Proof. reflexivity. Qed.

(* take n l : first n bytes and the rest, None when l is too short *)
Fixpoint take {A} (n : nat) (l : list A) : option (list A * list A) :=
  match n, l with
  | O, _ => Some ([], l)
  | S k, x :: r => match take k r with Some (a, b) => Some (x :: a, b) | None => None end
  | S _, [] => None
  end.

Lemma take_app {A} (a b : list A) : take (length a) (a ++ b) = Some (a, b).
Proof. induction a as [|x a IH]; cbn; [reflexivity|now rewrite IH]. Qed.

Lemma take_spec {A} n (l a b : list A) : take n l = Some (a, b) -> l = a ++ b /\ length a = n.
Proof.
  revert l a b; induction n as [|k IH]; intros l a b H; cbn in H.
  - inversion H; subst; auto.
  - destruct l as [|x r]; [discriminate|].
    destruct (take k r) as [[a' b']|] eqn:E; [|discriminate].
    inversion H; subst. apply IH in E. destruct E as [-> <-]. auto.
Qed.

Lemma take_none {A} n (l : list A) : take n l = None <-> (length l < n)%nat.
Proof.
  revert l; induction n as [|k IH]; intros l; cbn.
  - split; [discriminate|lia].
  - destruct l as [|x r]; cbn.
    + split; [lia|reflexivity].
    + specialize (IH r). destruct (take k r) as [[a b]|].
      * split; [discriminate|]. intros H. assert (length r < k)%nat by lia.
        apply IH in H0. discriminate.
      * split; [|reflexivity]. intros _. assert (length r < k)%nat by now apply IH. lia.
Qed.
