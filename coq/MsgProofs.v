(* MsgProofs.v — lemmas and proofs about MsgModel (property C14). *)
From Coq Require Import List NArith ZArith Bool Lia ZifyBool ZifyNat ZifyN.
From Coq.Strings Require Import Byte.
From MV Require Import Bytes MsgModel.
From MV.gen Require Import GenMsg.
Import ListNotations.
Local Open Scope Z_scope.
Ltac Zify.zify_post_hook ::= Z.div_mod_to_equations.

(* ---- members ---------------------------------------------------------------------------------------- *)
Lemma nfld_eqb_spec a b : reflect (a = b) (nfld_eqb a b).
Proof. destruct a, b; cbn; constructor; congruence. Qed.
Lemma bfld_eqb_spec a b : reflect (a = b) (bfld_eqb a b).
Proof. destruct a, b; cbn; constructor; congruence. Qed.
Lemma nfld_eqb_refl a : nfld_eqb a a = true.
Proof. destruct a; reflexivity. Qed.
Lemma bfld_eqb_refl a : bfld_eqb a a = true.
Proof. destruct a; reflexivity. Qed.

Lemma nv_setn_same m f v : nv (setn m f v) f = v.
Proof. cbn. now rewrite nfld_eqb_refl. Qed.
Lemma nv_setn_other m f g v : g <> f -> nv (setn m f v) g = nv m g.
Proof. intros H. cbn. destruct (nfld_eqb_spec g f); congruence. Qed.
Lemma nv_setb m b v g : nv (setb m b v) g = nv m g.
Proof. reflexivity. Qed.
Lemma bv_setn m f v b : bv (setn m f v) b = bv m b.
Proof. reflexivity. Qed.
Lemma bv_setb_same m b v : bv (setb m b v) b = v.
Proof. cbn. now rewrite bfld_eqb_refl. Qed.
Lemma bv_setb_other m b c v : c <> b -> bv (setb m b v) c = bv m c.
Proof. intros H. cbn. destruct (bfld_eqb_spec c b); congruence. Qed.
Lemma content_setn m f v b : content (setn m f v) b = content m b.
Proof. reflexivity. Qed.

(* ---- C int conversions ------------------------------------------------------------------------------ *)
Lemma wrap32_range z : - two31 <= wrap32 z < two31.
Proof. unfold wrap32, two31, two32. lia. Qed.
Lemma wrap32_small z : - two31 <= z < two31 -> wrap32 z = z.
Proof. unfold wrap32, two31, two32. lia. Qed.
Lemma wrap32_le z : 0 <= z -> wrap32 z <= z.
Proof. unfold wrap32, two31, two32. lia. Qed.
Lemma to_int_range n : - two31 <= to_int n < two31.
Proof. apply wrap32_range. Qed.
Lemma to_int_small n : (n < 2147483648)%N -> to_int n = Z.of_N n.
Proof. intros H. unfold to_int. apply wrap32_small. unfold two31. lia. Qed.
Lemma to_int_le n : to_int n <= Z.of_N n.
Proof. unfold to_int. apply wrap32_le. lia. Qed.
Lemma to_int_nonneg_inv n : (n < 4294967296)%N -> 0 <= to_int n -> to_int n = Z.of_N n.
Proof. unfold to_int, wrap32, two31, two32. lia. Qed.
Lemma alloc_req_ge len : 0 < len < two31 -> len + 1 <= alloc_req len.
Proof. unfold alloc_req, wrap32, two31, two32, two64. lia. Qed.
Arguments wrap32 : simpl never.
Arguments to_int : simpl never.
Arguments alloc_req : simpl never.

(* ---- sub: the bytes at [p, p+len) ------------------------------------------------------------------- *)
Lemma skipn_app_len {A} (a b : list A) : skipn (length a) (a ++ b) = b.
Proof. induction a; cbn; auto. Qed.
Lemma firstn_app_len {A} (a b : list A) : firstn (length a) (a ++ b) = a.
Proof. induction a; cbn; f_equal; auto. Qed.

Lemma sub_mid (pre s post : bytes) :
  sub (Z.of_nat (length pre)) (Z.of_nat (length s)) (pre ++ s ++ post) = s.
Proof. unfold sub. rewrite !Nat2Z.id, skipn_app_len, firstn_app_len. reflexivity. Qed.

Lemma sub_length p len body :
  0 <= p -> 0 <= len -> p + len <= Z.of_nat (length body) -> Z.of_nat (length (sub p len body)) = len.
Proof.
  intros Hp Hl Hb. unfold sub. rewrite firstn_length, skipn_length. lia.
Qed.
Arguments sub : simpl never.

(* ================================================================================================== *)
(*  1. every unpack is total, reads inside the buffer, writes inside its destination                    *)
(* ================================================================================================== *)
Definition ev_ok (e : ev) : Prop :=
  match e with Rd cap off len | Wr cap off len => 0 <= off /\ 0 <= len /\ off + len <= cap end.
Definition not_fault (r : ures) : Prop := match r with UFault _ => False | _ => True end.
Definition is_fault (r : ures) : bool := match r with UFault _ => true | _ => false end.
Definition ev_okb (e : ev) : bool :=
  match e with Rd cap off len | Wr cap off len => (0 <=? off) && (0 <=? len) && (off + len <=? cap) end.

Lemma fst_with_ev e r : fst (with_ev e r) = fst r. Proof. reflexivity. Qed.
Lemma snd_with_ev e r : snd (with_ev e r) = e ++ snd r. Proof. reflexivity. Qed.

Lemma unpack_list_bounded hp fs : fixed_guarded fs = true ->
  forall body q p m, 0 <= p -> q <= Z.of_nat (length body) ->
    Forall ev_ok (snd (unpack_list hp fs body q p m))
    /\ not_fault (fst (unpack_list hp fs body q p m))
    /\ (forall m' p', fst (unpack_list hp fs body q p m) = UOk m' p' -> p <= p' <= q \/ (p' = p)).
Proof.
  induction fs as [|d r IH]; intros G body q p m Hp Hq.
  - cbn. repeat split; auto. intros m' p' E. inversion E; subst. right; reflexivity.
  - cbn [fixed_guarded forallb] in G. apply andb_true_iff in G. destruct G as [Gd Gr].
    specialize (IH Gr). destruct d as [f|f|b lf [|cap lim]]; cbn [unpack_list].
    + destruct (p + 1 >? q) eqn:C; [cbn; repeat split; auto; discriminate|].
      rewrite fst_with_ev, snd_with_ev.
      destruct (IH body q (p + 1) (setn m f (rd8 (sub p 1 body)))) as (A & B & D); [lia|lia|].
      split; [|split]; auto.
      * apply Forall_app; split; auto. repeat constructor; cbn; lia.
      * intros m' p' E. specialize (D m' p' E). lia.
    + destruct (p + 4 >? q) eqn:C; [cbn; repeat split; auto; discriminate|].
      rewrite fst_with_ev, snd_with_ev.
      destruct (IH body q (p + 4) (setn m f (rd32l (sub p 4 body)))) as (A & B & D); [lia|lia|].
      split; [|split]; auto.
      * apply Forall_app; split; auto. repeat constructor; cbn; lia.
      * intros m' p' E. specialize (D m' p' E). lia.
    + pose proof (to_int_range (nv m lf)) as R. set (len := to_int (nv m lf)) in *.
      destruct (len =? 0) eqn:C0; [apply IH; assumption|].
      destruct (len <? 0) eqn:C1; [cbn; repeat split; auto; discriminate|].
      destruct (negb (hp (alloc_req len))) eqn:C2; [cbn; repeat split; auto; discriminate|].
      assert (AR : len + 1 <= alloc_req len) by (apply alloc_req_ge; lia).
      destruct (p + len >? q) eqn:C3.
      { cbn. repeat split; auto; try discriminate. repeat constructor; cbn; lia. }
      rewrite fst_with_ev, snd_with_ev.
      destruct (IH body q (p + len) (setb m b (Some (sub p len body)))) as (A & B & D); [lia|lia|].
      split; [|split]; auto.
      * apply Forall_app; split; auto. repeat constructor; cbn; lia.
      * intros m' p' E. specialize (D m' p' E). lia.
    + pose proof (to_int_range (nv m lf)) as R. set (len := to_int (nv m lf)) in *.
      apply N.leb_le in Gd.
      destruct (len >? Z.of_N lim) eqn:CL; [cbn; repeat split; auto; discriminate|].
      destruct (len <? 0) eqn:C1; [cbn; repeat split; auto; discriminate|].
      destruct (len =? 0) eqn:C0; [apply IH; assumption|].
      destruct (p + len >? q) eqn:C3; [cbn; repeat split; auto; discriminate|].
      destruct (len >? Z.of_N cap) eqn:CC; [lia|].
      rewrite fst_with_ev, snd_with_ev.
      match goal with |- context [unpack_list hp r body q (p + len) ?mm] =>
        destruct (IH body q (p + len) mm) as (A & B & D); [lia|lia|] end.
      split; [|split]; auto.
      * apply Forall_app; split; auto. repeat constructor; cbn; lia.
      * intros m' p' E. specialize (D m' p' E). lia.
Qed.

Lemma guarded_lists lim t : (lim <=? sizeof_addr)%N = true -> fixed_guarded (unpack_fields_g lim t) = true.
Proof. intros H. destruct t; cbn; rewrite ?H; reflexivity. Qed.

Lemma all_guarded_iff lim : all_guarded lim = (lim <=? sizeof_addr)%N.
Proof. unfold all_guarded. cbn. destruct (lim <=? sizeof_addr)%N; reflexivity. Qed.

Definition ures_final (r : ures) : Prop :=
  (exists m p, r = UOk m p) \/
  (exists e m, r = UErr e m /\ (e = e_snafu \/ e = e_no_memory \/ e = e_socket)).

Lemma unpack_list_err_codes hp fs body q p m e m' :
  fst (unpack_list hp fs body q p m) = UErr e m' -> e = e_snafu \/ e = e_no_memory.
Proof.
  revert p m. induction fs as [|d r IH]; intros p m; cbn [unpack_list].
  - discriminate.
  - destruct d as [f|f|b lf [|cap lim]].
    + destruct (p + 1 >? q); [cbn; intros E; inversion E; auto|]. rewrite fst_with_ev. apply IH.
    + destruct (p + 4 >? q); [cbn; intros E; inversion E; auto|]. rewrite fst_with_ev. apply IH.
    + destruct (to_int (nv m lf) =? 0); [apply IH|].
      destruct (to_int (nv m lf) <? 0); [cbn; intros E; inversion E; auto|].
      destruct (negb (hp (alloc_req (to_int (nv m lf))))); [cbn; intros E; inversion E; auto|].
      destruct (p + to_int (nv m lf) >? q); [cbn; intros E; inversion E; auto|].
      rewrite fst_with_ev. apply IH.
    + destruct (to_int (nv m lf) >? Z.of_N lim); [cbn; intros E; inversion E; auto|].
      destruct (to_int (nv m lf) <? 0); [cbn; intros E; inversion E; auto|].
      destruct (to_int (nv m lf) =? 0); [apply IH|].
      destruct (p + to_int (nv m lf) >? q); [cbn; intros E; inversion E; auto|].
      destruct (to_int (nv m lf) >? Z.of_N cap); [cbn; discriminate|].
      rewrite fst_with_ev. apply IH.
Qed.

Theorem msg_unpack_total_bounded lim hp code body q m :
  (lim <= sizeof_addr)%N -> q <= Z.of_nat (length body) ->
  ures_final (fst (msg_unpack_g lim hp code body q m))
  /\ Forall ev_ok (snd (msg_unpack_g lim hp code body q m)).
Proof.
  intros HL Hq. unfold msg_unpack_g.
  destruct (type_of_code code) as [t|].
  2:{ cbn. split; [right; eauto 6|constructor]. }
  apply N.leb_le in HL.
  destruct (unpack_list_bounded hp _ (guarded_lists lim t HL) body q 0 m ltac:(lia) Hq) as (A & B & _).
  pose proof (unpack_list_err_codes hp (unpack_fields_g lim t) body q 0 m) as EC.
  destruct (fst (unpack_list hp (unpack_fields_g lim t) body q 0 m)) as [m' p'|e m'|m'] eqn:E.
  - destruct (is_hdr t && negb (nv m' Nmagic =? msg_magic)%N); [cbn; split; [right; eauto 8|exact A]|].
    destruct (is_hdr t && negb (nv m' Nversion =? msg_version)%N); [cbn; split; [right; eauto 8|exact A]|].
    cbn. split; [left; eauto|exact A].
  - cbn. split; [|exact A]. right. exists e, (set_err m' e). split; auto.
    destruct (EC e m' eq_refl); auto.
  - destruct B.
Qed.

(* ---- m_msg_recv ------------------------------------------------------------------------------------------ *)
Definition rres_final (r : rres) : Prop :=
  (exists m, r = ROk m) \/
  (exists e m, r = RErr e m /\ (e = e_socket \/ e = e_bad_length \/ e = e_no_memory)).

Theorem recv_total_bounded lim hp stream exptype maxlen m :
  (lim <= sizeof_addr)%N ->
  rres_final (fst (recv_g lim hp stream exptype maxlen m))
  /\ Forall ev_ok (snd (recv_g lim hp stream exptype maxlen m)).
Proof.
  intros HL. unfold recv_g.
  set (hs := Z.of_N msg_hdr_size).
  destruct (Z.of_nat (length stream) <? hs) eqn:C0.
  { cbn. split; [right; eauto 8|constructor]. }
  set (hdr := firstn (Z.to_nat hs) stream). set (rest := skipn (Z.to_nat hs) stream).
  assert (Hh : hs <= Z.of_nat (length hdr)).
  { subst hdr. rewrite firstn_length. lia. }
  destruct (msg_unpack_total_bounded lim hp mt_hdr hdr hs m HL Hh) as (F1 & B1).
  destruct (fst (msg_unpack_g lim hp mt_hdr hdr hs m)) as [m1 p1|e1 m1|m1] eqn:E1.
  2:{ cbn. split; [right; eauto 8|exact B1]. }
  2:{ exfalso. destruct F1 as [(?&?&?)|(?&?&?&?)]; discriminate. }
  destruct (negb (exptype =? mt_undef)%N && negb (nv m1 Ntype =? exptype)%N).
  { cbn. split; [right; eauto 8|exact B1]. }
  destruct ((0 <? maxlen) && (Z.of_N (nv m1 Npkt_len) >? maxlen)).
  { cbn. split; [right; eauto 8|exact B1]. }
  destruct (negb (hp (Z.of_N (nv m1 Npkt_len)))).
  { cbn. split; [right; eauto 8|exact B1]. }
  destruct (Z.of_nat (length rest) <? Z.of_N (nv m1 Npkt_len)) eqn:C1.
  { cbn. split; [right; eauto 8|exact B1]. }
  set (body := firstn (Z.to_nat (Z.of_N (nv m1 Npkt_len))) rest).
  assert (Hb : to_int (nv m1 Npkt_len) <= Z.of_nat (length body)).
  { subst body. rewrite firstn_length. pose proof (to_int_le (nv m1 Npkt_len)). lia. }
  destruct (msg_unpack_total_bounded lim hp (nv m1 Ntype) body (to_int (nv m1 Npkt_len))
              (setb m1 Bpkt (Some [])) HL Hb) as (F2 & B2).
  destruct (fst (msg_unpack_g lim hp (nv m1 Ntype) body (to_int (nv m1 Npkt_len)) (setb m1 Bpkt (Some []))))
    as [m3 p3|e3 m3|m3] eqn:E3; cbn.
  - split; [left; eauto|apply Forall_app; auto].
  - split; [right; eauto 8|apply Forall_app; auto].
  - exfalso. destruct F2 as [(?&?&?)|(?&?&?&?)]; discriminate.
Qed.

(* ================================================================================================== *)
(*  2. the unguarded copy into m->addr (defect D2): refuted                                            *)
(* ================================================================================================== *)
(* DEC_RSP body with addr_len = k and k bytes 'A': error_num, error_len = 0, cipher, mac, zip,
   realm_len = 0, ttl, addr_len, addr, 6 x u32, data_len = 0 *)
Definition d2_body (k : N) : bytes :=
  map n2b ([0; 0; 0; 0; 0; 0; 0; 0; 0; 0; k] ++ repeat 65 (N.to_nat k) ++ repeat 0 28)%N.

Definition overflows (l : list ev) : bool :=
  existsb (fun e => match e with Wr cap off len => cap <? off + len | Rd _ _ _ => false end) l.

Definition d2_faults (lim k : N) : bool :=
  let r := msg_unpack_g lim (fun _ => true) mt_dec_rsp (d2_body k) (Z.of_nat (length (d2_body k))) msg0 in
  is_fault (fst r) && overflows (snd r).

Lemma d2_sweep : allb 256 (fun lim => if (sizeof_addr <? lim)%N then d2_faults lim lim else true) = true.
Proof. vm_compute. reflexivity. Qed.

Lemma unguarded_faults lim : (sizeof_addr < lim)%N -> (lim < 256)%N -> d2_faults lim lim = true.
Proof.
  intros H1 H2. pose proof (allb_spec 256 _ d2_sweep lim ltac:(cbn; lia)) as S. cbv beta in S.
  apply N.ltb_lt in H1. now rewrite H1 in S.
Qed.

Lemma overflows_spec l : overflows l = true -> exists cap off len, In (Wr cap off len) l /\ cap < off + len.
Proof.
  unfold overflows. rewrite existsb_exists. intros (e & I & H). destruct e as [|cap off len]; [discriminate|].
  exists cap, off, len. split; [exact I|lia].
Qed.

(* the witness of D2: addr_len = 255 *)
Lemma addr_unguarded_refuted :
  exists body m' cap len,
    fst (msg_unpack_g 255 (fun _ => true) mt_dec_rsp body (Z.of_nat (length body)) msg0) = UFault m'
    /\ In (Wr cap 0 len) (snd (msg_unpack_g 255 (fun _ => true) mt_dec_rsp body (Z.of_nat (length body)) msg0))
    /\ cap = Z.of_N sizeof_addr /\ len = 255 /\ cap < len
    /\ Z.of_N sizeof_m_msg < Z.of_N off_addr + len.
Proof.
  exists (d2_body 255). eexists. exists (Z.of_N sizeof_addr), 255.
  split; [vm_compute; reflexivity|].
  split; [vm_compute; auto 20|].
  repeat split; vm_compute; reflexivity.
Qed.

(* ================================================================================================== *)
(*  3. the three tables agree; widths; order                                                           *)
(* ================================================================================================== *)
Lemma lists_agree_all lim : lists_agree lim = true.
Proof. reflexivity. Qed.

Lemma tables_widths_order lim :
  forallb (fun t => widths_ok (pack_fields t) && widths_ok (unpack_fields_g lim t) && widths_ok (len_fields t)
                    && order_ok [] [] (pack_fields t) && order_ok [] [] (unpack_fields_g lim t)) all_types = true.
Proof. reflexivity. Qed.

Lemma fdesc_eqb_eq a b : fdesc_eqb a b = true -> a = b.
Proof.
  destruct a as [f|f|b1 l1 d1], b as [g|g|b2 l2 d2]; cbn; try discriminate.
  - intros H. destruct (nfld_eqb_spec f g); congruence.
  - intros H. destruct (nfld_eqb_spec f g); congruence.
  - intros H. apply andb_true_iff in H. destruct H as [H Hd]. apply andb_true_iff in H. destruct H as [Hb Hl].
    destruct (bfld_eqb_spec b1 b2); [|discriminate]. destruct (nfld_eqb_spec l1 l2); [|discriminate].
    subst. f_equal. destruct d1, d2; cbn in Hd; try discriminate; auto.
    apply andb_true_iff in Hd. destruct Hd as [H1 H2]. apply N.eqb_eq in H1, H2. congruence.
Qed.
Lemma list_eqb_eq a : forall b, list_eqb a b = true -> a = b.
Proof.
  induction a as [|x a IH]; destruct b as [|y b]; cbn; try discriminate; auto.
  intros H. apply andb_true_iff in H. destruct H as [H1 H2]. f_equal; [now apply fdesc_eqb_eq|now apply IH].
Qed.

Lemma erase_tables lim t :
  map erase (pack_fields t) = map erase (unpack_fields_g lim t)
  /\ map erase (pack_fields t) = map erase (len_fields t).
Proof. destruct t; split; reflexivity. Qed.

(* the interpreters of the pack and length directions do not look at lim *)
Lemma pack_list_erase fs : forall m p q, pack_list (map erase fs) m p q = pack_list fs m p q.
Proof.
  induction fs as [|d r IH]; intros m p q; [reflexivity|].
  destruct d as [f|f|b lf [|cap lim]]; cbn [map erase pack_list]; rewrite ?IH; try reflexivity.
Qed.
Lemma sum_sizes_erase fs m : sum_sizes (map erase fs) m = sum_sizes fs m.
Proof.
  induction fs as [|d r IH]; [reflexivity|].
  unfold sum_sizes in *. cbn [map fold_right]. rewrite IH. destruct d as [f|f|b lf [|cap lim]]; reflexivity.
Qed.
Lemma merge_list_erase fs : forall m acc, merge_list (map erase fs) m acc = merge_list fs m acc.
Proof.
  induction fs as [|d r IH]; intros m acc; [reflexivity|].
  destruct d as [f|f|b lf [|cap lim]]; cbn [map erase merge_list]; rewrite ?IH; try reflexivity.
Qed.

(* ================================================================================================== *)
(*  4. length computed = bytes produced                                                                 *)
(* ================================================================================================== *)
Definition u32_vals (m : msg) : Prop := forall f, (nv m f < 4294967296)%N.

Lemma papp_ok s r out : papp s r = POk out -> exists o, r = POk o /\ out = s ++ o.
Proof. destruct r; cbn; intros H; inversion H; eauto. Qed.

Lemma src_bytes_length m b d len s : 0 <= len -> src_bytes m b d len = Some s -> Z.of_nat (length s) = len.
Proof.
  intros Hl. unfold src_bytes. destruct (bv m b) as [l|]; [|discriminate].
  destruct (Z.of_nat (length l) <? len) eqn:C; [discriminate|].
  destruct d as [|cap lim].
  - intros H; inversion H; subst. rewrite firstn_length. lia.
  - destruct (Z.of_N cap <? len); [discriminate|]. intros H; inversion H; subst. rewrite firstn_length. lia.
Qed.

Lemma sum_sizes_cons d r m : sum_sizes (d :: r) m = fsize m d + sum_sizes r m.
Proof. reflexivity. Qed.
Lemma sum_sizes_nonneg fs m : 0 <= sum_sizes fs m.
Proof.
  induction fs as [|x y IHy]; [cbn; lia|]. rewrite sum_sizes_cons. destruct x; cbn [fsize]; lia.
Qed.

Lemma pack_list_length fs : forall m p q out, u32_vals m ->
  pack_list fs m p q = POk out ->
  Z.of_nat (length out) = sum_sizes fs m /\ (sum_sizes fs m = 0 \/ p + sum_sizes fs m <= q).
Proof.
  induction fs as [|d r IH]; intros m p q out U H.
  - cbn in H. inversion H; subst. split; [reflexivity|left; reflexivity].
  - rewrite sum_sizes_cons. pose proof (sum_sizes_nonneg r m) as NN.
    destruct d as [f|f|b lf dd]; cbn [pack_list fsize] in *.
    + destruct (p + 1 >? q) eqn:C; [discriminate|]. apply papp_ok in H. destruct H as (o & Hr & ->).
      destruct (IH m (p + 1) q o U Hr) as [A B]. rewrite app_length. cbn [length]. lia.
    + destruct (p + 4 >? q) eqn:C; [discriminate|]. apply papp_ok in H. destruct H as (o & Hr & ->).
      destruct (IH m (p + 4) q o U Hr) as [A B]. rewrite app_length, be32_length. lia.
    + destruct (to_int (nv m lf) <? 0) eqn:C1; [discriminate|].
      assert (E : to_int (nv m lf) = Z.of_N (nv m lf)) by (apply to_int_nonneg_inv; [apply U|lia]).
      destruct (to_int (nv m lf) =? 0) eqn:C0.
      { destruct (IH m p q out U H) as [A B]. lia. }
      destruct (p + to_int (nv m lf) >? q) eqn:C3; [discriminate|].
      destruct (src_bytes m b dd (to_int (nv m lf))) as [s|] eqn:S; [|discriminate].
      apply papp_ok in H. destruct H as (o & Hr & ->).
      apply src_bytes_length in S; [|lia].
      destruct (IH m (p + to_int (nv m lf)) q o U Hr) as [A B]. rewrite app_length. lia.
Qed.

(* messages the packer can serialise: values fit their members, lengths are non-negative ints, every
   variable member has at least its length in bytes behind the pointer, addr_len within the member *)
Fixpoint in_range_list (fs : list fdesc) (m : msg) : Prop :=
  match fs with
  | [] => True
  | U8 f :: r => (nv m f < 256)%N /\ in_range_list r m
  | U32 f :: r => (nv m f < 4294967296)%N /\ in_range_list r m
  | Var b lf d :: r =>
    (nv m lf < 2147483648)%N
    /\ ((0 < nv m lf)%N -> exists l, bv m b = Some l /\ (nv m lf <= N.of_nat (length l))%N
                                     /\ match d with Heap => True
                                                   | Fixed cap lim => (nv m lf <= cap)%N /\ (nv m lf <= lim)%N end)
    /\ in_range_list r m
  end.

Lemma pack_list_ok fs : forall m p q, in_range_list fs m -> p + sum_sizes fs m <= q ->
  exists out, pack_list fs m p q = POk out.
Proof.
  induction fs as [|d r IH]; intros m p q R H; [eexists; reflexivity|].
  rewrite sum_sizes_cons in H. pose proof (sum_sizes_nonneg r m) as Sr.
  destruct d as [f|f|b lf dd]; cbn [in_range_list pack_list fsize] in *.
  - destruct R as [_ R]. destruct (p + 1 >? q) eqn:C; [lia|].
    destruct (IH m (p + 1) q R ltac:(lia)) as (o & ->). eexists; reflexivity.
  - destruct R as [_ R]. destruct (p + 4 >? q) eqn:C; [lia|].
    destruct (IH m (p + 4) q R ltac:(lia)) as (o & ->). eexists; reflexivity.
  - destruct R as (L & B & R). rewrite (to_int_small _ L).
    destruct (Z.of_N (nv m lf) <? 0) eqn:C1; [lia|].
    destruct (Z.of_N (nv m lf) =? 0) eqn:C0; [apply IH; [exact R|lia]|].
    destruct (p + Z.of_N (nv m lf) >? q) eqn:C3; [lia|].
    destruct B as (l & Hl & Hn & Hd); [lia|].
    unfold src_bytes. rewrite Hl.
    destruct (Z.of_nat (length l) <? Z.of_N (nv m lf)) eqn:C4; [lia|].
    destruct (IH m (p + Z.of_N (nv m lf)) q R ltac:(lia)) as (o & Ho).
    destruct dd as [|cap lim].
    + rewrite Ho. eexists; reflexivity.
    + destruct Hd as [Hc _]. destruct (Z.of_N cap <? Z.of_N (nv m lf)) eqn:C5; [lia|].
      rewrite Ho. eexists; reflexivity.
Qed.


(* ================================================================================================== *)
(*  5. pack then unpack gives the same field values                                                     *)
(* ================================================================================================== *)
Fixpoint lens_ok (seen : list nfld) (fs : list fdesc) : Prop :=
  match fs with
  | [] => True
  | U8 f :: r | U32 f :: r => lens_ok (f :: seen) r
  | Var b lf d :: r => In lf seen /\ lens_ok seen r
  end.

Lemma existsb_nfld_In f l : existsb (nfld_eqb f) l = true -> In f l.
Proof.
  rewrite existsb_exists. intros (x & I & E). destruct (nfld_eqb_spec f x); [subst; exact I|discriminate].
Qed.

Lemma order_ok_lens fs : forall seen seenb, order_ok seen seenb fs = true -> lens_ok seen fs.
Proof.
  induction fs as [|d r IH]; intros seen seenb H; [exact I|].
  destruct d as [f|f|b lf dd]; cbn [order_ok lens_ok] in *.
  - apply andb_true_iff in H. destruct H as [_ H]. eapply IH; eauto.
  - apply andb_true_iff in H. destruct H as [_ H]. eapply IH; eauto.
  - apply andb_true_iff in H. destruct H as [H H2]. apply andb_true_iff in H. destruct H as [H1 _].
    split; [now apply existsb_nfld_In|eapply IH; eauto].
Qed.

Lemma rd32l_be32 n : (n < 4294967296)%N -> rd32l (be32 n) = n.
Proof. intros H. pose proof (rd32_be32 n H) as E. unfold be32 in *. exact E. Qed.

Lemma roundtrip_list hp (HP : forall z, hp z = true) fs :
  forall seen pre post m acc out p q0 body,
    lens_ok seen fs -> (forall lf, In lf seen -> nv acc lf = nv m lf) ->
    in_range_list fs m -> pack_list fs m p q0 = POk out ->
    body = pre ++ out ++ post ->
    fst (unpack_list hp fs body (Z.of_nat (length body)) (Z.of_nat (length pre)) acc)
    = UOk (merge_list fs m acc) (Z.of_nat (length pre) + Z.of_nat (length out)).
Proof.
  induction fs as [|d r IH]; intros seen pre post m acc out p q0 body LO AG IR PK EB.
  - cbn in PK. inversion PK; subst out. cbn. f_equal. lia.
  - destruct d as [f|f|b lf dd]; cbn [lens_ok in_range_list pack_list merge_list unpack_list] in *.
    + destruct IR as [V IR]. destruct (p + 1 >? q0); [discriminate|].
      apply papp_ok in PK. destruct PK as (o & PK & ->).
      assert (LB : Z.of_nat (length body) = Z.of_nat (length pre) + 1 + Z.of_nat (length o) + Z.of_nat (length post)).
      { subst body. rewrite !app_length. cbn [length]. lia. }
      destruct (Z.of_nat (length pre) + 1 >? Z.of_nat (length body)) eqn:C; [lia|].
      rewrite fst_with_ev.
      assert (SB : sub (Z.of_nat (length pre)) 1 body = [n2b (nv m f)]).
      { subst body. rewrite <- app_assoc. exact (sub_mid pre [n2b (nv m f)] (o ++ post)). }
      rewrite SB. cbn [rd8]. rewrite b2n_n2b by exact V.
      specialize (IH (f :: seen) (pre ++ [n2b (nv m f)]) post m (setn acc f (nv m f)) o (p + 1) q0 body LO).
      rewrite app_length in IH. cbn [length] in IH.
      replace (Z.of_nat (length pre) + 1) with (Z.of_nat (length pre + 1)) by lia.
      rewrite IH; auto.
      * f_equal. rewrite app_length. cbn [length]. lia.
      * intros lf [<-|I]; [apply nv_setn_same|].
        destruct (nfld_eqb_spec lf f) as [->|N]; [apply nv_setn_same|]. rewrite nv_setn_other by exact N. auto.
      * subst body. rewrite <- !app_assoc. reflexivity.
    + destruct IR as [V IR]. destruct (p + 4 >? q0); [discriminate|].
      apply papp_ok in PK. destruct PK as (o & PK & ->).
      assert (LB : Z.of_nat (length body) = Z.of_nat (length pre) + 4 + Z.of_nat (length o) + Z.of_nat (length post)).
      { subst body. rewrite !app_length, be32_length. lia. }
      destruct (Z.of_nat (length pre) + 4 >? Z.of_nat (length body)) eqn:C; [lia|].
      rewrite fst_with_ev.
      assert (SB : sub (Z.of_nat (length pre)) 4 body = be32 (nv m f)).
      { subst body. rewrite <- app_assoc. exact (sub_mid pre (be32 (nv m f)) (o ++ post)). }
      rewrite SB. rewrite rd32l_be32 by exact V.
      specialize (IH (f :: seen) (pre ++ be32 (nv m f)) post m (setn acc f (nv m f)) o (p + 4) q0 body LO).
      rewrite app_length, be32_length in IH.
      replace (Z.of_nat (length pre) + 4) with (Z.of_nat (length pre + 4)) by lia.
      rewrite IH; auto.
      * f_equal. rewrite app_length, be32_length. lia.
      * intros lf [<-|I]; [apply nv_setn_same|].
        destruct (nfld_eqb_spec lf f) as [->|N]; [apply nv_setn_same|]. rewrite nv_setn_other by exact N. auto.
      * subst body. rewrite <- !app_assoc. reflexivity.
    + destruct LO as [IS LO]. destruct IR as (L & B & IR).
      rewrite (AG lf IS). rewrite (to_int_small _ L) in *.
      destruct (Z.of_N (nv m lf) <? 0) eqn:C1; [lia|].
      destruct (nv m lf =? 0)%N eqn:N0.
      { apply N.eqb_eq in N0. rewrite N0 in *. cbn [Z.of_N Z.eqb] in *.
        destruct dd as [|cap lim]; [eapply IH; eauto|].
        destruct (0 >? Z.of_N lim) eqn:CL; [lia|]. cbn [Z.ltb Z.eqb Z.compare]. eapply IH; eauto. }
      apply N.eqb_neq in N0.
      destruct (Z.of_N (nv m lf) =? 0) eqn:C0; [lia|].
      destruct (p + Z.of_N (nv m lf) >? q0); [discriminate|].
      destruct (src_bytes m b dd (Z.of_N (nv m lf))) as [s|] eqn:S; [|discriminate].
      apply papp_ok in PK. destruct PK as (o & PK & ->).
      pose proof (src_bytes_length m b dd (Z.of_N (nv m lf)) s ltac:(lia) S) as SL.
      destruct B as (l & Hl & Hn & Hd); [lia|].
      assert (TN : Z.to_nat (Z.of_N (nv m lf)) = N.to_nat (nv m lf)) by lia.
      assert (Ss : s = firstn (N.to_nat (nv m lf)) (content m b)).
      { unfold src_bytes in S. unfold content. rewrite Hl in *.
        destruct (Z.of_nat (length l) <? Z.of_N (nv m lf)); [discriminate|].
        rewrite TN in S.
        destruct dd as [|cap lim]; [congruence|]. destruct (Z.of_N cap <? Z.of_N (nv m lf)); congruence. }
      assert (LB : Z.of_nat (length body) = Z.of_nat (length pre) + Z.of_N (nv m lf) + Z.of_nat (length o) + Z.of_nat (length post)).
      { subst body. rewrite !app_length. lia. }
      assert (SB : sub (Z.of_nat (length pre)) (Z.of_N (nv m lf)) body = s).
      { subst body. rewrite <- app_assoc. rewrite <- SL. exact (sub_mid pre s (o ++ post)). }
      assert (EQL : Z.of_nat (length pre) + Z.of_N (nv m lf) = Z.of_nat (length (pre ++ s))).
      { rewrite app_length. lia. }
      destruct dd as [|cap lim].
      * rewrite HP. cbn [negb].
        destruct (Z.of_nat (length pre) + Z.of_N (nv m lf) >? Z.of_nat (length body)) eqn:C3; [lia|].
        rewrite fst_with_ev, SB, <- Ss, EQL.
        erewrite (IH seen (pre ++ s) post m _ o _ q0 body LO); eauto.
        -- f_equal. rewrite !app_length. lia.
        -- subst body. rewrite <- !app_assoc. reflexivity.
      * destruct Hd as [Hc Hlim].
        destruct (Z.of_N (nv m lf) >? Z.of_N lim) eqn:CL; [lia|].
        destruct (Z.of_nat (length pre) + Z.of_N (nv m lf) >? Z.of_nat (length body)) eqn:C3; [lia|].
        destruct (Z.of_N (nv m lf) >? Z.of_N cap) eqn:CC; [lia|].
        rewrite fst_with_ev, SB, <- Ss, EQL, TN.
        erewrite (IH seen (pre ++ s) post m _ o _ q0 body LO); eauto.
        -- f_equal. rewrite !app_length. lia.
        -- subst body. rewrite <- !app_assoc. reflexivity.
Qed.

Lemma type_of_code_of t : type_of_code (code_of t) = Some t.
Proof. destruct t; reflexivity. Qed.

Lemma type_of_code_inv c t : type_of_code c = Some t -> c = code_of t.
Proof.
  unfold type_of_code.
  repeat match goal with |- context [(c =? ?k)%N] => destruct (N.eqb_spec c k) as [->|?] end;
    intros H; inversion H; reflexivity.
Qed.

Lemma tables_order lim t : order_ok [] [] (unpack_fields_g lim t) = true.
Proof. destruct t; reflexivity. Qed.

Lemma pack_list_tables lim t m p q : pack_list (pack_fields t) m p q = pack_list (unpack_fields_g lim t) m p q.
Proof.
  rewrite <- (pack_list_erase (pack_fields t)), <- (pack_list_erase (unpack_fields_g lim t)).
  now rewrite (proj1 (erase_tables lim t)).
Qed.
Lemma merge_list_tables lim t m acc : merge_list (unpack_fields_g lim t) m acc = restrict t m acc.
Proof.
  unfold restrict.
  rewrite <- (merge_list_erase (pack_fields t)), <- (merge_list_erase (unpack_fields_g lim t)).
  now rewrite (proj1 (erase_tables lim t)).
Qed.
Lemma sum_sizes_tables t m : sum_sizes (len_fields t) m = sum_sizes (pack_fields t) m.
Proof.
  rewrite <- (sum_sizes_erase (pack_fields t)), <- (sum_sizes_erase (len_fields t)).
  now rewrite (proj2 (erase_tables 0%N t)).
Qed.

(* the messages of type t that can be packed and are accepted back (lim = the unpacker's bound on addr_len) *)
Definition in_range (lim : N) (t : mtype) (m : msg) : Prop :=
  in_range_list (unpack_fields_g lim t) m
  /\ (t = T_HDR -> nv m Nmagic = msg_magic /\ nv m Nversion = msg_version).

Theorem pack_unpack lim hp t m acc body q0 :
  (forall z, hp z = true) -> in_range lim t m ->
  pack_list (pack_fields t) m 0 q0 = POk body ->
  fst (msg_unpack_g lim hp (code_of t) body (Z.of_nat (length body)) acc)
  = UOk (restrict t m acc) (Z.of_nat (length body)).
Proof.
  intros HP [IR HH] PK. unfold msg_unpack_g. rewrite type_of_code_of.
  rewrite (pack_list_tables lim) in PK.
  pose proof (roundtrip_list hp HP (unpack_fields_g lim t) [] [] [] m acc body 0 q0 body
                (order_ok_lens _ _ _ (tables_order lim t)) ltac:(intros ? []) IR PK
                ltac:(cbn; now rewrite app_nil_r)) as RT.
  cbn [length Z.of_nat Z.add] in RT. rewrite RT, merge_list_tables.
  destruct t; cbn [is_hdr andb]; try reflexivity.
  destruct (HH eq_refl) as [HM HV].
  unfold restrict. cbn [pack_fields merge_list].
  cbn [nv setn nfld_eqb]. rewrite HM, HV, !N.eqb_refl. reflexivity.
Qed.

(* what restrict gives, member by member *)
Lemma merge_nv fs m : forall acc f,
  nv (merge_list fs m acc) f = if carries_n fs f then nv m f else nv acc f.
Proof.
  induction fs as [|d r IH]; intros acc f; [reflexivity|].
  destruct d as [g|g|b lf [|cap lim]]; cbn [merge_list carries_n existsb orb].
  - rewrite IH. fold (carries_n r f). destruct (carries_n r f); [now rewrite orb_true_r|].
    rewrite orb_false_r. destruct (nfld_eqb_spec g f) as [->|N]; [apply nv_setn_same|].
    apply nv_setn_other. congruence.
  - rewrite IH. fold (carries_n r f). destruct (carries_n r f); [now rewrite orb_true_r|].
    rewrite orb_false_r. destruct (nfld_eqb_spec g f) as [->|N]; [apply nv_setn_same|].
    apply nv_setn_other. congruence.
  - fold (carries_n r f). destruct (nv m lf =? 0)%N; rewrite IH; reflexivity.
  - fold (carries_n r f). destruct (nv m lf =? 0)%N; rewrite IH; reflexivity.
Qed.

Lemma merge_bv_other fs m : forall acc b, carries_b fs b = false -> bv (merge_list fs m acc) b = bv acc b.
Proof.
  induction fs as [|d r IH]; intros acc b H; [reflexivity|].
  destruct d as [g|g|c lf dd]; cbn [merge_list carries_b existsb orb] in *.
  - now rewrite IH.
  - now rewrite IH.
  - fold (carries_b r b) in H. apply orb_false_iff in H. destruct H as [H1 H2].
    destruct dd as [|cap lim]; destruct (nv m lf =? 0)%N; rewrite IH by exact H2; try reflexivity;
      apply bv_setb_other; intros ->; now rewrite bfld_eqb_refl in H1.
Qed.

Lemma merge_err_local fs m : forall acc, err_local (merge_list fs m acc) = err_local acc.
Proof.
  induction fs as [|d r IH]; intros acc; [reflexivity|].
  destruct d as [g|g|c lf [|cap lim]]; cbn [merge_list]; try destruct (nv m lf =? 0)%N; now rewrite IH.
Qed.

(* variable members, per table entry (the buffers of one table are distinct: computed per type) *)
Lemma restrict_bv t m acc b lf d :
  In (Var b lf d) (pack_fields t) ->
  bv (restrict t m acc) b =
    if (nv m lf =? 0)%N then bv acc b
    else match d with
         | Heap => Some (firstn (N.to_nat (nv m lf)) (content m b))
         | Fixed _ _ => Some (firstn (N.to_nat (nv m lf)) (content m b) ++ skipn (N.to_nat (nv m lf)) (content acc b))
         end.
Proof.
  unfold restrict.
  destruct t; cbn [pack_fields In]; intros H;
    repeat (destruct H as [H|H]; [try discriminate; inversion H; subst; clear H|]); try destruct H;
    cbn [merge_list];
    repeat match goal with |- context [(nv m ?x =? 0)%N] => destruct (nv m x =? 0)%N end;
    reflexivity.
Qed.

(* ---- computed length = bytes produced, at the level of the tables --------------------------------------- *)
Theorem length_exact t m q out : u32_vals m ->
  pack_list (pack_fields t) m 0 q = POk out -> Z.of_nat (length out) = sum_sizes (len_fields t) m.
Proof.
  intros U H. rewrite sum_sizes_tables. exact (proj1 (pack_list_length _ _ _ _ _ U H)).
Qed.

Theorem pack_total lim t m : u32_vals m -> in_range_list (unpack_fields_g lim t) m ->
  0 < sum_sizes (len_fields t) m < two31 ->
  msg_length t m = sum_sizes (len_fields t) m
  /\ exists out, pack_list (pack_fields t) m 0 (msg_length t m) = POk out
                 /\ Z.of_nat (length out) = msg_length t m.
Proof.
  intros U IR S. assert (ML : msg_length t m = sum_sizes (len_fields t) m).
  { unfold msg_length. apply wrap32_small. unfold two31 in *. lia. }
  split; [exact ML|]. rewrite ML.
  destruct (pack_list_ok (unpack_fields_g lim t) m 0 (sum_sizes (len_fields t) m) IR) as (out & PK).
  { rewrite sum_sizes_tables, <- (sum_sizes_erase (pack_fields t)), (proj1 (erase_tables lim t)), sum_sizes_erase. lia. }
  rewrite <- (pack_list_tables lim) in PK. exists out. split; [exact PK|].
  exact (length_exact t m _ out U PK).
Qed.

(* ---- m_msg_send then m_msg_recv ------------------------------------------------------------------------ *)
Lemma pack_list_stamp t m code n p q : t <> T_HDR ->
  pack_list (pack_fields t) (stamp m code n) p q = pack_list (pack_fields t) m p q.
Proof. intros H. destruct t; [congruence|reflexivity..]. Qed.

Definition hdr_bytes (code retry : N) (n : Z) : bytes :=
  be32 msg_magic ++ [n2b msg_version; n2b code; n2b retry] ++ be32 (Z.to_N n).

Lemma pack_hdr m code n :
  pack_list (pack_fields T_HDR) (stamp m code n) 0 (Z.of_N msg_hdr_size) = POk (hdr_bytes code (nv m Nretry) n).
Proof. reflexivity. Qed.

Theorem send_ok lim hp t m maxlen :
  t <> T_HDR -> (forall z, hp z = true) -> u32_vals m -> in_range_list (unpack_fields_g lim t) m ->
  0 < sum_sizes (len_fields t) m < two31 ->
  (maxlen <= 0 \/ sum_sizes (len_fields t) m <= maxlen) ->
  exists body, pack_list (pack_fields t) m 0 (msg_length t m) = POk body
    /\ Z.of_nat (length body) = msg_length t m
    /\ msg_length t m = sum_sizes (len_fields t) m
    /\ send hp (code_of t) m maxlen = SOk (hdr_bytes (code_of t) (nv m Nretry) (msg_length t m) ++ body).
Proof.
  intros NH HP U IR S ML.
  destruct (pack_total lim t m U IR S) as (E & body & PK & LB).
  exists body. repeat split; auto.
  unfold send. rewrite type_of_code_of.
  destruct (msg_length t m <=? 0) eqn:C0; [lia|].
  rewrite HP. cbn [negb].
  rewrite (pack_list_stamp t m _ _ _ _ NH), PK.
  destruct (Z.of_nat (length body) <? msg_length t m) eqn:C1; [lia|].
  destruct ((0 <? maxlen) && (msg_length t m >? maxlen)) eqn:C2; [lia|].
  rewrite pack_hdr. reflexivity.
Qed.

Lemma in_range_hdr_stamp lim m code n :
  (code < 256)%N -> (nv m Nretry < 256)%N -> 0 <= n < two32 ->
  in_range lim T_HDR (stamp m code n).
Proof.
  intros Hc Hr Hn. split.
  - cbn [unpack_fields_g in_range_list]. unfold stamp. cbn [nv setn nfld_eqb].
    unfold two32 in Hn. repeat split; try assumption; try lia; vm_compute; reflexivity.
  - intros _. split; reflexivity.
Qed.

Lemma code_lt_256 t : (code_of t < 256)%N.
Proof. destruct t; vm_compute; reflexivity. Qed.

Lemma hdr_bytes_length c r n : length (hdr_bytes c r n) = N.to_nat msg_hdr_size.
Proof. reflexivity. Qed.

Theorem send_recv lim hp t m maxlen exptype maxlen' acc :
  t <> T_HDR -> (forall z, hp z = true) -> u32_vals m -> in_range_list (unpack_fields_g lim t) m ->
  (nv m Nretry < 256)%N ->
  0 < sum_sizes (len_fields t) m < two31 ->
  (maxlen <= 0 \/ sum_sizes (len_fields t) m <= maxlen) ->
  (maxlen' <= 0 \/ sum_sizes (len_fields t) m <= maxlen') ->
  (exptype = mt_undef \/ exptype = code_of t) ->
  exists wire, send hp (code_of t) m maxlen = SOk wire
    /\ Z.of_nat (length wire) = Z.of_N msg_hdr_size + msg_length t m
    /\ fst (recv_g lim hp wire exptype maxlen' acc) = ROk (recv_expect t m acc (msg_length t m)).
Proof.
  intros NH HP U IR HR S ML ML' EX.
  destruct (send_ok lim hp t m maxlen NH HP U IR S ML) as (body & PK & LB & E & SD).
  eexists. split; [exact SD|]. set (n := msg_length t m) in *.
  set (h := hdr_bytes (code_of t) (nv m Nretry) n).
  assert (LH : length h = N.to_nat msg_hdr_size) by apply hdr_bytes_length.
  split; [rewrite app_length; lia|].
  unfold recv_g.
  destruct (Z.of_nat (length (h ++ body)) <? Z.of_N msg_hdr_size) eqn:C0; [rewrite app_length in C0; lia|].
  replace (Z.to_nat (Z.of_N msg_hdr_size)) with (length h) by lia.
  rewrite firstn_app_len, skipn_app_len.
  (* header *)
  pose proof (pack_unpack lim hp T_HDR (stamp m (code_of t) n) acc h (Z.of_N msg_hdr_size) HP
                (in_range_hdr_stamp lim m (code_of t) n (code_lt_256 t) HR ltac:(unfold two31, two32 in *; lia))
                (pack_hdr m (code_of t) n)) as H1.
  replace (Z.of_nat (length h)) with (Z.of_N msg_hdr_size) in H1 by lia.
  change (code_of T_HDR) with mt_hdr in H1. rewrite H1.
  set (m1 := restrict T_HDR (stamp m (code_of t) n) acc).
  assert (T1 : nv m1 Ntype = code_of t) by reflexivity.
  assert (P1 : nv m1 Npkt_len = Z.to_N n) by reflexivity.
  rewrite T1, P1.
  destruct (negb (exptype =? mt_undef)%N && negb (code_of t =? exptype)%N) eqn:C1.
  { exfalso. destruct EX as [->| ->]; [rewrite N.eqb_refl in C1|rewrite N.eqb_refl, andb_false_r in C1]; discriminate. }
  rewrite Z2N.id by lia.
  destruct ((0 <? maxlen') && (n >? maxlen')) eqn:C2; [lia|].
  rewrite HP. cbn [negb].
  destruct (Z.of_nat (length body) <? n) eqn:C3; [lia|].
  replace (Z.to_nat n) with (length body) by lia. rewrite firstn_all.
  assert (TI : to_int (Z.to_N n) = Z.of_nat (length body)).
  { rewrite to_int_small; unfold two31 in *; lia. }
  rewrite TI.
  rewrite (pack_unpack lim hp t m (setb m1 Bpkt (Some [])) body n HP); [reflexivity| |exact PK].
  split; [exact IR|intros ->; congruence].
Qed.

(* member by member: what the receiver holds afterwards *)
Lemma recv_expect_members t m acc n : t <> T_HDR ->
  nv (recv_expect t m acc n) Ntype = code_of t
  /\ nv (recv_expect t m acc n) Nretry = nv m Nretry
  /\ nv (recv_expect t m acc n) Npkt_len = 0%N
  /\ bv (recv_expect t m acc n) Bpkt = None
  /\ err_local (recv_expect t m acc n) = err_local acc
  /\ (forall f, carries_n (pack_fields t) f = true -> nv (recv_expect t m acc n) f = nv m f)
  /\ (forall f, carries_n (pack_fields t) f = false -> carries_n (pack_fields T_HDR) f = false ->
                nv (recv_expect t m acc n) f = nv acc f)
  /\ (forall b, carries_b (pack_fields t) b = false -> b <> Bpkt -> bv (recv_expect t m acc n) b = bv acc b)
  /\ (forall b lf, In (Var b lf Heap) (pack_fields t) ->
        bv (recv_expect t m acc n) b
        = if (nv m lf =? 0)%N then bv acc b else Some (firstn (N.to_nat (nv m lf)) (content m b)))
  /\ (forall b lf cap lim, In (Var b lf (Fixed cap lim)) (pack_fields t) ->
        bv (recv_expect t m acc n) b
        = if (nv m lf =? 0)%N then bv acc b
          else Some (firstn (N.to_nat (nv m lf)) (content m b) ++ skipn (N.to_nat (nv m lf)) (content acc b))).
Proof.
  intros NH. unfold recv_expect.
  set (a1 := restrict T_HDR (stamp m (code_of t) n) acc).
  set (a2 := setb a1 Bpkt (Some [])).
  assert (NT : carries_n (pack_fields t) Ntype = false) by (destruct t; [congruence|reflexivity..]).
  assert (NR : carries_n (pack_fields t) Nretry = false) by (destruct t; [congruence|reflexivity..]).
  assert (NP : carries_n (pack_fields t) Npkt_len = false) by (destruct t; [congruence|reflexivity..]).
  assert (BP : carries_b (pack_fields t) Bpkt = false) by (destruct t; reflexivity).
  split; [|split; [|split; [|split; [|split; [|split; [|split; [|split; [|split]]]]]]]].
  - cbn [nv setn setb nfld_eqb]. unfold restrict. rewrite merge_nv, NT. reflexivity.
  - cbn [nv setn setb nfld_eqb]. unfold restrict. rewrite merge_nv, NR. reflexivity.
  - apply nv_setn_same.
  - cbn [bv setn]. apply bv_setb_same.
  - cbn [err_local setn setb]. unfold restrict. rewrite !merge_err_local. reflexivity.
  - intros f C. destruct (nfld_eqb_spec f Npkt_len) as [->|N]; [congruence|].
    rewrite nv_setn_other by exact N. rewrite nv_setb. unfold restrict. rewrite merge_nv, C. reflexivity.
  - intros f C CH. destruct (nfld_eqb_spec f Npkt_len) as [->|N]; [discriminate|].
    rewrite nv_setn_other by exact N. rewrite nv_setb. unfold restrict at 1. rewrite merge_nv, C.
    subst a2. rewrite nv_setb. subst a1. unfold restrict. rewrite merge_nv, CH. reflexivity.
  - intros b C NB. rewrite bv_setn, bv_setb_other by exact NB. unfold restrict at 1.
    rewrite merge_bv_other by exact C. subst a2. rewrite bv_setb_other by exact NB.
    subst a1. unfold restrict. apply merge_bv_other. reflexivity.
  - intros b lf I. assert (NB : b <> Bpkt).
    { intros ->. destruct t; cbn in I; repeat (destruct I as [I|I]; [discriminate|]); destruct I. }
    rewrite bv_setn, bv_setb_other by exact NB. rewrite (restrict_bv t m a2 b lf Heap I).
    subst a2. rewrite bv_setb_other by exact NB. subst a1. unfold restrict at 1.
    rewrite (merge_bv_other (pack_fields T_HDR)) by reflexivity. reflexivity.
  - intros b lf cap lim I. assert (NB : b <> Bpkt).
    { intros ->. destruct t; cbn in I; repeat (destruct I as [I|I]; [discriminate|]); destruct I. }
    rewrite bv_setn, bv_setb_other by exact NB. rewrite (restrict_bv t m a2 b lf _ I).
    assert (CE : content a2 b = content acc b).
    { unfold content. subst a2. rewrite bv_setb_other by exact NB. subst a1. unfold restrict.
      rewrite (merge_bv_other (pack_fields T_HDR)) by reflexivity. reflexivity. }
    rewrite CE. subst a2. rewrite bv_setb_other by exact NB. subst a1. unfold restrict at 1.
    rewrite (merge_bv_other (pack_fields T_HDR)) by reflexivity. reflexivity.
Qed.

(* ================================================================================================== *)
(*  6. the receive path of the daemon: no reply and close, or a well-formed request                     *)
(* ================================================================================================== *)
Definition ures_msg (r : ures) : msg := match r with UOk m _ | UErr _ m | UFault m => m end.

Lemma unpack_list_nv_other hp fs body q f : carries_n fs f = false ->
  forall p m, nv (ures_msg (fst (unpack_list hp fs body q p m))) f = nv m f.
Proof.
  induction fs as [|d r IH]; intros C p m; [reflexivity|].
  destruct d as [g|g|b lf [|cap lim]]; cbn [carries_n existsb] in C; cbn [unpack_list].
  - apply orb_false_iff in C. destruct C as [C1 C2]. fold (carries_n r f) in C2.
    destruct (p + 1 >? q); [reflexivity|]. rewrite fst_with_ev, (IH C2).
    apply nv_setn_other. intros ->. now rewrite nfld_eqb_refl in C1.
  - apply orb_false_iff in C. destruct C as [C1 C2]. fold (carries_n r f) in C2.
    destruct (p + 4 >? q); [reflexivity|]. rewrite fst_with_ev, (IH C2).
    apply nv_setn_other. intros ->. now rewrite nfld_eqb_refl in C1.
  - fold (carries_n r f) in C. cbn [orb] in C.
    destruct (to_int (nv m lf) =? 0); [apply (IH C)|].
    destruct (to_int (nv m lf) <? 0); [reflexivity|].
    destruct (negb (hp (alloc_req (to_int (nv m lf))))); [reflexivity|].
    destruct (p + to_int (nv m lf) >? q); [reflexivity|].
    rewrite fst_with_ev, (IH C). reflexivity.
  - fold (carries_n r f) in C. cbn [orb] in C.
    destruct (to_int (nv m lf) >? Z.of_N lim); [reflexivity|].
    destruct (to_int (nv m lf) <? 0); [reflexivity|].
    destruct (to_int (nv m lf) =? 0); [apply (IH C)|].
    destruct (p + to_int (nv m lf) >? q); [reflexivity|].
    destruct (to_int (nv m lf) >? Z.of_N cap); [reflexivity|].
    rewrite fst_with_ev, (IH C). reflexivity.
Qed.

Lemma unpack_list_bv_other hp fs body q b : carries_b fs b = false ->
  forall p m m' p', fst (unpack_list hp fs body q p m) = UOk m' p' -> bv m' b = bv m b.
Proof.
  induction fs as [|d r IH]; intros C p m m' p' E.
  - cbn in E. inversion E; reflexivity.
  - destruct d as [g|g|c lf [|cap lim]]; cbn [carries_b existsb orb] in C; cbn [unpack_list] in E.
    + fold (carries_b r b) in C. destruct (p + 1 >? q); [discriminate|]. rewrite fst_with_ev in E.
      now rewrite (IH C _ _ _ _ E).
    + fold (carries_b r b) in C. destruct (p + 4 >? q); [discriminate|]. rewrite fst_with_ev in E.
      now rewrite (IH C _ _ _ _ E).
    + apply orb_false_iff in C. destruct C as [C1 C2]. fold (carries_b r b) in C2.
      destruct (to_int (nv m lf) =? 0); [exact (IH C2 _ _ _ _ E)|].
      destruct (to_int (nv m lf) <? 0); [discriminate|].
      destruct (negb (hp (alloc_req (to_int (nv m lf))))); [discriminate|].
      destruct (p + to_int (nv m lf) >? q); [discriminate|].
      rewrite fst_with_ev in E. rewrite (IH C2 _ _ _ _ E).
      apply bv_setb_other. intros ->. now rewrite bfld_eqb_refl in C1.
    + apply orb_false_iff in C. destruct C as [C1 C2]. fold (carries_b r b) in C2.
      destruct (to_int (nv m lf) >? Z.of_N lim); [discriminate|].
      destruct (to_int (nv m lf) <? 0); [discriminate|].
      destruct (to_int (nv m lf) =? 0); [exact (IH C2 _ _ _ _ E)|].
      destruct (p + to_int (nv m lf) >? q); [discriminate|].
      destruct (to_int (nv m lf) >? Z.of_N cap); [discriminate|].
      rewrite fst_with_ev in E. rewrite (IH C2 _ _ _ _ E).
      apply bv_setb_other. intros ->. now rewrite bfld_eqb_refl in C1.
Qed.

Lemma unpack_list_err_local hp fs body q :
  forall p m, err_local (ures_msg (fst (unpack_list hp fs body q p m))) = err_local m.
Proof.
  induction fs as [|d r IH]; intros p m; [reflexivity|].
  destruct d as [g|g|b lf [|cap lim]]; cbn [unpack_list].
  - destruct (p + 1 >? q); [reflexivity|]. rewrite fst_with_ev, IH. reflexivity.
  - destruct (p + 4 >? q); [reflexivity|]. rewrite fst_with_ev, IH. reflexivity.
  - destruct (to_int (nv m lf) =? 0); [apply IH|].
    destruct (to_int (nv m lf) <? 0); [reflexivity|].
    destruct (negb (hp (alloc_req (to_int (nv m lf))))); [reflexivity|].
    destruct (p + to_int (nv m lf) >? q); [reflexivity|].
    rewrite fst_with_ev, IH. reflexivity.
  - destruct (to_int (nv m lf) >? Z.of_N lim); [reflexivity|].
    destruct (to_int (nv m lf) <? 0); [reflexivity|].
    destruct (to_int (nv m lf) =? 0); [apply IH|].
    destruct (p + to_int (nv m lf) >? q); [reflexivity|].
    destruct (to_int (nv m lf) >? Z.of_N cap); [reflexivity|].
    rewrite fst_with_ev, IH. reflexivity.
Qed.

(* order_ok: what it says about the rest of a list *)
Lemma order_ok_seen_not_carried fs : forall seen seenb f,
  order_ok seen seenb fs = true -> In f seen -> carries_n fs f = false.
Proof.
  induction fs as [|d r IH]; intros seen seenb f O I; [reflexivity|].
  destruct d as [g|g|b lf dd]; cbn [order_ok carries_n existsb] in *.
  - apply andb_true_iff in O. destruct O as [O1 O2]. fold (carries_n r f).
    rewrite (IH (g :: seen) seenb f O2 (or_intror I)), orb_false_r.
    destruct (nfld_eqb_spec g f) as [->|N]; [|reflexivity].
    exfalso. apply negb_true_iff in O1. assert (X : existsb (nfld_eqb f) seen = true).
    { apply existsb_exists. exists f. split; [exact I|apply nfld_eqb_refl]. } congruence.
  - apply andb_true_iff in O. destruct O as [O1 O2]. fold (carries_n r f).
    rewrite (IH (g :: seen) seenb f O2 (or_intror I)), orb_false_r.
    destruct (nfld_eqb_spec g f) as [->|N]; [|reflexivity].
    exfalso. apply negb_true_iff in O1. assert (X : existsb (nfld_eqb f) seen = true).
    { apply existsb_exists. exists f. split; [exact I|apply nfld_eqb_refl]. } congruence.
  - apply andb_true_iff in O. destruct O as [_ O2]. fold (carries_n r f). cbn [orb]. eapply IH; eauto.
Qed.

Lemma order_ok_seenb_not_carried fs : forall seen seenb b,
  order_ok seen seenb fs = true -> In b seenb -> carries_b fs b = false.
Proof.
  induction fs as [|d r IH]; intros seen seenb b O I; [reflexivity|].
  destruct d as [g|g|c lf dd]; cbn [order_ok carries_b existsb] in *.
  - apply andb_true_iff in O. destruct O as [_ O2]. fold (carries_b r b). cbn [orb]. eapply IH; eauto.
  - apply andb_true_iff in O. destruct O as [_ O2]. fold (carries_b r b). cbn [orb]. eapply IH; eauto.
  - apply andb_true_iff in O. destruct O as [O O2]. apply andb_true_iff in O. destruct O as [_ O1].
    fold (carries_b r b). rewrite (IH seen (c :: seenb) b O2 (or_intror I)), orb_false_r.
    destruct (bfld_eqb_spec c b) as [->|N]; [|reflexivity].
    exfalso. apply negb_true_iff in O1. assert (X : existsb (bfld_eqb b) seenb = true).
    { apply existsb_exists. exists b. split; [exact I|apply bfld_eqb_refl]. } congruence.
Qed.

(* after a successful unpack every heap member is consistent with its length member *)
Definition cons_var (m0 m' : msg) (b : bfld) (lf : nfld) (q : Z) : Prop :=
  (nv m' lf = 0%N /\ bv m' b = bv m0 b)
  \/ (exists l, bv m' b = Some l /\ Z.of_nat (length l) = Z.of_N (nv m' lf) /\ 0 < Z.of_N (nv m' lf) <= q).

Lemma rd8_lt l : (rd8 l < 4294967296)%N.
Proof. destruct l as [|a [|? ?]]; cbn; try lia. pose proof (b2n_lt a). lia. Qed.
Lemma rd32l_lt l : (rd32l l < 4294967296)%N.
Proof. destruct l as [|a [|b [|c [|d [|? ?]]]]]; cbn [rd32l]; try lia. apply rd32_lt. Qed.

Lemma unpack_list_consistent hp fs body q : q <= Z.of_nat (length body) ->
  forall seen seenb p m m' p',
    order_ok seen seenb fs = true -> (forall f, In f seen -> (nv m f < 4294967296)%N) -> 0 <= p ->
    fst (unpack_list hp fs body q p m) = UOk m' p' ->
    forall b lf, In (Var b lf Heap) fs -> cons_var m m' b lf q.
Proof.
  intros Hq. induction fs as [|d r IH]; intros seen seenb p m m' p' O U Hp E b lf I; [destruct I|].
  destruct d as [g|g|c lf' dd]; cbn [order_ok] in O; cbn [unpack_list] in E.
  - destruct I as [I|I]; [discriminate|].
    apply andb_true_iff in O. destruct O as [_ O].
    destruct (p + 1 >? q) eqn:C; [discriminate|]. rewrite fst_with_ev in E.
    refine (IH (g :: seen) seenb _ _ _ _ O _ _ E b lf I); [|lia].
    intros f [<-|F]; [rewrite nv_setn_same; apply rd8_lt|].
    destruct (nfld_eqb_spec f g) as [->|N]; [rewrite nv_setn_same; apply rd8_lt|].
    rewrite nv_setn_other by exact N. auto.
  - destruct I as [I|I]; [discriminate|].
    apply andb_true_iff in O. destruct O as [_ O].
    destruct (p + 4 >? q) eqn:C; [discriminate|]. rewrite fst_with_ev in E.
    refine (IH (g :: seen) seenb _ _ _ _ O _ _ E b lf I); [|lia].
    intros f [<-|F]; [rewrite nv_setn_same; apply rd32l_lt|].
    destruct (nfld_eqb_spec f g) as [->|N]; [rewrite nv_setn_same; apply rd32l_lt|].
    rewrite nv_setn_other by exact N. auto.
  - apply andb_true_iff in O. destruct O as [O O2]. apply andb_true_iff in O. destruct O as [O0 O1].
    apply existsb_nfld_In in O0. apply negb_true_iff in O1.
    pose proof (order_ok_seen_not_carried r seen (c :: seenb) lf' O2 O0) as NC.
    pose proof (order_ok_seenb_not_carried r seen (c :: seenb) c O2 (or_introl eq_refl)) as NB.
    pose proof (U lf' O0) as UL. pose proof (to_int_range (nv m lf')) as RG.
    destruct dd as [|cap lim].
    + destruct (to_int (nv m lf') =? 0) eqn:C0.
      { destruct I as [I|I].
        - inversion I; subst c lf'. left.
          pose proof (unpack_list_nv_other hp r body q lf NC p m) as N1. rewrite E in N1. cbn in N1.
          rewrite N1, (unpack_list_bv_other hp r body q b NB _ _ _ _ E). split; [|reflexivity].
          unfold to_int, wrap32, two31, two32 in C0. lia.
        - exact (IH seen (c :: seenb) _ _ _ _ O2 U Hp E b lf I). }
      destruct (to_int (nv m lf') <? 0) eqn:C1; [discriminate|].
      destruct (negb (hp (alloc_req (to_int (nv m lf'))))); [discriminate|].
      destruct (p + to_int (nv m lf') >? q) eqn:C3; [discriminate|].
      rewrite fst_with_ev in E.
      destruct I as [I|I].
      * inversion I; subst c lf'. right.
        pose proof (unpack_list_nv_other hp r body q lf NC (p + to_int (nv m lf))
                      (setb m b (Some (sub p (to_int (nv m lf)) body)))) as N1.
        rewrite E in N1. cbn [ures_msg] in N1. rewrite nv_setb in N1.
        rewrite N1, (unpack_list_bv_other hp r body q b NB _ _ _ _ E), bv_setb_same.
        eexists. split; [reflexivity|].
        assert (TI : to_int (nv m lf) = Z.of_N (nv m lf)) by (apply to_int_nonneg_inv; [exact UL|lia]).
        rewrite sub_length by lia. lia.
      * assert (NE : b <> c).
        { intros ->. pose proof (order_ok_seenb_not_carried r seen (c :: seenb) c O2 (or_introl eq_refl)) as X.
          assert (Y : carries_b r c = true).
          { unfold carries_b. apply existsb_exists. eexists. split; [exact I|apply bfld_eqb_refl]. }
          congruence. }
        assert (Hp' : 0 <= p + to_int (nv m lf')) by lia.
        match type of E with fst (unpack_list _ _ _ _ ?pp ?mm) = _ =>
          destruct (IH seen (c :: seenb) pp mm m' p' O2 U Hp' E b lf I) as [[A B]|(l & A & B & D)] end.
        -- left. split; [exact A|]. rewrite B. apply bv_setb_other. exact NE.
        -- right. exists l. auto.
    + destruct I as [I|I]; [discriminate|].
      assert (NE : b <> c).
      { intros ->. assert (Y : carries_b r c = true).
        { unfold carries_b. apply existsb_exists. eexists. split; [exact I|apply bfld_eqb_refl]. }
        congruence. }
      destruct (to_int (nv m lf') >? Z.of_N lim); [discriminate|].
      destruct (to_int (nv m lf') <? 0) eqn:C1; [discriminate|].
      destruct (to_int (nv m lf') =? 0) eqn:C0; [exact (IH seen (c :: seenb) _ _ _ _ O2 U Hp E b lf I)|].
      destruct (p + to_int (nv m lf') >? q) eqn:C3; [discriminate|].
      destruct (to_int (nv m lf') >? Z.of_N cap); [discriminate|].
      rewrite fst_with_ev in E.
      assert (Hp' : 0 <= p + to_int (nv m lf')) by lia.
      match type of E with fst (unpack_list _ _ _ _ ?pp ?mm) = _ =>
          destruct (IH seen (c :: seenb) pp mm m' p' O2 U Hp' E b lf I) as [[A B]|(l & A & B & D)] end.
      * left. split; [exact A|]. rewrite B. apply bv_setb_other. exact NE.
      * right. exists l. auto.
Qed.

Lemma msg_unpack_ok_inv lim hp code body q m m' p' :
  fst (msg_unpack_g lim hp code body q m) = UOk m' p' ->
  exists t, type_of_code code = Some t
            /\ fst (unpack_list hp (unpack_fields_g lim t) body q 0 m) = UOk m' p'.
Proof.
  unfold msg_unpack_g. destruct (type_of_code code) as [t|]; [|cbn; discriminate].
  intros H. exists t. split; [reflexivity|].
  destruct (fst (unpack_list hp (unpack_fields_g lim t) body q 0 m)) as [m1 p1|e1 m1|m1]; cbn in H.
  - destruct (is_hdr t && negb (nv m1 Nmagic =? msg_magic)%N); [cbn in H; discriminate|].
    destruct (is_hdr t && negb (nv m1 Nversion =? msg_version)%N); cbn in H; [discriminate|exact H].
  - discriminate.
  - discriminate.
Qed.

Lemma recv_ok_inv lim hp stream exptype maxlen m0 m :
  fst (recv_g lim hp stream exptype maxlen m0) = ROk m ->
  exists hdr m1 p1 body m3 p3,
    fst (msg_unpack_g lim hp mt_hdr hdr (Z.of_N msg_hdr_size) m0) = UOk m1 p1
    /\ (maxlen <= 0 \/ Z.of_N (nv m1 Npkt_len) <= maxlen)
    /\ Z.of_nat (length body) = Z.of_N (nv m1 Npkt_len)
    /\ fst (msg_unpack_g lim hp (nv m1 Ntype) body (to_int (nv m1 Npkt_len)) (setb m1 Bpkt (Some []))) = UOk m3 p3
    /\ m = setn (setb m3 Bpkt None) Npkt_len 0%N.
Proof.
  unfold recv_g. set (hs := Z.of_N msg_hdr_size).
  destruct (Z.of_nat (length stream) <? hs); [cbn; discriminate|].
  set (hdr := firstn (Z.to_nat hs) stream). set (rest := skipn (Z.to_nat hs) stream).
  destruct (fst (msg_unpack_g lim hp mt_hdr hdr hs m0)) as [m1 p1|e1 m1|m1] eqn:E1; [|cbn; discriminate..].
  destruct (negb (exptype =? mt_undef)%N && negb (nv m1 Ntype =? exptype)%N); [cbn; discriminate|].
  destruct ((0 <? maxlen) && (Z.of_N (nv m1 Npkt_len) >? maxlen)) eqn:CM; [cbn; discriminate|].
  destruct (negb (hp (Z.of_N (nv m1 Npkt_len)))); [cbn; discriminate|].
  destruct (Z.of_nat (length rest) <? Z.of_N (nv m1 Npkt_len)) eqn:CL; [cbn; discriminate|].
  set (body := firstn (Z.to_nat (Z.of_N (nv m1 Npkt_len))) rest).
  destruct (fst (msg_unpack_g lim hp (nv m1 Ntype) body (to_int (nv m1 Npkt_len)) (setb m1 Bpkt (Some []))))
    as [m3 p3|e3 m3|m3] eqn:E3; cbn; [|discriminate..].
  intros H. inversion H. exists hdr, m1, p1, body, m3, p3. repeat split; auto.
  - lia.
  - subst body. rewrite firstn_length. lia.
Qed.

(* a request as enc_process_msg / dec_process_msg may assume it *)
Definition wf_req (t : mtype) (m : msg) : Prop :=
  nv m Ntype = code_of t /\ nv m Npkt_len = 0%N /\ bv m Bpkt = None
  /\ nv m Nerror_num = 0%N /\ bv m Berror = None /\ err_local m = false
  /\ forall b lf, In (Var b lf Heap) (pack_fields t) ->
       (nv m lf = 0%N /\ bv m b = None)
       \/ (exists l, bv m b = Some l /\ N.of_nat (length l) = nv m lf /\ (0 < nv m lf <= max_req_len)%N).

Definition job_ok (j : job) : Prop :=
  match j with
  | JFault => False
  | JClose _ => True
  | JEnc m => wf_req T_ENC_REQ m
  | JDec m => wf_req T_DEC_REQ m
  end.

Lemma in_heap_tables lim t b lf : In (Var b lf Heap) (pack_fields t) -> In (Var b lf Heap) (unpack_fields_g lim t).
Proof. destruct t; cbn; intros H; repeat (destruct H as [H|H]; [try discriminate; inversion H; subst; auto 20|]); destruct H. Qed.

Theorem recv_dispatch lim hp stream : (lim <= sizeof_addr)%N -> job_ok (job_exec_g lim hp stream).
Proof.
  intros HL. unfold job_exec_g.
  destruct (recv_total_bounded lim hp stream mt_undef (Z.of_N max_req_len) msg0 HL) as [F _].
  destruct (fst (recv_g lim hp stream mt_undef (Z.of_N max_req_len) msg0)) as [m|e m|m] eqn:E; cbn [job_ok].
  2:{ exact I. }
  2:{ destruct F as [(?&?)|(?&?&?&?)]; discriminate. }
  apply recv_ok_inv in E. destruct E as (hdr & m1 & p1 & body & m3 & p3 & E1 & ML & LB & E3 & ->).
  apply msg_unpack_ok_inv in E1. destruct E1 as (t1 & T1 & U1).
  assert (t1 = T_HDR) as -> by (change mt_hdr with (code_of T_HDR) in T1; rewrite type_of_code_of in T1; congruence).
  apply msg_unpack_ok_inv in E3. destruct E3 as (t2 & T2 & U3).
  apply type_of_code_inv in T2.
  (* the header unpacker touched magic, version, type, retry, pkt_len only *)
  assert (N1 : forall f, carries_n (unpack_fields_g lim T_HDR) f = false -> nv m1 f = nv msg0 f).
  { intros f C. pose proof (unpack_list_nv_other hp _ hdr (Z.of_N msg_hdr_size) f C 0 msg0) as X.
    rewrite U1 in X. exact X. }
  assert (B1 : forall b, bv m1 b = bv msg0 b).
  { intros b. exact (unpack_list_bv_other hp (unpack_fields_g lim T_HDR) hdr (Z.of_N msg_hdr_size) b eq_refl _ _ _ _ U1). }
  assert (L1 : err_local m1 = false).
  { pose proof (unpack_list_err_local hp (unpack_fields_g lim T_HDR) hdr (Z.of_N msg_hdr_size) 0 msg0) as X.
    rewrite U1 in X. exact X. }
  set (m2 := setb m1 Bpkt (Some [])) in *.
  set (q := to_int (nv m1 Npkt_len)) in *.
  assert (Hq : q <= Z.of_nat (length body)) by (subst q; pose proof (to_int_le (nv m1 Npkt_len)); lia).
  assert (QM : q <= Z.of_N max_req_len).
  { subst q. pose proof (to_int_le (nv m1 Npkt_len)). destruct ML as [ML|ML]; [vm_compute in ML; contradiction|lia]. }
  assert (N3 : forall f, carries_n (unpack_fields_g lim t2) f = false -> nv m3 f = nv m2 f).
  { intros f C. pose proof (unpack_list_nv_other hp _ body q f C 0 m2) as X. rewrite U3 in X. exact X. }
  assert (B3 : forall b, carries_b (unpack_fields_g lim t2) b = false -> bv m3 b = bv m2 b).
  { intros b C. exact (unpack_list_bv_other hp _ body q b C _ _ _ _ U3). }
  assert (L3 : err_local m3 = false).
  { pose proof (unpack_list_err_local hp (unpack_fields_g lim t2) body q 0 m2) as X. rewrite U3 in X.
    cbn [ures_msg] in X. rewrite X. exact L1. }
  pose proof (unpack_list_consistent hp (unpack_fields_g lim t2) body q Hq [] [] 0 m2 m3 p3
                (tables_order lim t2) ltac:(intros ? []) ltac:(lia) U3) as CV.
  (* the final message: m3 with pkt = NULL, pkt_len = 0 *)
  set (m := setn (setb m3 Bpkt None) Npkt_len 0%N).
  assert (WF : forall t, nv m3 Ntype = code_of t ->
                 nv m3 Nerror_num = 0%N -> bv m3 Berror = None ->
                 (forall b lf, In (Var b lf Heap) (pack_fields t) -> cons_var msg0 m3 b lf (Z.of_N max_req_len)) ->
                 wf_req t m).
  { intros t TT EN EB CS. unfold wf_req, m. cbn [nv bv err_local setn setb nfld_eqb bfld_eqb].
    repeat split; auto.
    intros b lf I. assert (NB : b <> Bpkt).
    { intros ->. destruct t; cbn in I; repeat (destruct I as [I|I]; [discriminate|]); destruct I. }
    assert (NL : lf <> Npkt_len).
    { intros ->. destruct t; cbn in I; repeat (destruct I as [I|I]; [discriminate|]); destruct I. }
    assert (NA : b <> Baddr).
    { intros ->. destruct t; cbn in I; repeat (destruct I as [I|I]; [discriminate|]); destruct I. }
    destruct (nfld_eqb_spec lf Npkt_len) as [?|_]; [contradiction|].
    destruct (bfld_eqb_spec b Bpkt) as [?|_]; [contradiction|].
    destruct (CS b lf I) as [[A B]|(l & A & B & D)].
    - left. split; [exact A|]. rewrite B. destruct b; try reflexivity; exfalso; apply NA; reflexivity.
    - right. exists l. repeat split; auto; lia. }
  destruct t2.
  - (* a header as body: the nested type decides; all request members are still those of msg0 *)
    assert (Z3 : forall f, carries_n (unpack_fields_g lim T_HDR) f = false -> nv m3 f = 0%N).
    { intros f C. rewrite (N3 f C). subst m2. rewrite nv_setb, (N1 f C). destruct f; try reflexivity; discriminate. }
    assert (ZB : forall b, b <> Bpkt -> b <> Baddr -> bv m3 b = None).
    { intros b NB NA. rewrite (B3 b eq_refl). subst m2. rewrite bv_setb_other by exact NB. rewrite B1.
      destruct b; try reflexivity; contradiction. }
    assert (CS : forall t b lf, In (Var b lf Heap) (pack_fields t) -> cons_var msg0 m3 b lf (Z.of_N max_req_len)).
    { intros t b lf I. left.
      assert (C : carries_n (unpack_fields_g lim T_HDR) lf = false).
      { destruct t; cbn in I; repeat (destruct I as [I|I]; [try discriminate; inversion I; subst; reflexivity|]); destruct I. }
      split; [exact (Z3 lf C)|].
      assert (NB : b <> Bpkt /\ b <> Baddr).
      { destruct t; cbn in I; repeat (destruct I as [I|I]; [try discriminate; inversion I; subst; split; discriminate|]); destruct I. }
      rewrite (ZB b (proj1 NB) (proj2 NB)). destruct b; try reflexivity; destruct NB; contradiction. }
    change (nv m Ntype) with (nv m3 Ntype).
    destruct (nv m3 Ntype =? mt_enc_req)%N eqn:TE.
    { apply N.eqb_eq in TE. cbn [job_ok]. apply (WF T_ENC_REQ TE (Z3 Nerror_num eq_refl)); [|apply CS].
      apply ZB; discriminate. }
    destruct (nv m3 Ntype =? mt_dec_req)%N eqn:TD; [|exact I].
    apply N.eqb_eq in TD. cbn [job_ok]. apply (WF T_DEC_REQ TD (Z3 Nerror_num eq_refl)); [|apply CS].
    apply ZB; discriminate.
  - (* ENC_REQ *)
    assert (TY : nv m3 Ntype = mt_enc_req).
    { rewrite (N3 Ntype eq_refl). subst m2. rewrite nv_setb. exact T2. }
    change (nv m Ntype) with (nv m3 Ntype). rewrite TY. cbn [N.eqb Pos.eqb job_ok].
    apply (WF T_ENC_REQ TY).
    + rewrite (N3 Nerror_num eq_refl). subst m2. rewrite nv_setb. apply (N1 Nerror_num eq_refl).
    + rewrite (B3 Berror eq_refl). subst m2. rewrite bv_setb_other by discriminate. apply B1.
    + intros b lf I. pose proof (CV b lf (in_heap_tables lim T_ENC_REQ b lf I)) as [[A B]|(l & A & B & D)].
      * left. split; [exact A|]. rewrite B. subst m2.
        assert (NB : b <> Bpkt) by (cbn in I; repeat (destruct I as [I|I]; [try discriminate; inversion I; subst; discriminate|]); destruct I).
        rewrite bv_setb_other by exact NB. apply B1.
      * right. exists l. repeat split; auto; lia.
  - (* ENC_RSP: not a request *)
    assert (TY : nv m3 Ntype = mt_enc_rsp).
    { rewrite (N3 Ntype eq_refl). subst m2. rewrite nv_setb. exact T2. }
    change (nv m Ntype) with (nv m3 Ntype). rewrite TY. exact I.
  - (* DEC_REQ *)
    assert (TY : nv m3 Ntype = mt_dec_req).
    { rewrite (N3 Ntype eq_refl). subst m2. rewrite nv_setb. exact T2. }
    change (nv m Ntype) with (nv m3 Ntype). rewrite TY. cbn [N.eqb Pos.eqb job_ok].
    apply (WF T_DEC_REQ TY).
    + rewrite (N3 Nerror_num eq_refl). subst m2. rewrite nv_setb. apply (N1 Nerror_num eq_refl).
    + rewrite (B3 Berror eq_refl). subst m2. rewrite bv_setb_other by discriminate. apply B1.
    + intros b lf I. pose proof (CV b lf (in_heap_tables lim T_DEC_REQ b lf I)) as [[A B]|(l & A & B & D)].
      * left. split; [exact A|]. rewrite B. subst m2.
        assert (NB : b <> Bpkt) by (cbn in I; repeat (destruct I as [I|I]; [try discriminate; inversion I; subst; discriminate|]); destruct I).
        rewrite bv_setb_other by exact NB. apply B1.
      * right. exists l. repeat split; auto; lia.
  - assert (TY : nv m3 Ntype = mt_dec_rsp).
    { rewrite (N3 Ntype eq_refl). subst m2. rewrite nv_setb. exact T2. }
    change (nv m Ntype) with (nv m3 Ntype). rewrite TY. exact I.
  - assert (TY : nv m3 Ntype = mt_auth_fd_req).
    { rewrite (N3 Ntype eq_refl). subst m2. rewrite nv_setb. exact T2. }
    change (nv m Ntype) with (nv m3 Ntype). rewrite TY. exact I.
Qed.
