(* Properties_C18_stir.v — statements only.  C18, "the periodic services built on it — ..., PRNG stirring — keep
   recurring for the life of the daemon for every interleaving and every forward clock jump", for the stir
   service of random.c from EVERY initial condition (model: TimerStirModel; numbers and sample tables measured by
   running /repo's random.c: gen/GenTimer.v).

   nbytes = the bytes of entropy random_init could add (kernel source + seed file + process): a first start (no
   seed file) or a short/invalid seed file gives nbytes < random_bytes_wanted and "enhanced stirring" (1 s, doubling);
   a later start with the complete seed file a previous run wrote gives the maximum interval at once.
   stir_init SRepo nbytes j = the service after random_init (j = the stagger bits of the first entropy word);
   labels: SClock t (the clock moves forward to t, any amount), SFire j (the pending stir timer is dispatched). *)
From Coq Require Import List ZArith Bool.
From MV.gen Require Import GenTimer.
From MV Require Import TimerModel TimerProofs TimerStirModel TimerStirProofs.
Import ListNotations.
Local Open Scope Z_scope.

(* for every seeding state, every stagger, every sequence of forward clock movements and dispatches: after
   random_init a stir timer is pending at ALL times, and the gap between the moment it was set (the previous stir,
   or random_init) and its expiry is at least one second and never exceeds the maximum interval plus the stagger *)
Theorem C18_stir_always_pending : forall (nbytes j : Z) (ls : list slabel) (s : stir),
  jitter_ok j = true -> stir_run (stir_init SRepo nbytes j) ls = Some s ->
  exists e, s_pend s = Some e /\
            s_armed s + 1000 <= e <= s_armed s + stir_max_secs * 1000 + stir_jitter_max /\
            s_armed s <= s_clock s /\ 1 <= s_secs s <= stir_max_secs.
Proof. exact stir_always_pending. Qed.
Print Assumptions C18_stir_always_pending.

(* a due stir timer can always be dispatched (whatever the stagger), and the dispatch re-arms from the clock
   reading of that moment: no stuck state *)
Theorem C18_stir_fire_enabled : forall (nbytes j : Z) (ls : list slabel) (s : stir) (e j' : Z),
  jitter_ok j = true -> stir_run (stir_init SRepo nbytes j) ls = Some s ->
  s_pend s = Some e -> e <= s_clock s -> jitter_ok j' = true ->
  exists s', stir_step s (SFire j') = Some s' /\ s_armed s' = s_clock s.
Proof. exact stir_fire_enabled. Qed.
Print Assumptions C18_stir_fire_enabled.

(* the schedule: from either start the interval reaches the maximum after at most 15 stirs and stays there *)
Theorem C18_stir_reaches_max :
  (forall nbytes k, (15 <= k)%nat -> stir_iter k (stir_start nbytes) = stir_max_secs) /\
  stir_next stir_max_secs = stir_max_secs.
Proof. exact stir_reaches_max. Qed.
Print Assumptions C18_stir_reaches_max.

(* the hand-written schedule is what /repo's random.c does: the first delay random_init arms with, for entropy
   amounts on both sides of RANDOM_BYTES_WANTED (no seed file, a short one, one byte short, exactly enough, a complete
   one), and the delay the callback re-arms with from every interval value — measured on every run *)
Theorem C18_stir_model_is_the_source :
  forallb init_sample_ok stir_init_samples = true /\ forallb run_sample_ok stir_run_samples = true /\
  stir_init_samples <> [] /\ stir_run_samples <> [].
Proof. exact stir_model_is_the_source. Qed.
Print Assumptions C18_stir_model_is_the_source.

(* the same for 60 SUCCESSIVE stirs from each initial condition (measured by calling the callback 60 times in a row,
   i.e. far past the 15 stirs after which the maximum is reached): the interval VARIABLE itself — not only the delay that
   is armed — follows the model and stays within [1, maximum]; together with C18_stir_always_pending (which holds for
   every number of stirs) nothing can build up behind the cap *)
Theorem C18_stir_sequences_are_the_source :
  stir_seq 60 (stir_start 132) = stir_seq_first_start /\
  stir_seq 60 (stir_start (random_bytes_wanted + 4)) = stir_seq_seeded /\
  Forall (fun p => 1 <= fst p <= stir_max_secs /\ 1000 <= snd p <= stir_max_secs * 1000)
         (stir_seq_first_start ++ stir_seq_seeded).
Proof. exact stir_sequences_are_the_source. Qed.
Print Assumptions C18_stir_sequences_are_the_source.

(* on timer.c: for every seeding state random_init makes exactly one set of the stir callback, at least a second
   ahead, so `inst c st = 1` — the premise of C18_periodic_forever ("exactly one instance pending, detached or owed
   by the running callback along every run, for every clock reading") — holds from the start *)
Theorem C18_stir_first_instance : forall (prog : nat -> list cop) (c : nat) (now : ts) (nbytes j : Z),
  owes c (prog c) = 1%nat -> (forall d, d <> c -> owes c (prog d) = O) ->
  jitter_ok j = true ->
  exists d st' id, stir_first_delay SRepo nbytes j = d /\ 1000 <= d /\
    step prog init (LSet (ts_add_ms now d) c) = Some (st', ORet id) /\ inst c st' = 1%nat.
Proof. exact stir_first_instance. Qed.
Print Assumptions C18_stir_first_instance.

(* REFUTED variant of the code (not the code as it is): skipping the start-up call of _random_stir_entropy when the
   pool is fully seeded.  A daemon that finds the complete seed file never has a stir timer, whatever the clock
   does afterwards; a first start (132 bytes) is unaffected, which is why nothing short of the second initial
   condition shows it. *)
Theorem C18_stir_skip_when_seeded_refuted : forall ls : list slabel,
  exists nbytes, random_bytes_wanted <= nbytes /\
    s_pend (stir_init SSkipWhenSeeded nbytes 0) = None /\
    (forall s, stir_run (stir_init SSkipWhenSeeded nbytes 0) ls = Some s -> s_pend s = None) /\
    s_pend (stir_init SRepo nbytes 0) = Some (stir_max_secs * 1000) /\
    s_pend (stir_init SSkipWhenSeeded 132 0) = Some 2000.
Proof. exact skip_when_seeded_never_stirs. Qed.
Print Assumptions C18_stir_skip_when_seeded_refuted.

(* non-vacuity: a first start stirs after 2 s, 4 s, ...; a fully seeded start after the maximum; forward jumps *)
Example C18_stir_example :
  option_map (fun s => (s_secs s, s_pend s))
    (stir_run (stir_init SRepo 132 5) [SClock 2005; SFire 0; SClock 7000; SFire 1023; SClock 100000000; SFire 7])
    = Some (16, Some 100016007) /\
  option_map (fun s => (s_secs s, s_pend s))
    (stir_run (stir_init SRepo 1156 0) [SClock 32768000; SFire 1; SClock 40000000]) = Some (32768, Some 65536001) /\
  stir_run (stir_init SRepo 1156 0) [SClock 32767999; SFire 1] = None.
Proof. vm_compute. repeat split. Qed.
