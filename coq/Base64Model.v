(* Base64Model.v — executable model of src/munged/base64.c (no proofs here).
   Tables come from gen/GenBase64.v, regenerated from the source on every run.
   Shift/mask expressions are kept as in the C code. *)
From Coq Require Import List NArith Bool.
From Coq.Strings Require Import Byte.
From MV Require Import Bytes.
From MV.gen Require Import GenBase64.
Import ListNotations.
Local Open Scope N_scope.

Definition a2b (c : byte) : N := nth (N.to_nat (b2n c)) asc2bin_tab 255.
Definition b2a (n : N) : byte := n2b (nth (N.to_nat n) bin2asc_tab 0).
Definition padc : byte := n2b b64_pad_char.

(* --- base64_encode_block --- *)
Definition enc3 (x y z : byte) : bytes :=
  let a := b2n x in let b := b2n y in let c := b2n z in
  [ b2a (N.land (N.shiftr a 2) 0x3f);
    b2a (N.lor (N.land (N.shiftl a 4) 0x30) (N.land (N.shiftr b 4) 0x0f));
    b2a (N.lor (N.land (N.shiftl b 2) 0x3c) (N.land (N.shiftr c 6) 0x03));
    b2a (N.land c 0x3f) ].
Definition enc2 (x y : byte) : bytes :=
  let a := b2n x in let b := b2n y in
  [ b2a (N.land (N.shiftr a 2) 0x3f);
    b2a (N.lor (N.land (N.shiftl a 4) 0x30) (N.land (N.shiftr b 4) 0x0f));
    b2a (N.land (N.shiftl b 2) 0x3c);
    padc ].
Definition enc1 (x : byte) : bytes :=
  let a := b2n x in
  [ b2a (N.land (N.shiftr a 2) 0x3f);
    b2a (N.land (N.shiftl a 4) 0x30);
    padc; padc ].

Fixpoint encode_block (s : bytes) : bytes :=
  match s with
  | x :: y :: z :: r => enc3 x y z ++ encode_block r
  | [x; y] => enc2 x y
  | [x] => enc1 x
  | [] => []
  end.

(* base64_encode_length / base64_decode_length (C int arithmetic, no overflow
   for the lengths munged can hold: srclen <= 2^20 + small) *)
Definition encode_length (n : N) : N := ((n + 2) / 3) * 4 + 1.
Definition decode_length (n : N) : N := ((n + 3) / 4) * 3 + 1.

(* --- streaming encoder: ctx = carry buffer (x->buf[0..num-1]) --- *)
(* result: new carry, and Some written-bytes, or None when *dstlen is left
   untouched (srclen <= 0). *)
Definition encode_update (carry src : bytes) : bytes * option bytes :=
  match src with
  | [] => (carry, None)
  | _ =>
    let num := length carry in
    let need := (3 - num)%nat in
    let '(out1, carry1, src1) :=
      if (Nat.ltb 0 num) && (Nat.leb need (length src))
      then (encode_block (carry ++ firstn need src), [], skipn need src)
      else ([], carry, src) in
    let full := (Nat.mul (Nat.div (length src1) 3) 3) in
    let '(out2, src2) :=
      if Nat.leb 3 (length src1)
      then (encode_block (firstn full src1), skipn full src1)
      else ([], src1) in
    (carry1 ++ src2, Some (out1 ++ out2))
  end.

Definition encode_final (carry : bytes) : bytes :=
  match carry with [] => [] | _ => encode_block carry end.

(* whole streaming session: chunks fed in order, outputs concatenated *)
Fixpoint encode_stream (carry : bytes) (chunks : list bytes) : bytes :=
  match chunks with
  | [] => encode_final carry
  | c :: r => let '(carry', o) := encode_update carry c in
              (match o with Some w => w | None => [] end) ++ encode_stream carry' r
  end.

(* --- decoder: the (i, pad, *pdst) state machine of base64_decode_update --- *)
Record dctx := { d_i : N; d_pad : N; d_cur : N }.
Definition dctx0 : dctx := {| d_i := 0; d_pad := 0; d_cur := 0 |}.

(* the switch (i) of the loop: store sextet c; returns (i', *pdst, out) *)
Definition dec_put (i cur : N) (out : bytes) (c : N) : N * N * bytes :=
  match i with
  | 0 => (1, N.land (N.shiftl c 2) 0xfc, out)
  | 1 => (2, N.land (N.shiftl c 4) 0xf0, n2b (N.lor cur (N.land (N.shiftr c 4) 0x03)) :: out)
  | 2 => (3, N.land (N.shiftl c 6) 0xc0, n2b (N.lor cur (N.land (N.shiftr c 2) 0x0f)) :: out)
  | _ => (0, 0, n2b (N.lor cur (N.land c 0x3f)) :: out)
  end.

(* out is the list of completed bytes in reverse order *)
Fixpoint dec_loop (src : bytes) (i pad cur : N) (out : bytes) : bool * dctx * bytes :=
  match src with
  | [] => (false, {| d_i := i; d_pad := pad; d_cur := cur |}, out)
  | ch :: r =>
    let c := a2b ch in
    if c =? b64_ign then dec_loop r i pad cur out
    else if (c =? b64_pad) && (pad <? 2) then dec_loop r i (pad + 1) cur out
    else if (c =? b64_err) || (0 <? pad) then (true, {| d_i := i; d_pad := pad; d_cur := cur |}, out)
    else let '(i', cur', out') := dec_put i cur out c in dec_loop r i' pad cur' out'
  end.

(* base64_decode_update (x, ...): returns (err, ctx', bytes written before the NUL) *)
Definition decode_update (x : dctx) (src : bytes) : bool * dctx * bytes :=
  let '(err, x', out) := dec_loop src (d_i x) (d_pad x) (d_cur x) [] in
  (err, x', rev_append out []).   (* = rev out, linear *)
Definition decode_final (x : dctx) : bool := negb ((d_i x + d_pad x) mod 4 =? 0).

(* base64_decode_block: (err, output) *)
Definition decode_block (src : bytes) : bool * bytes :=
  let '(err, x', out) := dec_loop src 0 0 0 [] in
  (err || negb ((d_i x' + d_pad x') mod 4 =? 0), rev_append out []).

Definition decode_ok (src : bytes) : option bytes :=
  let '(err, out) := decode_block src in if err then None else Some out.

(* streaming decode session: error of any update or of final; concatenated output.
   Every update restarts writing at dst[0] with the partial byte restored. *)
Fixpoint decode_stream (x : dctx) (chunks : list bytes) : bool * bytes :=
  match chunks with
  | [] => (decode_final x, [])
  | c :: r => let '(err, x', o) := decode_update x c in
              if err then (true, o)
              else let '(e2, o2) := decode_stream x' r in (e2, o ++ o2)
  end.
