(* GidsModel.v — executable model of src/munged/gids.c (with the parts of hash.c,
   src/common/xgetgr.c and xgetpw.c it relies on).  No proofs here.

   Databases.  The group database is the sequence of entries getgrent_r() delivers,
   each a gid and its member names; the passwd database is what getpwnam_r() answers
   for a name (found with a uid / not found / error).  Numbers that come from the
   source (the reserved uid, buffer start sizes, growth factor, size_t width) are in
   gen/GenGids.v, regenerated from /repo on every run.

   What is abstracted: hash.c tables are association lists (first match); malloc
   failures (the `goto err` paths that need ENOMEM) are not modelled; an EINTR from
   xgetgrent() (a bare `continue` in the C loop) is not modelled; a build reads the
   databases in one step (edits while a scan is running are not modelled). *)
From Coq Require Import List NArith ZArith Bool.
From Coq.Strings Require Import Byte.
From MV Require Import Bytes.
From MV.gen Require Import GenGids.
Import ListNotations.
Local Open Scope N_scope.

Notation name := (list byte).

(* answer of getpwnam_r as classified by xgetpwnam(): rv==0 / ENOENT / any other errno *)
Inductive pwres := PwOk (u : N) | PwNone | PwErr.
Notation pwfun := (name -> pwres).
Notation grent := (N * list name)%type.
Notation grdb := (list grent).

Fixpoint name_eqb (a b : name) : bool :=
  match a, b with
  | [], [] => true
  | x :: a', y :: b' => (b2n x =? b2n y) && name_eqb a' b'
  | _, _ => false
  end.

(* ---- uid_hash: per-build cache user -> uid, negative entries hold uid_sentinel ---- *)
Notation ucache := (list (name * N)).

Fixpoint cache_find (c : ucache) (n : name) : option N :=
  match c with
  | [] => None
  | (k, u) :: r => if name_eqb k n then Some u else cache_find r n
  end.

(* _gids_uid_add: _gids_uid_node_create refuses an empty name; hash_insert refuses an
   existing key (EEXIST) and leaves the old node in place *)
Definition cache_add (c : ucache) (n : name) (u : N) : ucache :=
  match n with
  | [] => c
  | _ => match cache_find c n with Some _ => c | None => c ++ [(n, u)] end
  end.

(* xgetpwnam: an empty name is EINVAL before the database is consulted *)
Definition xgetpwnam (pw : pwfun) (n : name) : pwres :=
  match n with [] => PwErr | _ => pw n end.

(* _gids_user_to_uid: returns the new cache and Some uid (rv 0) or None (rv -1) *)
Definition user_to_uid (pw : pwfun) (c : ucache) (n : name) : ucache * option N :=
  let '(c', u) :=
    match cache_find c n with
    | Some u => (c, u)
    | None =>
        match xgetpwnam pw n with
        | PwOk u => (cache_add c n u, u)
        | PwNone => (cache_add c n uid_sentinel, uid_sentinel)
        | PwErr => (c, uid_sentinel)
        end
    end in
  (c', if u =? uid_sentinel then None else Some u).

(* ---- gid_hash: uid -> increasing list of gids ---- *)
Notation gmap := (list (N * list N)).

(* the node walk of _gids_gid_add: skip while node->gid < gid; equal -> nothing; else link in *)
Fixpoint gid_ins (g : N) (l : list N) : list N :=
  match l with
  | [] => [g]
  | x :: r => if x <? g then x :: gid_ins g r
              else if x =? g then l
              else g :: l
  end.

Fixpoint gfind (m : gmap) (u : N) : option (list N) :=
  match m with
  | [] => None
  | (k, l) :: r => if k =? u then Some l else gfind r u
  end.

(* hash_find / _gids_gid_head_create + hash_insert, then the node walk *)
Fixpoint gid_add (m : gmap) (u g : N) : gmap :=
  match m with
  | [] => [(u, [g])]
  | (k, l) :: r => if k =? u then (k, gid_ins g l) :: r else (k, l) :: gid_add r u g
  end.

(* the loop of gids_is_member: for (node; node && node->gid <= gid; node = next) if (== gid) hit *)
Fixpoint mem_walk (l : list N) (g : N) : bool :=
  match l with
  | [] => false
  | x :: r => if x <=? g then (if x =? g then true else mem_walk r g) else false
  end.

(* gids->gid_hash may be NULL (before the first successful build) *)
Definition is_member (m : option gmap) (u g : N) : bool :=
  match m with
  | None => false
  | Some m => match gfind m u with None => false | Some l => mem_walk l g end
  end.

(* ---- _gids_map_create ---- *)
Fixpoint scan_members (pw : pwfun) (c : ucache) (m : gmap) (g : N) (ns : list name)
  : ucache * gmap :=
  match ns with
  | [] => (c, m)
  | n :: r =>
      let '(c', ou) := user_to_uid pw c n in
      scan_members pw c' (match ou with Some u => gid_add m u g | None => m end) g r
  end.

Fixpoint scan (pw : pwfun) (c : ucache) (m : gmap) (db : grdb) : ucache * gmap :=
  match db with
  | [] => (c, m)
  | (g, ns) :: r => let '(c', m') := scan_members pw c m g ns in scan pw c' m' r
  end.

(* the fault-free build *)
Definition build (pw : pwfun) (db : grdb) : gmap := snd (scan pw [] [] db).

(* What xgetgrent() can report to the loop besides an entry or EOF, one item per pass:
   FErange k — after k entries of this pass it fails with ERANGE (platforms where the
               failed call has consumed the entry: HAVE_GETGRENT_R_ERANGE_BROKEN);
   FFail k   — after k entries it fails with another errno (EIO, ENOMEM, ...).
   A fault placed beyond the end of the database never happens (EOF comes first). *)
Inductive fault := FErange (k : nat) | FFail (k : nat).
Definition max_inits : N := 16.

(* restart: xgetgrent_init(); num_inits++; ... ERANGE && num_inits < max_inits ->
   hash_reset(gid_hash); goto restart.   The uid cache survives the restart. *)
Fixpoint run (pw : pwfun) (db : grdb) (sched : list fault) (num_inits : N) (c : ucache)
  : option gmap :=
  match sched with
  | [] => Some (snd (scan pw c [] db))
  | FErange k :: rest =>
      if (k <=? length db)%nat then
        if num_inits <? max_inits
        then run pw db rest (num_inits + 1) (fst (scan pw c [] (firstn k db)))
        else None
      else Some (snd (scan pw c [] db))
  | FFail k :: _ =>
      if (k <=? length db)%nat then None else Some (snd (scan pw c [] db))
  end.

Definition map_create (pw : pwfun) (db : grdb) (sched : list fault) : option gmap :=
  run pw db sched 1 [].

(* ---- xgetgrent on a GNU build: ERANGE -> _xgetgrbuf_grow (x factor) -> same entry again.
   [need] is the space the entry takes; None = the size_t overflow test fired (ENOMEM). ---- *)
Fixpoint xgetgrent_buf (fuel : nat) (len need : N) : option N :=
  if need <=? len then Some len else
  match fuel with
  | O => None
  | S f => let nl := grbuf_grow_factor * len in
           if 2 ^ size_bits <=? nl then None else xgetgrent_buf f nl need
  end.

Fixpoint scan_buf (len : N) (needs : list N) : option N :=
  match needs with
  | [] => Some len
  | n :: r => match xgetgrent_buf (N.to_nat size_bits) len n with
              | Some len' => scan_buf len' r
              | None => None
              end
  end.

(* space an entry takes in the fake NSS of the harness: pointer array (8 bytes each, NULL
   terminated), "grp\0", "x\0", the member strings *)
Definition entry_need (e : grent) : N :=
  8 * (N.of_nat (length (snd e)) + 1) + 6
  + fold_right (fun n a => N.of_nat (length n) + 1 + a) 0 (snd e).

(* ---- refresh state machine (struct gids; _gids_map_update; gids_update) ---- *)
Record gstate := mkG {
  g_map : option gmap;       (* gid_hash, NULL before the first good build *)
  g_tlast : Z;               (* t_last_update *)
  g_dostat : Z;              (* do_group_stat: 1 on, 0 off, -1 disabled after a stat() error *)
  g_timer : option N;        (* msec of the pending timer_set_relative, None = no timer *)
  g_interval : Z             (* interval_secs *)
}.

(* !! x *)
Definition notnot (x : Z) : Z := if (x =? 0)%Z then 0%Z else 1%Z.

(* gids_update (also the SIGHUP handler's action): expired timer, flag := !!flag *)
Definition sighup (st : gstate) : gstate :=
  mkG (g_map st) (g_tlast st) (notnot (g_dostat st)) (Some 0) (g_interval st).

(* gids_create for interval_secs >= 0 *)
Definition gids_create (interval dostat : Z) : gstate :=
  sighup (mkG None 0%Z dostat None interval).

(* what _gids_map_update holds between releasing and re-taking the mutex *)
Record pending := mkP {
  p_map : option gmap;       (* result of _gids_map_create, None = not attempted or failed *)
  p_now : Z;
  p_dostat : Z               (* local do_group_stat, -2 after a stat() failure *)
}.

(* first half: snapshot flag and t_last under the mutex, time(), stat(), build off-lock.
   [mtime] = None when stat() fails. *)
(* the decision taken before the build: (local do_group_stat, do_update) *)
Definition begin_decide (st : gstate) (mtime : option Z) : Z * bool :=
  let ds := g_dostat st in
  if (0 <? ds)%Z then
    match mtime with
    | None => ((-2)%Z, true)
    | Some mt => (ds, negb (mt <=? g_tlast st)%Z)
    end
  else (ds, true).

Definition refresh_begin (st : gstate) (now : Z) (mtime : option Z)
           (pw : pwfun) (db : grdb) (sched : list fault) : pending :=
  let '(ds', do_update) := begin_decide st mtime in
  mkP (if do_update then map_create pw db sched else None) now ds'.

(* second half, under the mutex: swap, t_last, flag, next timer *)
Definition refresh_commit (st : gstate) (p : pending) : gstate :=
  mkG (match p_map p with Some m => Some m | None => g_map st end)
      (match p_map p with Some _ => p_now p | None => g_tlast st end)
      (if (p_dostat p <? -1)%Z then (-1)%Z else g_dostat st)
      (if (0 <? g_interval st)%Z then Some (Z.to_N (g_interval st * 1000)) else None)
      (g_interval st).

Definition refresh (st : gstate) (now : Z) (mtime : option Z)
           (pw : pwfun) (db : grdb) (sched : list fault) : gstate :=
  refresh_commit st (refresh_begin st now mtime pw db sched).

(* ---- the system: databases + daemon state + an update in flight ---- *)
Record world := mkW { w_db : grdb; w_pw : pwfun; w_mtime : option Z }.
Record sys := mkS { s_g : gstate; s_w : world; s_pend : option pending }.

Inductive label :=
| LEdit (w : world)                         (* the administrator replaces the databases *)
| LBegin (now : Z) (sched : list fault)     (* timer fires: first half of _gids_map_update *)
| LCommit                                   (* second half: the swap under the mutex *)
| LSighup                                   (* gids_update *)
| LLookup (u g : N).                        (* gids_is_member from any worker thread *)

(* one atomic step; the timer thread runs one update at a time, so LBegin needs no
   update in flight and LCommit needs one *)
Definition step (s : sys) (l : label) : option (sys * option bool) :=
  match l with
  | LEdit w => Some (mkS (s_g s) w (s_pend s), None)
  | LBegin now sched =>
      match s_pend s with
      | Some _ => None
      | None => Some (mkS (s_g s) (s_w s)
                          (Some (refresh_begin (s_g s) now (w_mtime (s_w s))
                                               (w_pw (s_w s)) (w_db (s_w s)) sched)), None)
      end
  | LCommit =>
      match s_pend s with
      | None => None
      | Some p => Some (mkS (refresh_commit (s_g s) p) (s_w s) None, None)
      end
  | LSighup => Some (mkS (sighup (s_g s)) (s_w s) (s_pend s), None)
  | LLookup u g => Some (s, Some (is_member (g_map (s_g s)) u g))
  end.

Fixpoint exec (s : sys) (tr : list label) : option (sys * list (N * N * bool)) :=
  match tr with
  | [] => Some (s, [])
  | l :: r =>
      match step s l with
      | None => None
      | Some (s', o) =>
          match exec s' r with
          | None => None
          | Some (s'', outs) =>
              Some (s'', match l, o with
                         | LLookup u g, Some b => (u, g, b) :: outs
                         | _, _ => outs
                         end)
          end
      end
  end.

Definition sys_init (interval dostat : Z) (w : world) : sys :=
  mkS (gids_create interval dostat) w None.

(* what the scan is given when setgrent() could not open the group database (no free descriptor: EMFILE): glibc's
   getgrent_r then answers ENOENT — "no more entries" — at once, without an error the caller could tell from a database
   that really is empty *)
Definition delivered_by_scan (open_ok : bool) (db : grdb) : grdb := if open_ok then db else [].

(* passwd database given as a list, first match wins (getpwnam); uid None = lookup error *)
Fixpoint pw_of_list (l : list (name * option N)) (n : name) : pwres :=
  match l with
  | [] => PwNone
  | (k, ou) :: r =>
      if name_eqb k n then match ou with Some u => PwOk u | None => PwErr end
      else pw_of_list r n
  end.
