(* MsgClientSource.v — the member every output of munge_decode / munge_encode is copied from, as MEASURED on the
   current source (gen/GenMsgClientCopy.v: the calls are run on a response object whose members hold distinct
   marker values), is the member MsgClientModel's dec_out / enc_out read; and they read nothing else. *)
From Coq Require Import List NArith ZArith Bool.
From MV Require Import Bytes MsgModel MsgClientModel.
From MV.gen Require Import GenMsg GenMsgClient GenMsgClientCopy GenMsgClientSrc.
Import ListNotations.

Lemma copies_match_source :
  (forall o, measured_dec_src o = dec_src o) /\ (forall o, measured_enc_src o = enc_src o).
Proof. split; intros o; destruct o; reflexivity. Qed.

Definition same_at (m m' : msg) (s : dsrc) : Prop :=
  match s with SrcN f => nv m f = nv m' f | SrcB b => bv m b = bv m' b | SrcNone => True end.

Lemma dec_out_reads_sources m m' :
  err_local m = err_local m' -> (forall o, same_at m m' (dec_src o)) -> dec_out m = dec_out m'.
Proof.
  intros L H. unfold dec_out, estr_of, content.
  pose proof (H Oerr) as A1. pose proof (H Ocipher) as A2. pose proof (H Omac) as A3. pose proof (H Ozip) as A4.
  pose proof (H Orealm) as A5. pose proof (H Ottl) as A6. pose proof (H Oaddr) as A7. pose proof (H Otime0) as A8.
  pose proof (H Otime1) as A9. pose proof (H Oauth_uid) as A10. pose proof (H Oauth_gid) as A11.
  pose proof (H Obuf) as A12. pose proof (H Olen) as A13. pose proof (H Ouid) as A14. pose proof (H Ogid) as A15.
  pose proof (H Oerrstr) as A16. cbn in *.
  rewrite L, A1, A2, A3, A4, A5, A6, A7, A8, A9, A10, A11, A12, A13, A14, A15, A16. reflexivity.
Qed.

Lemma enc_out_reads_sources m m' :
  err_local m = err_local m' -> (forall o, same_at m m' (enc_src o)) -> enc_out m = enc_out m'.
Proof.
  intros L H. unfold enc_out, estr_of.
  pose proof (H Eerr) as A1. pose proof (H Ecred) as A2. pose proof (H Eerrstr) as A3. cbn in *.
  rewrite L, A1, A2, A3. reflexivity.
Qed.

(* what a translator reads off the text of m_msg_client_xfer / _decode_rsp / _encode_rsp is what running them shows *)
Definition sanity_accepts (s : option N) (t : N) : bool := match s with Some x => (t =? x)%N | None => true end.

Lemma text_matches_measured :
  (forall c, (c < 256)%N -> src_xfer_exptype c = xfer_exptype c)
  /\ src_xfer_recv_maxlen = xfer_recv_maxlen /\ src_xfer_send_maxlen = xfer_send_maxlen
  /\ (forall t, (t < 256)%N -> sanity_accepts src_dec_sanity t = dec_rsp_accepts t)
  /\ (forall t, (t < 256)%N -> sanity_accepts src_enc_sanity t = enc_rsp_accepts t).
Proof.
  assert (E : forall (A : Type) (eqb : A -> A -> bool), (forall a b, eqb a b = true -> a = b) ->
              forall (f g : N -> A), allb 256 (fun c => eqb (f c) (g c)) = true -> forall c, (c < 256)%N -> f c = g c).
  { intros A eqb EQ f g H c C. apply EQ. exact (allb_spec 256 _ H c C). }
  split.
  { apply (E (option N) (fun a b => match a, b with Some x, Some y => (x =? y)%N | None, None => true | _, _ => false end)).
    - intros [x|] [y|] H; try discriminate; [apply N.eqb_eq in H; congruence|reflexivity].
    - vm_compute. reflexivity. }
  split; [reflexivity|]. split; [reflexivity|].
  split; apply (E bool Bool.eqb); try (intros a b H; apply Bool.eqb_prop; exact H); vm_compute; reflexivity.
Qed.
