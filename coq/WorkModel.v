(* WorkModel.v — executable model of src/munged/work.c (work crew) and of the
   accept loop of src/munged/job.c.  No proofs here.

   Threads: one acceptor (the thread that calls work_queue / work_wait /
   work_fini, i.e. job_accept) and n workers (_work_exec).  Every label is one
   critical section of work.c (everything a thread does between acquiring
   wp->lock and releasing it by unlock / pthread_cond_wait / cancellation), or
   one call made outside the lock (pthread_cond_signal on received_work,
   pthread_cancel, pthread_join).  The mutex makes critical sections atomic.

     work_queue     LEnqueue x ; (LSignal _  when do_signal was set)
     work_wait      LWaitEnter ; (LWaitWake | LAccSpurious)*
     work_fini      LFiniEnter do_wait ; (LWaitWake | LAccSpurious)* ;
                    LCancel^(n+1) ; LJoin^(n+1)
     _work_exec     LStart i ; then LFinish i / LRetest i / LSpurious i / LDie i

   The two wait loops   while (GUARD) pthread_cond_wait (&finished_work, &lock)
   are parameters: wait_cond (work_wait) and fini_cond (work_fini) map
   (n_working, work_head != NULL) to the value of GUARD.  The guard of the
   current source is probed into gen/GenWork.v.

   Cancellation (deferred type): acts only at pthread_testcancel (top of the
   for-loop, lock held) and inside pthread_cond_wait; it is disabled from the
   dequeue until n_working-- .                                              *)
From Coq Require Import List Arith Bool.
Import ListNotations.

Notation item := nat (only parsing).

Inductive wstate :=
| WReady                 (* thread created, has not yet acquired the lock *)
| WWoken                 (* in pthread_cond_wait, unblocked, lock not yet re-acquired *)
| WWaiting               (* blocked in pthread_cond_wait (&received_work) *)
| WWorking (x : item)    (* inside work_func (x), lock released, cancellation disabled *)
| WDead.                 (* cancelled; cleanup handler has released the lock *)
Record worker := mkw { ws : wstate; cp : bool (* cancel request pending *) }.
Inductive waitkind := KWait | KFini.
Inductive astate :=
| ARun                          (* outside work.c, or between calls *)
| ASig                          (* work_queue: lock released, do_signal = 1 *)
| ABlocked (k : waitkind)       (* in pthread_cond_wait (&finished_work) *)
| AWoken (k : waitkind)         (* unblocked, about to re-test the guard *)
| ACancelling (j : nat)         (* work_fini: next pthread_cancel is for worker j *)
| AJoining (j : nat)            (* work_fini: next pthread_join is for worker j *)
| ADone.                        (* work_fini returned *)

Record st := mkst {
  queue : list item;            (* work_head .. work_tail *)
  nworking : nat;               (* n_working *)
  fini : bool;                  (* got_fini *)
  dwait : bool;                 (* do_wait argument of work_fini (history) *)
  workers : list worker;
  done : list item;             (* items whose work_func has returned (history) *)
  deqlog : list (item * nat);   (* (item, worker) for every dequeue (history) *)
  acc : astate;
  accepted : list item          (* items for which work_queue returned 0 (history) *)
}.

Definition upd {A} (l : list A) (i : nat) (a : A) : list A :=
  firstn i l ++ match skipn i l with [] => [] | _ :: t => a :: t end.

Definition nonempty {A} (l : list A) : bool := match l with [] => false | _ => true end.

Definition wi (w : worker) : list item := match ws w with WWorking x => [x] | _ => [] end.
Definition working_items (l : list worker) : list item := flat_map wi l.
Definition count_working (l : list worker) : nat := length (working_items l).
Definition in_progress (s : st) : list item := working_items (workers s).

Definition is_waiting (w : worker) : bool := match ws w with WWaiting => true | _ => false end.
Definition is_dead (w : worker) : bool := match ws w with WDead => true | _ => false end.
(* a worker that will look at the queue without a further wake-up *)
Definition is_active (w : worker) : bool :=
  match ws w with WReady | WWoken | WWorking _ => true | _ => false end.

Definition set_acc (s : st) (a : astate) : st :=
  mkst (queue s) (nworking s) (fini s) (dwait s) (workers s) (done s) (deqlog s) a (accepted s).
Definition setw (s : st) (i : nat) (w : worker) : st :=
  mkst (queue s) (nworking s) (fini s) (dwait s) (upd (workers s) i w) (done s) (deqlog s) (acc s) (accepted s).

Inductive label :=
| LEnqueue (x : item)        (* work_queue critical section *)
| LSignal (i : option nat)   (* pthread_cond_signal (&received_work): wakes waiter i; None = nobody waits *)
| LStart (i : nat)           (* worker i: first lock, testcancel, loop test *)
| LRetest (i : nat)          (* worker i: cond_wait returns, loop test *)
| LSpurious (i : nat)        (* worker i: spurious wake-up *)
| LDie (i : nat)             (* worker i: cancelled inside pthread_cond_wait *)
| LFinish (i : nat)          (* worker i: work_func returned; lock, n_working--, signal, testcancel, loop test *)
| LWaitEnter                 (* work_wait: lock, first guard test *)
| LFiniEnter (dw : bool)     (* work_fini: lock, got_fini = 1, first guard test when do_wait *)
| LWaitWake                  (* waiter on finished_work re-acquires the lock and re-tests *)
| LAccSpurious               (* spurious wake-up of that waiter *)
| LCancel                    (* next pthread_cancel (or end of the cancel loop) *)
| LJoin.                     (* next pthread_join (or end of the join loop) *)

Definition tabguard (t : list bool) (n : nat) (h : bool) : bool :=
  nth ((if Nat.eqb n 0 then 0 else 2) + (if h then 1 else 0)) t false.
Definition tab_or : list bool := [false; true; true; true].
Definition tab_and : list bool := [false; false; false; true].
Definition guard_or (n : nat) (h : bool) : bool := negb (Nat.eqb n 0) || h.
Definition guard_and (n : nat) (h : bool) : bool := negb (Nat.eqb n 0) && h.

Section Guard.
Variable wait_cond fini_cond : nat -> bool -> bool.

Definition guard_of (k : waitkind) := match k with KWait => wait_cond | KFini => fini_cond end.
Definition guard_exit (k : waitkind) : astate := match k with KWait => ARun | KFini => ACancelling 0 end.

(* while (GUARD) pthread_cond_wait (...); unlock *)
Definition check_guard (s : st) (k : waitkind) : st :=
  set_acc s (if guard_of k (nworking s) (nonempty (queue s)) then ABlocked k else guard_exit k).

(* while (!work_head) cond_wait; else disable cancel, dequeue, n_working++, unlock *)
Definition take (s : st) (i : nat) (w : worker) : st :=
  match queue s with
  | [] => setw s i (mkw WWaiting (cp w))
  | x :: q => mkst q (S (nworking s)) (fini s) (dwait s) (upd (workers s) i (mkw (WWorking x) (cp w)))
                   (done s) (deqlog s ++ [(x, i)]) (acc s) (accepted s)
  end.

(* top of the for-loop: pthread_testcancel, then the loop test *)
Definition enter (s : st) (i : nat) (w : worker) : st :=
  if cp w then setw s i (mkw WDead true) else take s i w.

(* does the finishing worker signal finished_work?  (evaluated before n_working--) *)
Definition finish_signals (s : st) : bool := Nat.eqb (pred (nworking s)) 0 && negb (nonempty (queue s)).

Definition wake_acc (a : astate) : astate := match a with ABlocked k => AWoken k | _ => a end.

(* work_func returned: lock; n_working--; enable cancel; signal when idle *)
Definition finish1 (s : st) (i : nat) (w : worker) (x : item) : st :=
  mkst (queue s) (pred (nworking s)) (fini s) (dwait s) (upd (workers s) i (mkw WReady (cp w)))
       (done s ++ [x]) (deqlog s) (if finish_signals s then wake_acc (acc s) else acc s) (accepted s).

Definition step (s : st) (l : label) : option st :=
  match l with
  | LEnqueue x =>
      match acc s, fini s with
      | ARun, false =>
          Some (mkst (queue s ++ [x]) (nworking s) false (dwait s) (workers s) (done s) (deqlog s)
                     (if Nat.ltb (nworking s) (length (workers s)) then ASig else ARun)
                     (accepted s ++ [x]))
      | _, _ => None
      end
  | LSignal oi =>
      match acc s with
      | ASig =>
          match oi with
          | None => if existsb is_waiting (workers s) then None else Some (set_acc s ARun)
          | Some i => match nth_error (workers s) i with
                      | Some w => if is_waiting w then Some (setw (set_acc s ARun) i (mkw WWoken (cp w))) else None
                      | None => None end
          end
      | _ => None
      end
  | LStart i =>
      match nth_error (workers s) i with
      | Some w => match ws w with WReady => Some (enter s i w) | _ => None end
      | None => None end
  | LRetest i =>
      match nth_error (workers s) i with
      | Some w => match ws w with WWoken => Some (take s i w) | _ => None end
      | None => None end
  | LSpurious i =>
      match nth_error (workers s) i with
      | Some w => if is_waiting w then Some (setw s i (mkw WWoken (cp w))) else None
      | None => None end
  | LDie i =>
      match nth_error (workers s) i with
      | Some w => match ws w with
                  | WWaiting | WWoken => if cp w then Some (setw s i (mkw WDead true)) else None
                  | _ => None end
      | None => None end
  | LFinish i =>
      match nth_error (workers s) i with
      | Some w => match ws w with
                  | WWorking x => Some (enter (finish1 s i w x) i (mkw WReady (cp w)))
                  | _ => None end
      | None => None end
  | LWaitEnter => match acc s with ARun => Some (check_guard s KWait) | _ => None end
  | LFiniEnter dw =>
      match acc s with
      | ARun => let s1 := mkst (queue s) (nworking s) true dw (workers s) (done s) (deqlog s) (acc s) (accepted s) in
                Some (if dw then check_guard s1 KFini else set_acc s1 (ACancelling 0))
      | _ => None end
  | LWaitWake => match acc s with AWoken k => Some (check_guard s k) | _ => None end
  | LAccSpurious => match acc s with ABlocked k => Some (set_acc s (AWoken k)) | _ => None end
  | LCancel =>
      match acc s with
      | ACancelling j =>
          match nth_error (workers s) j with
          | Some w => Some (setw (set_acc s (ACancelling (S j))) j (mkw (ws w) true))
          | None => Some (set_acc s (AJoining 0)) end
      | _ => None end
  | LJoin =>
      match acc s with
      | AJoining j =>
          match nth_error (workers s) j with
          | Some w => if is_dead w then Some (set_acc s (AJoining (S j))) else None
          | None => Some (set_acc s ADone) end
      | _ => None end
  end.

Fixpoint run (s : st) (ls : list label) : option st :=
  match ls with [] => Some s | l :: r => match step s l with Some s' => run s' r | None => None end end.

(* ---- trace checking (extracted; fed with the event log of the real work.c) ---- *)

Definition wclass (w : wstate) : nat :=
  match w with WReady => 0 | WWoken => 1 | WWaiting => 2 | WWorking _ => 3 | WDead => 4 end.
Definition aclass (a : astate) : nat :=
  match a with ARun => 0 | ASig => 1 | ABlocked KWait => 2 | AWoken KWait => 3 | ABlocked KFini => 4
             | AWoken KFini => 5 | ACancelling _ => 6 | AJoining _ => 7 | ADone => 8 end.

Inductive tev :=
| TStep (l : label)
        (wexp : option (nat * nat))   (* worker index, observed class after the step *)
        (aexp : option nat)           (* observed acceptor class after the step *)
        (sexp : option bool)          (* LFinish: was finished_work signalled in this section *)
| TJob (i : nat) (x : item).          (* work_func entered by worker i with item x *)

Definition opt_ok {A} (eqb : A -> A -> bool) (e : option A) (a : A) : bool :=
  match e with None => true | Some b => eqb b a end.

Definition tev_ok (s : st) (e : tev) : option st :=
  match e with
  | TJob i x => match nth_error (workers s) i with
                | Some w => match ws w with WWorking y => if Nat.eqb x y then Some s else None | _ => None end
                | None => None end
  | TStep l wexp aexp sexp =>
      match step s l with
      | None => None
      | Some s' =>
          let okw := match wexp with
                     | None => true
                     | Some (i, c) => match nth_error (workers s') i with
                                      | Some w => Nat.eqb (wclass (ws w)) c | None => false end end in
          let oka := opt_ok Nat.eqb aexp (aclass (acc s')) in
          let oks := opt_ok Bool.eqb sexp (finish_signals s) in
          if okw && oka && oks then Some s' else None
      end
  end.

(* (None, final state) when the whole log is a run of the LTS with the observed
   outcomes; (Some k, state before event k) when event k is not possible *)
Fixpoint check_trace (s : st) (k : nat) (t : list tev) : option nat * st :=
  match t with
  | [] => (None, s)
  | e :: r => match tev_ok s e with Some s' => check_trace s' (S k) r | None => (Some k, s) end
  end.

End Guard.

Definition init (n : nat) : st :=
  mkst [] 0 false false (repeat (mkw WReady false) n) [] [] ARun [].

Definition past_wait (a : astate) : bool :=
  match a with ACancelling _ | AJoining _ | ADone => true | _ => false end.

(* labels that are steps of a worker, or the delivery of an already pending wake-up *)
Definition worker_label (l : label) : bool :=
  match l with LStart _ | LRetest _ | LFinish _ | LSignal _ => true | _ => false end.

(* ------------------------------------------------------------------------- *)
(* The accept loop of job_accept:                                             *)
(*    while (!got_terminate) { sd = accept (...); ... work_queue ... }        *)
(* with the handler  got_terminate = sig  installed without SA_RESTART.       *)
(* atomic = true models the repaired loop (signals blocked except inside an   *)
(* atomic unblock-and-wait such as ppoll/pselect).                            *)
(* ------------------------------------------------------------------------- *)
Inductive apc := PTest | PCall | PInAccept | PExit.
Record acst := mkac { a_pc : apc; a_flag : bool; a_sigpend : bool; a_conns : nat }.
Inductive alabel :=
| XSignal      (* environment: SIGTERM/SIGINT is sent to the process *)
| XDeliver     (* the handler runs (sets the flag; interrupts a blocked accept with EINTR) *)
| XConn        (* environment: a client connects *)
| XTest        (* acceptor evaluates  !got_terminate *)
| XCall        (* acceptor enters accept () *)
| XAccept.     (* accept () returns a connection, request queued, back to the test *)

Section Accept.
Variable atomic : bool.

Definition astep (s : acst) (l : alabel) : option acst :=
  match l with
  | XSignal => match a_pc s with PExit => None | _ => Some (mkac (a_pc s) (a_flag s) true (a_conns s)) end
  | XDeliver =>
      if a_sigpend s then
        match a_pc s with
        | PInAccept => Some (mkac PTest true false (a_conns s))          (* EINTR: continue *)
        | PExit => None
        | pc => if atomic then None                                       (* signals blocked here *)
                else Some (mkac pc true false (a_conns s))
        end
      else None
  | XConn => Some (mkac (a_pc s) (a_flag s) (a_sigpend s) (S (a_conns s)))
  | XTest => match a_pc s with
             | PTest => Some (mkac (if a_flag s then PExit else PCall) (a_flag s) (a_sigpend s) (a_conns s))
             | _ => None end
  | XCall => match a_pc s with
             | PCall => Some (mkac PInAccept (a_flag s) (a_sigpend s) (a_conns s))
             | _ => None end
  | XAccept => match a_pc s, a_conns s with
               | PInAccept, S c => Some (mkac PTest (a_flag s) (a_sigpend s) c)
               | _, _ => None end
  end.

Fixpoint arun (s : acst) (ls : list alabel) : option acst :=
  match ls with [] => Some s | l :: r => match astep s l with Some s' => arun s' r | None => None end end.

(* steps of the daemon itself (everything but the environment's XSignal / XConn) *)
Definition internal (l : alabel) : bool := match l with XSignal | XConn => false | _ => true end.

(* a stop request has been made, the daemon has not exited, and nothing the
   daemon can do by itself is enabled: it sits in accept() until a client comes *)
Definition stop_lost (s : acst) : Prop :=
  (a_flag s = true \/ a_sigpend s = true) /\ a_pc s <> PExit /\ a_conns s = 0 /\
  forall l, internal l = true -> astep s l = None.

End Accept.

Definition ainit : acst := mkac PTest false false 0.
