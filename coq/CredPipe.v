(* CredPipe.v — the CONTROL structure of dec_process_msg / enc_process_msg, read from the source text on every run
   (tools/facts/cfun.py -> gen/GenCredFun.v: src_dec_process_msg, src_enc_process_msg, polymorphic in the state of one
   request and in the stage functions), is
     (1) the reference control structure `pipe_control` over the model's stage order, for EVERY interpretation of the
         stages (src_dec_process_msg_is_pipe / src_enc_process_msg_is_pipe): stage after stage in that order, the chain
         ends at the first failing stage, m_msg_reset unless the error is exempt, m_msg_send, and replay_remove exactly
         when the send failed, every stage had succeeded AND the request's c->is_replay_new is set (the replay stage
         added the record itself);
     (2) and CredModel's dec_process + dec_rollback (and enc_process) ARE pipe_control over the model's stage functions
         (dec_process_is_pipe, enc_process_is_pipe), so that
     (3) the translated source function, run over the model's stage functions, is the model
         (dec_process_is_source, dec_attempt_is_source, enc_process_is_source).
   A swapped pair of stages, a dropped or widened `rc == 0` guard, a changed exemption list or reset guard changes the
   generated function and breaks (1). *)
From Coq Require Import List NArith ZArith Bool String Lia.
From RecordUpdate Require Import RecordSet.
From MV Require Import Bytes CredModel CredProofs CredFun RetryModel RetryProofs.
From MV.gen Require Import GenCred GenCredFun.
Import ListNotations RecordSetNotations.
Local Open Scope N_scope.
Local Notation length := List.length.

(* ==================================================================== *)
(* 1. the reference control structure                                   *)
(* ==================================================================== *)
(* a stage has failed: cred_create returns a pointer (NULL = failure), every other stage an int (< 0 = failure) *)
Definition stage_failed (n : string) (v : Z) : bool :=
  if String.eqb n "cred_create" then (v =? 0)%Z else (v <? 0)%Z.

(* the stages in order; the chain ends at the first one that fails.  true = every stage succeeded *)
Fixpoint run_chain {S : Type} (ops : pipe_ops S) (names : list string) (s : S) : bool * S :=
  match names with
  | [] => (true, s)
  | n :: r => let '(v, s') := op_stage ops n s in
              if stage_failed n v then (false, s') else run_chain ops r s'
  end.

(* after the chain: sanitise the reply unless the error is exempt; send; take the replay record back when the reply
   of a SUCCESSFUL request could not be sent and the request's bit `unplay = Some member` of struct munge_cred is set
   (the request added the record itself); None: the function owns no replay record *)
Definition owns_record {S : Type} (ops : pipe_ops S) (unplay : option string) (s : S) : bool :=
  match unplay with Some f => negb (op_cred ops f s =? 0)%Z | None => false end.

Definition pipe_finish {S : Type} (ops : pipe_ops S) (exempt : N -> bool) (unplay : option string) (ok : bool) (s : S)
  : Z * S :=
  let s := if negb ok && negb (exempt (m_err (op_msg ops s))) then op_reset ops s else s in
  let '(v, s) := op_send ops s in
  if (v =? Z.of_N e_success)%Z then ((if ok then 0 else -1)%Z, s)
  else ((-1)%Z, if ok && owns_record ops unplay s then op_unplay ops s else s).

Definition pipe_control {S : Type} (ops : pipe_ops S) (names : list string) (exempt : N -> bool) (unplay : option string)
           (s : S) : Z * S :=
  let '(ok, s) := run_chain ops names s in pipe_finish ops exempt unplay ok s.

(* the model's stage order (dec_process / dec_parse; enc_pre / enc_core), by the C names *)
Definition dec_stage_order : list string :=
  ["dec_validate_msg"; "cred_create"; "dec_timestamp"; "dec_authenticate"; "dec_check_retry"; "dec_unarmor";
   "dec_unpack_outer"; "dec_decrypt"; "dec_validate_mac"; "dec_decompress"; "dec_unpack_inner"; "dec_validate_auth";
   "dec_validate_time"; "dec_validate_replay"]%string.
Definition enc_stage_order : list string :=
  ["enc_validate_msg"; "cred_create"; "enc_init"; "enc_authenticate"; "enc_check_retry"; "enc_timestamp";
   "enc_pack_outer"; "enc_pack_inner"; "enc_compress"; "enc_mac"; "enc_encrypt"; "enc_armor"; "enc_fini"]%string.

Lemma soft_err_z (e : N) :
  negb (Z.of_N e =? Z.of_N e_cred_expired)%Z && negb (Z.of_N e =? Z.of_N e_cred_rewound)%Z
    && negb (Z.of_N e =? Z.of_N e_cred_replayed)%Z = negb (soft_err e).
Proof.
  unfold soft_err. rewrite !zeqb.
  destruct (e =? e_cred_expired), (e =? e_cred_rewound), (e =? e_cred_replayed); reflexivity.
Qed.

(* one stage of the chain on both sides: name the stage's result, split on its failure test *)
Ltac chain_stage :=
  match goal with
  | |- context [op_stage ?ops ?n ?s] =>
      let v := fresh "v" in let s' := fresh "s" in
      destruct (op_stage ops n s) as [v s'];
      cbn [stage_failed String.eqb Ascii.eqb Bool.eqb]; cbn beta iota zeta;
      rewrite ?negb_involutive;
      match goal with
      | |- context [(v <? 0)%Z] => destruct (v <? 0)%Z
      | |- context [(v =? 0)%Z] => destruct (v =? 0)%Z
      end; cbn beta iota zeta
  end.

Ltac chain_consts := cbn [Z.eqb Z.opp negb andb].

Ltac chain_tail :=
  unfold pipe_finish, owns_record; cbn [negb andb]; cbn beta iota zeta; chain_consts; rewrite ?soft_err_z;
  repeat (match goal with
          | |- context [if negb ?b then _ else _] => destruct b
          | |- context [if ?b then _ else _] => destruct b
          | |- context [let '(_, _) := op_send ?ops ?s in _] =>
              let v := fresh "v" in let s' := fresh "s" in destruct (op_send ops s) as [v s']
          end; cbn beta iota zeta; chain_consts);
  reflexivity.

(* THE SOURCE'S dec_process_msg IS pipe_control: for every interpretation of the stage functions, of the reset, of the
   send and of replay_remove *)
Theorem src_dec_process_msg_is_pipe : forall (S : Type) (ops : pipe_ops S) (s : S),
  src_dec_process_msg ops s = pipe_control ops dec_stage_order soft_err (Some "is_replay_new"%string) s.
Proof.
  intros S ops s. unfold src_dec_process_msg, pipe_control, dec_stage_order. cbn [run_chain].
  do 14 (chain_stage; [chain_tail|]).
  chain_tail.
Qed.

(* ... and enc_process_msg: every failure is sanitised, there is no replay record to take back *)
Theorem src_enc_process_msg_is_pipe : forall (S : Type) (ops : pipe_ops S) (s : S),
  src_enc_process_msg ops s = pipe_control ops enc_stage_order (fun _ => false) None s.
Proof.
  intros S ops s. unfold src_enc_process_msg, pipe_control, enc_stage_order. cbn [run_chain].
  do 13 (chain_stage; [chain_tail|]).
  chain_tail.
Qed.

(* ==================================================================== *)
(* 2. the source skeletons over ABSTRACT stage outcomes                 *)
(* ==================================================================== *)
(* `fail n = Some e`: stage n fails and leaves error code e in the message; None: it succeeds.  `added`: the value of
   the request's c->is_replay_new when the tail reads it (the replay stage added the record itself).  The state records
   which stages ran, whether the reply was sanitised, sent, and whether the replay record was taken back. *)
Record tstate := { t_log : list string; t_err : N; t_reset : bool; t_sent : bool; t_unplayed : bool }.
Definition t0 : tstate := {| t_log := []; t_err := 0; t_reset := false; t_sent := false; t_unplayed := false |}.

Definition trace_ops (fail : string -> option N) (added send_ok : bool) : pipe_ops tstate := {|
  op_msg := fun s => msg0 <| m_err := t_err s |>;
  op_cred := fun _ _ => b2z added;
  op_stage := fun n s =>
    match fail n with
    | Some e => ((if String.eqb n "cred_create" then 0 else -1)%Z,
                 {| t_log := t_log s ++ [n]; t_err := e; t_reset := t_reset s; t_sent := t_sent s; t_unplayed := t_unplayed s |})
    | None => (1%Z, {| t_log := t_log s ++ [n]; t_err := t_err s; t_reset := t_reset s; t_sent := t_sent s;
                       t_unplayed := t_unplayed s |})
    end;
  op_reset := fun s => {| t_log := t_log s; t_err := t_err s; t_reset := true; t_sent := t_sent s; t_unplayed := t_unplayed s |};
  op_send := fun s => ((if send_ok then 0 else Z.of_N e_socket)%Z,
                       {| t_log := t_log s; t_err := t_err s; t_reset := t_reset s; t_sent := true; t_unplayed := t_unplayed s |});
  op_unplay := fun s => {| t_log := t_log s; t_err := t_err s; t_reset := t_reset s; t_sent := t_sent s; t_unplayed := true |}
|}.

(* the stages up to and including the first failing one, and its error code *)
Fixpoint upto (fail : string -> option N) (names : list string) : list string * option N :=
  match names with
  | [] => ([], None)
  | n :: r => match fail n with
              | Some e => ([n], Some e)
              | None => let '(l, e) := upto fail r in (n :: l, e)
              end
  end.

Lemma stage_failed_fail n : stage_failed n (if String.eqb n "cred_create" then 0 else -1)%Z = true.
Proof. unfold stage_failed. destruct (String.eqb n "cred_create"); reflexivity. Qed.
Lemma stage_failed_ok n : stage_failed n 1%Z = false.
Proof. unfold stage_failed. destruct (String.eqb n "cred_create"); reflexivity. Qed.

Lemma run_chain_trace fail ad so names : forall s,
  run_chain (trace_ops fail ad so) names s =
  (match snd (upto fail names) with None => true | Some _ => false end,
   {| t_log := t_log s ++ fst (upto fail names);
      t_err := match snd (upto fail names) with None => t_err s | Some e => e end;
      t_reset := t_reset s; t_sent := t_sent s; t_unplayed := t_unplayed s |}).
Proof.
  induction names as [|n r IH]; intros s.
  - cbn. rewrite app_nil_r. destruct s; reflexivity.
  - cbn [run_chain upto trace_ops op_stage]. destruct (fail n) as [e|].
    + rewrite stage_failed_fail. reflexivity.
    + rewrite stage_failed_ok, IH. destruct (upto fail r) as [l e]. cbn. rewrite <- app_assoc. reflexivity.
Qed.

Definition outcomes (names : list string) (exempt : N -> bool) (unplay : option string) (fail : string -> option N)
           (added send_ok : bool) : Z * tstate :=
  let '(l, e) := upto fail names in
  ((match e with None => if send_ok then 0 else -1 | Some _ => -1 end)%Z,
   {| t_log := l;
      t_err := match e with None => 0 | Some e => e end;
      t_reset := match e with None => false | Some e => negb (exempt e) end;
      t_sent := true;
      t_unplayed := negb send_ok && (match unplay with Some _ => added | None => false end)
                    && match e with None => true | Some _ => false end |}).

Lemma pipe_control_outcomes names exempt unplay fail ad so :
  pipe_control (trace_ops fail ad so) names exempt unplay t0 = outcomes names exempt unplay fail ad so.
Proof.
  unfold pipe_control, outcomes. rewrite run_chain_trace. destruct (upto fail names) as [l [e|]]; cbn.
  - destruct (exempt e), so, unplay, ad; reflexivity.
  - destruct so, unplay, ad; reflexivity.
Qed.

(* dec_process_msg, read from the source: the stages run in the model's order up to the first failing one and no
   further; the reply is sanitised exactly for a failure whose code is not expired/rewound/replayed; the reply is always
   sent; replay_remove is called EXACTLY when the send failed, every stage had succeeded and the request added the
   record itself *)
Theorem src_dec_outcomes : forall (fail : string -> option N) (added send_ok : bool),
  src_dec_process_msg (trace_ops fail added send_ok) t0 =
  outcomes dec_stage_order soft_err (Some "is_replay_new"%string) fail added send_ok.
Proof. intros. rewrite src_dec_process_msg_is_pipe. apply pipe_control_outcomes. Qed.

Theorem src_enc_outcomes : forall (fail : string -> option N) (added send_ok : bool),
  src_enc_process_msg (trace_ops fail added send_ok) t0 = outcomes enc_stage_order (fun _ => false) None fail added send_ok.
Proof. intros. rewrite src_enc_process_msg_is_pipe. apply pipe_control_outcomes. Qed.

Definition all_succeed (fail : string -> option N) (names : list string) : bool :=
  match snd (upto fail names) with None => true | Some _ => false end.

Corollary src_dec_unplay_iff : forall fail added send_ok,
  t_unplayed (snd (src_dec_process_msg (trace_ops fail added send_ok) t0)) =
  negb send_ok && all_succeed fail dec_stage_order && added.
Proof.
  intros. rewrite src_dec_outcomes. unfold outcomes, all_succeed.
  destruct (upto fail dec_stage_order) as [l [e|]]; cbn; destruct send_ok, added; reflexivity.
Qed.

Corollary src_enc_never_unplays : forall fail added send_ok,
  t_unplayed (snd (src_enc_process_msg (trace_ops fail added send_ok) t0)) = false.
Proof.
  intros. rewrite src_enc_outcomes. unfold outcomes.
  destruct (upto fail enc_stage_order) as [l [e|]]; cbn; destruct send_ok; reflexivity.
Qed.

(* the checks of a decode, in the order the source runs them: authorization before the time window before the replay
   cache, which is last; MAC before decompression before the inner unpack *)
Corollary src_dec_stage_order : forall added send_ok,
  t_log (snd (src_dec_process_msg (trace_ops (fun _ => None) added send_ok) t0)) = dec_stage_order.
Proof. intros. rewrite src_dec_outcomes. reflexivity. Qed.
Corollary src_enc_stage_order : forall added send_ok,
  t_log (snd (src_enc_process_msg (trace_ops (fun _ => None) added send_ok) t0)) = enc_stage_order.
Proof. intros. rewrite src_enc_outcomes. reflexivity. Qed.

(* ==================================================================== *)
(* 3. CredModel's dec_process + dec_rollback IS pipe_control             *)
(*    over the model's stage functions                                   *)
(* ==================================================================== *)
(* the state of one decode request: the message, the credential aux data the stages hand to each other (struct
   munge_cred: unarmored body, unpacked outer part, decrypted inner part, and the bit is_replay_new) and the replay hash *)
Record dst := { d_msg : msg; d_body : bytes; d_out : outer_out; d_plain : option bytes; d_inner : bytes; d_rs : rstate; d_new : bool }.
Definition out0 : outer_out := {| oo_msg := msg0; oo_outer := []; oo_iv := []; oo_tag := []; oo_inner := [] |}.
(* cred_create: calloc - nothing decoded yet, c->is_replay_new = 0 *)
Definition dinit (m : msg) (rs : rstate) : dst :=
  {| d_msg := m; d_body := []; d_out := out0; d_plain := None; d_inner := []; d_rs := rs; d_new := false |}.
Definition with_msg (s : dst) (m : msg) : dst :=
  {| d_msg := m; d_body := d_body s; d_out := d_out s; d_plain := d_plain s; d_inner := d_inner s; d_rs := d_rs s; d_new := d_new s |}.
Definition with_body (s : dst) (b : bytes) : dst :=
  {| d_msg := d_msg s; d_body := b; d_out := d_out s; d_plain := d_plain s; d_inner := d_inner s; d_rs := d_rs s; d_new := d_new s |}.
Definition with_out (s : dst) (o : outer_out) : dst :=
  {| d_msg := d_msg s; d_body := d_body s; d_out := o; d_plain := d_plain s; d_inner := d_inner s; d_rs := d_rs s; d_new := d_new s |}.
Definition with_plain (s : dst) (p : option bytes) : dst :=
  {| d_msg := d_msg s; d_body := d_body s; d_out := d_out s; d_plain := p; d_inner := d_inner s; d_rs := d_rs s; d_new := d_new s |}.
Definition with_inner (s : dst) (i : bytes) : dst :=
  {| d_msg := d_msg s; d_body := d_body s; d_out := d_out s; d_plain := d_plain s; d_inner := i; d_rs := d_rs s; d_new := d_new s |}.
Definition with_rs (s : dst) (rs : rstate) : dst :=
  {| d_msg := d_msg s; d_body := d_body s; d_out := d_out s; d_plain := d_plain s; d_inner := d_inner s; d_rs := rs; d_new := d_new s |}.
Definition with_new (s : dst) (b : bool) : dst :=
  {| d_msg := d_msg s; d_body := d_body s; d_out := d_out s; d_plain := d_plain s; d_inner := d_inner s; d_rs := d_rs s; d_new := b |}.

Definition ok (s : dst) : Z * dst := (0%Z, s).
Definition ko (s : dst) (m : msg) : Z * dst := ((-1)%Z, with_msg s m).

Section Dec.
Variable hmac : N -> bytes -> bytes -> bytes.
Variable sha1 : bytes -> bytes.
Variable blk_dec : N -> bytes -> bytes -> bytes.
Variable zdecomp : N -> bytes -> N -> option bytes.
Variable cf : conf.
Variable mem : N -> N -> bool.          (* gids_is_member on the map as last loaded *)
Variables pu pg now : N.                (* the peer's ids (auth_recv) and the clock when the request is received *)
Variable now2 : N.                      (* the clock read again after replay_insert (dec_validate_replay) *)

Notation dec_process2 := (dec_process2 hmac sha1 blk_dec zdecomp).
Notation dec_parse := (dec_parse hmac sha1 blk_dec zdecomp).

(* the model's stage functions, each the corresponding piece of CredModel.dec_process / dec_parse *)
Definition st_validate_msg (s : dst) : Z * dst :=
  if m_data_len (d_msg s) =? 0
  then ko s (set_err (d_msg s) e_snafu (Some (str "No credential specified in decode request"))) else ok s.
Definition st_timestamp (s : dst) : Z * dst :=
  ok (with_msg s (d_msg s <| m_time0 := 0 |> <| m_time1 := u32 now |>)).
Definition st_authenticate (s : dst) : Z * dst :=
  ok (with_msg s (d_msg s <| m_client_uid := pu |> <| m_client_gid := pg |>)).
Definition st_check_retry (s : dst) : Z * dst :=
  if c_retry_attempts <? m_retry (d_msg s)
  then ko s (set_err (d_msg s) e_socket (Some (str "Exceeded maximum number of decode attempts"))) else ok s.
Definition st_unarmor (s : dst) : Z * dst :=
  match dec_unarmor (m_data (d_msg s)) with
  | inr (e, x) => ko s (set_err (d_msg s) e (Some x))
  | inl body => ok (with_body (with_msg s (d_msg s <| m_data := [] |> <| m_data_len := 0 |>)) body)
  end.
Definition st_unpack_outer (s : dst) : Z * dst :=
  match dec_unpack_outer (d_msg s) (d_body s) with
  | inl e => ko s e
  | inr o => ok (with_out (with_msg s (oo_msg o)) o)
  end.
(* dec_decrypt: a padding failure is recorded and surfaces at the MAC step *)
Definition st_decrypt (s : dst) : Z * dst :=
  let o := d_out s in let m := oo_msg o in
  ok (with_plain s (if m_cipher m =? c_cipher_none then Some (oo_inner o)
                    else cbc_decrypt blk_dec (m_cipher m) (hmac (m_mac m) (dek_subkey sha1 (cf_key cf)) (oo_tag o))
                                     (oo_iv o) (oo_inner o))).
Definition st_validate_mac (s : dst) : Z * dst :=
  let o := d_out s in let m := oo_msg o in
  match d_plain s with
  | None => ko s (set_err m e_cred_invalid None)
  | Some p => if bytes_eqb (hmac (m_mac m) (mac_subkey sha1 (cf_key cf)) (oo_outer o ++ p)) (oo_tag o)
              then ok (with_inner s p) else ko s (set_err m e_cred_invalid None)
  end.
Definition st_decompress (s : dst) : Z * dst :=
  match dec_decompress zdecomp (oo_msg (d_out s)) (d_inner s) with
  | inl e => ko s e
  | inr inner => ok (with_inner s inner)
  end.
Definition st_unpack_inner (s : dst) : Z * dst :=
  match dec_unpack_inner (oo_msg (d_out s)) (d_inner s) with
  | inl e => ko s e
  | inr m => ok (with_msg s m)
  end.
Definition st_validate_auth (s : dst) : Z * dst :=
  if negb (dec_authorized cf mem (d_msg s))
  then ko s (set_err (d_msg s) e_cred_unauthorized (Some (unauth_str (d_msg s)))) else ok s.
Definition st_validate_time (s : dst) : Z * dst :=
  let m := d_msg s in
  let '(tv, ttl') := dec_time cf (m_time0 m) (m_ttl m) (m_time1 m) in
  let m := m <| m_ttl := ttl' |> in
  match tv with
  | TRewound => ko s (set_err m e_cred_rewound None)
  | TExpired => ko s (set_err m e_cred_expired None)
  | TOk => ok (with_msg s m)
  end.
(* dec_validate_replay: replay_insert's outcome x the retry exemption x the fresh clock reading *)
Definition st_validate_replay (s : dst) : Z * dst :=
  let m := d_msg s in
  let k := cred_rkey (oo_tag (d_out s)) m in
  if r_mem k (d_rs s) then
    if replay_exempt cf m then ok s else ko s (set_err m e_cred_replayed None)
  else if m_time0 m + m_ttl m <? now2
       then ko (with_rs s (k :: d_rs s)) (set_err m e_cred_expired None)   (* expired since receipt: the record stays *)
       else ok (with_new (with_rs s (k :: d_rs s)) true).    (* inserted by this request: c->is_replay_new = 1 *)

Definition st_cred_create (s : dst) : Z * dst := (1%Z, s).     (* a pointer that is not NULL: allocation failure is not modelled *)

Definition dec_stage (n : string) (s : dst) : Z * dst :=
  if String.eqb n "dec_validate_msg" then st_validate_msg s
  else if String.eqb n "cred_create" then st_cred_create s
  else if String.eqb n "dec_timestamp" then st_timestamp s
  else if String.eqb n "dec_authenticate" then st_authenticate s
  else if String.eqb n "dec_check_retry" then st_check_retry s
  else if String.eqb n "dec_unarmor" then st_unarmor s
  else if String.eqb n "dec_unpack_outer" then st_unpack_outer s
  else if String.eqb n "dec_decrypt" then st_decrypt s
  else if String.eqb n "dec_validate_mac" then st_validate_mac s
  else if String.eqb n "dec_decompress" then st_decompress s
  else if String.eqb n "dec_unpack_inner" then st_unpack_inner s
  else if String.eqb n "dec_validate_auth" then st_validate_auth s
  else if String.eqb n "dec_validate_time" then st_validate_time s
  else if String.eqb n "dec_validate_replay" then st_validate_replay s
  else ((-1)%Z, s).

(* send_ok: whether m_msg_send delivers the reply *)
Definition dec_ops (send_ok : bool) : pipe_ops dst := {|
  op_msg := d_msg;
  op_cred := fun f s => if String.eqb f "is_replay_new" then b2z (d_new s) else 0%Z;
  op_stage := dec_stage;
  op_reset := fun s => with_msg s (msg_reset (d_msg s));
  op_send := fun s => ((if send_ok then 0 else Z.of_N e_socket)%Z, s);
  op_unplay := fun s => with_rs s (r_remove (cred_rkey (oo_tag (d_out s)) (d_msg s)) (d_rs s))
|}.

Lemma set_err_nz m e s : e <> 0 -> m_err (set_err m e s) <> 0.
Proof.
  intros He. unfold set_err. destruct (m_err m =? e_success) eqn:E1; cbn [andb].
  - destruct (e =? e_success) eqn:E2; cbn [negb]; [apply N.eqb_eq in E2; contradiction|exact He].
  - apply N.eqb_neq in E1. exact E1.
Qed.

Ltac break_match H :=
  repeat match type of H with
  | context [match ?x with _ => _ end] => destruct x eqn:?; try discriminate H
  end.

Lemma unarmor_err_nz d e x : dec_unarmor d = inr (e, x) -> e <> 0.
Proof. unfold dec_unarmor. intros H. break_match H; inversion H; vm_compute; discriminate. Qed.
Lemma unpack_outer_err_nz m body e : dec_unpack_outer m body = inl e -> m_err e <> 0.
Proof.
  unfold dec_unpack_outer. intros H. break_match H.
  all: inversion H; subst; clear H; apply set_err_nz; vm_compute; discriminate.
Qed.
Lemma unpack_inner_err_nz m inner e : dec_unpack_inner m inner = inl e -> m_err e <> 0.
Proof.
  unfold dec_unpack_inner, bad_cred. intros H. break_match H.
  all: inversion H; subst; clear H; apply set_err_nz; vm_compute; discriminate.
Qed.
Lemma decompress_err_nz m inner e : dec_decompress zdecomp m inner = inl e -> m_err e <> 0.
Proof.
  unfold dec_decompress. intros H. break_match H.
  all: inversion H; subst; clear H; apply set_err_nz; vm_compute; discriminate.
Qed.

(* what the tail of the skeleton does with a failed request: the model's dec_finish; the replay hash is not touched *)
Lemma finish_failed so (s : dst) :
  m_err (d_msg s) <> 0 ->
  pipe_finish (dec_ops so) soft_err (Some "is_replay_new"%string) false s = ((-1)%Z, with_msg s (dec_finish (d_msg s))).
Proof.
  intros Hnz. unfold pipe_finish, dec_finish. cbn [negb andb dec_ops op_msg op_reset op_send op_unplay].
  apply N.eqb_neq in Hnz. change e_success with 0. rewrite Hnz. cbn [negb andb].
  destruct (negb (soft_err (m_err (d_msg s)))); destruct so; cbn; try reflexivity; destruct s; reflexivity.
Qed.

Lemma finish_succeeded so (s : dst) :
  pipe_finish (dec_ops so) soft_err (Some "is_replay_new"%string) true s =
  if so then (0%Z, s)
  else ((-1)%Z, if d_new s then with_rs s (r_remove (cred_rkey (oo_tag (d_out s)) (d_msg s)) (d_rs s)) else s).
Proof. unfold pipe_finish. destruct so; [reflexivity|]. cbn. destruct (d_new s); reflexivity. Qed.

Ltac eval_failed :=
  match goal with
  | |- context [stage_failed ?n ?v] =>
      let b := eval vm_compute in (stage_failed n v) in change (stage_failed n v) with b
  end.
Ltac proj :=
  cbv beta iota delta [dinit with_msg with_body with_out with_plain with_inner with_rs with_new ok ko];
  cbn [d_msg d_body d_out d_plain d_inner d_rs d_new fst snd].
Ltac run_stage name f := change (dec_stage name) with f; unfold f; proj.
Ltac stage_ok := proj; eval_failed; cbn beta iota.
Ltac stage_ko nz :=
  proj; eval_failed; cbn beta iota;
  rewrite finish_failed by (proj; nz); proj; cbn beta iota;
  match goal with so : bool |- _ => destruct so end; repeat split; reflexivity.
Ltac stage_done :=
  proj; eval_failed; cbn beta iota; rewrite finish_succeeded; proj;
  match goal with so : bool |- _ => destruct so end; cbn [dec_rollback]; repeat split; reflexivity.
Ltac nz_code := apply set_err_nz; vm_compute; discriminate.

(* the request is answered with success: the cache-independent part accepts and the record is present and the retry
   exemption applies, or absent and the credential has not expired by the fresh clock reading *)
Definition dec_accepts (rs : rstate) (m : msg) : bool :=
  match dec_pre hmac sha1 blk_dec zdecomp cf mem m pu pg now with
  | inl _ => false
  | inr (m', k) => if r_mem k rs then replay_exempt cf m' else negb (m_time0 m' + m_ttl m' <? now2)
  end.

Theorem dec_process_is_pipe : forall (rs : rstate) (m : msg) (send_ok : bool),
  let '(rc, s) := pipe_control (dec_ops send_ok) dec_stage_order soft_err (Some "is_replay_new"%string) (dinit m rs) in
  let '(r, rs', k) := dec_process2 cf mem rs m pu pg now now2 in
  d_msg s = r /\ d_rs s = (if send_ok then rs' else dec_rollback rs' k) /\
  rc = (if send_ok && dec_accepts rs m then 0 else -1)%Z.
Proof.
  intros rs m so. unfold pipe_control, dec_stage_order. cbn [run_chain op_stage dec_ops].
  unfold CredModel.dec_process2, dec_accepts, RetryModel.dec_pre.
  run_stage "dec_validate_msg"%string st_validate_msg.
  destruct (m_data_len m =? 0) eqn:E1; [stage_ko nz_code|stage_ok].
  run_stage "cred_create"%string st_cred_create. stage_ok.
  run_stage "dec_timestamp"%string st_timestamp. stage_ok.
  run_stage "dec_authenticate"%string st_authenticate. stage_ok.
  run_stage "dec_check_retry"%string st_check_retry.
  match goal with |- context [c_retry_attempts <? ?r] => destruct (c_retry_attempts <? r) eqn:E2 end;
    [stage_ko nz_code|stage_ok].
  unfold CredModel.dec_parse.
  run_stage "dec_unarmor"%string st_unarmor.
  match goal with |- context [dec_unarmor ?d] => destruct (dec_unarmor d) as [body|[e x]] eqn:E3 end;
    [stage_ok|stage_ko ltac:(apply set_err_nz; eapply unarmor_err_nz; eassumption)].
  run_stage "dec_unpack_outer"%string st_unpack_outer.
  match goal with |- context [dec_unpack_outer ?a ?b] => destruct (dec_unpack_outer a b) as [e|o] eqn:E4 end;
    [stage_ko ltac:(eapply unpack_outer_err_nz; eassumption)|stage_ok].
  run_stage "dec_decrypt"%string st_decrypt. stage_ok.
  run_stage "dec_validate_mac"%string st_validate_mac.
  unfold CredModel.dec_decrypt_mac.
  match goal with |- context [match (if ?c then Some ?a else ?b) with _ => _ end] =>
    destruct (if c then Some a else b) as [p|] eqn:E5 end; [|stage_ko nz_code].
  match goal with |- context [bytes_eqb ?a ?b] => destruct (bytes_eqb a b) eqn:E6 end; [stage_ok|stage_ko nz_code].
  run_stage "dec_decompress"%string st_decompress.
  match goal with |- context [dec_decompress ?z ?a ?b] => destruct (dec_decompress z a b) as [e|inner] eqn:E7 end;
    [stage_ko ltac:(eapply decompress_err_nz; eassumption)|stage_ok].
  run_stage "dec_unpack_inner"%string st_unpack_inner.
  match goal with |- context [dec_unpack_inner ?a ?b] => destruct (dec_unpack_inner a b) as [e|m2] eqn:E8 end;
    [stage_ko ltac:(eapply unpack_inner_err_nz; eassumption)|stage_ok].
  run_stage "dec_validate_auth"%string st_validate_auth.
  destruct (dec_authorized cf mem m2) eqn:E9; cbn [negb]; [stage_ok|stage_ko nz_code].
  run_stage "dec_validate_time"%string st_validate_time.
  destruct (dec_time cf (m_time0 m2) (m_ttl m2) (m_time1 m2)) as [[| |] ttl'] eqn:E10;
    [stage_ok|stage_ko nz_code|stage_ko nz_code].
  run_stage "dec_validate_replay"%string st_validate_replay.
  fold (replay_exempt cf (m2 <| m_ttl := ttl' |>)).
  match goal with |- context [r_mem ?k rs] => destruct (r_mem k rs) eqn:E11 end.
  - destruct (replay_exempt cf (m2 <| m_ttl := ttl' |>)) eqn:E12; [stage_done|stage_ko nz_code].
  - match goal with |- context [?a <? now2] => destruct (a <? now2) eqn:E13 end; [stage_ko nz_code|stage_done].
Qed.

(* THE TRANSLATED dec_process_msg, run over the model's stage functions, IS the model: the reply, the replay hash after
   the request (rolled back exactly when the reply of a successful decode could not be sent) and the return code *)
Theorem dec_process_is_source : forall (rs : rstate) (m : msg) (send_ok : bool),
  let '(rc, s) := src_dec_process_msg (dec_ops send_ok) (dinit m rs) in
  let '(r, rs', k) := dec_process2 cf mem rs m pu pg now now2 in
  d_msg s = r /\ d_rs s = (if send_ok then rs' else dec_rollback rs' k) /\
  rc = (if send_ok && dec_accepts rs m then 0 else -1)%Z.
Proof. intros. rewrite src_dec_process_msg_is_pipe. apply dec_process_is_pipe. Qed.

(* RetryModel's use of dec_process / dec_rollback per attempt is the source's: a reply that munged could not send
   (RspSendFailed) is the source function with a failing m_msg_send; a reply lost after a successful send (RspLost) and a
   clean attempt are the source function with a successful one *)
Definition attempt_msg (cred : bytes) (i : nat) : msg :=
  msg0 <| m_data := cred |> <| m_data_len := len cred |> <| m_retry := N.of_nat (i - 1) |>.

Theorem dec_attempt_is_source : forall (cred : bytes) (rs : rstate) (i : nat), now2 = u32 now ->
  let run so := src_dec_process_msg (dec_ops so) (dinit (attempt_msg cred i) rs) in
  let att f := dec_attempt hmac sha1 blk_dec zdecomp cf mem cred pu pg now rs i f in
  att (Some ReqCut) = (rs, None) /\
  att (Some RspLost) = (d_rs (snd (run true)), None) /\
  att (Some RspSendFailed) = (d_rs (snd (run false)), None) /\
  att None = (d_rs (snd (run true)), Some (d_msg (snd (run true)))).
Proof.
  intros cred rs i Hclk run att. subst run att. unfold dec_attempt. fold (attempt_msg cred i).
  rewrite (dec_process_atomic hmac sha1 blk_dec zdecomp), <- Hclk.
  pose proof (dec_process_is_source rs (attempt_msg cred i) true) as Ht.
  pose proof (dec_process_is_source rs (attempt_msg cred i) false) as Hf.
  destruct (src_dec_process_msg (dec_ops true) (dinit (attempt_msg cred i) rs)) as [rc1 s1].
  destruct (src_dec_process_msg (dec_ops false) (dinit (attempt_msg cred i) rs)) as [rc2 s2].
  destruct (dec_process2 cf mem rs (attempt_msg cred i) pu pg now now2) as [[r rs'] k].
  cbn [fst snd]. destruct Ht as (Ht1 & Ht2 & _). destruct Hf as (Hf1 & Hf2 & _).
  rewrite Ht1, Ht2, Hf2. repeat split; reflexivity.
Qed.

(* a stage other than the replay stage never touches the replay hash - and the replay stage is the last one, so every
   failing stage leaves the replay state as it found it unless it is the replay stage itself, which fails on `already
   there` (nothing inserted) or on a credential that expired between receipt and the replay step (its record inserted
   and left for the purge) *)
Lemma stage_keeps_replay_state : forall (n : string) (s : dst),
  n <> "dec_validate_replay"%string -> d_rs (snd (dec_stage n s)) = d_rs s.
Proof.
  intros n s Hn. unfold dec_stage.
  repeat match goal with
         | |- context [if String.eqb n ?x then _ else _] =>
             let E := fresh "E" in destruct (String.eqb n x) eqn:E;
             [|]
         end.
  all: try reflexivity.
  all: try (apply String.eqb_eq in E12; contradiction).
  - unfold st_validate_msg. destruct (m_data_len (d_msg s) =? 0); reflexivity.
  - unfold st_check_retry. destruct (c_retry_attempts <? m_retry (d_msg s)); reflexivity.
  - unfold st_unarmor. destruct (dec_unarmor (m_data (d_msg s))) as [b|[e x]]; reflexivity.
  - unfold st_unpack_outer. destruct (dec_unpack_outer (d_msg s) (d_body s)); reflexivity.
  - unfold st_validate_mac. destruct (d_plain s); [|reflexivity].
    match goal with |- context [bytes_eqb ?a ?b] => destruct (bytes_eqb a b) end; reflexivity.
  - unfold st_decompress. destruct (dec_decompress zdecomp (oo_msg (d_out s)) (d_inner s)); reflexivity.
  - unfold st_unpack_inner. destruct (dec_unpack_inner (oo_msg (d_out s)) (d_inner s)); reflexivity.
  - unfold st_validate_auth. destruct (dec_authorized cf mem (d_msg s)); reflexivity.
  - unfold st_validate_time.
    destruct (dec_time cf (m_time0 (d_msg s)) (m_ttl (d_msg s)) (m_time1 (d_msg s))) as [[| |] t]; reflexivity.
Qed.

Lemma failed_replay_stage_keeps_replay_state : forall (s : dst),
  stage_failed "dec_validate_replay" (fst (st_validate_replay s)) = true ->
  let k := cred_rkey (oo_tag (d_out s)) (d_msg s) in
  d_rs (snd (st_validate_replay s)) = d_rs s \/
  (d_rs (snd (st_validate_replay s)) = k :: d_rs s /\ r_mem k (d_rs s) = false /\ snd k < now2).
Proof.
  intros s. unfold st_validate_replay. cbv zeta.
  destruct (r_mem (cred_rkey (oo_tag (d_out s)) (d_msg s)) (d_rs s)) eqn:M.
  - destruct (replay_exempt cf (d_msg s)); left; reflexivity.
  - destruct (m_time0 (d_msg s) + m_ttl (d_msg s) <? now2) eqn:E.
    + intros _. right. split; [reflexivity|]. split; [reflexivity|]. apply N.ltb_lt in E. exact E.
    + cbn. discriminate.
Qed.

Lemma replay_stage_is_last : last dec_stage_order ""%string = "dec_validate_replay"%string.
Proof. reflexivity. Qed.

(* ---- the model's small stage functions are the translated C functions (CredFun.v), lifted to the request state:
        code 0 = the stage returned 0 with the message as the C function left it; any other code = it returned
        m_msg_set_err (m, code, string), i.e. -1 with the error recorded (first error wins) *)
Definition lift (s : dst) (r : N * msg) (es : option bytes) : Z * dst :=
  let '(code, m') := r in if code =? 0 then ok (with_msg s m') else ko s (set_err m' code es).

Lemma with_msg_same (s : dst) : with_msg s (d_msg s) = s.
Proof. destruct s; reflexivity. Qed.

Theorem st_validate_msg_is_source : forall (s : dst) (p : Z), (p = 0%Z <-> m_data_len (d_msg s) = 0) ->
  st_validate_msg s = lift s (src_dec_validate_msg cf p (d_msg s)) (Some (str "No credential specified in decode request")).
Proof.
  intros s p H. rewrite (dec_validate_msg_is_model cf p _ H). unfold st_validate_msg, lift.
  destruct (m_data_len (d_msg s) =? 0); cbn; [reflexivity|rewrite with_msg_same; reflexivity].
Qed.

Theorem st_timestamp_is_source : forall (s : dst),
  st_timestamp s = lift s (src_dec_timestamp cf (Z.of_N now) (d_msg s)) (Some (str "Failed to query current time")).
Proof. intros s. rewrite dec_timestamp_is_source. reflexivity. Qed.

Theorem st_authenticate_is_source : forall (s : dst),
  st_authenticate s = lift s (src_dec_authenticate cf 0 (Z.of_N pu) (Z.of_N pg) (d_msg s))
                             (Some (str "Failed to determine client identity")).
Proof. intros s. rewrite dec_authenticate_is_source. reflexivity. Qed.

Theorem st_check_retry_is_source : forall (s : dst),
  st_check_retry s = lift s (src_dec_check_retry cf (d_msg s)) (Some (str "Exceeded maximum number of decode attempts")).
Proof.
  intros s. rewrite dec_check_retry_is_source. unfold st_check_retry, lift.
  destruct (c_retry_attempts <? m_retry (d_msg s)); cbn; [reflexivity|rewrite with_msg_same; reflexivity].
Qed.

Theorem st_validate_auth_is_source : forall (s : dst),
  st_validate_auth s = lift s (src_dec_validate_auth cf mem (d_msg s)) (Some (unauth_str (d_msg s))).
Proof.
  intros s. rewrite dec_authorized_is_source. unfold st_validate_auth, lift.
  destruct (dec_authorized cf mem (d_msg s)); cbn; [rewrite with_msg_same; reflexivity|reflexivity].
Qed.

Theorem st_validate_time_is_source : forall (s : dst),
  cf_max_ttl cf < 2147483648 -> m_ttl (d_msg s) < 4294967296 ->
  st_validate_time s = lift s (src_dec_validate_time cf (d_msg s)) None.
Proof.
  intros s Hx Ht. rewrite (dec_time_is_source cf (d_msg s) Hx Ht). unfold st_validate_time, lift.
  destruct (dec_time cf (m_time0 (d_msg s)) (m_ttl (d_msg s)) (m_time1 (d_msg s))) as [[| |] t]; reflexivity.
Qed.

(* the replay stage: replay_insert reports `already there` exactly when the key is in the hash, and inserts otherwise;
   what the stage makes of that report - the retry exemption, the FRESH expiry check against the clock read after the
   insert, and c->is_replay_new set exactly on an accepted insert - is the source's dec_validate_replay *)
Theorem st_validate_replay_is_source : forall (s : dst) (en : Z),
  let k := cred_rkey (oo_tag (d_out s)) (d_msg s) in
  let present := r_mem k (d_rs s) in
  st_validate_replay s =
  let '(r, c') := src_dec_validate_replay cf (Z.of_N now2) (if present then 1 else 0) en (b2z (d_new s)) (d_msg s) in
  let '(v, s') := lift s r None in
  (v, with_new (if present then s' else with_rs s' (k :: d_rs s')) (negb (c' =? 0)%Z)).
Proof.
  intros s en k present. subst k present. rewrite dec_validate_replay_is_source. unfold st_validate_replay, lift.
  rewrite clock_not_failed, <- N2Z.inj_add, zgtb.
  destruct (r_mem (cred_rkey (oo_tag (d_out s)) (d_msg s)) (d_rs s)); cbn.
  - rewrite b2z_nz. destruct (replay_exempt cf (d_msg s)); cbn; [rewrite with_msg_same|]; destruct s; reflexivity.
  - destruct (m_time0 (d_msg s) + m_ttl (d_msg s) <? now2); cbn.
    + rewrite b2z_nz. destruct s; reflexivity.
    + rewrite with_msg_same. reflexivity.
Qed.
End Dec.

(* ==================================================================== *)
(* 4. CredModel's enc_process IS pipe_control over the model's stages    *)
(* ==================================================================== *)
(* the state of one encode request: the message and what the packing stages have produced.  CredModel computes the
   stages enc_pack_outer .. enc_armor in one function (enc_core); it is attached to enc_compress, the only one of them
   that can fail in the model, and enc_fini moves the credential into the message; the other packing stages are
   identities HERE (their data flow is CredModel.enc_core's, proved elsewhere: CredRoundtrip / Properties_C01) *)
Record est := { e_msg : msg; e_core : option enc_out }.
Definition eok (s : est) : Z * est := (0%Z, s).
Definition eko (s : est) (m : msg) : Z * est := ((-1)%Z, {| e_msg := m; e_core := e_core s |}).

Section Enc.
Variable hmac : N -> bytes -> bytes -> bytes.
Variable sha1 : bytes -> bytes.
Variable blk_enc : N -> bytes -> bytes -> bytes.
Variable zcomp : N -> bytes -> option bytes.
Variable cf : conf.
Variables pu pg now : N.
Variables salt ivr : bytes.

Notation enc_core := (enc_core hmac sha1 blk_enc zcomp).
Notation enc_process := (enc_process hmac sha1 blk_enc zcomp).

Definition se_validate_msg (s : est) : Z * est :=
  match enc_validate cf (e_msg s) with
  | inr e => eko s e
  | inl m => eok {| e_msg := m; e_core := e_core s |}
  end.
Definition se_authenticate (s : est) : Z * est :=
  eok {| e_msg := e_msg s <| m_client_uid := pu |> <| m_client_gid := pg |>; e_core := e_core s |}.
Definition se_check_retry (s : est) : Z * est :=
  if c_retry_attempts <? m_retry (e_msg s)
  then eko s (set_err (e_msg s) e_socket (Some (str "Exceeded maximum number of encode attempts"))) else eok s.
Definition se_timestamp (s : est) : Z * est :=
  eok {| e_msg := e_msg s <| m_time0 := u32 now |> <| m_time1 := 0 |>; e_core := e_core s |}.
Definition se_compress (s : est) : Z * est :=
  match enc_core cf (e_msg s) salt ivr with
  | inl e => eko s e
  | inr o => eok {| e_msg := e_msg s; e_core := Some o |}
  end.
Definition se_fini (s : est) : Z * est :=
  match e_core s with
  | Some o => eok {| e_msg := eo_msg o; e_core := e_core s |}
  | None => eok s
  end.

Definition enc_stage (n : string) (s : est) : Z * est :=
  if String.eqb n "enc_validate_msg" then se_validate_msg s
  else if String.eqb n "cred_create" then (1%Z, s)
  else if String.eqb n "enc_init" then eok s                  (* salt and IV are parameters of the model *)
  else if String.eqb n "enc_authenticate" then se_authenticate s
  else if String.eqb n "enc_check_retry" then se_check_retry s
  else if String.eqb n "enc_timestamp" then se_timestamp s
  else if String.eqb n "enc_pack_outer" then eok s
  else if String.eqb n "enc_pack_inner" then eok s
  else if String.eqb n "enc_compress" then se_compress s
  else if String.eqb n "enc_mac" then eok s
  else if String.eqb n "enc_encrypt" then eok s
  else if String.eqb n "enc_armor" then eok s
  else if String.eqb n "enc_fini" then se_fini s
  else ((-1)%Z, s).

Definition enc_ops (send_ok : bool) : pipe_ops est := {|
  op_msg := e_msg;
  op_cred := fun _ _ => 0%Z;                                  (* enc_process_msg reads no member of the aux data *)
  op_stage := enc_stage;
  op_reset := fun s => {| e_msg := msg_reset (e_msg s); e_core := e_core s |};
  op_send := fun s => ((if send_ok then 0 else Z.of_N e_socket)%Z, s);
  op_unplay := fun s => s
|}.

Definition rsp_of (m : msg) : enc_rsp := {| er_err := m_err m; er_errstr := m_errstr m; er_data := m_data m |}.
Definition enc_succeeds (m : msg) : bool :=
  match enc_pre cf m pu pg now with
  | inr _ => false
  | inl m1 => match enc_core cf m1 salt ivr with inl _ => false | inr _ => true end
  end.

Ltac eproj := cbv beta iota delta [eok eko]; cbn [e_msg e_core fst snd].
Ltac erun name f := change (enc_stage name) with f; try unfold f; eproj.
Ltac eeval_failed :=
  match goal with
  | |- context [stage_failed ?n ?v] =>
      let b := eval vm_compute in (stage_failed n v) in change (stage_failed n v) with b
  end.
Ltac estage_ok := eproj; eeval_failed; cbn beta iota.
Ltac estage_ko :=
  eproj; eeval_failed; cbn beta iota; unfold pipe_finish; cbn [negb andb enc_ops op_msg op_reset op_send op_unplay e_msg];
  match goal with so : bool |- _ => destruct so end; split; reflexivity.

Theorem enc_process_is_pipe : forall (m : msg) (send_ok : bool),
  let '(rc, s) := pipe_control (enc_ops send_ok) enc_stage_order (fun _ => false) None {| e_msg := m; e_core := None |} in
  rsp_of (e_msg s) = enc_process cf m pu pg now salt ivr /\
  rc = (if send_ok && enc_succeeds m then 0 else -1)%Z.
Proof.
  intros m so. unfold pipe_control, enc_stage_order. cbn [run_chain op_stage enc_ops].
  unfold CredModel.enc_process, enc_succeeds, enc_pre.
  erun "enc_validate_msg"%string se_validate_msg.
  destruct (enc_validate cf m) as [m1|e] eqn:E1; [estage_ok|estage_ko].
  erun "cred_create"%string (fun s : est => (1%Z, s)). estage_ok.
  erun "enc_init"%string eok. estage_ok.
  erun "enc_authenticate"%string se_authenticate. estage_ok.
  erun "enc_check_retry"%string se_check_retry.
  match goal with |- context [c_retry_attempts <? ?r] => destruct (c_retry_attempts <? r) eqn:E2 end; [estage_ko|estage_ok].
  erun "enc_timestamp"%string se_timestamp. estage_ok.
  erun "enc_pack_outer"%string eok. estage_ok.
  erun "enc_pack_inner"%string eok. estage_ok.
  erun "enc_compress"%string se_compress.
  match goal with |- context [enc_core cf ?x salt ivr] => destruct (enc_core cf x salt ivr) as [e|o] eqn:E3 end;
    [estage_ko|estage_ok].
  erun "enc_mac"%string eok. estage_ok.
  erun "enc_encrypt"%string eok. estage_ok.
  erun "enc_armor"%string eok. estage_ok.
  erun "enc_fini"%string se_fini. estage_ok.
  unfold pipe_finish; cbn [negb andb enc_ops op_msg op_reset op_send op_unplay e_msg].
  destruct so; split; reflexivity.
Qed.

(* THE TRANSLATED enc_process_msg over the model's stage functions IS the model's enc_process *)
Theorem enc_process_is_source : forall (m : msg) (send_ok : bool),
  let '(rc, s) := src_enc_process_msg (enc_ops send_ok) {| e_msg := m; e_core := None |} in
  rsp_of (e_msg s) = enc_process cf m pu pg now salt ivr /\
  rc = (if send_ok && enc_succeeds m then 0 else -1)%Z.
Proof. intros. rewrite src_enc_process_msg_is_pipe. apply enc_process_is_pipe. Qed.

Definition elift (s : est) (r : N * msg) (es : option bytes) : Z * est :=
  let '(code, m') := r in
  if code =? 0 then eok {| e_msg := m'; e_core := e_core s |} else eko s (set_err m' code es).

Lemma est_eta (s : est) : {| e_msg := e_msg s; e_core := e_core s |} = s.
Proof. destruct s; reflexivity. Qed.

Theorem se_authenticate_is_source : forall (s : est),
  se_authenticate s = elift s (src_enc_authenticate cf 0 (Z.of_N pu) (Z.of_N pg) (e_msg s))
                              (Some (str "Failed to determine client identity")).
Proof. intros s. rewrite enc_authenticate_is_source. reflexivity. Qed.

Theorem se_check_retry_is_source : forall (s : est),
  se_check_retry s = elift s (src_enc_check_retry cf (e_msg s)) (Some (str "Exceeded maximum number of encode attempts")).
Proof.
  intros s. rewrite enc_check_retry_is_source. unfold se_check_retry, elift.
  destruct (c_retry_attempts <? m_retry (e_msg s)); cbn; [reflexivity|rewrite est_eta; reflexivity].
Qed.

Theorem se_timestamp_is_source : forall (s : est),
  se_timestamp s = elift s (src_enc_timestamp cf (Z.of_N now) (e_msg s)) (Some (str "Failed to query current time")).
Proof. intros s. rewrite enc_timestamp_is_source. reflexivity. Qed.
End Enc.
