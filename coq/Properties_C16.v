(* Properties_C16.v — statements only.  Start-up refuses insecure key/path/file settings; created
   files are safe (model: PathModel; flag values, permission bits, the flags each call site hands to
   path_is_secure and the mode/umask recipe of every created file are regenerated from the source on
   every run into gen/GenPath.v).

   Vocabulary (PathProofs.v; literal bit positions, independent of GenPath):
     owner_ok euid d   :=  d_uid d = 0 \/ d_uid d = euid
     gw_ok tg flags d  :=  mode bit 0020 set -> sticky (01000) \/ flags bit 0 (ignore group write)
                                               \/ (tg <> (gid_t)-1 /\ d_gid d = tg)
     ow_ok d           :=  mode bit 0002 set -> sticky
     dir_ok euid tg flags d := owner_ok /\ gw_ok /\ ow_ok
   A chain lists the directories of the canonical path, leaf first, "/" last; any length. *)
From Coq Require Import List NArith Bool.
From MV Require Import Bytes GenPath PathModel PathProofs.
Import ListNotations.
Local Open Scope N_scope.

(* path_is_secure says "secure" exactly when every directory of the chain is acceptable *)
Theorem C16_path_secure_spec : forall (euid tg flags : N) (chain : list dstat),
  path_is_secure euid tg flags chain = Secure <-> Forall (dir_ok euid tg flags) chain.
Proof. exact path_secure_spec. Qed.
Print Assumptions C16_path_secure_spec.

(* ... and otherwise reports the first offending directory counted from the leaf: directory k fails,
   every directory before it is acceptable *)
Theorem C16_first_offender_reported : forall (euid tg flags : N) (chain : list dstat) (k : nat) (r : reason),
  path_is_secure euid tg flags chain = Insecure k r <->
  exists d, nth_error chain k = Some d /\ check_dir euid tg flags d = Some r /\
            forall j d', (j < k)%nat -> nth_error chain j = Some d' -> dir_ok euid tg flags d'.
Proof. exact path_insecure_spec. Qed.
Print Assumptions C16_first_offender_reported.

(* ... with the complaint: ownership first, then group-write, then world-write *)
Theorem C16_reason_reported : forall (euid tg flags : N) (d : dstat),
  (check_dir euid tg flags d = Some ROwner <-> ~ owner_ok euid d) /\
  (check_dir euid tg flags d = Some RGroupW <-> owner_ok euid d /\ ~ gw_ok tg flags d) /\
  (check_dir euid tg flags d = Some RWorldW <-> owner_ok euid d /\ gw_ok tg flags d /\ ~ ow_ok d).
Proof. exact reason_spec. Qed.
Print Assumptions C16_reason_reported.

(* an unacceptable ancestor at any depth makes the path insecure *)
Theorem C16_insecure_ancestor_any_depth : forall (euid tg flags : N) (pre : list dstat) (d : dstat) (post : list dstat),
  ~ dir_ok euid tg flags d -> path_is_secure euid tg flags (pre ++ d :: post) <> Secure.
Proof. exact insecure_ancestor. Qed.
Print Assumptions C16_insecure_ancestor_any_depth.

(* without --force the key is accepted exactly when it is a regular file, not reached through a symlink,
   owned by euid, without group/other read or write permission (mode land 0066 = 0), in a secure directory *)
Theorem C16_keyfile_spec : forall (euid tg : N) (o : fobs) (chain : list dstat),
  keyfile_check false euid tg o chain = None <->
  (exists s, o_stat o = Some s /\ f_type s = TReg /\ o_symlink o = false /\ f_uid s = euid /\
             N.land (f_mode s) 54 = 0) /\
  Forall (dir_ok euid tg 0) chain.
Proof. exact keyfile_spec. Qed.
Print Assumptions C16_keyfile_spec.

(* seed file: used only when acceptable; a present seed failing the checks contributes nothing and is
   unlinked (a directory cannot be unlinked: it stays, unused); without --force an insecure seed
   directory stops the daemon and the seed is neither read nor removed.  sr_hang: the start blocks in
   open() — exactly when the seed is a FIFO and the source opens it without O_NONBLOCK (GenPath's
   seed_open_nonblock, observed on every run) *)
Theorem C16_seed_spec : forall (force : bool) (euid tg : N) (o : fobs) (chain : list dstat),
  let r := seed_step force euid tg o chain in
  (sr_used r = true -> seed_acceptable euid o) /\
  (sr_refuse r = None -> sr_hang r = false -> seed_present o -> ~ seed_acceptable euid o ->
     sr_used r = false /\ (~ seed_is_dir o -> sr_removed r = true)) /\
  (sr_refuse r = None -> seed_acceptable euid o ->
     sr_hang r = false /\ sr_used r = true /\ sr_removed r = false) /\
  (force = false -> (sr_refuse r = None <-> Forall (dir_ok euid tg 0) chain)) /\
  (sr_refuse r <> None -> sr_hang r = false /\ sr_used r = false /\ sr_removed r = false) /\
  (sr_hang r = true <-> sr_refuse r = None /\ seed_is_fifo o /\ seed_open_nonblock = false) /\
  (sr_hang r = true -> sr_used r = false /\ sr_removed r = false).
Proof. exact seed_spec. Qed.
Print Assumptions C16_seed_spec.

(* observation / candidate finding: with the source as it stands (seed_open_nonblock = false) a FIFO at
   the seed path wedges the start; once the seed is opened with O_NONBLOCK the same configuration starts,
   the FIFO unused and unlinked.  Stated so that it checks on either side of the repair. *)
Theorem C16_seed_fifo_outcome :
  c_force fifo_seed_config = false /\
  startup fifo_seed_config = (if seed_open_nonblock then None else Some (SSeed, WHang)) /\
  (seed_open_nonblock = true -> sr_used (seed_of fifo_seed_config) = false /\
                                sr_removed (seed_of fifo_seed_config) = true).
Proof. split; [reflexivity|exact seed_fifo_outcome]. Qed.
Print Assumptions C16_seed_fifo_outcome.

(* log file (daemon mode): an existing one must be a regular non-symlink file of euid, not group- or
   world-writable; its directories may be group-writable *)
Theorem C16_logfile_spec : forall (euid tg : N) (o : fobs) (chain : list dstat),
  logfile_check false euid tg o chain = None <->
  log_ok euid o /\ Forall (fun d => owner_ok euid d /\ ow_ok d) chain.
Proof. exact logfile_spec. Qed.
Print Assumptions C16_logfile_spec.

(* every inherited umask 000-777, foreground and daemon mode: socket 0777, lock 0200,
   pid within 0644, log within 0640, seed within 0600 *)
Theorem C16_modes_for_all_umasks : forall (fg : bool) (u : N), u < 512 ->
  created (sock_recipe fg) u = 511 /\ created (lock_recipe fg) u = 128 /\
  within (created (pid_recipe fg) u) 420 = true /\ within (created log_recipe u) 416 = true /\
  within (created (seed_recipe fg) u) 384 = true.
Proof. exact modes_for_all_umasks. Qed.
Print Assumptions C16_modes_for_all_umasks.

(* the whole start-up in the order of main(): without --force a start implies all of the above for the
   key and for the directories of all five files, and the lock file is exactly 0200 *)
Theorem C16_startup_refuses : forall c : config, c_force c = false -> startup c = None ->
  key_ok (c_euid c) (c_key c) /\
  Forall (dir_ok (c_euid c) (c_tg c) 0) (c_keydir c) /\
  Forall (dir_ok (c_euid c) (c_tg c) 0) (c_seeddir c) /\
  Forall (dir_ok (c_euid c) (c_tg c) 0) (c_sockdir c) /\
  Forall (dir_ok (c_euid c) (c_tg c) 0) (c_piddir c) /\
  (c_fg c = false -> log_ok (c_euid c) (c_log c) /\
                     Forall (fun d => owner_ok (c_euid c) d /\ ow_ok d) (c_logdir c)) /\
  m_lock (created_modes c) = 128.
Proof. exact startup_refuses. Qed.
Print Assumptions C16_startup_refuses.

Theorem C16_started_modes : forall c : config, c_umask c < 512 -> startup c = None ->
  let m := created_modes c in
  m_sock m = 511 /\ m_lock m = 128 /\ within (m_pid m) 420 = true /\ within (m_seed m) 384 = true /\
  (c_fg c = false -> o_stat (c_log c) = None -> exists x, m_log m = Some x /\ within x 416 = true).
Proof. exact started_modes. Qed.
Print Assumptions C16_started_modes.

(* observation (not a clause about created files): a log file that already exists keeps its mode, and
   its group/other read bits are not examined — an existing 0644 log is accepted and stays 0644 *)
Theorem C16_existing_log_keeps_mode :
  c_force log_0644_config = false /\ startup log_0644_config = None /\
  m_log (created_modes log_0644_config) = Some 420 /\ within 420 416 = false.
Proof. split; [reflexivity|exact existing_log_keeps_mode]. Qed.
Print Assumptions C16_existing_log_keeps_mode.

(* non-vacuity: a configuration that starts (trusted group 7 owns a group-writable ancestor of the key),
   and the same configuration without the trusted group is refused at the key's second directory *)
Example C16_starts_example :
  let gwdir := mkd 0 7 509 in   (* 0775, gid 7 *)
  let c tg := mkc true false 1000 tg 63
      (mko false (Some (mkf TReg 1000 1000 256))) [mkd 1000 1000 448; gwdir; clean_dir]
      (mko false (Some (mkf TReg 1000 1000 420))) [clean_dir]
      (mko false None) [clean_dir] [clean_dir] None [clean_dir] in
  startup (c 7) = None /\ startup (c no_trusted) = Some (SKey, WDir 1 RGroupW) /\
  sr_used (seed_of (c 7)) = false /\ sr_removed (seed_of (c 7)) = true.
Proof. vm_compute. repeat split. Qed.
