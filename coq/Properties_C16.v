(* Properties_C16.v — statements only.  Start-up refuses insecure key/path/file settings; created
   files are safe (model: PathModel; flag values, permission bits, the flags each call site hands to
   path_is_secure and the mode/umask recipe of every created file are regenerated from the source on
   every run into gen/GenPath.v).

   Vocabulary (PathProofs.v; literal bit positions, independent of GenPath):
     owner_ok euid d   :=  d_uid d = 0 \/ d_uid d = euid
     gw_ok tg flags d  :=  mode bit 0020 set -> sticky (01000) \/ flags bit 0 (ignore group write)
                                               \/ (tg <> (gid_t)-1 /\ d_gid d = tg)
     ow_ok d           :=  mode bit 0002 set -> sticky
     dir_ok euid tg flags d := owner_ok /\ gw_ok /\ ow_ok
   A chain lists the directories of the canonical path, leaf first, "/" last; any length.
   Identity: every predicate of the model takes the whole process identity id (real, effective, saved uid
   and gid); the statements below are about i_euid id — which id each test in the source really consults
   is observed on every run (GenPath *_owner_id), so a test that used the real uid would break them.
   Directory entries: mko false None = nothing there, mko false (Some s) = a file, mko true (Some s) = a
   symlink to a file, mko true None = a dangling symlink; s = (type, uid, gid, mode). *)
From Coq Require Import List NArith Bool.
From MV Require Import Bytes GenPath PathModel PathProofs.
Import ListNotations.
Local Open Scope N_scope.

(* path_is_secure says "secure" exactly when every directory of the chain is acceptable *)
Theorem C16_path_secure_spec : forall (euid tg flags : N) (chain : list dstat),
  path_is_secure euid tg flags chain = Secure <-> Forall (dir_ok euid tg flags) chain.
Proof. exact path_secure_spec. Qed.
Print Assumptions C16_path_secure_spec.

(* ... and otherwise reports the first offending directory counted from the leaf: directory k fails,
   every directory before it is acceptable *)
Theorem C16_first_offender_reported : forall (euid tg flags : N) (chain : list dstat) (k : nat) (r : reason),
  path_is_secure euid tg flags chain = Insecure k r <->
  exists d, nth_error chain k = Some d /\ check_dir euid tg flags d = Some r /\
            forall j d', (j < k)%nat -> nth_error chain j = Some d' -> dir_ok euid tg flags d'.
Proof. exact path_insecure_spec. Qed.
Print Assumptions C16_first_offender_reported.

(* ... with the complaint: ownership first, then group-write, then world-write *)
Theorem C16_reason_reported : forall (euid tg flags : N) (d : dstat),
  (check_dir euid tg flags d = Some ROwner <-> ~ owner_ok euid d) /\
  (check_dir euid tg flags d = Some RGroupW <-> owner_ok euid d /\ ~ gw_ok tg flags d) /\
  (check_dir euid tg flags d = Some RWorldW <-> owner_ok euid d /\ gw_ok tg flags d /\ ~ ow_ok d).
Proof. exact reason_spec. Qed.
Print Assumptions C16_reason_reported.

(* an unacceptable ancestor at any depth makes the path insecure *)
Theorem C16_insecure_ancestor_any_depth : forall (euid tg flags : N) (pre : list dstat) (d : dstat) (post : list dstat),
  ~ dir_ok euid tg flags d -> path_is_secure euid tg flags (pre ++ d :: post) <> Secure.
Proof. exact insecure_ancestor. Qed.
Print Assumptions C16_insecure_ancestor_any_depth.

(* the walk as the process runs it consults the effective uid only *)
Theorem C16_path_secure_effective_uid : forall (id : ident) (tg flags : N) (chain : list dstat),
  path_secure_as id tg flags chain = Secure <-> Forall (dir_ok (i_euid id) tg flags) chain.
Proof. exact path_secure_as_spec. Qed.
Print Assumptions C16_path_secure_effective_uid.

(* which walks run is a function of the site and of what is at the file's name (GenPath *_walk, observed on
   starts with and without files already there): the verdict of every site — key, seed, log, socket, pid —
   on its directory chain does not depend on the prior state of the leaf, and is the rule above *)
Theorem C16_dir_verdict_independent_of_leaf :
  forall (s : fsite) (leaf leaf' : fobs) (id : ident) (tg : N) (chain : list dstat),
  dir_verdict s leaf id tg chain = dir_verdict s leaf' id tg chain /\
  (dir_verdict s leaf id tg chain = Secure <-> Forall (dir_ok (i_euid id) tg (site_flags s)) chain).
Proof. exact dir_verdict_independent. Qed.
Print Assumptions C16_dir_verdict_independent_of_leaf.

(* without --force the key is accepted exactly when it is a regular file, not reached through a symlink,
   owned by the EFFECTIVE uid, without group/other read or write permission (mode land 0066 = 0), in a
   secure directory — whatever the real and saved ids are *)
Theorem C16_keyfile_spec : forall (id : ident) (tg : N) (o : fobs) (chain : list dstat),
  keyfile_check false id tg o chain = None <->
  (exists s, o_stat o = Some s /\ f_type s = TReg /\ o_symlink o = false /\ f_uid s = i_euid id /\
             N.land (f_mode s) 54 = 0) /\
  Forall (dir_ok (i_euid id) tg 0) chain.
Proof. exact keyfile_spec. Qed.
Print Assumptions C16_keyfile_spec.

(* seed file: used only when acceptable; a present seed failing the checks contributes nothing and is
   unlinked — provided the process may remove names from the seed's directory (cr; always, for uid 0) and the
   seed is not a directory; when it cannot be removed it stays in place, unused (C16_seed_unremovable says
   what happens to it at exit); without --force an insecure seed directory stops the daemon and the seed is
   neither read nor removed.  sr_hang: the start blocks in open() — exactly when the seed is a FIFO and the
   source opens it without O_NONBLOCK (GenPath's seed_open_nonblock, observed on every run) *)
Theorem C16_seed_spec : forall (force : bool) (id : ident) (tg : N) (cr : bool) (o : fobs) (chain : list dstat),
  let r := seed_step force id tg cr o chain in
  let euid := i_euid id in
  (sr_used r = true -> seed_acceptable euid o) /\
  (sr_refuse r = None -> sr_hang r = false -> seed_present o -> ~ seed_acceptable euid o ->
     sr_used r = false /\ (~ seed_is_dir o -> cr = true -> sr_removed r = true) /\
     (cr = false -> sr_removed r = false)) /\
  (sr_refuse r = None -> seed_acceptable euid o ->
     sr_hang r = false /\ sr_used r = true /\ sr_removed r = false) /\
  (force = false -> (sr_refuse r = None <-> Forall (dir_ok euid tg 0) chain)) /\
  (sr_refuse r <> None -> sr_hang r = false /\ sr_used r = false /\ sr_removed r = false) /\
  (sr_hang r = true <-> sr_refuse r = None /\ seed_is_fifo o /\ seed_open_nonblock = false) /\
  (sr_hang r = true -> sr_used r = false /\ sr_removed r = false).
Proof. exact seed_spec. Qed.
Print Assumptions C16_seed_spec.

(* seed acceptance does not depend on the trusted group (the model's seed_read/seed_valid take no trusted-group
   argument; --trusted-group only enters the walk over the seed's directories): under any two trusted groups
   that both let the start go on, the same seed is used / removed / blocks; and a seed with a group read or
   write bit (mode land 0060 <> 0) is never used — whatever its group, the trusted group included *)
Theorem C16_seed_acceptance_ignores_trusted_group :
  forall (force : bool) (id : ident) (tg tg' : N) (cr : bool) (o : fobs) (chain : list dstat),
  (sr_refuse (seed_step force id tg cr o chain) = None ->
   sr_refuse (seed_step force id tg' cr o chain) = None ->
   sr_used (seed_step force id tg cr o chain) = sr_used (seed_step force id tg' cr o chain) /\
   sr_removed (seed_step force id tg cr o chain) = sr_removed (seed_step force id tg' cr o chain) /\
   sr_hang (seed_step force id tg cr o chain) = sr_hang (seed_step force id tg' cr o chain)) /\
  (forall s, o_stat o = Some s -> N.land (f_mode s) 48 <> 0 ->
   sr_used (seed_step force id tg cr o chain) = false).
Proof.
  intros force id tg tg' cr o chain.
  split; [exact (seed_ignores_trusted_group force id tg tg' cr o chain)|].
  intros s. exact (seed_group_bits_never_used force id tg cr o chain s).
Qed.
Print Assumptions C16_seed_acceptance_ignores_trusted_group.

(* observation / candidate finding: with the source as it stands (seed_open_nonblock = false) a FIFO at
   the seed path wedges the start; once the seed is opened with O_NONBLOCK the same configuration starts,
   the FIFO unused and unlinked.  Stated so that it checks on either side of the repair. *)
Theorem C16_seed_fifo_outcome :
  c_force fifo_seed_config = false /\
  startup fifo_seed_config = (if seed_open_nonblock then None else Some (SSeed, WHang)) /\
  (seed_open_nonblock = true -> sr_used (seed_of fifo_seed_config) = false /\
                                sr_removed (seed_of fifo_seed_config) = true).
Proof. split; [reflexivity|exact seed_fifo_outcome]. Qed.
Print Assumptions C16_seed_fifo_outcome.

(* log file (daemon mode): an existing one must be a regular non-symlink file of the effective uid, not
   group- or world-writable; its directories may be group-writable *)
Theorem C16_logfile_spec : forall (id : ident) (tg : N) (o : fobs) (chain : list dstat),
  logfile_check false id tg o chain = None <->
  log_ok (i_euid id) o /\ Forall (fun d => owner_ok (i_euid id) d /\ ow_ok d) chain.
Proof. exact logfile_spec. Qed.
Print Assumptions C16_logfile_spec.

(* every inherited umask 000-777, foreground and daemon mode, nothing at the names beforehand:
   socket 0777, lock 0200, pid within 0644, log within 0640, seed within 0600 *)
Theorem C16_modes_for_all_umasks : forall (fg : bool) (u : N), u < 512 ->
  created (sock_recipe fg) u = 511 /\ created (lock_recipe fg) u = 128 /\
  within (created (pid_recipe fg) u) 420 = true /\ within (created log_recipe u) 416 = true /\
  within (created (seed_recipe fg) u) 384 = true.
Proof. exact modes_for_all_umasks. Qed.
Print Assumptions C16_modes_for_all_umasks.

(* ... and WHATEVER is at the name beforehand (e ranges over: nothing; a file of any type, owner and mode;
   a symlink to any such file; a dangling symlink), WHATEVER the process may do in the directory that holds it
   (p: may it remove names there, may it create names there — a daemon that is not root may lack either), any
   identity, any umask.  unlink_fails p e: the unlink before the create fails with an errno other than ENOENT,
   i.e. a directory is in the way or the process may not remove what is there.
   The pid: the file it is written to is what stat reports at the name afterwards; when the old name could be
   removed it is a brand-new regular file (not reached through a symlink) of the effective uid and gid within
   0644; when it could not, open() REUSES the old file, and the source sets its mode (GenPath *_pid_rechmod:
   0644 less the umask) — so within 0644 whenever the file is the daemon's own or the daemon is root; the one
   case left: a file of ANOTHER owner that the daemon may write but neither remove nor chmod keeps its mode.
   The write blocks only on something that could not be removed. *)
Theorem C16_pid_any_prior : forall (fg : bool) (id : ident) (u : N) (p : dperm) (e : fobs), u < 512 ->
  let r := pid_write fg id u p e in
  (w_hang r = true -> unlink_fails p e = true) /\
  match w_file r with
  | Some s =>
      o_stat (w_entry r) = Some s /\
      (may_chmod id s = true -> within (f_mode s) 420 = true) /\
      (unlink_fails p e = false ->
         w_entry r = mko false (Some s) /\ f_type s = TReg /\ f_uid s = i_euid id /\ f_gid s = i_egid id /\
         within (f_mode s) 420 = true) /\
      (may_chmod id s = false -> unlink_fails p e = true /\ o_stat e = Some s)
  | None => True
  end.
Proof. exact pid_any_prior. Qed.
Print Assumptions C16_pid_any_prior.

(* the seed written at exit: never more permissive than 0600 and never a file the daemon does not own — a seed
   that could not be removed is overwritten only after its mode has been set to 0600 (GenPath *_seed_rechmod),
   and if that fails nothing is written *)
Theorem C16_seed_written_any_prior : forall (fg : bool) (id : ident) (u : N) (p : dperm) (e : fobs), u < 512 ->
  let r := seed_write fg id u p e in
  (w_hang r = true -> unlink_fails p e = true) /\
  match w_file r with
  | Some s =>
      o_stat (w_entry r) = Some s /\ within (f_mode s) 384 = true /\ may_chmod id s = true /\
      (unlink_fails p e = false ->
         w_entry r = mko false (Some s) /\ f_type s = TReg /\ f_uid s = i_euid id /\ f_gid s = i_egid id /\
         within (f_mode s) 384 = true) /\
      (unlink_fails p e = true ->
         o_symlink (w_entry r) = o_symlink e /\
         f_uid s = match o_stat e with Some s0 => f_uid s0 | None => i_euid id end)
  | None => True
  end.
Proof. exact seed_write_any_prior. Qed.
Print Assumptions C16_seed_written_any_prior.

(* when the process may remove names in the directory (uid 0 always may: perm_root) the old, stronger statement
   holds: whatever was there, the file written is brand-new *)
Theorem C16_pid_seed_removable : forall (fg : bool) (id : ident) (u : N) (p : dperm) (e : fobs), u < 512 ->
  p_remove p = true ->
  match w_file (pid_write fg id u p e) with
  | Some s => w_entry (pid_write fg id u p e) = mko false (Some s) /\ f_type s = TReg /\ f_uid s = i_euid id /\
              f_gid s = i_egid id /\ within (f_mode s) 420 = true
  | None => True
  end /\
  match w_file (seed_write fg id u p e) with
  | Some s => w_entry (seed_write fg id u p e) = mko false (Some s) /\ f_type s = TReg /\ f_uid s = i_euid id /\
              f_gid s = i_egid id /\ within (f_mode s) 384 = true
  | None => True
  end.
Proof. intros fg id u p e U R. split; [exact (pid_removable fg id u p e U R)|exact (seed_removable fg id u p e U R)]. Qed.
Print Assumptions C16_pid_seed_removable.

(* the source as it was before the repair (a reused file keeps its mode: rechmod = None) is REFUTED: a daemon
   that is not root (uid 4242), its own stale 0644 seed / 0666 pid file in a directory it may not write to —
   the new seed is written to a 0644 file, the pid to a 0666 file *)
Theorem C16_seed_reuse_old_refuted :
  exists fg id u p e s, u < 512 /\ w_file (seed_write_with None fg id u p e) = Some s /\
                        f_uid s = i_euid id /\ within (f_mode s) 384 = false.
Proof. exact seed_reuse_old_refuted. Qed.
Print Assumptions C16_seed_reuse_old_refuted.

Theorem C16_pid_reuse_old_refuted :
  exists fg id u p e s, u < 512 /\ w_file (pid_write_with None fg id u p e) = Some s /\
                        f_uid s = i_euid id /\ within (f_mode s) 420 = false.
Proof. exact pid_reuse_old_refuted. Qed.
Print Assumptions C16_pid_reuse_old_refuted.

(* the socket is a brand-new socket of the effective uid with mode exactly 0777, or the daemon dies (a directory
   in the way, an old name it may not remove, a directory it may not create names in) *)
Theorem C16_socket_any_prior : forall (fg : bool) (id : ident) (u : N) (p : dperm) (e : fobs), u < 512 ->
  match sock_bind fg id u p e with
  | Some e' => e' = mko false (Some (mkf TSock (i_euid id) (i_egid id) 511))
  | None => unlink_fails p e = true \/ p_create p = false
  end.
Proof. exact sock_any_prior. Qed.
Print Assumptions C16_socket_any_prior.

(* the lock: whenever the daemon carries on holding a lock, the locked file (what stat reports at the name)
   is a regular file of mode exactly 0200 owned by the effective uid; it carries on without one only
   under --force; under --force (old name removable) the lock file is brand-new; on a clean slate it is
   created 0200 *)
Theorem C16_lock_any_prior : forall (fg force : bool) (id : ident) (u : N) (p : dperm) (e : fobs),
  match lock_step fg force id u p e with
  | LLocked e' s => o_stat e' = Some s /\ f_type s = TReg /\ f_mode s = 128 /\ f_uid s = i_euid id /\
                    (force = true -> unlink_fails p e = false -> e' = mko false (Some s) /\ f_gid s = i_egid id)
  | LNoLock _ => force = true
  | LRefuse _ | LHang => True
  end.
Proof. exact lock_any_prior. Qed.
Print Assumptions C16_lock_any_prior.

Theorem C16_lock_fresh : forall (fg force : bool) (id : ident) (u : N) (p : dperm), u < 512 -> p_create p = true ->
  lock_step fg force id u p (mko false None) =
  LLocked (mko false (Some (mkf TReg (i_euid id) (i_egid id) 128))) (mkf TReg (i_euid id) (i_egid id) 128).
Proof. exact lock_fresh. Qed.
Print Assumptions C16_lock_fresh.

(* the log (daemon mode, no --force): the file opened is regular, reached without a symlink, owned by the
   effective uid and not group-/world-writable; when nothing was there it is new and within 0640; the open
   can only fail on a file the process may not write or in a directory it may not create the file in, and
   never blocks *)
Theorem C16_log_any_prior : forall (id : ident) (tg u : N) (p : dperm) (o : fobs) (chain : list dstat), u < 512 ->
  logfile_check false id tg o chain = None ->
  match log_open id u p o with
  | OOpened e' s => o_symlink e' = false /\ o_stat e' = Some s /\ f_type s = TReg /\ f_uid s = i_euid id /\
                    N.testbit (f_mode s) 4 = false /\ N.testbit (f_mode s) 1 = false /\
                    (o_stat o = None -> f_gid s = i_egid id /\ within (f_mode s) 416 = true)
  | OFail => (exists s, o_stat o = Some s /\ may_write id s = false) \/ (o_stat o = None /\ p_create p = false)
  | OBlock | OAbandon _ => False
  end.
Proof. exact log_any_prior. Qed.
Print Assumptions C16_log_any_prior.

(* the whole start-up in the order of main(): without --force a start implies all of the above for the
   key and for the directories of all five files — with respect to the effective uid — and the lock file
   is a regular file of mode exactly 0200 owned by the effective uid *)
Theorem C16_startup_refuses : forall c : config, c_force c = false -> startup c = None ->
  let euid := i_euid (c_id c) in
  key_ok euid (c_key c) /\
  Forall (dir_ok euid (c_tg c) 0) (c_keydir c) /\
  Forall (dir_ok euid (c_tg c) 0) (c_seeddir c) /\
  Forall (dir_ok euid (c_tg c) 0) (c_sockdir c) /\
  Forall (dir_ok euid (c_tg c) 0) (c_piddir c) /\
  (c_fg c = false -> log_ok euid (c_log c) /\
                     Forall (fun d => owner_ok euid d /\ ow_ok d) (c_logdir c)) /\
  exists e' s, lock_of c = LLocked e' s /\ o_stat e' = Some s /\ f_type s = TReg /\ f_mode s = 128 /\
               f_uid s = i_euid (c_id c).
Proof. exact startup_refuses. Qed.
Print Assumptions C16_startup_refuses.

(* a successful start (forced or not) with ANY prior state of the socket, lock, pid, log and seed names and
   any ownership/mode of the directories that hold them (perm_at: what the process may do there):
   what the five names hold afterwards *)
Theorem C16_started_files : forall c : config, c_umask c < 512 -> startup c = None ->
  let id := c_id c in let a := after_start c in
  a_sock a = mko false (Some (mkf TSock (i_euid id) (i_egid id) 511)) /\
  match lock_of c with
  | LLocked e' s => a_lock a = e' /\ o_stat e' = Some s /\ f_type s = TReg /\ f_mode s = 128 /\ f_uid s = i_euid id
  | LNoLock _ => c_force c = true
  | _ => False
  end /\
  match w_file (pid_of c) with
  | Some s => o_stat (a_pid a) = Some s /\
              (may_chmod id s = true -> within (f_mode s) 420 = true) /\
              (unlink_fails (perm_at id (c_piddir c) (c_pid c)) (c_pid c) = false ->
                 a_pid a = mko false (Some s) /\ f_type s = TReg /\ f_uid s = i_euid id /\
                 f_gid s = i_egid id /\ within (f_mode s) 420 = true) /\
              (may_chmod id s = false -> o_stat (c_pid c) = Some s)
  | None => True
  end /\
  match w_file (seed_written c) with
  | Some s => o_stat (seed_after c) = Some s /\ within (f_mode s) 384 = true /\ may_chmod id s = true /\
              (unlink_fails (perm_at id (c_seeddir c) (seed_at_exit c)) (seed_at_exit c) = false ->
                 seed_after c = mko false (Some s) /\ f_type s = TReg /\ f_uid s = i_euid id /\
                 f_gid s = i_egid id /\ within (f_mode s) 384 = true)
  | None => True
  end /\
  (c_fg c = false -> c_force c = false ->
   exists e' s, a_log a = Some e' /\ o_symlink e' = false /\ o_stat e' = Some s /\ f_type s = TReg /\
                f_uid s = i_euid id /\ N.testbit (f_mode s) 4 = false /\ N.testbit (f_mode s) 1 = false /\
                (o_stat (c_log c) = None -> within (f_mode s) 416 = true)).
Proof. exact started_files. Qed.
Print Assumptions C16_started_files.

(* "an existing seed file that fails the ownership/permission checks is ignored and removed, not used" when
   removal is IMPOSSIBLE (the daemon may not write to the seed's directory): ignored, not used, left in place
   at start-up; at exit it is overwritten only after its mode has been set within 0600 (exactly 0600: reuse_now)
   — by its owner or root, its owner unchanged — or not written to at all *)
Theorem C16_seed_unremovable : forall c : config, c_umask c < 512 -> startup c = None ->
  seed_present (c_seed c) -> ~ seed_acceptable (i_euid (c_id c)) (c_seed c) ->
  p_remove (perm_at (c_id c) (c_seeddir c) (c_seed c)) = false ->
  sr_used (seed_of c) = false /\ sr_removed (seed_of c) = false /\ seed_at_exit c = c_seed c /\
  match w_file (seed_written c) with
  | Some s => o_stat (seed_after c) = Some s /\ within (f_mode s) 384 = true /\ may_chmod (c_id c) s = true /\
              f_uid s = match o_stat (c_seed c) with Some s0 => f_uid s0 | None => i_euid (c_id c) end
  | None => True
  end.
Proof. exact seed_unremovable. Qed.
Print Assumptions C16_seed_unremovable.

(* the two witness states under the source as it is now: seed 0644 -> 0600, pid 0666 -> 0644 *)
Theorem C16_reuse_now :
  w_file (seed_write true daemon_id 18 no_write_perm (mko false (Some (mkf TReg 4242 4242 420)))) = Some (mkf TReg 4242 4242 384) /\
  w_file (pid_write true daemon_id 18 no_write_perm (mko false (Some (mkf TReg 4242 4242 438)))) = Some (mkf TReg 4242 4242 420).
Proof. exact reuse_now. Qed.
Print Assumptions C16_reuse_now.

(* only the effective uid (and, for the group of new files, the effective gid) matters: two processes that
   differ in real and saved ids only are treated alike at every step *)
Theorem C16_identity_only_effective : forall (c : config) (id : ident),
  i_euid id = i_euid (c_id c) -> i_egid id = i_egid (c_id c) ->
  startup (set_id c id) = startup c /\ after_start (set_id c id) = after_start c /\
  seed_of (set_id c id) = seed_of c /\ seed_after (set_id c id) = seed_after c.
Proof. exact identity_only_effective. Qed.
Print Assumptions C16_identity_only_effective.

(* observation (not a clause about created files): a log file that already exists keeps its mode, and
   its group/other read bits are not examined — an existing 0644 log is accepted and stays 0644 *)
Theorem C16_existing_log_keeps_mode :
  c_force log_0644_config = false /\ startup log_0644_config = None /\
  a_log (after_start log_0644_config) = Some (mko false (Some (mkf TReg 0 0 420))) /\ within 420 416 = false.
Proof. split; [reflexivity|exact existing_log_keeps_mode]. Qed.
Print Assumptions C16_existing_log_keeps_mode.

(* observation: a FIFO in the lock file's place blocks the start in open(O_WRONLY) (no O_NONBLOCK) *)
Theorem C16_lock_fifo_blocks :
  c_force fifo_lock_config = false /\ startup fifo_lock_config = Some (SLock, WHang).
Proof. split; [reflexivity|exact lock_fifo_outcome]. Qed.
Print Assumptions C16_lock_fifo_blocks.

(* non-vacuity: a configuration that starts (real uid 0, effective uid 1000; trusted group 7 owns a
   group-writable ancestor of the key; a stale world-writable pid file of somebody else, a symlink at the
   socket name, all in directories of the daemon user), the same configuration without the trusted group is refused at the key's second directory,
   and the same with real and effective uid swapped is refused at once: the seed's directory belongs to the
   real, not the effective user *)
Example C16_starts_example :
  let gwdir := mkd 0 7 509 in   (* 0775, gid 7 *)
  let own_dir := mkd 1000 0 493 in   (* the daemon user's own 0755 directory *)
  let c id tg := mkc true false id tg 63
      (mko false (Some (mkf TReg 1000 1000 256))) [mkd 1000 1000 448; gwdir; clean_dir]
      (mko false (Some (mkf TReg 1000 1000 420))) [own_dir; clean_dir]
      (mko false None) [own_dir; clean_dir]
      (mko true None) [own_dir; clean_dir] (mko false None)
      (mko false (Some (mkf TReg 5151 0 438))) [own_dir; clean_dir] in
  let id := mkid 0 1000 0 0 1000 0 in
  startup (c id 7) = None /\ startup (c id no_trusted) = Some (SKey, WDir 1 RGroupW) /\
  startup (c (mkid 1000 0 0 0 0 0) 7) = Some (SSeed, WDir 0 ROwner) /\
  sr_used (seed_of (c id 7)) = false /\ sr_removed (seed_of (c id 7)) = true /\
  a_pid (after_start (c id 7)) = mko false (Some (mkf TReg 1000 1000 384)) /\
  a_sock (after_start (c id 7)) = mko false (Some (mkf TSock 1000 1000 511)).
Proof. vm_compute. repeat split. Qed.
