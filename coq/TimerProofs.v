(* TimerProofs.v — proofs about TimerModel (the LTS read off timer.c / clock.c). *)
From Coq Require Import List ZArith Bool Lia Sorted Permutation.
Require Import ZifyBool ZifyNat.
From MV.gen Require Import GenTimer.
From MV Require Import TimerModel.
Import ListNotations.
Local Open Scope Z_scope.

(* ------------------------------------------------------------------ clock_is_timespec_le is a total preorder *)
Lemma ts_le_refl a : ts_le a a = true.
Proof. unfold ts_le. destruct (Z.eqb_spec (fst a) (fst a)); lia. Qed.

Lemma ts_le_total a b : ts_le a b = false -> ts_le b a = true.
Proof.
  unfold ts_le. intros H.
  destruct (Z.eqb_spec (fst a) (fst b)) as [E|E];
  destruct (Z.eqb_spec (fst b) (fst a)) as [E'|E']; lia.
Qed.

Lemma ts_le_trans a b c : ts_le a b = true -> ts_le b c = true -> ts_le a c = true.
Proof.
  unfold ts_le. intros H1 H2.
  destruct (Z.eqb_spec (fst a) (fst b)) as [E1|E1];
  destruct (Z.eqb_spec (fst b) (fst c)) as [E2|E2];
  destruct (Z.eqb_spec (fst a) (fst c)) as [E3|E3]; lia.
Qed.

(* a <= b in the lexicographic order on (sec, nsec) *)
Lemma ts_le_spec a b : ts_le a b = true <-> (fst a < fst b \/ (fst a = fst b /\ snd a <= snd b)).
Proof. unfold ts_le. destruct (Z.eqb_spec (fst a) (fst b)); lia. Qed.

(* ------------------------------------------------------------------ subsequences *)
Inductive Sub {A} : list A -> list A -> Prop :=
| Sub_nil l : Sub [] l
| Sub_skip x l m : Sub l m -> Sub l (x :: m)
| Sub_take x l m : Sub l m -> Sub (x :: l) (x :: m).
#[global] Hint Constructors Sub : core.

Lemma Sub_refl {A} (l : list A) : Sub l l.
Proof. induction l; auto. Qed.

Lemma Sub_In {A} (l m : list A) x : Sub l m -> In x l -> In x m.
Proof. induction 1; cbn; intuition (subst; auto). Qed.

Lemma Sub_app_l {A} (l m p : list A) : Sub l m -> Sub l (p ++ m).
Proof. induction p; cbn; auto. Qed.

Lemma Sub_app_r {A} (l m p : list A) : Sub l m -> Sub l (m ++ p).
Proof. induction 1; cbn; auto. Qed.

Lemma Sub_app {A} (a b c d : list A) : Sub a c -> Sub b d -> Sub (a ++ b) (c ++ d).
Proof. induction 1; cbn; intros; auto using Sub_app_l. Qed.

(* inserting an element anywhere keeps every subsequence *)
Lemma Sub_insert {A} (l x y : list A) t : Sub l (x ++ y) -> Sub l (x ++ t :: y).
Proof.
  revert l. induction x as [|a x IH]; cbn; intros l H.
  - auto.
  - inversion H; subst; auto.
Qed.

(* deleting an element that the subsequence does not use keeps it *)
Lemma Sub_delete {A} (l x y : list A) t : Sub l (x ++ t :: y) -> ~ In t l -> Sub l (x ++ y).
Proof.
  revert l. induction x as [|a x IH]; cbn; intros l H Hn.
  - inversion H; subst; auto. exfalso. apply Hn. now left.
  - inversion H; subst; auto.
    apply Sub_take. apply IH; auto. intros Hi. apply Hn. now right.
Qed.

Lemma Sub_pair_split {A} (a b : A) (f r : list A) :
  Sub [a; b] (f ++ r) -> ~ In b r -> Sub [a; b] f.
Proof.
  induction f as [|x f IH]; cbn; intros H Hn.
  - exfalso. apply Hn. apply (Sub_In [a; b] r); cbn; auto.
  - inversion H; subst.
    + apply Sub_skip. auto.
    + apply Sub_take.
      assert (Hb : In b (f ++ r)) by (apply (Sub_In [b] (f ++ r)); cbn; auto).
      apply in_app_or in Hb. destruct Hb as [Hb|Hb]; [|contradiction].
      clear - Hb. induction f as [|y f IH]; cbn in *; [contradiction|].
      destruct Hb as [->|Hb]; auto.
Qed.

Lemma Sub_pair_nodup {A} (a b : A) (l : list A) :
  NoDup l -> Sub [a; b] l -> Sub [b; a] l -> False.
Proof.
  induction 1 as [|x l Hx Hnd IH]; intros H1 H2.
  - inversion H1.
  - inversion H1; subst; inversion H2; subst; auto.
    + apply Hx. apply (Sub_In [a; x] l); cbn; auto.
    + apply Hx. apply (Sub_In [b; x] l); cbn; auto.
    + apply Hx. match goal with H : Sub [x] l |- _ => apply (Sub_In [x] l) end; cbn; auto.
Qed.

(* ------------------------------------------------------------------ the order kept by the active list *)
Definition before (a b : timer) : Prop :=
  ts_le (t_ts a) (t_ts b) = true /\ (ts_le (t_ts b) (t_ts a) = true -> t_id a < t_id b).

Lemma insert_perm t l : Permutation (insert t l) (t :: l).
Proof.
  induction l as [|x r IH]; cbn [insert]; auto.
  destruct (ts_le (t_ts x) (t_ts t)); auto.
  rewrite IH. apply perm_swap.
Qed.

Lemma insert_in t l x : In x (insert t l) <-> x = t \/ In x l.
Proof.
  split; intros H.
  - apply (Permutation_in _ (insert_perm t l)) in H. cbn in H. intuition.
  - apply (Permutation_in _ (Permutation_sym (insert_perm t l))). cbn. intuition.
Qed.

Lemma insert_split t l : exists l1 l2, l = l1 ++ l2 /\ insert t l = l1 ++ t :: l2
  /\ (at_head t l = true -> l1 = []) /\ (at_head t l = false -> head_ts (insert t l) = head_ts l).
Proof.
  induction l as [|x r IH]; cbn [insert at_head].
  - exists [], []. repeat split; auto. discriminate.
  - destruct (ts_le (t_ts x) (t_ts t)) eqn:E; cbn [negb].
    + destruct IH as (l1 & l2 & E1 & E2 & _).
      exists (x :: l1), l2. cbn. rewrite E1 at 1. rewrite E2. repeat split; auto. discriminate.
    + exists [], (x :: r). repeat split; auto. discriminate.
Qed.

Lemma insert_sorted t l :
  StronglySorted before l -> Forall (fun x => t_id x < t_id t) l -> StronglySorted before (insert t l).
Proof.
  induction 1 as [|x r Hs IH Hx]; intros Hid; cbn [insert].
  - repeat constructor.
  - inversion Hid as [|? ? Hxid Hrid]; subst.
    destruct (ts_le (t_ts x) (t_ts t)) eqn:E.
    + constructor; [apply IH; assumption|].
      apply Forall_forall. intros y Hy. apply insert_in in Hy. destruct Hy as [->|Hy].
      * split; auto.
      * rewrite Forall_forall in Hx. auto.
    + constructor; [constructor; assumption|].
      pose proof (ts_le_total _ _ E) as Etx.
      constructor.
      * split; auto. intros C. congruence.
      * apply Forall_forall. intros y Hy. rewrite Forall_forall in Hx.
        destruct (Hx y Hy) as [Hxy _]. split.
        -- eapply ts_le_trans; eauto.
        -- intros C. assert (ts_le (t_ts x) (t_ts t) = true) by (eapply ts_le_trans; eauto). congruence.
Qed.

Lemma sorted_app_inv l1 l2 : StronglySorted before (l1 ++ l2) ->
  StronglySorted before l1 /\ StronglySorted before l2
  /\ forall a b, In a l1 -> In b l2 -> before a b.
Proof.
  induction l1 as [|x l1 IH]; cbn; intros H.
  - split; [constructor|split; [assumption|intros ? ? []]].
  - inversion H as [|? ? Hs Hx]; subst. destruct (IH Hs) as (S1 & S2 & S3).
    rewrite Forall_forall in Hx.
    split; [|split; [assumption|]].
    + constructor; auto. apply Forall_forall. intros y Hy. apply Hx. apply in_or_app. auto.
    + intros a b [->|Ha] Hb; auto. apply Hx. apply in_or_app. auto.
Qed.

Lemma sorted_remove l1 t l2 : StronglySorted before (l1 ++ t :: l2) -> StronglySorted before (l1 ++ l2).
Proof.
  induction l1 as [|x l1 IH]; cbn; intros H.
  - inversion H; auto.
  - inversion H as [|? ? Hs Hx]; subst. constructor; auto.
    rewrite Forall_forall in *. intros y Hy. apply Hx.
    apply in_app_or in Hy. apply in_or_app. cbn. intuition.
Qed.

Lemma sorted_Sub a b l : StronglySorted before l -> Sub [a; b] l -> before a b.
Proof.
  induction 1 as [|x r Hs IH Hx]; intros H.
  - inversion H.
  - inversion H; subst; auto.
    rewrite Forall_forall in Hx. apply Hx. apply (Sub_In [b] r); cbn; auto.
Qed.

(* ------------------------------------------------------------------ find_remove = first entry with that id *)
Lemma find_remove_some id l t r : find_remove id l = Some (t, r) ->
  exists l1 l2, l = l1 ++ t :: l2 /\ r = l1 ++ l2 /\ t_id t = id /\ ~ In id (map t_id l1)
    /\ (head_is id l = true -> l1 = []) /\ (head_is id l = false -> head_ts r = head_ts l).
Proof.
  revert t r. induction l as [|x l IH]; cbn [find_remove head_is]; intros t r H; [discriminate|].
  destruct (Z.eqb_spec (t_id x) id) as [E|E].
  - inversion H; subst. exists [], r. repeat split; auto. discriminate.
  - destruct (find_remove id l) as [[t' r']|] eqn:F; [|discriminate].
    inversion H; subst. destruct (IH _ _ eq_refl) as (l1 & l2 & E1 & E2 & E3 & E4 & _).
    exists (x :: l1), l2. subst. cbn. repeat split; auto; try discriminate.
    intros [C|C]; auto.
Qed.

Lemma find_remove_none id l : find_remove id l = None <-> ~ In id (map t_id l).
Proof.
  induction l as [|x l IH]; cbn [find_remove map In].
  - tauto.
  - destruct (Z.eqb_spec (t_id x) id) as [E|E].
    + split; [discriminate|]. intros H. exfalso. apply H. auto.
    + destruct (find_remove id l) as [[t' r']|] eqn:F.
      * split; [discriminate|]. intros H. exfalso. destruct IH as [_ IH].
        assert (Some (t', r') = None) by (apply IH; intros C; apply H; auto). discriminate.
      * split; auto. intros _ [C|C]; [contradiction|]. destruct IH as [IH _]. apply (IH eq_refl C).
Qed.

(* ------------------------------------------------------------------ span_due = maximal due prefix *)
Lemma span_due_spec now l pre post : span_due now l = (pre, post) ->
  l = pre ++ post /\ Forall (fun t => ts_le (t_ts t) now = true) pre
  /\ match post with [] => True | y :: _ => ts_le (t_ts y) now = false end.
Proof.
  revert pre post. induction l as [|x l IH]; cbn [span_due]; intros pre post H.
  - inversion H; subst. repeat split; auto.
  - destruct (ts_le (t_ts x) now) eqn:E.
    + destruct (span_due now l) as [a b] eqn:S. inversion H; subst.
      destruct (IH _ _ eq_refl) as (E1 & E2 & E3). subst. repeat split; auto.
    + inversion H; subst. repeat split; auto.
Qed.

Lemma span_due_rest now l pre post : StronglySorted before l -> span_due now l = (pre, post) ->
  Forall (fun t => ts_le (t_ts t) now = false) post.
Proof.
  intros Hs H. destruct (span_due_spec _ _ _ _ H) as (E & _ & Hh). subst.
  destruct (sorted_app_inv _ _ Hs) as (_ & S2 & _).
  destruct post as [|y r]; [constructor|].
  inversion S2 as [|? ? _ Hy]; subst. constructor; auto.
  rewrite Forall_forall in *. intros z Hz. destruct (Hy z Hz) as [Hyz _].
  destruct (ts_le (t_ts z) now) eqn:C; auto.
  assert (ts_le (t_ts y) now = true) by (eapply ts_le_trans; eauto). congruence.
Qed.

(* ------------------------------------------------------------------ the invariant *)
Definition firedT (st : state) : list timer := map fst (fired st).
(* everything that was set and not cancelled, in the order in which it has run / will run *)
Definition pipe (st : state) : list timer := firedT st ++ expired st ++ active st.

Record Inv (st : state) : Prop := {
  inv_sorted : StronglySorted before (active st);
  inv_ids : Forall (fun t => 0 < t_id t <= last_id st) (pipe st);
  inv_nodup : NoDup (map t_id (pipe st));
  inv_last : 0 <= last_id st;
  inv_wait : forall d, thr st = Wait d -> expired st = [] /\ running st = None /\ done st = [];
  inv_due : forall now, thr st = Disp now -> Forall (fun t => ts_le (t_ts t) now = true) (expired st);
  inv_early : Forall (fun p => ts_le (t_ts (fst p)) (snd p) = true) (fired st);
  inv_sig : sig st = true -> is_wait (thr st) = true;
  inv_track : forall d, thr st = Wait d ->
              sig st = true \/ (0 < pend st)%nat \/ d = head_ts (active st)
}.

Lemma init_inv : Inv init.
Proof.
  constructor; cbn.
  - constructor.
  - constructor.
  - constructor.
  - lia.
  - auto.
  - discriminate.
  - constructor.
  - discriminate.
  - intros d H. inversion H; subst. auto.
Qed.

Lemma next_id_nowrap last : 0 <= last -> last < long_max -> next_id last = last + 1.
Proof.
  intros H0 H1. unfold next_id. cbv zeta.
  destruct (Z.ltb_spec long_max (last + 1)); [lia|].
  destruct (Z.leb_spec (last + 1) 0); lia.
Qed.

Lemma next_id_le last : next_id last <= Z.max 1 (last + 1).
Proof.
  unfold next_id. cbv zeta.
  destruct (Z.ltb_spec long_max (last + 1)); [lia|].
  destruct (Z.leb_spec (last + 1) 0); lia.
Qed.

(* what one set does to the lists *)
Lemma do_set_fields st t cb st' id : do_set st t cb = (st', id) ->
  exists slot, let tm := mkT id t cb slot in
  id = next_id (last_id st) /\ active st' = insert tm (active st) /\ expired st' = expired st
  /\ running st' = running st /\ done st' = done st /\ last_id st' = id /\ thr st' = thr st
  /\ sig st' = sig st /\ fired st' = fired st
  /\ pend st' = bump (at_head tm (active st)) (pend st).
Proof.
  unfold do_set. destruct (inactive st) as [|h r]; intros H; inversion H; subst; cbn;
    eexists; repeat split; reflexivity.
Qed.

Lemma do_cancel_fields st id st' r : do_cancel st id = (st', r) ->
  (r = -1 /\ id <= 0 /\ st' = st)
  \/ (r = 0 /\ 0 < id /\ st' = st /\ ~ In id (map t_id (active st)))
  \/ (r = 1 /\ 0 < id /\ exists t l1 l2, active st = l1 ++ t :: l2 /\ active st' = l1 ++ l2 /\ t_id t = id
      /\ ~ In id (map t_id l1)
      /\ expired st' = expired st /\ running st' = running st /\ done st' = done st
      /\ last_id st' = last_id st /\ thr st' = thr st /\ sig st' = sig st /\ fired st' = fired st
      /\ inactive st' = t :: inactive st
      /\ pend st' = bump (head_is id (active st)) (pend st)
      /\ (head_is id (active st) = true -> l1 = [])
      /\ (head_is id (active st) = false -> head_ts (l1 ++ l2) = head_ts (active st))).
Proof.
  unfold do_cancel. destruct (Z.leb_spec id 0) as [L|L]; intros H.
  - inversion H; subst. left. auto.
  - destruct (find_remove id (active st)) as [[t rest]|] eqn:F.
    + inversion H; subst. right. right. cbn.
      destruct (find_remove_some _ _ _ _ F) as (l1 & l2 & E1 & E2 & E3 & E3' & E4 & E5).
      repeat split; auto. exists t, l1, l2. subst rest. repeat split; auto.
    + inversion H; subst. right. left. repeat split; auto. now apply find_remove_none.
Qed.

(* ------------------------------------------------------------------ preservation, primitive by primitive *)
Lemma pipe_set_perm (F E A : list timer) tm :
  Permutation (F ++ E ++ insert tm A) (tm :: F ++ E ++ A).
Proof.
  transitivity (F ++ E ++ tm :: A).
  - do 2 apply Permutation_app_head. apply insert_perm.
  - rewrite !app_assoc. symmetry. apply Permutation_middle.
Qed.

Lemma do_set_inv st t cb st' id :
  Inv st -> last_id st < long_max -> do_set st t cb = (st', id) ->
  Inv st' /\ id = last_id st + 1.
Proof.
  intros I Hw H. destruct (do_set_fields _ _ _ _ _ H) as (slot & Hid & Ha & He & Hr & Hd & Hl & Ht & Hs & Hf & Hp).
  cbv zeta in *. set (tm := mkT id t cb slot) in *.
  destruct I as [Is Ii In0 Il Iw Idue Ie Isg It].
  rewrite next_id_nowrap in Hid by assumption.
  assert (Hpipe : pipe st' = firedT st ++ expired st ++ insert tm (active st)).
  { unfold pipe, firedT. rewrite Hf, He, Ha. reflexivity. }
  assert (Hperm : Permutation (pipe st') (tm :: pipe st)).
  { rewrite Hpipe. apply pipe_set_perm. }
  rewrite Forall_forall in Ii.
  split; [|assumption]. constructor.
  - rewrite Ha. apply insert_sorted; auto. apply Forall_forall. intros x Hx.
    assert (In x (pipe st)) by (unfold pipe; rewrite !in_app_iff; auto).
    specialize (Ii x H0). cbn. lia.
  - apply Forall_forall. intros x Hx. apply (Permutation_in _ Hperm) in Hx. rewrite Hl.
    destruct Hx as [<-|Hx]; [cbn; lia|]. specialize (Ii x Hx). lia.
  - apply (Permutation_NoDup (Permutation_sym (Permutation_map t_id Hperm))).
    cbn [map]. constructor; auto. intros C. apply in_map_iff in C. destruct C as (x & Ex & Hx).
    specialize (Ii x Hx). cbn in Ex. lia.
  - lia.
  - intros d Hd'. rewrite Ht in Hd'. rewrite He, Hr, Hd. eauto.
  - intros now Hn. rewrite Ht in Hn. rewrite He. eauto.
  - rewrite Hf. assumption.
  - rewrite Hs, Ht. assumption.
  - intros d Hd'. rewrite Ht in Hd'. rewrite Hs, Hp, Ha.
    destruct (insert_split tm (active st)) as (l1 & l2 & _ & _ & _ & Hh).
    destruct (at_head tm (active st)) eqn:E; cbn [bump].
    + right. left. lia.
    + rewrite (Hh eq_refl). eauto.
Qed.

Lemma do_cancel_inv st id st' r : Inv st -> do_cancel st id = (st', r) -> Inv st'.
Proof.
  intros I H. destruct (do_cancel_fields _ _ _ _ H) as [(_ & _ & ->)|[(_ & _ & -> & _)|C]]; auto.
  destruct C as (_ & _ & t & l1 & l2 & Ea & Ea' & Eid & Hn & He & Hr & Hd & Hl & Ht & Hs & Hf & _ & Hp & Hh1 & Hh2).
  destruct I as [Is Ii In0 Il Iw Idue Ie Isg It].
  assert (P0 : pipe st = (firedT st ++ expired st ++ l1) ++ t :: l2).
  { unfold pipe. rewrite Ea, <- !app_assoc. reflexivity. }
  assert (P1 : pipe st' = (firedT st ++ expired st ++ l1) ++ l2).
  { unfold pipe, firedT. rewrite Hf, He, Ea', <- !app_assoc. reflexivity. }
  constructor.
  - rewrite Ea'. rewrite Ea in Is. eapply sorted_remove; eauto.
  - rewrite P1, Hl. rewrite P0 in Ii. rewrite Forall_forall in *. intros x Hx. apply Ii.
    rewrite in_app_iff in *. cbn. tauto.
  - rewrite P1. rewrite P0 in In0. rewrite map_app in *. cbn [map] in In0.
    eapply NoDup_remove_1; eauto.
  - lia.
  - intros d Hd'. rewrite Ht in Hd'. rewrite He, Hr, Hd. eauto.
  - intros now Hn'. rewrite Ht in Hn'. rewrite He. eauto.
  - rewrite Hf. assumption.
  - rewrite Hs, Ht. assumption.
  - intros d Hd'. rewrite Ht in Hd'. rewrite Hs, Hp, Ea'.
    destruct (head_is id (active st)) eqn:E; cbn [bump].
    + right. left. lia.
    + rewrite (Hh2 eq_refl). eauto.
Qed.

Lemma set_running_inv st r : Inv st -> is_wait (thr st) = false -> Inv (set_running st r).
Proof.
  intros [Is Ii In0 Il Iw Idue Ie Isg It] Hw. constructor; cbn; auto.
  intros d Hd. rewrite Hd in Hw. discriminate.
Qed.

Lemma running_not_wait st x : Inv st -> running st = Some x -> is_wait (thr st) = false.
Proof.
  intros I H. destruct (thr st) eqn:E; auto. destruct (inv_wait _ I _ E) as (_ & C & _). congruence.
Qed.

Section Steps.
Variable prog : nat -> list cop.

Lemma step_inv st l st' o :
  Inv st -> last_id st < long_max -> step prog st l = Some (st', o) -> Inv st'.
Proof.
  intros I Hw H. destruct l; cbn [step] in H.
  - (* LSet *) destruct (do_set st t cb) as [s i] eqn:E. inversion H; subst.
    eapply do_set_inv; eauto.
  - (* LCancel *) destruct (do_cancel st id) as [s r] eqn:E. inversion H; subst.
    eapply do_cancel_inv; eauto.
  - (* LSignal *) destruct (pend st) as [|p] eqn:Ep; [discriminate|]. inversion H; subst; clear H.
    destruct I as [Is Ii In0 Il Iw Idue Ie Isg It]. constructor; cbn; auto.
    + destruct (thr st); cbn; auto.
    + intros d Hd. rewrite Hd. cbn. auto.
  - (* LWake *) destruct (thr st) as [d|] eqn:Et; [|discriminate].
    destruct (span_due now (active st)) as [pre post] eqn:Es.
    destruct (span_due_spec _ _ _ _ Es) as (Eapp & Hdue & _).
    destruct (inv_wait _ I _ Et) as (Ee & Er & Ed).
    destruct I as [Is Ii In0 Il Iw Idue Ie Isg It].
    destruct pre as [|p pre]; inversion H; subst; clear H.
    + constructor; cbn; auto.
      * intros d' Hd'. auto.
      * discriminate.
      * intros d' Hd'. inversion Hd'; subst. auto.
    + assert (P : firedT st ++ (p :: pre) ++ post = pipe st).
      { unfold pipe. rewrite Ee, Eapp. reflexivity. }
      constructor; cbn; auto.
      * rewrite Eapp in Is. apply (sorted_app_inv _ _ Is).
      * unfold pipe; cbn. fold (firedT st). unfold firedT at 1; cbn. fold (firedT st).
        change (map fst (fired st)) with (firedT st). rewrite P. assumption.
      * unfold pipe; cbn. change (map fst (fired st)) with (firedT st). rewrite P. assumption.
      * discriminate.
      * intros now' Hn. inversion Hn; subst. assumption.
      * discriminate.
      * discriminate.
  - (* LBegin *) destruct (thr st) as [|now] eqn:Et; [discriminate|].
    destruct (running st) eqn:Er; [discriminate|]. destruct (expired st) as [|t r] eqn:Ee; [discriminate|].
    inversion H; subst; clear H.
    destruct I as [Is Ii In0 Il Iw Idue Ie Isg It].
    assert (P : map fst (fired st ++ [(t, now)]) ++ r ++ active st = pipe st).
    { unfold pipe, firedT. rewrite Ee, map_app. cbn. rewrite <- app_assoc. reflexivity. }
    specialize (Idue _ Et). rewrite Ee in Idue. inversion Idue; subst.
    constructor; cbn; auto.
    + unfold pipe, firedT; cbn. rewrite P. assumption.
    + unfold pipe, firedT; cbn. rewrite P. assumption.
    + rewrite Et. discriminate.
    + rewrite Et. intros now' Hn. inversion Hn; subst. assumption.
    + apply Forall_app. split; auto.
    + rewrite Et. discriminate.
  - (* LCbSet *) destruct (running st) as [[tm [|[cb|] rem]]|] eqn:Er; try discriminate.
    destruct (do_set (set_running st (Some (tm, rem))) t cb) as [s i] eqn:E. inversion H; subst.
    eapply do_set_inv; eauto. apply set_running_inv; auto. eapply running_not_wait; eauto.
  - (* LCbCancel *) destruct (running st) as [[tm [|[cb|] rem]]|] eqn:Er; try discriminate.
    destruct (do_cancel (set_running st (Some (tm, rem))) id) as [s r] eqn:E. inversion H; subst.
    eapply do_cancel_inv; eauto. apply set_running_inv; auto. eapply running_not_wait; eauto.
  - (* LEnd *) destruct (running st) as [[tm [|c rem]]|] eqn:Er; try discriminate.
    inversion H; subst; clear H. pose proof (running_not_wait _ _ I Er) as Hnw.
    destruct I as [Is Ii In0 Il Iw Idue Ie Isg It]. constructor; cbn; auto.
    intros d Hd. rewrite Hd in Hnw. discriminate.
  - (* LRetire *) destruct (thr st) as [|now] eqn:Et; [discriminate|].
    destruct (running st) eqn:Er; [discriminate|]. destruct (expired st) as [|t r] eqn:Ee; [discriminate|].
    inversion H; subst; clear H.
    destruct I as [Is Ii In0 Il Iw Idue Ie Isg It]. constructor; cbn; auto.
    + unfold pipe, firedT in *; cbn. rewrite Ee in Ii. assumption.
    + unfold pipe, firedT in *; cbn. rewrite Ee in In0. assumption.
    + discriminate.
    + intros d Hd. inversion Hd; subst. auto.
Qed.
End Steps.
