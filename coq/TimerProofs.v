(* TimerProofs.v — proofs about TimerModel (the LTS read off timer.c / clock.c). *)
From Coq Require Import List ZArith Bool Lia Sorted Permutation.
Require Import ZifyBool ZifyNat.
From MV.gen Require Import GenTimer.
From MV Require Import TimerModel.
Import ListNotations.
Local Open Scope Z_scope.

(* ------------------------------------------------------------------ clock_is_timespec_le is a total preorder *)
Lemma ts_le_refl a : ts_le a a = true.
Proof. unfold ts_le. destruct (Z.eqb_spec (fst a) (fst a)); lia. Qed.

Lemma ts_le_total a b : ts_le a b = false -> ts_le b a = true.
Proof.
  unfold ts_le. intros H.
  destruct (Z.eqb_spec (fst a) (fst b)) as [E|E];
  destruct (Z.eqb_spec (fst b) (fst a)) as [E'|E']; lia.
Qed.

Lemma ts_le_trans a b c : ts_le a b = true -> ts_le b c = true -> ts_le a c = true.
Proof.
  unfold ts_le. intros H1 H2.
  destruct (Z.eqb_spec (fst a) (fst b)) as [E1|E1];
  destruct (Z.eqb_spec (fst b) (fst c)) as [E2|E2];
  destruct (Z.eqb_spec (fst a) (fst c)) as [E3|E3]; lia.
Qed.

(* a <= b in the lexicographic order on (sec, nsec) *)
Lemma ts_le_spec a b : ts_le a b = true <-> (fst a < fst b \/ (fst a = fst b /\ snd a <= snd b)).
Proof. unfold ts_le. destruct (Z.eqb_spec (fst a) (fst b)); lia. Qed.

(* ------------------------------------------------------------------ subsequences *)
Inductive Sub {A} : list A -> list A -> Prop :=
| Sub_nil l : Sub [] l
| Sub_skip x l m : Sub l m -> Sub l (x :: m)
| Sub_take x l m : Sub l m -> Sub (x :: l) (x :: m).
#[global] Hint Constructors Sub : core.

Lemma Sub_refl {A} (l : list A) : Sub l l.
Proof. induction l; auto. Qed.

Lemma Sub_In {A} (l m : list A) x : Sub l m -> In x l -> In x m.
Proof. induction 1; cbn; intuition (subst; auto). Qed.

Lemma Sub_app_l {A} (l m p : list A) : Sub l m -> Sub l (p ++ m).
Proof. induction p; cbn; auto. Qed.

Lemma Sub_app_r {A} (l m p : list A) : Sub l m -> Sub l (m ++ p).
Proof. induction 1; cbn; auto. Qed.

Lemma Sub_app {A} (a b c d : list A) : Sub a c -> Sub b d -> Sub (a ++ b) (c ++ d).
Proof. induction 1; cbn; intros; auto using Sub_app_l. Qed.

(* inserting an element anywhere keeps every subsequence *)
Lemma Sub_insert {A} (l x y : list A) t : Sub l (x ++ y) -> Sub l (x ++ t :: y).
Proof.
  revert l. induction x as [|a x IH]; cbn; intros l H.
  - auto.
  - inversion H; subst; auto.
Qed.

(* deleting an element that the subsequence does not use keeps it *)
Lemma Sub_delete {A} (l x y : list A) t : Sub l (x ++ t :: y) -> ~ In t l -> Sub l (x ++ y).
Proof.
  revert l. induction x as [|a x IH]; cbn; intros l H Hn.
  - inversion H; subst; auto. exfalso. apply Hn. now left.
  - inversion H; subst; auto.
    apply Sub_take. apply IH; auto. intros Hi. apply Hn. now right.
Qed.

Lemma Sub_pair_split {A} (a b : A) (f r : list A) :
  Sub [a; b] (f ++ r) -> ~ In b r -> Sub [a; b] f.
Proof.
  induction f as [|x f IH]; cbn; intros H Hn.
  - exfalso. apply Hn. apply (Sub_In [a; b] r); cbn; auto.
  - inversion H; subst.
    + apply Sub_skip. auto.
    + apply Sub_take.
      assert (Hb : In b (f ++ r)) by (apply (Sub_In [b] (f ++ r)); cbn; auto).
      apply in_app_or in Hb. destruct Hb as [Hb|Hb]; [|contradiction].
      clear - Hb. induction f as [|y f IH]; cbn in *; [contradiction|].
      destruct Hb as [->|Hb]; auto.
Qed.

Lemma Sub_pair_nodup {A} (a b : A) (l : list A) :
  NoDup l -> Sub [a; b] l -> Sub [b; a] l -> False.
Proof.
  induction 1 as [|x l Hx Hnd IH]; intros H1 H2.
  - inversion H1.
  - inversion H1; subst; inversion H2; subst; auto.
    + apply Hx. apply (Sub_In [a; x] l); cbn; auto.
    + apply Hx. apply (Sub_In [b; x] l); cbn; auto.
    + apply Hx. match goal with H : Sub [x] l |- _ => apply (Sub_In [x] l) end; cbn; auto.
Qed.

Lemma NoDup_app_l {A} (l m : list A) : NoDup (l ++ m) -> NoDup l.
Proof.
  induction l as [|x l IH]; cbn; intros H; [constructor|].
  inversion H; subst. constructor; auto. intros C. apply H2. apply in_or_app. auto.
Qed.

Lemma NoDup_app_notin {A} (l m : list A) x : NoDup (l ++ m) -> In x l -> ~ In x m.
Proof.
  induction l as [|y l IH]; cbn; intros H Hin; [contradiction|].
  inversion H; subst. destruct Hin as [E|E].
  - subst. intros C. apply H2. apply in_or_app. auto.
  - auto.
Qed.

(* ------------------------------------------------------------------ the order kept by the active list *)
Definition before (a b : timer) : Prop :=
  ts_le (t_ts a) (t_ts b) = true /\ (ts_le (t_ts b) (t_ts a) = true -> t_id a < t_id b).

Lemma insert_perm t l : Permutation (insert t l) (t :: l).
Proof.
  induction l as [|x r IH]; cbn [insert]; auto.
  destruct (ts_le (t_ts x) (t_ts t)); auto.
  rewrite IH. apply perm_swap.
Qed.

Lemma insert_in t l x : In x (insert t l) <-> x = t \/ In x l.
Proof.
  split; intros H.
  - apply (Permutation_in _ (insert_perm t l)) in H. cbn in H. intuition.
  - apply (Permutation_in _ (Permutation_sym (insert_perm t l))). cbn. intuition.
Qed.

Lemma insert_split t l : exists l1 l2, l = l1 ++ l2 /\ insert t l = l1 ++ t :: l2
  /\ (at_head t l = true -> l1 = []) /\ (at_head t l = false -> head_ts (insert t l) = head_ts l).
Proof.
  induction l as [|x r IH]; cbn [insert at_head].
  - exists [], []. repeat split; auto. discriminate.
  - destruct (ts_le (t_ts x) (t_ts t)) eqn:E; cbn [negb].
    + destruct IH as (l1 & l2 & E1 & E2 & _).
      exists (x :: l1), l2. cbn. rewrite E1 at 1. rewrite E2. repeat split; auto. discriminate.
    + exists [], (x :: r). repeat split; auto. discriminate.
Qed.

Lemma insert_sorted t l :
  StronglySorted before l -> Forall (fun x => t_id x < t_id t) l -> StronglySorted before (insert t l).
Proof.
  induction 1 as [|x r Hs IH Hx]; intros Hid; cbn [insert].
  - repeat constructor.
  - inversion Hid as [|? ? Hxid Hrid]; subst.
    destruct (ts_le (t_ts x) (t_ts t)) eqn:E.
    + constructor; [apply IH; assumption|].
      apply Forall_forall. intros y Hy. apply insert_in in Hy. destruct Hy as [->|Hy].
      * split; auto.
      * rewrite Forall_forall in Hx. auto.
    + constructor; [constructor; assumption|].
      pose proof (ts_le_total _ _ E) as Etx.
      constructor.
      * split; auto. intros C. congruence.
      * apply Forall_forall. intros y Hy. rewrite Forall_forall in Hx.
        destruct (Hx y Hy) as [Hxy _]. split.
        -- eapply ts_le_trans; eauto.
        -- intros C. assert (ts_le (t_ts x) (t_ts t) = true) by (eapply ts_le_trans; eauto). congruence.
Qed.

Lemma sorted_app_inv l1 l2 : StronglySorted before (l1 ++ l2) ->
  StronglySorted before l1 /\ StronglySorted before l2
  /\ forall a b, In a l1 -> In b l2 -> before a b.
Proof.
  induction l1 as [|x l1 IH]; cbn; intros H.
  - split; [constructor|split; [assumption|intros ? ? []]].
  - inversion H as [|? ? Hs Hx]; subst. destruct (IH Hs) as (S1 & S2 & S3).
    rewrite Forall_forall in Hx.
    split; [|split; [assumption|]].
    + constructor; auto. apply Forall_forall. intros y Hy. apply Hx. apply in_or_app. auto.
    + intros a b [->|Ha] Hb; auto. apply Hx. apply in_or_app. auto.
Qed.

Lemma sorted_remove l1 t l2 : StronglySorted before (l1 ++ t :: l2) -> StronglySorted before (l1 ++ l2).
Proof.
  induction l1 as [|x l1 IH]; cbn; intros H.
  - inversion H; auto.
  - inversion H as [|? ? Hs Hx]; subst. constructor; auto.
    rewrite Forall_forall in *. intros y Hy. apply Hx.
    apply in_app_or in Hy. apply in_or_app. cbn. intuition.
Qed.

Lemma sorted_Sub a b l : StronglySorted before l -> Sub [a; b] l -> before a b.
Proof.
  induction 1 as [|x r Hs IH Hx]; intros H.
  - inversion H.
  - inversion H; subst; auto.
    rewrite Forall_forall in Hx. apply Hx. apply (Sub_In [b] r); cbn; auto.
Qed.

(* ------------------------------------------------------------------ find_remove = first entry with that id *)
Lemma find_remove_some id l t r : find_remove id l = Some (t, r) ->
  exists l1 l2, l = l1 ++ t :: l2 /\ r = l1 ++ l2 /\ t_id t = id /\ ~ In id (map t_id l1)
    /\ (head_is id l = true -> l1 = []) /\ (head_is id l = false -> head_ts r = head_ts l).
Proof.
  revert t r. induction l as [|x l IH]; cbn [find_remove head_is]; intros t r H; [discriminate|].
  destruct (Z.eqb_spec (t_id x) id) as [E|E].
  - inversion H; subst. exists [], r. repeat split; auto. discriminate.
  - destruct (find_remove id l) as [[t' r']|] eqn:F; [|discriminate].
    inversion H; subst. destruct (IH _ _ eq_refl) as (l1 & l2 & E1 & E2 & E3 & E4 & _).
    exists (x :: l1), l2. subst. cbn. repeat split; auto; try discriminate.
    intros [C|C]; auto.
Qed.

Lemma find_remove_none id l : find_remove id l = None <-> ~ In id (map t_id l).
Proof.
  induction l as [|x l IH]; cbn [find_remove map In].
  - tauto.
  - destruct (Z.eqb_spec (t_id x) id) as [E|E].
    + split; [discriminate|]. intros H. exfalso. apply H. auto.
    + destruct (find_remove id l) as [[t' r']|] eqn:F.
      * split; [discriminate|]. intros H. exfalso. destruct IH as [_ IH].
        assert (Some (t', r') = None) by (apply IH; intros C; apply H; auto). discriminate.
      * split; auto. intros _ [C|C]; [contradiction|]. destruct IH as [IH _]. apply (IH eq_refl C).
Qed.

(* ------------------------------------------------------------------ span_due = maximal due prefix *)
Lemma span_due_spec now l pre post : span_due now l = (pre, post) ->
  l = pre ++ post /\ Forall (fun t => ts_le (t_ts t) now = true) pre
  /\ match post with [] => True | y :: _ => ts_le (t_ts y) now = false end.
Proof.
  revert pre post. induction l as [|x l IH]; cbn [span_due]; intros pre post H.
  - inversion H; subst. repeat split; auto.
  - destruct (ts_le (t_ts x) now) eqn:E.
    + destruct (span_due now l) as [a b] eqn:S. inversion H; subst.
      destruct (IH _ _ eq_refl) as (E1 & E2 & E3). subst. repeat split; auto.
    + inversion H; subst. repeat split; auto.
Qed.

Lemma span_due_rest now l pre post : StronglySorted before l -> span_due now l = (pre, post) ->
  Forall (fun t => ts_le (t_ts t) now = false) post.
Proof.
  intros Hs H. destruct (span_due_spec _ _ _ _ H) as (E & _ & Hh). subst.
  destruct (sorted_app_inv _ _ Hs) as (_ & S2 & _).
  destruct post as [|y r]; [constructor|].
  inversion S2 as [|? ? _ Hy]; subst. constructor; auto.
  rewrite Forall_forall in *. intros z Hz. destruct (Hy z Hz) as [Hyz _].
  destruct (ts_le (t_ts z) now) eqn:C; auto.
  assert (ts_le (t_ts y) now = true) by (eapply ts_le_trans; eauto). congruence.
Qed.

(* ------------------------------------------------------------------ the invariant *)
Definition firedT (st : state) : list timer := map fst (fired st).
(* everything that was set and not cancelled, in the order in which it has run / will run *)
Definition pipe (st : state) : list timer := firedT st ++ expired st ++ active st.

Record Inv (st : state) : Prop := {
  inv_sorted : StronglySorted before (active st);
  inv_ids : Forall (fun t => 0 < t_id t <= last_id st) (pipe st);
  inv_nodup : NoDup (map t_id (pipe st));
  inv_last : 0 <= last_id st;
  inv_wait : forall d, thr st = Wait d -> expired st = [] /\ running st = None /\ done st = [];
  inv_due : forall now, thr st = Disp now -> Forall (fun t => ts_le (t_ts t) now = true) (expired st);
  inv_early : Forall (fun p => ts_le (t_ts (fst p)) (snd p) = true) (fired st);
  inv_sig : sig st = true -> is_wait (thr st) = true;
  inv_track : forall d, thr st = Wait d ->
              sig st = true \/ (0 < pend st)%nat \/ d = head_ts (active st)
}.

Lemma init_inv : Inv init.
Proof.
  constructor; cbn.
  - constructor.
  - constructor.
  - constructor.
  - lia.
  - auto.
  - discriminate.
  - constructor.
  - discriminate.
  - intros d H. inversion H; subst. auto.
Qed.

Lemma next_id_nowrap last : 0 <= last -> last < long_max -> next_id last = last + 1.
Proof.
  intros H0 H1. unfold next_id. cbv zeta.
  destruct (Z.ltb_spec long_max (last + 1)); [lia|].
  destruct (Z.leb_spec (last + 1) 0); lia.
Qed.

Lemma next_id_le last : next_id last <= Z.max 1 (last + 1).
Proof.
  unfold next_id. cbv zeta.
  destruct (Z.ltb_spec long_max (last + 1)); [lia|].
  destruct (Z.leb_spec (last + 1) 0); lia.
Qed.

(* what one set does to the lists *)
Lemma do_set_fields st t cb st' id : do_set st t cb = (st', id) ->
  exists slot, let tm := mkT id t cb slot in
  id = next_id (last_id st) /\ active st' = insert tm (active st) /\ expired st' = expired st
  /\ running st' = running st /\ done st' = done st /\ last_id st' = id /\ thr st' = thr st
  /\ sig st' = sig st /\ fired st' = fired st
  /\ pend st' = bump (at_head tm (active st)) (pend st).
Proof.
  unfold do_set. destruct (inactive st) as [|h r]; intros H; inversion H; subst; cbn;
    eexists; repeat split; reflexivity.
Qed.

Lemma do_cancel_fields st id st' r : do_cancel st id = (st', r) ->
  (r = -1 /\ id <= 0 /\ st' = st)
  \/ (r = 0 /\ 0 < id /\ st' = st /\ ~ In id (map t_id (active st)))
  \/ (r = 1 /\ 0 < id /\ exists t l1 l2, active st = l1 ++ t :: l2 /\ active st' = l1 ++ l2 /\ t_id t = id
      /\ ~ In id (map t_id l1)
      /\ expired st' = expired st /\ running st' = running st /\ done st' = done st
      /\ last_id st' = last_id st /\ thr st' = thr st /\ sig st' = sig st /\ fired st' = fired st
      /\ inactive st' = t :: inactive st
      /\ pend st' = bump (head_is id (active st)) (pend st)
      /\ (head_is id (active st) = true -> l1 = [])
      /\ (head_is id (active st) = false -> head_ts (l1 ++ l2) = head_ts (active st))).
Proof.
  unfold do_cancel. destruct (Z.leb_spec id 0) as [L|L]; intros H.
  - inversion H; subst. left. auto.
  - destruct (find_remove id (active st)) as [[t rest]|] eqn:F.
    + inversion H; subst. right. right. cbn.
      destruct (find_remove_some _ _ _ _ F) as (l1 & l2 & E1 & E2 & E3 & E3' & E4 & E5).
      repeat split; auto. exists t, l1, l2. subst rest. repeat split; auto.
    + inversion H; subst. right. left. repeat split; auto. now apply find_remove_none.
Qed.

(* ------------------------------------------------------------------ preservation, primitive by primitive *)
Lemma pipe_set_perm (F E A : list timer) tm :
  Permutation (F ++ E ++ insert tm A) (tm :: F ++ E ++ A).
Proof.
  transitivity (F ++ E ++ tm :: A).
  - do 2 apply Permutation_app_head. apply insert_perm.
  - rewrite !app_assoc. symmetry. apply Permutation_middle.
Qed.

Lemma do_set_inv st t cb st' id :
  Inv st -> last_id st < long_max -> do_set st t cb = (st', id) ->
  Inv st' /\ id = last_id st + 1.
Proof.
  intros I Hw H. destruct (do_set_fields _ _ _ _ _ H) as (slot & Hid & Ha & He & Hr & Hd & Hl & Ht & Hs & Hf & Hp).
  cbv zeta in *. set (tm := mkT id t cb slot) in *.
  destruct I as [Is Ii In0 Il Iw Idue Ie Isg It].
  rewrite next_id_nowrap in Hid by assumption.
  assert (Hpipe : pipe st' = firedT st ++ expired st ++ insert tm (active st)).
  { unfold pipe, firedT. rewrite Hf, He, Ha. reflexivity. }
  assert (Hperm : Permutation (pipe st') (tm :: pipe st)).
  { rewrite Hpipe. apply pipe_set_perm. }
  rewrite Forall_forall in Ii.
  split; [|assumption]. constructor.
  - rewrite Ha. apply insert_sorted; auto. apply Forall_forall. intros x Hx.
    assert (In x (pipe st)) by (unfold pipe; rewrite !in_app_iff; auto).
    specialize (Ii x H0). cbn. lia.
  - apply Forall_forall. intros x Hx. apply (Permutation_in _ Hperm) in Hx. rewrite Hl.
    destruct Hx as [<-|Hx]; [cbn; lia|]. specialize (Ii x Hx). lia.
  - apply (Permutation_NoDup (Permutation_sym (Permutation_map t_id Hperm))).
    cbn [map]. constructor; auto. intros C. apply in_map_iff in C. destruct C as (x & Ex & Hx).
    specialize (Ii x Hx). cbn in Ex. lia.
  - lia.
  - intros d Hd'. rewrite Ht in Hd'. rewrite He, Hr, Hd. eauto.
  - intros now Hn. rewrite Ht in Hn. rewrite He. eauto.
  - rewrite Hf. assumption.
  - rewrite Hs, Ht. assumption.
  - intros d Hd'. rewrite Ht in Hd'. rewrite Hs, Hp, Ha.
    destruct (insert_split tm (active st)) as (l1 & l2 & _ & _ & _ & Hh).
    destruct (at_head tm (active st)) eqn:E; cbn [bump].
    + right. left. lia.
    + rewrite (Hh eq_refl). eauto.
Qed.

Lemma do_cancel_inv st id st' r : Inv st -> do_cancel st id = (st', r) -> Inv st'.
Proof.
  intros I H. destruct (do_cancel_fields _ _ _ _ H) as [(_ & _ & ->)|[(_ & _ & -> & _)|C]]; auto.
  destruct C as (_ & _ & t & l1 & l2 & Ea & Ea' & Eid & Hn & He & Hr & Hd & Hl & Ht & Hs & Hf & _ & Hp & Hh1 & Hh2).
  destruct I as [Is Ii In0 Il Iw Idue Ie Isg It].
  assert (P0 : pipe st = (firedT st ++ expired st ++ l1) ++ t :: l2).
  { unfold pipe. rewrite Ea, <- !app_assoc. reflexivity. }
  assert (P1 : pipe st' = (firedT st ++ expired st ++ l1) ++ l2).
  { unfold pipe, firedT. rewrite Hf, He, Ea', <- !app_assoc. reflexivity. }
  constructor.
  - rewrite Ea'. rewrite Ea in Is. eapply sorted_remove; eauto.
  - rewrite P1, Hl. rewrite P0 in Ii. rewrite Forall_forall in *. intros x Hx. apply Ii.
    rewrite in_app_iff in *. cbn. tauto.
  - rewrite P1. rewrite P0 in In0. rewrite map_app in *. cbn [map] in In0.
    eapply NoDup_remove_1; eauto.
  - lia.
  - intros d Hd'. rewrite Ht in Hd'. rewrite He, Hr, Hd. eauto.
  - intros now Hn'. rewrite Ht in Hn'. rewrite He. eauto.
  - rewrite Hf. assumption.
  - rewrite Hs, Ht. assumption.
  - intros d Hd'. rewrite Ht in Hd'. rewrite Hs, Hp, Ea'.
    destruct (head_is id (active st)) eqn:E; cbn [bump].
    + right. left. lia.
    + rewrite (Hh2 eq_refl). eauto.
Qed.

Lemma set_running_inv st r : Inv st -> is_wait (thr st) = false -> Inv (set_running st r).
Proof.
  intros [Is Ii In0 Il Iw Idue Ie Isg It] Hw. constructor; cbn; auto.
  intros d Hd. rewrite Hd in Hw. discriminate.
Qed.

Lemma running_not_wait st x : Inv st -> running st = Some x -> is_wait (thr st) = false.
Proof.
  intros I H. destruct (thr st) eqn:E; auto. destruct (inv_wait _ I _ E) as (_ & C & _). congruence.
Qed.

Section Steps.
Variable prog : nat -> list cop.

Lemma step_inv st l st' o :
  Inv st -> last_id st < long_max -> step prog st l = Some (st', o) -> Inv st'.
Proof.
  intros I Hw H. destruct l; cbn [step] in H.
  - (* LSet *) destruct (do_set st t cb) as [s i] eqn:E. inversion H; subst.
    eapply do_set_inv; eauto.
  - (* LCancel *) destruct (do_cancel st id) as [s r] eqn:E. inversion H; subst.
    eapply do_cancel_inv; eauto.
  - (* LSignal *) destruct (pend st) as [|p] eqn:Ep; [discriminate|]. inversion H; subst; clear H.
    destruct I as [Is Ii In0 Il Iw Idue Ie Isg It]. constructor; cbn.
    + exact Is.
    + exact Ii.
    + exact In0.
    + exact Il.
    + exact Iw.
    + exact Idue.
    + exact Ie.
    + destruct (thr st); cbn; auto.
    + intros d Hd. rewrite Hd. cbn. auto.
  - (* LWake *) destruct (thr st) as [d|] eqn:Et; [|discriminate].
    destruct (span_due now (active st)) as [pre post] eqn:Es.
    destruct (span_due_spec _ _ _ _ Es) as (Eapp & Hdue & _).
    destruct (inv_wait _ I _ Et) as (Ee & Er & Ed).
    destruct I as [Is Ii In0 Il Iw Idue Ie Isg It].
    destruct pre as [|p pre]; inversion H; subst; clear H.
    + constructor; cbn.
      * exact Is.
      * exact Ii.
      * exact In0.
      * exact Il.
      * intros d' _. auto.
      * discriminate.
      * exact Ie.
      * reflexivity.
      * intros d' Hd'. inversion Hd'; subst. auto.
    + assert (P : firedT st ++ (p :: pre) ++ post = pipe st).
      { unfold pipe. rewrite Ee, Eapp. reflexivity. }
      constructor; cbn.
      * rewrite Eapp in Is. apply (sorted_app_inv _ _ Is).
      * rewrite <- P in Ii. exact Ii.
      * rewrite <- P in In0. exact In0.
      * exact Il.
      * discriminate.
      * intros now' Hn. inversion Hn; subst. exact Hdue.
      * exact Ie.
      * discriminate.
      * discriminate.
  - (* LBegin *) destruct (thr st) as [d|now] eqn:Et; [discriminate|].
    destruct (running st) eqn:Er; [discriminate|]. destruct (expired st) as [|t r] eqn:Ee; [discriminate|].
    inversion H; subst; clear H.
    destruct I as [Is Ii In0 Il Iw Idue Ie Isg It].
    assert (P : map fst (fired st ++ [(t, now)]) ++ r ++ active st = pipe st).
    { unfold pipe, firedT. rewrite Ee, map_app. cbn. rewrite <- app_assoc. reflexivity. }
    specialize (Idue _ Et). rewrite Ee in Idue. inversion Idue; subst.
    constructor; cbn.
    + exact Is.
    + rewrite <- P in Ii. exact Ii.
    + rewrite <- P in In0. exact In0.
    + exact Il.
    + try rewrite Et. discriminate.
    + try rewrite Et. intros now' Hn. inversion Hn; subst. assumption.
    + apply Forall_app. split; auto.
    + intros Hs. specialize (Isg Hs). rewrite Et in Isg. exact Isg.
    + try rewrite Et. discriminate.
  - (* LCbSet *) destruct (running st) as [[tm [|[cb|] rem]]|] eqn:Er; try discriminate.
    destruct (do_set (set_running st (Some (tm, rem))) t cb) as [s i] eqn:E. inversion H; subst.
    refine (proj1 (do_set_inv (set_running st (Some (tm, rem))) _ _ _ _ _ Hw E)). apply set_running_inv; auto. eapply running_not_wait; eauto.
  - (* LCbCancel *) destruct (running st) as [[tm [|[cb|] rem]]|] eqn:Er; try discriminate.
    destruct (do_cancel (set_running st (Some (tm, rem))) id) as [s r] eqn:E. inversion H; subst.
    refine (do_cancel_inv (set_running st (Some (tm, rem))) _ _ _ _ E). apply set_running_inv; auto. eapply running_not_wait; eauto.
  - (* LEnd *) destruct (running st) as [[tm [|c rem]]|] eqn:Er; try discriminate.
    inversion H; subst; clear H. pose proof (running_not_wait _ _ I Er) as Hnw.
    destruct I as [Is Ii In0 Il Iw Idue Ie Isg It]. constructor; cbn.
    + exact Is.
    + exact Ii.
    + exact In0.
    + exact Il.
    + intros d Hd. rewrite Hd in Hnw. discriminate.
    + exact Idue.
    + exact Ie.
    + exact Isg.
    + exact It.
  - (* LRetire *) destruct (thr st) as [d|now] eqn:Et; [discriminate|].
    destruct (running st) eqn:Er; [discriminate|]. destruct (expired st) as [|t r] eqn:Ee; [|discriminate].
    inversion H; subst; clear H.
    destruct I as [Is Ii In0 Il Iw Idue Ie Isg It]. constructor; cbn.
    + exact Is.
    + unfold pipe in Ii. rewrite Ee in Ii. exact Ii.
    + unfold pipe in In0. rewrite Ee in In0. exact In0.
    + exact Il.
    + auto.
    + discriminate.
    + exact Ie.
    + reflexivity.
    + intros d Hd. inversion Hd; subst. auto.
Qed.
End Steps.

(* ------------------------------------------------------------------ what a step does to the pipeline *)
Definition is_cancel_of (id : Z) (l : label) : Prop := l = LCancel id \/ l = LCbCancel id.
Definition is_set (l : label) : Prop := match l with LSet _ _ | LCbSet _ => True | _ => False end.

Lemma do_set_pipe st t cb st' id :
  Inv st -> last_id st < long_max -> do_set st t cb = (st', id) ->
  exists tm X Y, pipe st = X ++ Y /\ pipe st' = X ++ tm :: Y /\ t_id tm = id /\ t_ts tm = t /\ t_cb tm = cb
    /\ id = last_id st + 1 /\ last_id st' = id /\ In tm (active st').
Proof.
  intros I Hw H. destruct (do_set_inv _ _ _ _ _ I Hw H) as [_ Hid].
  destruct (do_set_fields _ _ _ _ _ H) as (slot & _ & Ha & He & _ & _ & Hl & _ & _ & Hf & _).
  cbv zeta in *. set (tm := mkT id t cb slot) in *.
  destruct (insert_split tm (active st)) as (l1 & l2 & E1 & E2 & _).
  exists tm, (firedT st ++ expired st ++ l1), l2. unfold pipe, firedT. rewrite Hf, He, Ha, E2.
  rewrite E1 at 1. rewrite <- !app_assoc. repeat split; auto.
  rewrite in_app_iff. cbn. auto.
Qed.

Lemma do_cancel_pipe st id st' r : do_cancel st id = (st', r) ->
  (r <> 1 /\ st' = st)
  \/ (r = 1 /\ exists t X Y, pipe st = X ++ t :: Y /\ pipe st' = X ++ Y /\ t_id t = id
        /\ last_id st' = last_id st /\ In t (active st)).
Proof.
  intros H. destruct (do_cancel_fields _ _ _ _ H) as [(-> & _ & ->)|[(-> & _ & -> & _)|C]].
  - left. split; [lia|reflexivity].
  - left. split; [lia|reflexivity].
  - right. destruct C as (-> & _ & t & l1 & l2 & Ea & Ea' & Eid & _ & He & _ & _ & Hl & _ & _ & Hf & _).
    split; auto. exists t, (firedT st ++ expired st ++ l1), l2. unfold pipe, firedT.
    rewrite Hf, He, Ea, Ea', <- !app_assoc. repeat split; auto. rewrite in_app_iff. cbn. auto.
Qed.

Section Runs.
Variable prog : nat -> list cop.

Lemma pipe_step st l st' o : Inv st -> last_id st < long_max -> step prog st l = Some (st', o) ->
  (pipe st' = pipe st /\ last_id st' = last_id st /\ o <> ORet 1 \/ (pipe st' = pipe st /\ last_id st' = last_id st /\ ~ is_set l /\ forall id, ~ is_cancel_of id l))
  \/ (exists tm X Y id, o = ORet id /\ is_set l /\ pipe st = X ++ Y /\ pipe st' = X ++ tm :: Y
        /\ t_id tm = id /\ id = last_id st + 1 /\ last_id st' = id)
  \/ (exists t X Y, o = ORet 1 /\ is_cancel_of (t_id t) l /\ pipe st = X ++ t :: Y /\ pipe st' = X ++ Y
        /\ last_id st' = last_id st /\ In t (active st)).
Proof.
  intros I Hw H.
  assert (NS : forall l', (match l' with LSet _ _ | LCbSet _ | LCancel _ | LCbCancel _ => False | _ => True end) ->
               ~ is_set l' /\ forall id, ~ is_cancel_of id l').
  { intros l' Hl. split; [destruct l'; cbn in *; tauto|].
    intros id [C|C]; subst; cbn in Hl; tauto. }
  destruct l; cbn [step] in H.
  - destruct (do_set st t cb) as [s i] eqn:E. inversion H; subst.
    destruct (do_set_pipe _ _ _ _ _ I Hw E) as (tm & X & Y & P0 & P1 & Ei & _ & _ & Hi & Hl & _).
    right. left. exists tm, X, Y, i. cbn. repeat split; auto.
  - destruct (do_cancel st id) as [s r] eqn:E. inversion H; subst.
    destruct (do_cancel_pipe _ _ _ _ E) as [(Hr & ->)|(-> & t & X & Y & P0 & P1 & Ei & Hl & Ha)].
    + left. left. repeat split; auto. congruence.
    + right. right. exists t, X, Y. repeat split; auto. left. congruence.
  - destruct (pend st); [discriminate|]. inversion H; subst. left. right. repeat split; try apply NS; cbn; auto.
  - destruct (thr st) as [d|] eqn:Et; [|discriminate].
    destruct (span_due now (active st)) as [pre post] eqn:Es.
    destruct (span_due_spec _ _ _ _ Es) as (Eapp & _ & _).
    destruct (inv_wait _ I _ Et) as (Ee & _ & _).
    destruct pre; inversion H; subst; left; right; repeat split; try apply NS; cbn; auto.
    unfold pipe. cbn [fired expired active]. rewrite Ee, Eapp. reflexivity.
  - destruct (thr st) as [d|now] eqn:Et; [discriminate|].
    destruct (running st); [discriminate|]. destruct (expired st) as [|t r] eqn:Ee; [discriminate|].
    inversion H; subst. left. right. repeat split; try apply NS; cbn; auto.
    unfold pipe, firedT. cbn [fired expired active]. rewrite Ee, map_app. cbn. rewrite <- app_assoc. reflexivity.
  - destruct (running st) as [[tm [|[cb|] rem]]|] eqn:Er; try discriminate.
    destruct (do_set (set_running st (Some (tm, rem))) t cb) as [s i] eqn:E. inversion H; subst.
    assert (I' : Inv (set_running st (Some (tm, rem)))).
    { apply set_running_inv; auto. eapply running_not_wait; eauto. }
    destruct (do_set_pipe _ _ _ _ _ I' Hw E) as (tm' & X & Y & P0 & P1 & Ei & _ & _ & Hi & Hl & _).
    right. left. exists tm', X, Y, i. cbn. repeat split; auto.
  - destruct (running st) as [[tm [|[cb|] rem]]|] eqn:Er; try discriminate.
    destruct (do_cancel (set_running st (Some (tm, rem))) id) as [s r] eqn:E. inversion H; subst.
    destruct (do_cancel_pipe _ _ _ _ E) as [(Hr & ->)|(-> & t & X & Y & P0 & P1 & Ei & Hl & Ha)].
    + left. left. repeat split; auto. congruence.
    + right. right. exists t, X, Y. repeat split; auto. right. congruence.
  - destruct (running st) as [[tm [|c rem]]|]; try discriminate. inversion H; subst.
    left. right. repeat split; try apply NS; cbn; auto.
  - destruct (thr st) as [d|now]; [discriminate|].
    destruct (running st); [discriminate|]. destruct (expired st) as [|t r] eqn:Ee; [|discriminate].
    inversion H; subst. left. right. repeat split; try apply NS; cbn; auto.
    unfold pipe. cbn [fired expired active]. rewrite Ee. reflexivity.
Qed.

(* callbacks already started stay started, in the same order *)
Lemma fired_step st l st' o : step prog st l = Some (st', o) ->
  exists ext, fired st' = fired st ++ ext.
Proof.
  intros H. destruct l; cbn [step] in H.
  - destruct (do_set st t cb) as [s i] eqn:E. inversion H; subst.
    destruct (do_set_fields _ _ _ _ _ E) as (slot & _ & _ & _ & _ & _ & _ & _ & _ & Hf & _).
    exists []. rewrite app_nil_r. exact Hf.
  - destruct (do_cancel st id) as [s r] eqn:E. inversion H; subst.
    destruct (do_cancel_fields _ _ _ _ E) as [(_ & _ & ->)|[(_ & _ & -> & _)|C]];
      try (exists []; now rewrite app_nil_r).
    destruct C as (_ & _ & t & l1 & l2 & _ & _ & _ & _ & _ & _ & _ & _ & _ & _ & Hf & _).
    exists []. rewrite app_nil_r. exact Hf.
  - destruct (pend st); [discriminate|]. inversion H; subst. exists []. now rewrite app_nil_r.
  - destruct (thr st); [|discriminate]. destruct (span_due now (active st)) as [pre post].
    destruct pre; inversion H; subst; exists []; now rewrite app_nil_r.
  - destruct (thr st) as [d|now]; [discriminate|]. destruct (running st); [discriminate|].
    destruct (expired st); [discriminate|]. inversion H; subst. eexists. reflexivity.
  - destruct (running st) as [[tm [|[cb|] rem]]|]; try discriminate.
    destruct (do_set (set_running st (Some (tm, rem))) t cb) as [s i] eqn:E. inversion H; subst.
    destruct (do_set_fields _ _ _ _ _ E) as (slot & _ & _ & _ & _ & _ & _ & _ & _ & Hf & _).
    exists []. rewrite app_nil_r. exact Hf.
  - destruct (running st) as [[tm [|[cb|] rem]]|]; try discriminate.
    destruct (do_cancel (set_running st (Some (tm, rem))) id) as [s r] eqn:E. inversion H; subst.
    destruct (do_cancel_fields _ _ _ _ E) as [(_ & _ & ->)|[(_ & _ & -> & _)|C]];
      try (exists []; now rewrite app_nil_r).
    destruct C as (_ & _ & t & l1 & l2 & _ & _ & _ & _ & _ & _ & _ & _ & _ & _ & Hf & _).
    exists []. rewrite app_nil_r. exact Hf.
  - destruct (running st) as [[tm [|c rem]]|]; try discriminate. inversion H; subst.
    exists []. now rewrite app_nil_r.
  - destruct (thr st); [discriminate|]. destruct (running st); [discriminate|].
    destruct (expired st); [|discriminate]. inversion H; subst. exists []. now rewrite app_nil_r.
Qed.

(* ------------------------------------------------------------------ reachable states *)
Inductive reach : nat -> state -> Prop :=
| reach0 : reach 0 init
| reachS n st l st' o : reach n st -> step prog st l = Some (st', o) -> reach (S n) st'.

Lemma step_last_id st l st' o : step prog st l = Some (st', o) ->
  last_id st' = last_id st \/ last_id st' = next_id (last_id st).
Proof.
  intros H. destruct l; cbn [step] in H.
  - destruct (do_set st t cb) as [s i] eqn:E. inversion H; subst.
    destruct (do_set_fields _ _ _ _ _ E) as (slot & Hid & _ & _ & _ & _ & Hl & _). right. congruence.
  - destruct (do_cancel st id) as [s r] eqn:E. inversion H; subst.
    destruct (do_cancel_fields _ _ _ _ E) as [(_ & _ & ->)|[(_ & _ & -> & _)|C]]; auto.
    destruct C as (_ & _ & t & l1 & l2 & _ & _ & _ & _ & _ & _ & _ & Hl & _). auto.
  - destruct (pend st); [discriminate|]. inversion H; subst. auto.
  - destruct (thr st); [|discriminate]. destruct (span_due now (active st)) as [pre post].
    destruct pre; inversion H; subst; auto.
  - destruct (thr st); [discriminate|]. destruct (running st); [discriminate|].
    destruct (expired st); [discriminate|]. inversion H; subst. auto.
  - destruct (running st) as [[tm [|[cb|] rem]]|]; try discriminate.
    destruct (do_set (set_running st (Some (tm, rem))) t cb) as [s i] eqn:E. inversion H; subst.
    destruct (do_set_fields _ _ _ _ _ E) as (slot & Hid & _ & _ & _ & _ & Hl & _). right. cbn in *. congruence.
  - destruct (running st) as [[tm [|[cb|] rem]]|]; try discriminate.
    destruct (do_cancel (set_running st (Some (tm, rem))) id) as [s r] eqn:E. inversion H; subst.
    destruct (do_cancel_fields _ _ _ _ E) as [(_ & _ & ->)|[(_ & _ & -> & _)|C]]; auto.
    destruct C as (_ & _ & t & l1 & l2 & _ & _ & _ & _ & _ & _ & _ & Hl & _). auto.
  - destruct (running st) as [[tm [|c rem]]|]; try discriminate. inversion H; subst. auto.
  - destruct (thr st); [discriminate|]. destruct (running st); [discriminate|].
    destruct (expired st); [|discriminate]. inversion H; subst. auto.
Qed.

Lemma reach_last_id n st : reach n st -> last_id st <= Z.of_nat n.
Proof.
  induction 1 as [|n st l st' o R IH H]; [cbn; lia|].
  pose proof (next_id_le (last_id st)).
  destruct (step_last_id _ _ _ _ H) as [->| ->]; lia.
Qed.

Lemma reach_inv n st : reach n st -> Z.of_nat n < long_max -> Inv st.
Proof.
  induction 1 as [|n st l st' o R IH H]; intros Hn; [apply init_inv|].
  apply (step_inv prog st l st' o); auto.
  - apply IH. lia.
  - pose proof (reach_last_id _ _ R). lia.
Qed.

Lemma reach_run n st ls st' : reach n st -> run prog st ls = Some st' -> reach (n + length ls) st'.
Proof.
  revert n st. induction ls as [|l ls IH]; cbn [run length]; intros n st R H.
  - inversion H; subst. now rewrite Nat.add_0_r.
  - destruct (step prog st l) as [[s o]|] eqn:E; [|discriminate].
    rewrite <- plus_n_Sm. apply (IH (S n) s); auto. econstructor; eauto.
Qed.

(* a state together with the proof obligations one needs to keep stepping *)
Definition good (n : nat) (st : state) : Prop := reach n st /\ Z.of_nat n < long_max.

Lemma good_inv n st : good n st -> Inv st /\ last_id st < long_max.
Proof.
  intros [R Hn]. split; [eapply reach_inv; eauto|]. pose proof (reach_last_id _ _ R). lia.
Qed.
End Runs.

(* ------------------------------------------------------------------ main theorems *)
Section Theorems.
Variable prog : nat -> list cop.
Notation step := (step prog).
Notation run := (run prog).
Notation reach := (reach prog).
Notation good := (good prog).

Lemma good_step n st l st' o : good n st -> Z.of_nat (S n) < long_max -> step st l = Some (st', o) -> good (S n) st'.
Proof. intros [R _] Hn H. split; auto. econstructor; eauto. Qed.

(* ids: positive, pairwise distinct among everything set and not cancelled; a set returns a fresh id *)
Theorem ids_positive_unique n st : good n st ->
  NoDup (map t_id (pipe st)) /\ Forall (fun t => 0 < t_id t <= last_id st) (pipe st).
Proof. intros G. destruct (good_inv _ _ _ G) as [I _]. split; [apply I|apply I]. Qed.

Theorem set_returns_fresh_id n st t cb st' o : good n st -> step st (LSet t cb) = Some (st', o) ->
  exists tm, o = ORet (t_id tm) /\ t_id tm = last_id st + 1 /\ last_id st' = t_id tm
    /\ t_ts tm = t /\ t_cb tm = cb /\ In tm (active st').
Proof.
  intros G H. destruct (good_inv _ _ _ G) as [I Hw]. cbn in H.
  destruct (do_set st t cb) as [s i] eqn:E. inversion H; subst.
  destruct (do_set_pipe _ _ _ _ _ I Hw E) as (tm & X & Y & _ & _ & Ei & Et & Ec & Hi & Hl & Ha).
  exists tm. subst i. repeat split; auto; congruence.
Qed.

Theorem active_sorted_stable n st : good n st -> StronglySorted before (active st).
Proof. intros G. apply (good_inv _ _ _ G). Qed.

Theorem fires_at_most_once n st : good n st -> NoDup (map t_id (firedT st)).
Proof.
  intros G. destruct (good_inv _ _ _ G) as [I _]. pose proof (inv_nodup _ I) as H.
  unfold pipe in H. rewrite map_app in H. eapply NoDup_app_l; eauto.
Qed.

Theorem never_early n st : good n st ->
  Forall (fun p => ts_le (t_ts (fst p)) (snd p) = true) (fired st).
Proof. intros G. apply (good_inv _ _ _ G). Qed.

(* a scan detaches exactly the due timers (all of them), in list order *)
Theorem wake_detaches_due n st now st' o : good n st -> step st (LWake now) = Some (st', o) ->
  (forall t, In t (active st) -> ts_le (t_ts t) now = true -> In t (expired st'))
  /\ (forall t, In t (active st) -> ts_le (t_ts t) now = false -> In t (active st'))
  /\ active st = expired st' ++ active st'.
Proof.
  intros G H. destruct (good_inv _ _ _ G) as [I _]. cbn in H.
  destruct (thr st) as [d|] eqn:Et; [|discriminate].
  destruct (span_due now (active st)) as [pre post] eqn:Es.
  destruct (span_due_spec _ _ _ _ Es) as (Eapp & Hdue & _).
  pose proof (span_due_rest _ _ _ _ (inv_sorted _ I) Es) as Hrest.
  destruct (inv_wait _ I _ Et) as (Ee & _ & _).
  rewrite Forall_forall in *.
  assert (K : forall t, In t (active st) -> ts_le (t_ts t) now = true -> In t pre).
  { intros t Ht Hd. rewrite Eapp in Ht. apply in_app_or in Ht. destruct Ht; auto.
    specialize (Hrest _ H0). congruence. }
  assert (K' : forall t, In t (active st) -> ts_le (t_ts t) now = false -> In t post).
  { intros t Ht Hd. rewrite Eapp in Ht. apply in_app_or in Ht. destruct Ht; auto.
    specialize (Hdue _ H0). congruence. }
  destruct pre as [|p pre]; inversion H; subst; cbn [expired active].
  - split; [|split]; auto.
    + intros t Ht Hd. destruct (K t Ht Hd).
    + rewrite Ee. reflexivity.
  - split; [|split]; auto.
Qed.

(* no lost wake-up: when something is due, the thread's wait is over or a signal is on its way *)
Theorem due_enables_wake n st d t now : good n st -> thr st = Wait d ->
  In t (active st) -> ts_le (t_ts t) now = true ->
  must_wake st now = true \/ (0 < pend st)%nat.
Proof.
  intros G Ht Hin Hdue. destruct (good_inv _ _ _ G) as [I _].
  unfold must_wake. rewrite Ht.
  destruct (inv_track _ I _ Ht) as [Hs|[Hp|Hd]]; [rewrite Hs; auto|auto|].
  left. subst d. destruct (active st) as [|h r] eqn:Ea; [contradiction|]. cbn.
  apply orb_true_iff. right.
  pose proof (inv_sorted _ I) as Hs. rewrite Ea in Hs. inversion Hs as [|? ? _ Hh]; subst.
  destruct Hin as [->|Hin]; auto.
  rewrite Forall_forall in Hh. destruct (Hh _ Hin) as [Hle _]. eapply ts_le_trans; eauto.
Qed.

(* contrapositive, as used by the check: a thread that is at rest for clock reading `now` (waiting, no signal
   under way, wait not over) has nothing due in its active list *)
Theorem at_rest_nothing_due n st d now : good n st -> thr st = Wait d -> pend st = O ->
  must_wake st now = false -> forall t, In t (active st) -> ts_le (t_ts t) now = false.
Proof.
  intros G Ht Hp Hm t Hin. destruct (ts_le (t_ts t) now) eqn:E; auto.
  destruct (due_enables_wake _ _ _ _ _ G Ht Hin E) as [C|C]; [congruence|lia].
Qed.

(* the signal is delivered without any blocking step: LSignal is enabled whenever one is pending *)
Theorem signal_enabled st : (0 < pend st)%nat -> exists st', step st LSignal = Some (st', ONone)
  /\ (is_wait (thr st) = true -> sig st' = true).
Proof.
  intros H. cbn. destruct (pend st); [lia|]. eexists. split; [reflexivity|]. cbn. intros ->. reflexivity.
Qed.

(* ---------------- ids that left the pipeline never come back (below LONG_MAX sets) *)
Definition dead (id : Z) (st : state) : Prop := ~ In id (map t_id (pipe st)) /\ id <= last_id st.

Lemma dead_step n st l st' o id : good n st -> step st l = Some (st', o) -> dead id st -> dead id st'.
Proof.
  intros G H [Hn Hl]. destruct (good_inv _ _ _ G) as [I Hw].
  destruct (pipe_step prog _ _ _ _ I Hw H) as [[(P & L & _)|(P & L & _)]|[C|C]].
  - split; [rewrite P|rewrite L]; auto.
  - split; [rewrite P|rewrite L]; auto.
  - destruct C as (tm & X & Y & i & _ & _ & P0 & P1 & Ei & Hi & L). split; [|lia].
    rewrite P1. rewrite P0 in Hn. rewrite map_app in *. cbn [map]. rewrite in_app_iff in *. cbn.
    intros [C|[C|C]]; [tauto|lia|tauto].
  - destruct C as (t & X & Y & _ & _ & P0 & P1 & L & _). split; [|lia].
    rewrite P1. rewrite P0 in Hn. rewrite map_app in *. cbn [map] in Hn. rewrite in_app_iff in *. cbn in Hn. tauto.
Qed.

Lemma dead_run ls : forall n st st' id, good n st -> Z.of_nat (n + length ls) < long_max ->
  run st ls = Some st' -> dead id st -> dead id st'.
Proof.
  induction ls as [|l ls IH]; cbn [TimerModel.run length]; intros n st st' id G Hn H D.
  - inversion H; subst; auto.
  - destruct (step st l) as [[s o]|] eqn:E; [|discriminate].
    apply (IH (S n) s); auto.
    + eapply good_step; eauto. lia.
    + rewrite <- plus_n_Sm in Hn. exact Hn.
    + eapply dead_step; eauto.
Qed.

(* ---------------- cancel *)
Theorem cancel_spec n st id st' o : good n st -> step st (LCancel id) = Some (st', o) ->
  (o = ORet 1 /\ (exists t, In t (active st) /\ t_id t = id /\ ~ In t (active st')) /\ dead id st')
  \/ (o = ORet 0 /\ 0 < id /\ ~ In id (map t_id (active st)) /\ st' = st)
  \/ (o = ORet (-1) /\ id <= 0 /\ st' = st).
Proof.
  intros G H. destruct (good_inv _ _ _ G) as [I Hw]. cbn in H.
  destruct (do_cancel st id) as [s r] eqn:E. inversion H; subst; clear H.
  destruct (do_cancel_fields _ _ _ _ E) as [(-> & Hle & ->)|[(-> & Hlt & -> & Hn)|C]];
    [right; right; auto|right; left; auto|].
  left. destruct C as (-> & Hlt & t & l1 & l2 & Ea & Ea' & Eid & Hn1 & He & _ & _ & Hl & _ & _ & Hf & _).
  split; auto.
  pose proof (inv_nodup _ I) as ND. pose proof (inv_ids _ I) as II.
  assert (P0 : pipe st = (firedT st ++ expired st ++ l1) ++ t :: l2).
  { unfold pipe. rewrite Ea, <- !app_assoc. reflexivity. }
  assert (P1 : pipe st' = (firedT st ++ expired st ++ l1) ++ l2).
  { unfold pipe, firedT. rewrite Hf, He, Ea', <- !app_assoc. reflexivity. }
  rewrite P0, map_app in ND. cbn [map] in ND. apply NoDup_remove_2 in ND. rewrite <- map_app, <- P1 in ND.
  split.
  - exists t. split; [rewrite Ea, in_app_iff; cbn; auto|]. split; auto.
    intros C. apply ND. rewrite Eid. unfold pipe. rewrite !map_app, !in_app_iff. right. right.
    apply in_map_iff. exists t. auto.
  - split; [congruence|]. rewrite Hl. rewrite Forall_forall in II.
    assert (In t (pipe st)) by (rewrite P0, in_app_iff; cbn; auto). specialize (II _ H). lia.
Qed.

(* after a successful cancel the callback never runs, whatever happens next *)
Theorem cancelled_never_fires n st id st' ls st'' : good n st ->
  step st (LCancel id) = Some (st', ORet 1) ->
  Z.of_nat (S n + length ls) < long_max -> run st' ls = Some st'' ->
  ~ In id (map t_id (firedT st'')).
Proof.
  intros G H Hn R.
  destruct (cancel_spec _ _ _ _ _ G H) as [(_ & _ & D)|[(C & _)|(C & _)]]; try discriminate.
  assert (G' : good (S n) st') by (eapply good_step; eauto; lia).
  destruct (dead_run ls _ _ _ _ G' Hn R D) as [Hd _].
  intros C. apply Hd. unfold pipe. rewrite map_app, in_app_iff. auto.
Qed.

(* same for a cancel made by a running callback *)
Theorem cb_cancel_spec n st id st' o : good n st -> step st (LCbCancel id) = Some (st', o) ->
  (o = ORet 1 /\ In id (map t_id (active st)) /\ dead id st')
  \/ (o = ORet 0 /\ ~ In id (map t_id (active st)) /\ active st' = active st /\ fired st' = fired st)
  \/ (o = ORet (-1) /\ id <= 0 /\ active st' = active st).
Proof.
  intros G H. destruct (good_inv _ _ _ G) as [I Hw]. cbn in H.
  destruct (running st) as [[tm [|[cb|] rem]]|] eqn:Er; try discriminate.
  destruct (do_cancel (set_running st (Some (tm, rem))) id) as [s r] eqn:E. inversion H; subst; clear H.
  assert (I' : Inv (set_running st (Some (tm, rem)))).
  { apply set_running_inv; auto. eapply running_not_wait; eauto. }
  destruct (do_cancel_fields _ _ _ _ E) as [(-> & Hle & ->)|[(-> & Hlt & -> & Hn)|C]];
    [right; right; auto|right; left; auto|].
  left. destruct C as (-> & Hlt & t & l1 & l2 & Ea & Ea' & Eid & Hn1 & He & _ & _ & Hl & _ & _ & Hf & _).
  cbn [active set_running expired fired last_id] in *.
  split; auto. split.
  { rewrite Ea, map_app, in_app_iff. cbn. auto. }
  pose proof (inv_nodup _ I) as ND. pose proof (inv_ids _ I) as II.
  assert (P0 : pipe st = (firedT st ++ expired st ++ l1) ++ t :: l2).
  { unfold pipe. rewrite Ea, <- !app_assoc. reflexivity. }
  assert (P1 : pipe st' = (firedT st ++ expired st ++ l1) ++ l2).
  { unfold pipe, firedT. rewrite Hf, He, Ea', <- !app_assoc. reflexivity. }
  rewrite P0, map_app in ND. cbn [map] in ND. apply NoDup_remove_2 in ND. rewrite <- map_app, <- P1 in ND.
  split; [congruence|]. rewrite Hl. rewrite Forall_forall in II.
  assert (In t (pipe st)) by (rewrite P0, in_app_iff; cbn; auto). specialize (II _ H). lia.
Qed.
End Theorems.

(* ------------------------------------------------------------------ order *)
Lemma timer_eq_dec (a b : timer) : {a = b} + {a <> b}.
Proof. repeat decide equality. Qed.

Lemma NoDup_map_inv' {A B} (f : A -> B) (l : list A) : NoDup (map f l) -> NoDup l.
Proof.
  induction l as [|x l IH]; cbn; intros H; [constructor|].
  inversion H; subst. constructor; auto. intros C. apply H2. now apply in_map.
Qed.

Section Order.
Variable prog : nat -> list cop.
Notation step := (step prog).
Notation run := (run prog).
Notation good := (good prog).

(* the relative order of two entries of the pipeline never changes; an entry leaves only by a successful cancel *)
Definition ord_inv (a b : timer) (st : state) : Prop :=
  Sub [a; b] (pipe st) \/ dead (t_id a) st \/ dead (t_id b) st.

Lemma ord_step n st l st' o a b : good n st -> Z.of_nat (S n) < long_max ->
  step st l = Some (st', o) -> ord_inv a b st -> ord_inv a b st'.
Proof.
  intros G Hn H [S|[D|D]].
  2: { right. left. eapply dead_step; eauto. }
  2: { right. right. eapply dead_step; eauto. }
  destruct (good_inv _ _ _ G) as [I Hw].
  destruct (pipe_step prog _ _ _ _ I Hw H) as [[(P & L & _)|(P & L & _)]|[C|C]].
  - left. rewrite P. exact S.
  - left. rewrite P. exact S.
  - destruct C as (tm & X & Y & i & _ & _ & P0 & P1 & _). left. rewrite P1. rewrite P0 in S.
    now apply Sub_insert.
  - destruct C as (t & X & Y & _ & _ & P0 & P1 & L & Ha).
    pose proof (inv_nodup _ I) as ND. pose proof (inv_ids _ I) as II. rewrite Forall_forall in II.
    assert (Ht : In t (pipe st)) by (rewrite P0, in_app_iff; cbn; auto).
    assert (Dt : dead (t_id t) st').
    { split; [|specialize (II _ Ht); lia].
      rewrite P0, map_app in ND. cbn [map] in ND. apply NoDup_remove_2 in ND.
      rewrite P1, map_app. exact ND. }
    destruct (timer_eq_dec t a) as [->|Na]; [right; left; exact Dt|].
    destruct (timer_eq_dec t b) as [->|Nb]; [right; right; exact Dt|].
    left. rewrite P1. rewrite P0 in S. eapply Sub_delete; eauto. cbn. intuition.
Qed.

Lemma ord_run ls : forall n st st' a b, good n st -> Z.of_nat (n + length ls) < long_max ->
  run st ls = Some st' -> ord_inv a b st -> ord_inv a b st'.
Proof.
  induction ls as [|l ls IH]; cbn [TimerModel.run length]; intros n st st' a b G Hn H D.
  - inversion H; subst; auto.
  - destruct (step st l) as [[s o]|] eqn:E; [|discriminate].
    apply (IH (S n) s); auto.
    + eapply good_step; eauto. lia.
    + rewrite <- plus_n_Sm in Hn. exact Hn.
    + eapply ord_step; eauto. lia.
Qed.

(* if a precedes b in the active list at some moment and b's callback has started later on, then a's callback
   started before b's — unless a was cancelled in between (then its id is dead: it never runs) *)
Theorem order n st ls st' a b : good n st -> Z.of_nat (n + length ls) < long_max ->
  run st ls = Some st' -> Sub [a; b] (active st) -> In b (firedT st') ->
  Sub [a; b] (firedT st') \/ dead (t_id a) st'.
Proof.
  intros G Hn R S Hb.
  assert (O : ord_inv a b st).
  { left. unfold pipe. do 2 apply Sub_app_l. exact S. }
  pose proof (ord_run ls _ _ _ _ _ G Hn R O) as [S'|[D|[D _]]]; auto.
  - left. unfold pipe in S'.
    assert (G' : good (n + length ls) st').
    { destruct G as [Rr _]. split; auto. eapply reach_run; eauto. }
    destruct (good_inv _ _ _ G') as [I' _].
    pose proof (NoDup_map_inv' _ _ (inv_nodup _ I')) as ND. unfold pipe in ND.
    eapply Sub_pair_split; eauto. eapply NoDup_app_notin; eauto.
  - exfalso. apply D. unfold pipe. rewrite map_app, in_app_iff. left. now apply in_map.
Qed.

(* and what "precedes in the active list" means: earlier expiry, or equal expiry and set earlier *)
Theorem active_order_meaning n st a b : good n st -> Sub [a; b] (active st) ->
  ts_le (t_ts a) (t_ts b) = true /\ (ts_le (t_ts b) (t_ts a) = true -> t_id a < t_id b).
Proof. intros G S. eapply sorted_Sub; eauto. eapply active_sorted_stable; eauto. Qed.

(* ---------------- a detached batch is dispatched completely before the thread waits again *)
Lemma batch_step st l st' o t : step st l = Some (st', o) ->
  In t (expired st) \/ In t (firedT st) -> In t (expired st') \/ In t (firedT st')
  \/ (exists d, thr st = Wait d).
Proof.
  intros H Hin.
  destruct (fired_step prog _ _ _ _ H) as (ext & Hf).
  assert (Fm : In t (firedT st) -> In t (firedT st')).
  { unfold firedT. rewrite Hf, map_app, in_app_iff. auto. }
  destruct Hin as [Hin|Hin]; [|auto].
  destruct l; cbn [TimerModel.step] in H.
  - destruct (do_set st t0 cb) as [s i] eqn:E. inversion H; subst.
    destruct (do_set_fields _ _ _ _ _ E) as (slot & _ & _ & He & _). left. rewrite He. exact Hin.
  - destruct (do_cancel st id) as [s r] eqn:E. inversion H; subst.
    destruct (do_cancel_fields _ _ _ _ E) as [(_ & _ & ->)|[(_ & _ & -> & _)|C]]; auto.
    destruct C as (_ & _ & t1 & l1 & l2 & _ & _ & _ & _ & He & _). left. rewrite He. exact Hin.
  - destruct (pend st); [discriminate|]. inversion H; subst. auto.
  - destruct (thr st) as [d|]; [|discriminate]. right. right. eauto.
  - destruct (thr st) as [d|now]; [discriminate|]. destruct (running st); [discriminate|].
    destruct (expired st) as [|x r] eqn:Ee; [discriminate|]. inversion H; subst. cbn.
    destruct Hin as [->|Hin]; [|auto]. right. left. unfold firedT. cbn. rewrite map_app, in_app_iff. cbn. auto.
  - destruct (running st) as [[tm [|[cb|] rem]]|]; try discriminate.
    destruct (do_set (set_running st (Some (tm, rem))) t0 cb) as [s i] eqn:E. inversion H; subst.
    destruct (do_set_fields _ _ _ _ _ E) as (slot & _ & _ & He & _). left. rewrite He. exact Hin.
  - destruct (running st) as [[tm [|[cb|] rem]]|]; try discriminate.
    destruct (do_cancel (set_running st (Some (tm, rem))) id) as [s r] eqn:E. inversion H; subst.
    destruct (do_cancel_fields _ _ _ _ E) as [(_ & _ & ->)|[(_ & _ & -> & _)|C]]; auto.
    destruct C as (_ & _ & t1 & l1 & l2 & _ & _ & _ & _ & He & _). left. rewrite He. exact Hin.
  - destruct (running st) as [[tm [|c rem]]|]; try discriminate. inversion H; subst. auto.
  - destruct (thr st); [discriminate|]. destruct (running st); [discriminate|].
    destruct (expired st); [|discriminate]. contradiction.
Qed.

Theorem batch_fires_before_next_wait ls : forall n st st' t d, good n st ->
  Z.of_nat (n + length ls) < long_max -> run st ls = Some st' ->
  In t (expired st) \/ In t (firedT st) -> thr st' = Wait d -> In t (firedT st').
Proof.
  induction ls as [|l ls IH]; cbn [TimerModel.run length]; intros n st st' t d G Hn H Hin Hw.
  - inversion H; subst. destruct Hin as [Hin|Hin]; auto.
    destruct (good_inv _ _ _ G) as [I _]. destruct (inv_wait _ I _ Hw) as (Ee & _). rewrite Ee in Hin. contradiction.
  - destruct (step st l) as [[s o]|] eqn:E; [|discriminate].
    assert (G' : good (S n) s) by (eapply good_step; eauto; lia).
    rewrite <- plus_n_Sm in Hn.
    destruct (batch_step _ _ _ _ _ E Hin) as [K|[K|[d0 K]]].
    + eapply (IH (S n) s); eauto.
    + eapply (IH (S n) s); eauto.
    + (* the thread was waiting: the batch was already empty *)
      destruct (good_inv _ _ _ G) as [I _]. destruct (inv_wait _ I _ K) as (Ee & _).
      destruct Hin as [Hin|Hin]; [rewrite Ee in Hin; contradiction|].
      destruct (fired_step prog _ _ _ _ E) as (ext & Hf).
      eapply (IH (S n) s); eauto. right. unfold firedT. rewrite Hf, map_app, in_app_iff. auto.
Qed.

(* ---------------- no deadlock state *)
(* set and cancel are enabled in EVERY state — in particular while a batch is out and a callback runs *)
Theorem set_always_enabled st t cb : exists st' id, step st (LSet t cb) = Some (st', ORet id).
Proof. cbn. destruct (do_set st t cb) as [s i]. eauto. Qed.

Theorem cancel_always_enabled st id : exists st' r, step st (LCancel id) = Some (st', ORet r).
Proof. cbn. destruct (do_cancel st id) as [s r]. eauto. Qed.

(* a running callback can always execute its next operation, whatever its arguments *)
Theorem callback_op_enabled st tm c rem : running st = Some (tm, c :: rem) ->
  match c with
  | CSet cb => forall t, exists st' id, step st (LCbSet t) = Some (st', ORet id)
  | CCancel => forall id, exists st' r, step st (LCbCancel id) = Some (st', ORet r)
  end.
Proof.
  intros Hr. destruct c as [cb|]; intros x; cbn; rewrite Hr.
  - destruct (do_set _ x cb) as [s i]. eauto.
  - destruct (do_cancel _ x) as [s r]. eauto.
Qed.

(* while dispatching, the timer thread itself always has a step, and each one uses up the batch *)
Definition disp_measure (st : state) : nat :=
  (match running st with Some (_, rem) => S (length rem) | None => O end)
  + fold_right (fun t acc => S (S (length (prog (t_cb t)))) + acc)%nat O (expired st).

Definition thread_label (l : label) : Prop :=
  match l with LBegin | LEnd | LRetire | LCbSet _ | LCbCancel _ => True | _ => False end.

Theorem disp_progress n st now : good n st -> thr st = Disp now ->
  exists l st' o, thread_label l /\ step st l = Some (st', o).
Proof.
  intros G Ht. destruct (running st) as [[tm [|[cb|] rem]]|] eqn:Er.
  - exists LEnd. cbn. rewrite Er. eauto.
  - exists (LCbSet (0, 0)). cbn. rewrite Er.
    destruct (do_set (set_running st (Some (tm, rem))) (0, 0) cb) as [s i]. eauto.
  - exists (LCbCancel 0). cbn. rewrite Er.
    destruct (do_cancel (set_running st (Some (tm, rem))) 0) as [s r]. eauto.
  - destruct (expired st) as [|t r] eqn:Ee.
    + exists LRetire. cbn. rewrite Ht, Er, Ee. eauto.
    + exists LBegin. cbn. rewrite Ht, Er, Ee. eauto.
Qed.

Theorem disp_measure_decreases st l st' o : thread_label l -> step st l = Some (st', o) ->
  (exists d, thr st' = Wait d) \/ (disp_measure st' < disp_measure st)%nat.
Proof.
  intros Hl H. destruct l; cbn in Hl; try contradiction; cbn [TimerModel.step] in H.
  - destruct (thr st) as [d|now]; [discriminate|]. destruct (running st) eqn:Er; [discriminate|].
    destruct (expired st) as [|x r] eqn:Ee; [discriminate|]. inversion H; subst. right.
    unfold disp_measure. cbn [running expired]. rewrite Er, Ee. cbn. lia.
  - destruct (running st) as [[tm [|[cb|] rem]]|] eqn:Er; try discriminate.
    destruct (do_set (set_running st (Some (tm, rem))) t cb) as [s i] eqn:E. inversion H; subst.
    destruct (do_set_fields _ _ _ _ _ E) as (slot & _ & _ & He & Hr & _). right.
    unfold disp_measure. rewrite He, Hr, Er. cbn. lia.
  - destruct (running st) as [[tm [|[cb|] rem]]|] eqn:Er; try discriminate.
    destruct (do_cancel (set_running st (Some (tm, rem))) id) as [s r] eqn:E. inversion H; subst.
    right. unfold disp_measure. rewrite Er.
    destruct (do_cancel_fields _ _ _ _ E) as [(_ & _ & ->)|[(_ & _ & -> & _)|C]]; cbn; try lia.
    destruct C as (_ & _ & t1 & l1 & l2 & _ & _ & _ & _ & He & Hr & _). rewrite He, Hr. cbn. lia.
  - destruct (running st) as [[tm [|c rem]]|] eqn:Er; try discriminate. inversion H; subst. right.
    unfold disp_measure. cbn [running expired]. rewrite Er. cbn. lia.
  - destruct (thr st); [discriminate|]. destruct (running st); [discriminate|].
    destruct (expired st); [|discriminate]. inversion H; subst. left. cbn. eauto.
Qed.

(* steps of other threads leave the measure alone: they cannot prolong a batch *)
Theorem other_threads_keep_measure st l st' o :
  match l with LSet _ _ | LCancel _ | LSignal => True | _ => False end ->
  step st l = Some (st', o) -> disp_measure st' = disp_measure st /\ thr st' = thr st.
Proof.
  intros Hl H. destruct l; try contradiction; cbn [TimerModel.step] in H.
  - destruct (do_set st t cb) as [s i] eqn:E. inversion H; subst.
    destruct (do_set_fields _ _ _ _ _ E) as (slot & _ & _ & He & Hr & _ & _ & Ht & _).
    unfold disp_measure. rewrite He, Hr. auto.
  - destruct (do_cancel st id) as [s r] eqn:E. inversion H; subst.
    destruct (do_cancel_fields _ _ _ _ E) as [(_ & _ & ->)|[(_ & _ & -> & _)|C]]; auto.
    destruct C as (_ & _ & t1 & l1 & l2 & _ & _ & _ & _ & He & Hr & _ & _ & Ht & _).
    unfold disp_measure. rewrite He, Hr. auto.
  - destruct (pend st); [discriminate|]. inversion H; subst. auto.
Qed.
End Order.

(* ------------------------------------------------------------------ periodic services *)
Section Periodic.
Variable prog : nat -> list cop.
Variable c : nat.                                   (* the self re-arming callback *)
Notation step := (step prog).
Notation run := (run prog).
Notation good := (good prog).

Definition isc (t : timer) : bool := Nat.eqb (t_cb t) c.
Definition cnt (l : list timer) : nat := length (filter isc l).
Definition setsc (o : cop) : bool := match o with CSet cb => Nat.eqb cb c | CCancel => false end.
Definition owes (rem : list cop) : nat := length (filter setsc rem).
Definition owed (st : state) : nat := match running st with Some (_, rem) => owes rem | None => O end.
(* instances of c pending, detached-but-not-started, or still to be re-armed by the running callback *)
Definition inst (st : state) : nat := (cnt (expired st) + cnt (active st) + owed st)%nat.

Hypothesis self_rearm : owes (prog c) = 1%nat.
Hypothesis others_dont : forall d, d <> c -> owes (prog d) = O.

(* the environment never cancels an instance of c (timer.c has no say in that) *)
Definition env_ok (st : state) (l : label) : Prop :=
  match l with
  | LCancel id | LCbCancel id => forall t, In t (active st) -> t_id t = id -> t_cb t <> c
  | _ => True
  end.
Definition adds (l : label) : nat := match l with LSet _ cb => if Nat.eqb cb c then 1 else 0 | _ => 0 end.

Lemma cnt_cons x l : cnt (x :: l) = ((if isc x then 1 else 0) + cnt l)%nat.
Proof. unfold cnt. cbn. destruct (isc x); reflexivity. Qed.

Lemma cnt_app l m : cnt (l ++ m) = (cnt l + cnt m)%nat.
Proof. unfold cnt. now rewrite filter_app, app_length. Qed.

Lemma cnt_insert t l : cnt (insert t l) = ((if isc t then 1 else 0) + cnt l)%nat.
Proof.
  induction l as [|x r IH]; cbn [insert].
  - rewrite cnt_cons. reflexivity.
  - destruct (ts_le (t_ts x) (t_ts t)); rewrite !cnt_cons; [rewrite IH|]; lia.
Qed.

Lemma set_cnt st t cb st' id : do_set st t cb = (st', id) ->
  cnt (active st') = ((if Nat.eqb cb c then 1 else 0) + cnt (active st))%nat
  /\ expired st' = expired st /\ running st' = running st.
Proof.
  intros H. destruct (do_set_fields _ _ _ _ _ H) as (slot & _ & Ha & He & Hr & _).
  rewrite Ha, cnt_insert. unfold isc. cbn. auto.
Qed.

Lemma cancel_cnt st id st' r : do_cancel st id = (st', r) ->
  (forall t, In t (active st) -> t_id t = id -> t_cb t <> c) ->
  cnt (active st') = cnt (active st) /\ expired st' = expired st /\ running st' = running st.
Proof.
  intros H Henv. destruct (do_cancel_fields _ _ _ _ H) as [(_ & _ & ->)|[(_ & _ & -> & _)|C]]; auto.
  destruct C as (_ & _ & t & l1 & l2 & Ea & Ea' & Eid & _ & He & Hr & _).
  rewrite Ea, Ea', !cnt_app, cnt_cons. repeat split; auto.
  assert (isc t = false).
  { unfold isc. apply Nat.eqb_neq. apply Henv; auto. rewrite Ea, in_app_iff. cbn. auto. }
  rewrite H0. lia.
Qed.

Lemma inst_step st l st' o : Inv st -> env_ok st l -> step st l = Some (st', o) ->
  inst st' = (inst st + adds l)%nat.
Proof.
  intros I Henv H. unfold inst, owed. destruct l; cbn [TimerModel.step adds] in *.
  - destruct (do_set st t cb) as [s i] eqn:E. inversion H; subst.
    destruct (set_cnt _ _ _ _ _ E) as (-> & -> & ->). destruct (Nat.eqb cb c); lia.
  - destruct (do_cancel st id) as [s r] eqn:E. inversion H; subst.
    destruct (cancel_cnt _ _ _ _ E Henv) as (-> & -> & ->). lia.
  - destruct (pend st); [discriminate|]. inversion H; subst. cbn [expired active running]. lia.
  - destruct (thr st) as [d|] eqn:Et; [|discriminate].
    destruct (span_due now (active st)) as [pre post] eqn:Es.
    destruct (span_due_spec _ _ _ _ Es) as (Eapp & _ & _).
    destruct (inv_wait _ I _ Et) as (Ee & _ & _).
    destruct pre; inversion H; subst; cbn [expired active running]; [lia|].
    rewrite Ee, Eapp, cnt_app. cbn [cnt filter length]. lia.
  - destruct (thr st) as [d|now]; [discriminate|]. destruct (running st) eqn:Er; [discriminate|].
    destruct (expired st) as [|x r] eqn:Ee; [discriminate|]. inversion H; subst. cbn [expired active running].
    rewrite cnt_cons. unfold isc. destruct (Nat.eqb_spec (t_cb x) c) as [E|E].
    + rewrite E, self_rearm. lia.
    + rewrite (others_dont _ E). lia.
  - destruct (running st) as [[tm [|[cb|] rem]]|] eqn:Er; try discriminate.
    destruct (do_set (set_running st (Some (tm, rem))) t cb) as [s i] eqn:E. inversion H; subst.
    destruct (set_cnt _ _ _ _ _ E) as (-> & -> & ->). cbn [set_running active expired running].
    unfold owes. cbn [filter setsc]. destruct (Nat.eqb cb c); cbn [length]; lia.
  - destruct (running st) as [[tm [|[cb|] rem]]|] eqn:Er; try discriminate.
    destruct (do_cancel (set_running st (Some (tm, rem))) id) as [s r] eqn:E. inversion H; subst.
    destruct (cancel_cnt _ _ _ _ E Henv) as (-> & -> & ->). cbn [set_running active expired running].
    unfold owes. cbn [filter setsc]. lia.
  - destruct (running st) as [[tm [|c0 rem]]|] eqn:Er; try discriminate. inversion H; subst.
    cbn [expired active running]. unfold owes. cbn. lia.
  - destruct (thr st); [discriminate|]. destruct (running st) eqn:Er; [discriminate|].
    destruct (expired st) eqn:Ee; [|discriminate]. inversion H; subst. cbn [expired active running]. lia.
Qed.

Fixpoint env_run (st : state) (ls : list label) : Prop :=
  match ls with
  | [] => True
  | l :: r => env_ok st l /\ match step st l with Some (st', _) => env_run st' r | None => True end
  end.

Fixpoint total_adds (ls : list label) : nat :=
  match ls with [] => O | l :: r => (adds l + total_adds r)%nat end.

Lemma inst_run ls : forall n st st', good n st -> Z.of_nat (n + length ls) < long_max ->
  run st ls = Some st' -> env_run st ls -> inst st' = (inst st + total_adds ls)%nat.
Proof.
  induction ls as [|l ls IH]; cbn [TimerModel.run length env_run total_adds]; intros n st st' G Hn H He.
  - inversion H; subst. lia.
  - destruct He as [He1 He2]. destruct (step st l) as [[s o]|] eqn:E; [|discriminate].
    destruct (good_inv _ _ _ G) as [I _].
    rewrite (IH (S n) s st'); auto.
    + rewrite (inst_step _ _ _ _ I He1 E). lia.
    + eapply good_step; eauto. lia.
    + rewrite <- plus_n_Sm in Hn. exact Hn.
Qed.

(* exactly one instance, forever: along every run in which nobody else sets or cancels an instance of c,
   whatever the clock readings (LWake carries arbitrary ones) and whatever the other timers do *)
Theorem periodic_forever n st ls st' : good n st -> Z.of_nat (n + length ls) < long_max ->
  inst st = 1%nat -> run st ls = Some st' -> env_run st ls -> total_adds ls = O ->
  inst st' = 1%nat.
Proof. intros G Hn H1 R He Ha. rewrite (inst_run ls _ _ _ G Hn R He), H1, Ha. reflexivity. Qed.

(* whenever the timer thread is at rest, that one instance sits in the active list *)
Theorem periodic_pending_at_rest n st d : good n st -> inst st = 1%nat -> thr st = Wait d ->
  cnt (active st) = 1%nat.
Proof.
  intros G H1 Ht. destruct (good_inv _ _ _ G) as [I _]. destruct (inv_wait _ I _ Ht) as (Ee & Er & _).
  unfold inst, owed in H1. rewrite Ee, Er in H1. cbn in H1. lia.
Qed.

(* gids flavour: other threads may add instances (gids_update after SIGHUP): never fewer than one *)
Theorem periodic_at_least_one n st ls st' : good n st -> Z.of_nat (n + length ls) < long_max ->
  (1 <= inst st)%nat -> run st ls = Some st' -> env_run st ls -> (1 <= inst st')%nat.
Proof. intros G Hn H1 R He. rewrite (inst_run ls _ _ _ G Hn R He). lia. Qed.
End Periodic.

(* ------------------------------------------------------------------ clock_get_timespec *)
Definition ts_ns (t : ts) : Z := fst t * nsec_per_sec + snd t.

Lemma ts_add_ms_spec now ms : 0 <= snd now < nsec_per_sec -> 0 <= ms ->
  ts_ns (ts_add_ms now ms) = ts_ns now + ms * nsec_per_msec
  /\ 0 <= snd (ts_add_ms now ms) < nsec_per_sec.
Proof.
  intros Hn Hm. unfold ts_add_ms, ts_ns, nsec_per_sec, nsec_per_msec, msec_per_sec in *.
  destruct (Z.ltb_spec 0 ms) as [Hp|Hp]; [|cbn [fst snd]; lia].
  cbv zeta.
  pose proof (Z.div_mod ms 1000 ltac:(lia)) as D1.
  pose proof (Z.mod_pos_bound ms 1000 ltac:(lia)) as B1.
  set (q := ms / 1000) in *. set (r := ms mod 1000) in *. clearbody q r.
  set (ns := snd now + r * 1000000) in *.
  destruct (Z.leb_spec 1000000000 ns) as [Hc|Hc]; cbn [fst snd].
  - pose proof (Z.div_mod ns 1000000000 ltac:(lia)) as D2.
    pose proof (Z.mod_pos_bound ns 1000000000 ltac:(lia)) as B2.
    set (q2 := ns / 1000000000) in *. set (r2 := ns mod 1000000000) in *. clearbody q2 r2.
    subst ns. lia.
  - subst ns. lia.
Qed.

Lemma ts_ns_le a b : 0 <= snd a < nsec_per_sec -> 0 <= snd b < nsec_per_sec ->
  (ts_le a b = true <-> ts_ns a <= ts_ns b).
Proof.
  intros Ha Hb. rewrite ts_le_spec. unfold ts_ns, nsec_per_sec in *. split; intros H.
  - destruct H as [H|[H1 H2]]; nia.
  - destruct (Z.lt_trichotomy (fst a) (fst b)) as [L|[E|G]]; [auto|right; split; nia|exfalso; nia].
Qed.

(* a relative timer never expires before `ms` milliseconds after the clock reading it was set at *)
Theorem relative_not_early now ms : 0 <= snd now < nsec_per_sec -> 0 <= ms ->
  ts_le now (ts_add_ms now ms) = true.
Proof.
  intros Hn Hm. destruct (ts_add_ms_spec now ms Hn Hm) as [E B].
  apply ts_ns_le; auto. rewrite E. unfold nsec_per_msec. lia.
Qed.

(* ------------------------------------------------------------------ witnesses *)
(* timer.c before the repair: `return (t->id)` after the unlock.  The caller of the first set is held between
   unlock and return; its timer (id 1, already expired) is dispatched and retired; another thread's set re-uses
   the struct (id 2); the first caller then reads id 2: two sets return the same id, and cancelling "its" timer
   succeeds although that timer has fired — it removes the other thread's timer, which never fires. *)
Definition race_trace : list ulabel :=
  [ USetIns (50, 0) 0%nat; UBase LSignal; UBase (LWake (100, 0)); UBase LBegin; UBase LEnd; UBase LRetire;
    UBase (LSet (1000, 0) 0%nat); USetRet; UBase (LCancel 2) ].

Theorem set_return_after_unlock_witness :
  exists st held t1,
    run_u (fun _ => []) (init, []) race_trace
      = Some ((st, held), [ONone; ONone; ONone; OFire t1; ONone; ONone; ORet 2; ORet 2; ORet 1])
    /\ t_id t1 = 1 /\ active st = [] /\ map (fun p => t_id (fst p)) (fired st) = [1].
Proof. do 3 eexists. vm_compute. repeat split; reflexivity. Qed.

(* "expiry order" is an order on the active list, not a global one: a timer set (already expired) while a batch is
   out runs after the whole batch, also after entries of that batch with a later expiry *)
Definition across_batches_trace : list label :=
  [ LSet (10, 0) 1%nat; LSet (20, 0) 0%nat; LSignal; LWake (25, 0); LBegin; LCbSet (15, 0); LEnd; LBegin; LEnd;
    LRetire; LWake (25, 0); LBegin ].

Theorem order_across_batches_witness :
  exists st, run (fun cb => match cb with 1%nat => [CSet 0%nat] | _ => [] end) init across_batches_trace = Some st
    /\ map (fun p => t_ts (fst p)) (fired st) = [(10, 0); (20, 0); (15, 0)].
Proof. eexists. vm_compute. split; reflexivity. Qed.

(* cancel searches the active list only: a timer already detached into the batch cannot be cancelled any more
   (returns 0) and its callback still runs *)
Definition cancel_detached_trace : list label :=
  [ LSet (10, 0) 1%nat; LSet (10, 0) 0%nat; LSignal; LWake (10, 0); LBegin; LCbCancel 2 ].

Theorem cancel_detached_witness :
  exists st st' o st'', run (fun cb => match cb with 1%nat => [CCancel] | _ => [] end) init cancel_detached_trace = Some st
    /\ step (fun cb => match cb with 1%nat => [CCancel] | _ => [] end) st' (LCbCancel 2) = Some (st, o) /\ o = ORet 0
    /\ run (fun cb => match cb with 1%nat => [CCancel] | _ => [] end) st [LEnd; LBegin] = Some st''
    /\ map (fun p => t_id (fst p)) (fired st'') = [1; 2].
Proof.
  remember (fun cb => match cb with 1%nat => [CCancel] | _ => [] end) as pg.
  destruct (run pg init [LSet (10, 0) 1%nat; LSet (10, 0) 0%nat; LSignal; LWake (10, 0); LBegin]) as [s|] eqn:E.
  2: { subst pg. vm_compute in E. discriminate. }
  exists (match step pg s (LCbCancel 2) with Some (x, _) => x | None => s end), s.
  subst pg. vm_compute in E. inversion E; subst. vm_compute. do 2 eexists. repeat split; reflexivity.
Qed.
