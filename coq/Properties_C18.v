(* Properties_C18.v — statements only.  Timers fire once, on time, in order; cancel; callbacks may call in;
   periodic services persist.  Model: TimerModel (an LTS read off src/munged/timer.c and clock.c; constants
   regenerated from the source into gen/GenTimer.v on every run).

   Reading guide.  `prog` is an arbitrary assignment of programs (finite lists of set/cancel operations) to
   callbacks; the time-stamps and ids those operations use arrive with the labels, so every data-dependent
   callback is covered.  `good prog n st` = st is reachable from the initial state by ANY n labels (set/cancel
   from any thread, signal deliveries, wake-ups of the timer thread with ARBITRARY clock readings — forward
   jumps and backward readings included —, callback steps), with n below LONG_MAX (the id counter of timer.c
   wraps to 1 after LONG_MAX sets; uniqueness of ids is not claimed beyond that).
   `pipe st` = callbacks started ++ detached batch ++ active list;  `dead id st` = id was handed out and is no
   longer in the pipeline (it can never run). *)
From Coq Require Import List ZArith Bool Sorted.
From MV.gen Require Import GenTimer.
From MV Require Import TimerModel TimerProofs.
Import ListNotations.
Local Open Scope Z_scope.

(* the active list is sorted by expiry; equal expiries are in set order (ids grow with every set) *)
Theorem C18_active_sorted_stable : forall prog n st, good prog n st ->
  StronglySorted (fun a b => ts_le (t_ts a) (t_ts b) = true
                             /\ (ts_le (t_ts b) (t_ts a) = true -> t_id a < t_id b)) (active st).
Proof. exact active_sorted_stable. Qed.
Print Assumptions C18_active_sorted_stable.

(* ids are positive and pairwise distinct over everything that was set and not cancelled *)
Theorem C18_ids_positive_unique : forall prog n st, good prog n st ->
  NoDup (map t_id (pipe st)) /\ Forall (fun t => 0 < t_id t <= last_id st) (pipe st).
Proof. exact ids_positive_unique. Qed.
Print Assumptions C18_ids_positive_unique.

(* a set returns the id of the timer it queued: fresh (larger than every id handed out before), with the
   caller's expiry and callback *)
Theorem C18_set_returns_fresh_id : forall prog n st t cb st' o, good prog n st ->
  step prog st (LSet t cb) = Some (st', o) ->
  exists tm, o = ORet (t_id tm) /\ t_id tm = last_id st + 1 /\ last_id st' = t_id tm
    /\ t_ts tm = t /\ t_cb tm = cb /\ In tm (active st').
Proof. exact set_returns_fresh_id. Qed.
Print Assumptions C18_set_returns_fresh_id.

(* no callback starts twice *)
Theorem C18_fires_at_most_once : forall prog n st, good prog n st -> NoDup (map t_id (firedT st)).
Proof. exact fires_at_most_once. Qed.
Print Assumptions C18_fires_at_most_once.

(* every callback started in a batch whose clock reading was at or after its expiry *)
Theorem C18_never_early : forall prog n st, good prog n st ->
  Forall (fun p => ts_le (t_ts (fst p)) (snd p) = true) (fired st).
Proof. exact never_early. Qed.
Print Assumptions C18_never_early.

(* a scan with clock reading `now` detaches every active timer with expiry <= now, and only those *)
Theorem C18_fires_if_scanned : forall prog n st now st' o, good prog n st ->
  step prog st (LWake now) = Some (st', o) ->
  (forall t, In t (active st) -> ts_le (t_ts t) now = true -> In t (expired st'))
  /\ (forall t, In t (active st) -> ts_le (t_ts t) now = false -> In t (active st'))
  /\ active st = expired st' ++ active st'.
Proof. exact wake_detaches_due. Qed.
Print Assumptions C18_fires_if_scanned.

(* ... and every detached timer's callback has started by the time the thread waits again, along every run *)
Theorem C18_batch_fires_before_next_wait : forall prog ls n st st' t d, good prog n st ->
  Z.of_nat (n + length ls) < long_max -> run prog st ls = Some st' ->
  In t (expired st) \/ In t (firedT st) -> thr st' = Wait d -> In t (firedT st').
Proof. exact batch_fires_before_next_wait. Qed.
Print Assumptions C18_batch_fires_before_next_wait.

(* no lost wake-up: if anything in the active list is due, the thread's wait is over (signalled or timed out)
   or a signal is on its way; and a pending signal is always deliverable *)
Theorem C18_due_enables_wake : forall prog n st d t now, good prog n st -> thr st = Wait d ->
  In t (active st) -> ts_le (t_ts t) now = true -> must_wake st now = true \/ (0 < pend st)%nat.
Proof. exact due_enables_wake. Qed.
Print Assumptions C18_due_enables_wake.

(* PARTIAL (liveness): "every set timer eventually fires" is proved as its safety skeleton — a resting thread
   has nothing due (below), a due timer enables the wake-up or a signal is under way (above), a pending signal
   is deliverable, a scan detaches everything due, a detached batch is finite, always has a next step and is
   fully dispatched before the next wait (C18_fires_if_scanned, C18_batch_fires_before_next_wait,
   C18_dispatch_progress, C18_dispatch_terminates).  What is missing is the temporal wrapper: a formal
   fairness assumption on the scheduler and the clock ("the thread is eventually scheduled, cond_timedwait
   eventually returns once the clock has passed the deadline") and the composition into an "eventually". *)
Theorem C18_fires_when_due_partial : forall prog n st d now, good prog n st -> thr st = Wait d -> pend st = O ->
  must_wake st now = false -> forall t, In t (active st) -> ts_le (t_ts t) now = false.
Proof. exact at_rest_nothing_due. Qed.
Print Assumptions C18_fires_when_due_partial.

Theorem C18_signal_enabled : forall prog st, (0 < pend st)%nat ->
  exists st', step prog st LSignal = Some (st', ONone) /\ (is_wait (thr st) = true -> sig st' = true).
Proof. exact signal_enabled. Qed.
Print Assumptions C18_signal_enabled.

(* order: if a precedes b in the active list at any moment and b's callback has started later, a's started
   before it — unless a was cancelled meanwhile (then it never runs) *)
Theorem C18_order : forall prog n st ls st' a b, good prog n st -> Z.of_nat (n + length ls) < long_max ->
  run prog st ls = Some st' -> Sub [a; b] (active st) -> In b (firedT st') ->
  Sub [a; b] (firedT st') \/ dead (t_id a) st'.
Proof. exact order. Qed.
Print Assumptions C18_order.

(* "precedes in the active list" = earlier expiry, or equal expiry and set earlier *)
Theorem C18_order_meaning : forall prog n st a b, good prog n st -> Sub [a; b] (active st) ->
  ts_le (t_ts a) (t_ts b) = true /\ (ts_le (t_ts b) (t_ts a) = true -> t_id a < t_id b).
Proof. exact active_order_meaning. Qed.
Print Assumptions C18_order_meaning.

(* cancel: 1 iff the id is in the active list, and then it is gone for good; otherwise 0 (or -1 for id <= 0)
   and the state is unchanged *)
Theorem C18_cancel_spec : forall prog n st id st' o, good prog n st ->
  step prog st (LCancel id) = Some (st', o) ->
  (o = ORet 1 /\ (exists t, In t (active st) /\ t_id t = id /\ ~ In t (active st')) /\ dead id st')
  \/ (o = ORet 0 /\ 0 < id /\ ~ In id (map t_id (active st)) /\ st' = st)
  \/ (o = ORet (-1) /\ id <= 0 /\ st' = st).
Proof. exact cancel_spec. Qed.
Print Assumptions C18_cancel_spec.

Theorem C18_cancelled_never_fires : forall prog n st id st' ls st'', good prog n st ->
  step prog st (LCancel id) = Some (st', ORet 1) ->
  Z.of_nat (S n + length ls) < long_max -> run prog st' ls = Some st'' ->
  ~ In id (map t_id (firedT st'')).
Proof. exact cancelled_never_fires. Qed.
Print Assumptions C18_cancelled_never_fires.

(* the same for a cancel issued by a running callback *)
Theorem C18_callback_cancel_spec : forall prog n st id st' o, good prog n st ->
  step prog st (LCbCancel id) = Some (st', o) ->
  (o = ORet 1 /\ In id (map t_id (active st)) /\ dead id st')
  \/ (o = ORet 0 /\ ~ In id (map t_id (active st)) /\ active st' = active st /\ fired st' = fired st)
  \/ (o = ORet (-1) /\ id <= 0 /\ active st' = active st).
Proof. exact cb_cancel_spec. Qed.
Print Assumptions C18_callback_cancel_spec.

(* callbacks may call in: set and cancel are enabled in every state (the mutex is free between the model's
   steps, in particular while a batch is out), a running callback can always take its next operation, the
   dispatching thread always has a step and every one of them uses the batch up, other threads cannot prolong
   it: there is no deadlock state *)
Theorem C18_callbacks_may_call_in : forall prog st,
  (forall t cb, exists st' id, step prog st (LSet t cb) = Some (st', ORet id))
  /\ (forall id, exists st' r, step prog st (LCancel id) = Some (st', ORet r))
  /\ (forall tm c rem, running st = Some (tm, c :: rem) ->
        match c with
        | CSet cb => forall t, exists st' id, step prog st (LCbSet t) = Some (st', ORet id)
        | CCancel => forall id, exists st' r, step prog st (LCbCancel id) = Some (st', ORet r)
        end).
Proof.
  intros prog st. split; [|split].
  - apply set_always_enabled.
  - apply cancel_always_enabled.
  - apply callback_op_enabled.
Qed.
Print Assumptions C18_callbacks_may_call_in.

Theorem C18_dispatch_progress : forall prog n st now, good prog n st -> thr st = Disp now ->
  exists l st' o, thread_label l /\ step prog st l = Some (st', o).
Proof. exact disp_progress. Qed.
Print Assumptions C18_dispatch_progress.

Theorem C18_dispatch_terminates : forall prog st l st' o, thread_label l ->
  step prog st l = Some (st', o) ->
  (exists d, thr st' = Wait d) \/ (disp_measure prog st' < disp_measure prog st)%nat.
Proof. exact disp_measure_decreases. Qed.
Print Assumptions C18_dispatch_terminates.

Theorem C18_other_threads_cannot_prolong : forall prog st l st' o,
  match l with LSet _ _ | LCancel _ | LSignal => True | _ => False end ->
  step prog st l = Some (st', o) -> disp_measure prog st' = disp_measure prog st /\ thr st' = thr st.
Proof. exact other_threads_keep_measure. Qed.
Print Assumptions C18_other_threads_cannot_prolong.

(* periodic services (replay purge, PRNG stir: the callback re-arms itself exactly once per run, nobody else
   sets or cancels its instances): exactly one instance pending / detached / owed by the running callback,
   along every run, for every clock reading *)
Theorem C18_periodic_forever : forall prog c,
  owes c (prog c) = 1%nat -> (forall d, d <> c -> owes c (prog d) = O) ->
  forall n st ls st', good prog n st -> Z.of_nat (n + length ls) < long_max ->
  inst c st = 1%nat -> run prog st ls = Some st' -> env_run prog c st ls -> total_adds c ls = O ->
  inst c st' = 1%nat.
Proof. exact periodic_forever. Qed.
Print Assumptions C18_periodic_forever.

Theorem C18_periodic_pending_at_rest : forall prog c,
  owes c (prog c) = 1%nat -> (forall d, d <> c -> owes c (prog d) = O) ->
  forall n st d, good prog n st -> inst c st = 1%nat -> thr st = Wait d -> cnt c (active st) = 1%nat.
Proof. exact periodic_pending_at_rest. Qed.
Print Assumptions C18_periodic_pending_at_rest.

(* group-map refresh: gids_update (SIGHUP) may add instances; never fewer than one *)
Theorem C18_periodic_at_least_one : forall prog c,
  owes c (prog c) = 1%nat -> (forall d, d <> c -> owes c (prog d) = O) ->
  forall n st ls st', good prog n st -> Z.of_nat (n + length ls) < long_max ->
  (1 <= inst c st)%nat -> run prog st ls = Some st' -> env_run prog c st ls -> (1 <= inst c st')%nat.
Proof. exact periodic_at_least_one. Qed.
Print Assumptions C18_periodic_at_least_one.

(* clock_get_timespec: normalised, exact, and a relative timer never expires before its delay has passed *)
Theorem C18_relative_expiry : forall now ms, 0 <= snd now < nsec_per_sec -> 0 <= ms ->
  ts_ns (ts_add_ms now ms) = ts_ns now + ms * nsec_per_msec
  /\ 0 <= snd (ts_add_ms now ms) < nsec_per_sec
  /\ ts_le now (ts_add_ms now ms) = true.
Proof.
  intros now ms Hn Hm. destruct (ts_add_ms_spec now ms Hn Hm) as [E B].
  split; [exact E|split; [exact B|exact (relative_not_early now ms Hn Hm)]].
Qed.
Print Assumptions C18_relative_expiry.

(* the periods the periodic services use are positive (taken from the source): every re-arm lies strictly in
   the future of the clock reading it was computed from, so a chain cannot spin within one batch *)
Theorem C18_periods_positive :
  0 < replay_purge_secs /\ 0 < group_update_secs /\ 0 < stir_max_secs /\ 0 < long_max.
Proof. repeat split; reflexivity. Qed.
Print Assumptions C18_periods_positive.

(* REFUTED for timer.c before the repair (`return (t->id)` after the unlock): the id returned by
   timer_set_absolute can be another timer's; witness replayed on the C code by tools/props/c18.py (mode Z) *)
Theorem C18_set_return_after_unlock_refuted :
  exists st held t1,
    run_u (fun _ => []) (init, []) race_trace
      = Some ((st, held), [ONone; ONone; ONone; OFire t1; ONone; ONone; ORet 2; ORet 2; ORet 1])
    /\ t_id t1 = 1 /\ active st = [] /\ map (fun p => t_id (fst p)) (fired st) = [1].
Proof. exact set_return_after_unlock_witness. Qed.
Print Assumptions C18_set_return_after_unlock_refuted.

(* two readings the code does NOT support, with witnesses (both are how timer.c behaves, see Issue 15 comment):
   expiry order is not global across batches; a timer already detached into a batch cannot be cancelled *)
Theorem C18_global_expiry_order_refuted :
  exists st, run (fun cb => match cb with 1%nat => [CSet 0%nat] | _ => [] end) init across_batches_trace = Some st
    /\ map (fun p => t_ts (fst p)) (fired st) = [(10, 0); (20, 0); (15, 0)].
Proof. exact order_across_batches_witness. Qed.
Print Assumptions C18_global_expiry_order_refuted.

Theorem C18_cancel_of_detached_refuted :
  exists st st' o st'',
    run (fun cb => match cb with 1%nat => [CCancel] | _ => [] end) init cancel_detached_trace = Some st
    /\ step (fun cb => match cb with 1%nat => [CCancel] | _ => [] end) st' (LCbCancel 2) = Some (st, o)
    /\ o = ORet 0
    /\ run (fun cb => match cb with 1%nat => [CCancel] | _ => [] end) st [LEnd; LBegin] = Some st''
    /\ map (fun p => t_id (fst p)) (fired st'') = [1; 2].
Proof. exact cancel_detached_witness. Qed.
Print Assumptions C18_cancel_of_detached_refuted.

(* non-vacuity: a good state with a pending self re-arming instance exists (one set of callback 0 whose program
   re-arms itself), so the premises of C18_periodic_forever are satisfiable *)
Example C18_periodic_premises_satisfiable :
  let prog := fun cb : nat => match cb with O => [CSet O] | _ => [] end in
  exists st, good prog 1 st /\ inst O st = 1%nat /\ owes O (prog O) = 1%nat.
Proof.
  cbv zeta. exists (fst (do_set init (60, 0) O)). split; [|split].
  - split; [|reflexivity].
    apply (reachS _ O init (LSet (60, 0) O) _ (ORet 1) (reach0 _)). reflexivity.
  - reflexivity.
  - reflexivity.
Qed.
