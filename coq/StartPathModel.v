(* StartPathModel.v — the start-up / shutdown program of munged with PATH NAMES AS BYTE STRINGS.  No proofs.

   StartModel treats the lock, socket, pid and seed names as four tokens: the name that is locked, the name that
   is unlinked as a stale socket, the name that is bound and the name that is unlinked at shutdown are equal by
   construction there.  Here every site of the program carries the byte string the source computes for it:

     lock file      conf->lockfile_name = strdupf ("%s.lock", conf->socket_name)   (lock.c; buffer of
                    lock_name_max+1 bytes, so the name is cut after lock_name_max bytes)
     stale socket   unlink (conf->socket_name)                                       (munged.c sock_create)
     bind           n = strlcpy (addr.sun_path, conf->socket_name, sock_copy_size);
                    if (sock_len_refuses n) exit;  bind (addr)                        (munged.c sock_create)
     shutdown       unlink (conf->socket_name); unlink (conf->lockfile_name)         (munged.c sock_destroy)

   sock_copy_size, sock_len_refuses, sun_path_cap, lock_name_suffix, lock_name_max come from gen/GenStart.v
   (regenerated from the source on every run).  The file system is keyed by byte strings; every process has its
   own configuration (socket, pid and seed path), so daemons on different — possibly overlapping — socket paths
   run in one state.  socket() + strlcpy + length test + bind are one step (CBind), as socket() touches no name;
   the program therefore has the same 20 positions as StartModel.prog. *)
From Coq Require Import List Arith NArith Bool.
From Coq.Strings Require Import Byte.
From MV Require Import Bytes StartModel.
From MV.gen Require Import GenStart.
Import ListNotations.

Fixpoint bytes_eqb (a b : bytes) : bool :=
  match a, b with
  | [], [] => true
  | x :: a', y :: b' => N.eqb (b2n x) (b2n y) && bytes_eqb a' b'
  | _, _ => false
  end.

(* ---- the names, computed as the source computes them ---- *)
(* size_t strlcpy (dst, src, siz): copies at most siz-1 bytes (and a NUL), returns strlen (src) *)
Definition c_strlcpy (src : bytes) (siz : N) : bytes * N :=
  (firstn (N.to_nat (N.pred siz)) src, N.of_nat (length src)).

Definition lock_suffix : bytes := map n2b lock_name_suffix.
(* strdupf ("%s.lock", sock): vsnprintf into a buffer of lock_name_max + 1 bytes *)
Definition lock_name_of (sock : bytes) : bytes := firstn (N.to_nat lock_name_max) (sock ++ lock_suffix).

Record conf := mkConf { c_sock : bytes; c_pid : bytes; c_seed : bytes }.

Definition bind_copy (c : conf) : bytes * N := c_strlcpy (c_sock c) sock_copy_size.
Definition refuses (c : conf) : bool := sock_len_refuses (snd (bind_copy c)).
Definition bind_name (c : conf) : bytes := fst (bind_copy c).

(* ---- the program over byte-string names ---- *)
Inductive cprim :=
| CReadSeed (nm : bytes)
| COpenLock (nm : bytes)
| CFstatLock
| CSetLk
| CUnlink (nm : bytes)
| CBind (refuse : bool) (nm : bytes)   (* socket; strlcpy; length test (refuse => exit); bind (nm) *)
| CListen
| COpenPid (nm : bytes)
| CWritePid (nm : bytes)
| CServe
| CCloseSock
| CCloseLock
| COpenSeed (nm : bytes)
| CWriteSeed (nm : bytes)
| CExit.

Definition cstartup (c : conf) : list cprim :=
  [CReadSeed (c_seed c); COpenLock (lock_name_of (c_sock c)); CFstatLock; CSetLk; CUnlink (c_sock c);
   CBind (refuses c) (bind_name c); CListen; CUnlink (c_pid c); COpenPid (c_pid c); CWritePid (c_pid c)].
Definition cshutdown (c : conf) : list cprim :=
  [CUnlink (c_sock c); CCloseSock; CUnlink (lock_name_of (c_sock c)); CCloseLock;
   CUnlink (c_seed c); COpenSeed (c_seed c); CWriteSeed (c_seed c); CUnlink (c_pid c); CExit].
Definition cprog (c : conf) : list cprim := cstartup c ++ [CServe] ++ cshutdown c.

(* the token program of StartModel under an interpretation of its four tokens *)
Definition concretize (iota : name -> bytes) (a : prim) : cprim :=
  match a with
  | ReadSeed => CReadSeed (iota NSeed)
  | OpenLock => COpenLock (iota NLock)
  | FstatLock => CFstatLock
  | SetLk => CSetLk
  | Unlink n => CUnlink (iota n)
  | Bind => CBind false (iota NSock)
  | Listen => CListen
  | OpenPid => COpenPid (iota NPid)
  | WritePid => CWritePid (iota NPid)
  | Serve => CServe
  | CloseSock => CCloseSock
  | CloseLock => CCloseLock
  | OpenSeed => COpenSeed (iota NSeed)
  | WriteSeed => CWriteSeed (iota NSeed)
  | Exit => CExit
  end.

(* the intended meaning of the tokens for a configuration *)
Definition interp (c : conf) (n : name) : bytes :=
  match n with
  | NLock => c_sock c ++ lock_suffix
  | NSock => c_sock c
  | NPid => c_pid c
  | NSeed => c_seed c
  end.

(* the four names of a configuration are pairwise different *)
Definition all_names : list name := [NLock; NSock; NPid; NSeed].
Definition conf_wf (c : conf) : bool :=
  forallb (fun m => forallb (fun n => Bool.eqb (bytes_eqb (interp c m) (interp c n)) (name_eqb m n)) all_names) all_names.

(* every name a daemon with configuration c is entitled to touch *)
Definition conf_names (c : conf) : list bytes := map (interp c) all_names.

(* ---- file system keyed by byte strings ---- *)
Record cstate := mkC {
  cnames    : bytes -> option nat;
  cinodes   : nat -> inode;
  clockown  : nat -> option nat;
  clistener : nat -> option nat;
  ccontent  : nat -> option nat;
  cnext     : nat;
  cprocs    : nat -> proc;
  cconf     : nat -> conf }.            (* configuration of each process; never changes *)

Definition updb {A} (f : bytes -> A) (k : bytes) (v : A) : bytes -> A :=
  fun x => if bytes_eqb x k then v else f x.

Definition cset_names s v := mkC v (cinodes s) (clockown s) (clistener s) (ccontent s) (cnext s) (cprocs s) (cconf s).
Definition cset_lockown s v := mkC (cnames s) (cinodes s) v (clistener s) (ccontent s) (cnext s) (cprocs s) (cconf s).
Definition cset_listener s v := mkC (cnames s) (cinodes s) (clockown s) v (ccontent s) (cnext s) (cprocs s) (cconf s).
Definition cset_content s v := mkC (cnames s) (cinodes s) (clockown s) (clistener s) v (cnext s) (cprocs s) (cconf s).
Definition cset_proc s p pr :=
  mkC (cnames s) (cinodes s) (clockown s) (clistener s) (ccontent s) (cnext s) (upd (cprocs s) p pr) (cconf s).
Definition calloc s nm nd :=
  mkC (updb (cnames s) nm (Some (cnext s))) (upd (cinodes s) (cnext s) nd)
      (clockown s) (clistener s) (ccontent s) (S (cnext s)) (cprocs s) (cconf s).
Definition cdie s p how :=
  mkC (cnames s) (cinodes s) (clear (clockown s) p) (clear (clistener s) p) (ccontent s) (cnext s)
      (upd (cprocs s) p (mkProc how (pc (cprocs s p)) None None)) (cconf s).

Inductive coutcome := CCont (s : cstate) (pr : proc) | CFail (s : cstate) | CDone (s : cstate) | CBlock.

Definition sock_inode := mkIno Sock 511.
Definition pid_inode := mkIno Reg 420.
Definition seed_inode' := mkIno Reg 384.

Definition cexec (s : cstate) (p : nat) (pr : proc) (a : cprim) : coutcome :=
  match a with
  | CReadSeed nm =>
      match cnames s nm with
      | None => CCont s pr
      | Some f => if (match ccontent s f with Some _ => seed_read_full_returns | None => seed_read_short_returns end)
                  then CCont s pr else CBlock
      end
  | COpenLock nm =>
      match cnames s nm with
      | Some i => if lock_open_excl then CFail s else CCont s (set_lockfd pr (Some i))
      | None => if lock_open_creat
                then CCont (calloc s nm lock_inode) (set_lockfd pr (Some (cnext s)))
                else CFail s
      end
  | CFstatLock =>
      match lockfd pr with
      | Some i => if stat_ok (cinodes s i) then CCont s pr else CFail s
      | None => CFail s
      end
  | CSetLk =>
      match lockfd pr with
      | Some i =>
          if lock_type_exclusive && lock_whole_file then
            match clockown s i with
            | None => CCont (cset_lockown s (upd (clockown s) i (Some p))) pr
            | Some q => if Nat.eqb q p then CCont s pr
                        else if lock_cmd_nonblocking
                             then (if lock_busy_exits then CFail s else CCont s pr)
                             else CBlock
            end
          else CCont s pr
      | None => CFail s
      end
  | CUnlink nm => CCont (cset_names s (updb (cnames s) nm None)) pr
  | CBind refuse nm =>
      if refuse then CFail s               (* "Exceeded maximum length ... for socket pathname" *)
      else match cnames s nm with
           | Some _ => CFail s             (* EADDRINUSE *)
           | None => CCont (calloc s nm sock_inode) (set_sockfd pr (Some (cnext s)))
           end
  | CListen =>
      match sockfd pr with
      | Some j => CCont (cset_listener s (upd (clistener s) j (Some p))) pr
      | None => CFail s
      end
  | COpenPid nm =>
      match cnames s nm with
      | Some f => CCont (cset_content s (upd (ccontent s) f None)) pr
      | None => CCont (cset_content (calloc s nm pid_inode) (upd (ccontent s) (cnext s) None)) pr
      end
  | CWritePid nm =>
      match cnames s nm with
      | Some f => CCont (cset_content s (upd (ccontent s) f (Some p))) pr
      | None => CCont s pr
      end
  | CServe => CBlock
  | CCloseSock =>
      match sockfd pr with
      | Some j => CCont (cset_listener s (release1 (clistener s) j p)) (set_sockfd pr None)
      | None => CCont s pr
      end
  | CCloseLock =>
      match lockfd pr with
      | Some i => CCont (cset_lockown s (release1 (clockown s) i p)) (set_lockfd pr None)
      | None => CCont s pr
      end
  | COpenSeed nm =>
      match cnames s nm with
      | Some f => CCont (cset_content s (upd (ccontent s) f None)) pr
      | None => CCont (cset_content (calloc s nm seed_inode') (upd (ccontent s) (cnext s) None)) pr
      end
  | CWriteSeed nm =>
      match cnames s nm with
      | Some f => CCont (cset_content s (upd (ccontent s) f (Some p))) pr
      | None => CCont s pr
      end
  | CExit => CDone s
  end.

Definition cstep (s : cstate) (l : label) : option cstate :=
  match l with
  | Step p =>
      let pr := cprocs s p in
      if startable pr then
        match nth_error (cprog (cconf s p)) (pc pr) with
        | Some a =>
            match cexec s p pr a with
            | CCont s' pr' => Some (cset_proc s' p (mkProc Running (S (pc pr)) (lockfd pr') (sockfd pr')))
            | CFail s' => Some (cdie s' p Failed)
            | CDone s' => Some (cdie s' p Exited)
            | CBlock => None
            end
        | None => None
        end
      else None
  | Term p =>
      let pr := cprocs s p in
      match st pr, nth_error (cprog (cconf s p)) (pc pr) with
      | Running, Some CServe => Some (cset_proc s p (mkProc Running (S (pc pr)) (lockfd pr) (sockfd pr)))
      | _, _ => None
      end
  | Crash p =>
      match st (cprocs s p) with
      | Running => Some (cdie s p Killed)
      | _ => None
      end
  end.

Fixpoint crun (s : cstate) (sched : list label) : option cstate :=
  match sched with
  | [] => Some s
  | l :: r => match cstep s l with Some s' => crun s' r | None => None end
  end.

Definition cinit (cf : nat -> conf) : cstate :=
  mkC (fun _ => None) (fun _ => mkIno Reg 0) (fun _ => None) (fun _ => None) (fun _ => None) 0
      (fun _ => mkProc NotStarted 0 None None) cf.

(* ---- observations ---- *)
Definition cat_serve (s : cstate) (p : nat) : bool :=
  match st (cprocs s p) with Running => Nat.eqb (pc (cprocs s p)) serve_pc | _ => false end.

(* the daemon reachable through the byte-string names of configuration c is p *)
Definition cserving (c : conf) (s : cstate) (p : nat) : bool :=
  cat_serve s p
  && match cnames s (c_sock c ++ lock_suffix) with
     | Some i => opt_is (clockown s i) p && opt_is (lockfd (cprocs s p)) i | None => false end
  && match cnames s (c_sock c) with
     | Some j => opt_is (clistener s j) p && opt_is (sockfd (cprocs s p)) j | None => false end
  && match cnames s (c_pid c) with Some f => opt_is (ccontent s f) p | None => false end.

Definition is_sock (s : cstate) (nm : bytes) : bool :=
  match cnames s nm with Some j => negb (kind_is_reg (ikind (cinodes s j))) | None => false end.
(* who listens on the socket a name leads to *)
Definition name_listener (s : cstate) (nm : bytes) : option nat :=
  match cnames s nm with Some j => clistener s j | None => None end.
(* who wrote the file a name leads to completely (None: no file, or an empty one) *)
Definition name_content (s : cstate) (nm : bytes) : option nat :=
  match cnames s nm with Some f => ccontent s f | None => None end.
Definition name_lock_holder (s : cstate) (nm : bytes) : option nat :=
  match cnames s nm with Some i => clockown s i | None => None end.
Definition cobs_proc (s : cstate) (p : nat) : nat * nat * bool :=
  (status_code (st (cprocs s p)), pc (cprocs s p), cserving (cconf s p) s p).
(* a listening socket nobody can reach by any of the given names: process p listens on inode j, no name leads to j *)
Definition listens_unnamed (s : cstate) (p : nat) (nms : list bytes) : bool :=
  match sockfd (cprocs s p) with
  | Some j => opt_is (clistener s j) p && negb (existsb (fun nm => opt_is (cnames s nm) j) nms)
  | None => false
  end.
