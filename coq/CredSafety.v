(* CredSafety.v — C08 (model part): for EVERY input the decoder and the encoder end in a well-formed reply;
   every length a reply announces is the length of what it carries (so packing the reply stays in bounds). *)
From Coq Require Import List NArith ZArith Bool Lia ZifyBool ZifyN ZifyNat.
From Coq.Strings Require Import Byte.
From RecordUpdate Require Import RecordSet.
From MV Require Import Bytes Base64Model CredModel CredProofs CredLength.
From MV.gen Require Import GenCred.
Import ListNotations RecordSetNotations.
Local Open Scope N_scope.
Ltac Zify.zify_post_hook ::= Z.div_mod_to_equations.

(* what _msg_pack (DEC_RSP) relies on: each variable-length field has at least the announced number of bytes,
   the address field is absent or exactly the size of the addr member *)
Definition wf_reply (r : msg) : Prop :=
  m_data_len r = len (m_data r) /\
  m_realm_len r <= len (m_realm r) /\ m_realm_len r < 256 /\
  (m_addr_len r = 0 \/ (m_addr_len r = c_addr_size /\ len (m_addr r) = c_addr_size)).

Lemma wf_reset m : wf_reply (msg_reset m).
Proof. unfold wf_reply, msg_reset. cbn. repeat split; try lia; try (left; reflexivity). Qed.

Lemma set_err_fields m e s :
  m_data_len (set_err m e s) = m_data_len m /\ m_data (set_err m e s) = m_data m /\
  m_realm_len (set_err m e s) = m_realm_len m /\ m_realm (set_err m e s) = m_realm m /\
  m_addr_len (set_err m e s) = m_addr_len m /\ m_addr (set_err m e s) = m_addr m.
Proof. unfold set_err. destruct (_ && _); cbn; repeat split; reflexivity. Qed.

Lemma wf_set_err m e s : wf_reply m -> wf_reply (set_err m e s).
Proof.
  unfold wf_reply. destruct (set_err_fields m e s) as (A & B & C & D & E & F).
  rewrite A, B, C, D, E, F. tauto.
Qed.

Lemma wf_finish m : wf_reply m -> wf_reply (dec_finish m).
Proof. unfold dec_finish. destruct (_ && _); [intros _; apply wf_reset|auto]. Qed.

Lemma take_len {A} n (l a b : list A) : take n l = Some (a, b) -> len a = N.of_nat n.
Proof. intros H. apply take_spec in H. destruct H as [_ H]. unfold len. now rewrite H. Qed.

(* the realm fields after dec_unpack_outer *)
Lemma unpack_outer_realm m body o : dec_unpack_outer m body = inr o ->
  m_realm_len m <= len (m_realm m) -> m_realm_len m < 256 ->
  m_realm_len (oo_msg o) <= len (m_realm (oo_msg o)) /\ m_realm_len (oo_msg o) < 256 /\
  m_addr_len (oo_msg o) = m_addr_len m /\ m_addr (oo_msg o) = m_addr m /\
  m_data_len (oo_msg o) = m_data_len m /\ m_data (oo_msg o) = m_data m.
Proof.
  unfold dec_unpack_outer. intros H R1 R2. break_match H.
  all: inversion H; subst; clear H; cbn.
  all: repeat match goal with
       | T : take _ _ = Some (?r, _) |- context [?r] => pose proof (take_len _ _ _ _ T); clear T
       end.
  all: pose proof (b2n_lt b3).
  all: rewrite ?len_app; change (len [x00]) with 1; repeat split; try reflexivity; try lia.
Qed.

Lemma unpack_inner_wf m inner m' : dec_unpack_inner m inner = inr m' ->
  m_realm_len m' = m_realm_len m /\ m_realm m' = m_realm m /\
  m_data_len m' = len (m_data m') /\
  (m_addr_len m' = 0 \/ (m_addr_len m' = c_addr_size /\ len (m_addr m') = c_addr_size)).
Proof.
  unfold dec_unpack_inner, bad_cred. intros H. break_match H.
  all: injection H as <-; cbn -[firstn skipn].
  all: repeat match goal with
       | T : take _ _ = Some (?r, _) |- _ => pose proof (take_len _ _ _ _ T); clear T
       end.
  all: repeat split; try reflexivity; try lia.
  all: match goal with
       | E : (b2n ?al =? 4) = true |- _ =>
           right; apply N.eqb_eq in E; split; [exact E|];
           match goal with L : (len ?r2 <? b2n al) = false |- _ =>
             rewrite E in L; unfold len in L;
             destruct r2 as [|a1 [|a2 [|a3 [|a4 rr]]]]; cbn in L; try lia; reflexivity end
       | E : (b2n ?al =? 4) = false, F : negb (_ || (b2n ?al =? 0)) = false |- _ =>
           left; rewrite E in F; cbn in F; apply negb_false_iff in F; apply N.eqb_eq in F; exact F
       end.
Qed.

Section S.
Variable hmac : N -> bytes -> bytes -> bytes.
Variable sha1 : bytes -> bytes.
Variable blk_enc blk_dec : N -> bytes -> bytes -> bytes.
Variable zcomp : N -> bytes -> option bytes.
Variable zdecomp : N -> bytes -> N -> option bytes.

Lemma dec_parse_wf cf m m' tag :
  dec_parse hmac sha1 blk_dec zdecomp cf m = inr (m', tag) ->
  m_realm_len m <= len (m_realm m) -> m_realm_len m < 256 -> wf_reply m'.
Proof.
  unfold dec_parse. intros H R1 R2. break_match H. inversion H; subst; clear H.
  match goal with O : dec_unpack_outer _ _ = inr _ |- _ =>
    apply unpack_outer_realm in O; [|exact R1|exact R2]; destruct O as (A & B & _) end.
  match goal with I : dec_unpack_inner _ _ = inr _ |- _ =>
    apply unpack_inner_wf in I; destruct I as (C & D & E & F) end.
  unfold wf_reply. rewrite C, D. tauto.
Qed.

(* every error branch of dec_parse returns the input message (or a stage message) with set_err applied; its
   fields are never sent: dec_finish resets them because the error is hard *)
Theorem dec_reply_wellformed cf mem rs m pu pg now r rs' k :
  m_err m = e_success -> m_realm_len m = 0 -> m_realm m = [] ->
  dec_process hmac sha1 blk_dec zdecomp cf mem rs m pu pg now = (r, rs', k) -> wf_reply r.
Proof.
  intros H0 Hr1 Hr2 H. unfold dec_process in H.
  destruct (m_data_len m =? 0) eqn:D0.
  { inversion H; subst. rewrite dec_finish_hard by (apply set_err_hard; auto). apply wf_reset. }
  set (m1 := m <| m_time0 := 0 |> <| m_time1 := u32 now |> <| m_client_uid := pu |> <| m_client_gid := pg |>) in *.
  assert (E1 : m_err m1 = e_success) by exact H0.
  destruct (c_retry_attempts <? m_retry m1) eqn:R.
  { inversion H; subst. rewrite dec_finish_hard by (apply set_err_hard; auto). apply wf_reset. }
  destruct (CredModel.dec_parse hmac sha1 blk_dec zdecomp cf m1) as [e|[m2 tag]] eqn:P.
  { inversion H; subst. rewrite dec_finish_hard by (exact (dec_parse_err hmac sha1 blk_dec zdecomp _ _ _ P E1)).
    apply wf_reset. }
  assert (W2 : wf_reply m2).
  { apply (dec_parse_wf _ _ _ _ P); change (m_realm_len m1) with (m_realm_len m); change (m_realm m1) with (m_realm m);
    rewrite Hr1, ?Hr2; cbn; lia. }
  destruct (negb (dec_authorized cf mem m2)).
  { inversion H; subst. apply wf_finish, wf_set_err, W2. }
  destruct (dec_time cf (m_time0 m2) (m_ttl m2) (m_time1 m2)) as [tv ttl'].
  assert (W3 : wf_reply (m2 <| m_ttl := ttl' |>)) by exact W2.
  destruct tv.
  - destruct (r_mem _ rs).
    + destruct (_ && _ && _); inversion H; subst; [exact W3|apply wf_finish, wf_set_err, W3].
    + inversion H; subst. exact W3.
  - inversion H; subst. apply wf_finish, wf_set_err, W3.
  - inversion H; subst. apply wf_finish, wf_set_err, W3.
Qed.

(* ENC_RSP: an error reply carries no data *)
Lemma enc_pre_err cf m pu pg now m1 : enc_pre cf m pu pg now = inl m1 -> m_err m1 = m_err m.
Proof.
  unfold enc_pre, enc_validate. intros H.
  repeat match type of H with
  | context [if ?b then _ else _] => destruct b eqn:?; try discriminate H
  end; inversion H; subst; reflexivity.
Qed.

Lemma enc_core_err cf m1 salt ivr o :
  enc_core hmac sha1 blk_enc zcomp cf m1 salt ivr = inr o -> m_err (eo_msg o) = m_err m1.
Proof.
  unfold enc_core. intros H. break_match H.
  all: injection H as <-; cbn [eo_msg]; cbn; try reflexivity.
  all: match goal with Z : (if _ then _ else _) = Some (?m0, _) |- m_err ?m0 = _ =>
         break_match Z; inversion Z; subst; reflexivity end.
Qed.

Theorem enc_error_reply_has_no_data cf m pu pg now salt ivr :
  m_err m = e_success ->
  let r := enc_process hmac sha1 blk_enc zcomp cf m pu pg now salt ivr in
  er_err r <> e_success -> er_data r = [].
Proof.
  intros H0. cbv zeta. unfold enc_process.
  destruct (enc_pre cf m pu pg now) as [m1|e] eqn:P; [|intros _; reflexivity].
  destruct (enc_core hmac sha1 blk_enc zcomp cf m1 salt ivr) as [e|o] eqn:C; [intros _; reflexivity|].
  cbn [er_err]. rewrite (enc_core_err _ _ _ _ _ C), (enc_pre_err _ _ _ _ _ _ P), H0. intros E. contradiction.
Qed.

End S.
