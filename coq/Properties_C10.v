(* Properties_C10.v — statements only.  Credentials conform to the documented v3 format in both directions.
   V3Spec.v3_cred is a declarative relation transcribed from doc/credential_v3_format.txt with its own vocabulary
   (octets, 32-bit big-endian words, CBC as a relation C_i = E(P_i xor C_{i-1}), PKCS #5 as "n bytes of value n",
   subkeys sha1(key|"1") and sha1(key|"2"), RFC 4648 base64 between "MUNGE:" and ":"), independent of the
   functions of CredModel. *)
From Coq Require Import List NArith ZArith Bool.
From Coq.Strings Require Import Byte.
From RecordUpdate Require Import RecordSet.
From MV Require Import Bytes Base64Model Base64Proofs CredModel CredProofs CredRoundtrip V3Spec V3Accept.
From MV.gen Require Import GenCred.
Import ListNotations RecordSetNotations.
Local Open Scope N_scope.

Section C10.
Variable hmac : N -> bytes -> bytes -> bytes.
Variable sha1 : bytes -> bytes.
Variable blk_enc blk_dec : N -> bytes -> bytes -> bytes.
Variable zcomp : N -> bytes -> option bytes.
Variable zdecomp : N -> bytes -> N -> option bytes.
Hypothesis hmac_len : forall a k d, mac_valid a = true -> len (hmac a k d) = mac_size a.
Hypothesis blk_len : forall c k b, cipher_valid c = true -> len b = cipher_blk_size c -> len (blk_enc c k b) = cipher_blk_size c.
Hypothesis blk_inv : forall c k b, cipher_valid c = true -> len b = cipher_blk_size c -> blk_dec c k (blk_enc c k b) = b.
Hypothesis zip_inv : forall z x raw mx, zip_valid z = true -> zcomp z x = Some raw -> len x <= mx -> zdecomp z raw mx = Some x.

(* emit direction: every credential the encoder produces (minus the NUL the wire protocol counts) is a v3
   credential for exactly the requested fields under the key file *)
Theorem C10_enc_satisfies_spec :
  forall cf m pu pg now m1 salt ivr o,
  wf_conf cf -> wf_enc_req m -> pu < 4294967296 -> pg < 4294967296 ->
  len salt = c_salt_len -> 16 <= len ivr ->
  enc_pre cf m pu pg now = inl m1 ->
  enc_core hmac sha1 blk_enc zcomp cf m1 salt ivr = inr o ->
  exists c, eo_cred o = c ++ [x00] /\ v3_cred hmac sha1 blk_enc zcomp (cf_key cf) (fields_of cf m1 salt o) c.
Proof. exact (enc_request_satisfies_spec hmac sha1 blk_enc zcomp blk_len). Qed.

(* accept direction and interchangeability: a daemon with ANY configuration (defaults, --max-ttl) that holds the
   same key file accepts the credential and reports the same field values *)
Theorem C10_interchangeable :
  forall (cfe cfd : conf) (m m1 : msg) (pu pg now : N) (salt ivr : bytes) (o : enc_out),
  wf_conf cfe -> wf_enc_req m -> cf_key cfd = cf_key cfe ->
  pu < 4294967296 -> pg < 4294967296 -> len salt = c_salt_len -> 16 <= len ivr ->
  enc_pre cfe m pu pg now = inl m1 ->
  enc_core hmac sha1 blk_enc zcomp cfe m1 salt ivr = inr o ->
  forall (mem : N -> N -> bool) (rs : rstate) (du dg now' retry : N),
  retry <= c_retry_attempts -> du < 4294967296 -> dg < 4294967296 ->
  let ttl' := capped cfd (m_ttl m1) in let t0 := u32 now in
  (m_auth_uid m = c_uid_any \/ m_auth_uid m = du \/ (cf_root_auth cfd = true /\ du = 0)) ->
  (m_auth_gid m = c_gid_any \/ m_auth_gid m = dg \/ mem du (m_auth_gid m) = true) ->
  (Z.of_N t0 - Z.of_N (skew_of cfd ttl') <= Z.of_N (u32 now'))%Z -> u32 now' <= t0 + ttl' ->
  r_mem (firstn 16 (eo_tag o), t0 + ttl') rs = false ->
  exists r k,
    dec_process hmac sha1 blk_dec zdecomp cfd mem rs (dec_req (eo_cred o) retry) du dg now' = (r, k :: rs, Some k) /\
    k = (firstn 16 (eo_tag o), t0 + ttl') /\
    m_err r = e_success /\
    m_data r = m_data m /\ m_data_len r = m_data_len m /\
    m_cred_uid r = pu /\ m_cred_gid r = pg /\
    m_auth_uid r = m_auth_uid m /\ m_auth_gid r = m_auth_gid m /\
    m_cipher r = m_cipher (eo_msg o) /\ m_mac r = m_mac (eo_msg o) /\ m_zip r = m_zip (eo_msg o) /\
    m_ttl r = ttl' /\ m_time0 r = t0 /\ m_time1 r = u32 now' /\
    m_addr_len r = c_addr_size /\ m_addr r = cf_addr cfe.
Proof. exact (roundtrip hmac sha1 blk_enc blk_dec zcomp zdecomp hmac_len blk_len blk_inv zip_inv). Qed.
End C10.
Print Assumptions C10_enc_satisfies_spec.
Print Assumptions C10_interchangeable.

(* the base64 layer of the armor is canonical RFC 4648 *)
Theorem C10_armor_base64_is_rfc4648 : forall s : bytes, encode_block s = rfc4648 s.
Proof. exact canonical. Qed.
Print Assumptions C10_armor_base64_is_rfc4648.

(* the spec's literals are the source's constants (regenerated from /repo on every run) *)
Theorem C10_spec_literals :
  munge_prefix = nbytes c_prefix /\ munge_suffix = nbytes c_suffix /\ zip_magic = c_zip_magic /\
  c_cred_version = 3 /\ c_salt_len = 8 /\ c_subkey_hash = 3.
Proof. repeat split; reflexivity. Qed.
Print Assumptions C10_spec_literals.

(* ACCEPT direction, for credentials that did NOT come from this encoder: every string that satisfies the documented
   relation for some field record f (any IV, any salt, any origin address of length 0 or 4, compression kept even if
   it did not shrink the data, any other conforming implementation's choices) and whose fields are ones munged can
   decode (V3Accept.decodable: a real MAC at least as long as the cipher key, a known zip code, origin address of 0
   or 4 bytes) is accepted by a daemon with the same key, in both wire framings (with and without the NUL), with
   exactly the fields of f in the reply (V3Accept.accept_reply) and its replay key recorded.  The clauses of the
   document that are too weak for acceptance are closed Examples in V3Accept.v (the relation_allows_... examples). *)
Section C10_accept.
Variable hmac : N -> bytes -> bytes -> bytes.
Variable sha1 : bytes -> bytes.
Variable blk_enc blk_dec : N -> bytes -> bytes -> bytes.
Variable zcomp : N -> bytes -> option bytes.
Variable zdecomp : N -> bytes -> N -> option bytes.
Hypothesis hmac_len : forall a k d, mac_valid a = true -> len (hmac a k d) = mac_size a.
Hypothesis blk_len : forall c k b, cipher_valid c = true -> len b = cipher_blk_size c -> len (blk_enc c k b) = cipher_blk_size c.
Hypothesis blk_inv : forall c k b, cipher_valid c = true -> len b = cipher_blk_size c -> blk_dec c k (blk_enc c k b) = b.
Hypothesis zip_inv : forall z x raw mx, zip_valid z = true -> zcomp z x = Some raw -> len x <= mx -> zdecomp z raw mx = Some x.

Theorem C10_spec_accepted :
  forall (key : bytes) (f : v3_fields) (cred : bytes),
  v3_cred hmac sha1 blk_enc zcomp key f cred -> decodable f ->
  exists tag, v3_mac_field f cred tag /\
  forall (cfd : conf) (mem : N -> N -> bool) (rs : rstate) (du dg now' retry : N),
  cf_key cfd = key -> retry <= c_retry_attempts ->
  let ttl' := capped cfd (f_ttl f) in
  (f_auth_uid f = c_uid_any \/ f_auth_uid f = du \/ (cf_root_auth cfd = true /\ du = 0)) ->
  (f_auth_gid f = c_gid_any \/ f_auth_gid f = dg \/ mem du (f_auth_gid f) = true) ->
  (Z.of_N (f_time f) - Z.of_N (skew_of cfd ttl') <= Z.of_N (u32 now'))%Z -> u32 now' <= f_time f + ttl' ->
  let k := (firstn 16 tag, f_time f + ttl') in
  r_mem k rs = false ->
  dec_process hmac sha1 blk_dec zdecomp cfd mem rs (dec_req (cred ++ [x00]) retry) du dg now'
    = (accept_reply cfd f du dg now' retry, k :: rs, Some k) /\
  dec_process hmac sha1 blk_dec zdecomp cfd mem rs (dec_req cred retry) du dg now'
    = (accept_reply cfd f du dg now' retry, k :: rs, Some k).
Proof. exact (spec_accepted_ex hmac sha1 blk_enc blk_dec zcomp zdecomp hmac_len blk_len blk_inv zip_inv). Qed.

(* the M layer named by v3_mac_field is a function of the credential string *)
Theorem C10_mac_field_unique : forall f cred t1 t2, v3_mac_field f cred t1 -> v3_mac_field f cred t2 -> t1 = t2.
Proof. exact mac_field_unique. Qed.

(* the relation is inhabited for every in-range field record and every IV of the cipher's length (so the premise of
   C10_spec_accepted is not only met by this encoder's outputs) *)
Theorem C10_spec_inhabited :
  forall key f iv cred, fields_in_range f -> len iv = iv_len (f_cipher f) ->
  v3_build hmac sha1 blk_enc zcomp key f iv = Some cred -> v3_cred hmac sha1 blk_enc zcomp key f cred.
Proof. exact (v3_build_spec hmac sha1 blk_enc zcomp blk_len). Qed.
End C10_accept.
Print Assumptions C10_spec_accepted.
Print Assumptions C10_mac_field_unique.
Print Assumptions C10_spec_inhabited.
