(* Properties_C20.v — statements only.  Keys: exact size, private, never
   overwritten; HKDF per RFC 5869; whole-file keying.
   Models: HkdfModel (hkdf.c), KeyModel (mungekey/conf.c, key.c, munged/conf.c
   create_subkeys); every constant/flag comes from gen/GenKeys.v, regenerated
   from /repo on every run.  The crypto primitives are premises (Section
   variables in the proofs), never axioms:
     hmac : key -> data -> tag, with |hmac k d| = hash_len > 0;
     a streaming digest (hinit, hupd, hfin) with hupd (hupd s a) b = hupd s (a ++ b). *)
From Coq Require Import List NArith ZArith Bool Arith.
From Coq.Strings Require Import Byte.
From MV Require Import Bytes HkdfModel KeyModel KeyProofs.
From MV.gen Require Import GenKeys.
Import ListNotations.

(* hkdf.c = RFC 5869 for every digest (any hmac with a fixed positive output
   length), key, salt (absent => HashLen zeros; present, even empty => as given),
   info and output length up to 255 blocks; the output has exactly L bytes *)
Theorem C20_hkdf_is_rfc5869 :
  forall (hmac : bytes -> bytes -> bytes) (hash_len : nat),
  (forall k d, length (hmac k d) = hash_len) -> 0 < hash_len ->
  forall (salt : option bytes) (ikm info : bytes) (L : nat),
  L <= 255 * hash_len ->
  hkdf hmac hash_len salt (Some ikm) info L = rfc5869 hmac hash_len salt ikm info L
  /\ exists okm, hkdf hmac hash_len salt (Some ikm) info L = Some okm /\ length okm = L.
Proof. exact hkdf_is_rfc5869. Qed.
Print Assumptions C20_hkdf_is_rfc5869.

(* beyond 255 blocks (outside the property's bound) the code returns success with
   the first 255 blocks, where RFC 5869 defines no output *)
Theorem C20_hkdf_over_limit :
  forall (hmac : bytes -> bytes -> bytes) (hash_len : nat),
  (forall k d, length (hmac k d) = hash_len) -> 0 < hash_len ->
  forall (salt : option bytes) (ikm info : bytes) (L : nat),
  255 * hash_len < L ->
  rfc5869 hmac hash_len salt ikm info L = None /\
  hkdf hmac hash_len salt (Some ikm) info L
    = Some (rfc_Tcat hmac (hmac (rfc_salt hash_len salt) ikm) info 255) /\
  length (rfc_Tcat hmac (hmac (rfc_salt hash_len salt) ikm) info 255) = 255 * hash_len.
Proof. exact hkdf_over_limit. Qed.
Print Assumptions C20_hkdf_over_limit.

(* --bits: accepted exactly for 256..8192, giving (bits+7)/8 bytes in [32,1024] *)
Theorem C20_key_size_exact : forall bits : Z,
  match key_num_bytes (Some bits) with
  | Some n => (256 <= bits <= 8192)%Z /\ Z.of_N n = ((bits + 7) / 8)%Z /\ (32 <= n <= 1024)%N
  | None => (bits < 256 \/ 8192 < bits)%Z
  end.
Proof. exact key_size_bits. Qed.
Print Assumptions C20_key_size_exact.

(* mungekey end to end, for every accepted size (or the default), every umask,
   every file system, path free or --force: the file holds exactly the requested
   number of bytes, they are the RFC 5869 HKDF output over the kernel's bytes
   [ikm] (salt, info as key.c builds them), the mode has no group/other bit, and
   no other file is touched *)
Theorem C20_key_file_exact :
  forall (hmac : bytes -> bytes -> bytes) (hash_len : nat),
  (forall k d, length (hmac k d) = hash_len) ->
  hash_len = N.to_nat (digest_len key_hkdf_md) ->
  forall (fs : fsys) (p : path) (force : bool) (umask : N) (bits : option Z) (n : N) (ikm salt : bytes),
  key_num_bytes bits = Some n ->
  fs p = None \/ force = true ->
  exists okm,
    key_secret hmac hash_len ikm salt (N.to_nat n) = Some okm /\
    rfc5869 hmac hash_len (Some salt) ikm (key_info n) (N.to_nat n) = Some okm /\
    length okm = N.to_nat n /\
    let r := create_key fs p force umask (N.to_nat n) (Some okm) in
    fst r = true /\
    snd r p = Some (mkfile (N.ldiff key_open_mode umask) okm) /\
    N.land (N.ldiff key_open_mode umask) 63 = 0%N /\
    forall q, q <> p -> snd r q = fs q.
Proof. exact key_file_exact. Qed.
Print Assumptions C20_key_file_exact.

(* no group/other permission whatever the umask: the 512-value sweep, and for every N *)
Theorem C20_key_private_all_umasks : forall umask : N, (umask < 512)%N ->
  N.land (N.ldiff key_open_mode umask) 63 = 0%N.
Proof. exact mode_private_512. Qed.
Print Assumptions C20_key_private_all_umasks.

Theorem C20_key_private_any_umask : forall umask : N,
  N.land (N.ldiff key_open_mode umask) 63 = 0%N.
Proof. exact mode_private_any_umask. Qed.
Print Assumptions C20_key_private_any_umask.

(* an existing file is never replaced without --force: error, file system unchanged *)
Theorem C20_never_overwrites :
  forall (fs : fsys) (p : path) (f : file) (umask : N) (nbytes : nat) (secret : option bytes),
  fs p = Some f ->
  fst (create_key fs p false umask nbytes secret) = false /\
  forall q, snd (create_key fs p false umask nbytes secret) q = fs q.
Proof. exact never_overwrites. Qed.
Print Assumptions C20_never_overwrites.

(* with --force the old file is unlinked first and the new one created exclusively:
   fresh mode, content exactly the key (no residue), nothing else touched *)
Theorem C20_force_replaces_exclusively :
  forall (fs : fsys) (p : path) (f : file) (umask : N) (nbytes : nat) (s : bytes),
  fs p = Some f ->
  fst (create_key fs p true umask nbytes (Some s)) = true /\
  snd (create_key fs p true umask nbytes (Some s)) p
    = Some (mkfile (N.ldiff key_open_mode umask) (firstn nbytes s)) /\
  (forall q, q <> p -> snd (create_key fs p true umask nbytes (Some s)) q = fs q) /\
  key_force_unlink_first = true /\ key_force_open_excl = true /\ key_open_trunc = false.
Proof.
  intros fs p f umask nbytes s _.
  destruct (create_key_fresh fs p true umask nbytes s (or_intror eq_refl)) as [A [B C]].
  repeat split; assumption.
Qed.
Print Assumptions C20_force_replaces_exclusively.

(* munged keys MAC and cipher from the entire file, however read() splits it:
   subkeys = (H(file ++ "1"), H(file ++ "2")) for files of at least 32 bytes,
   refusal below *)
Theorem C20_whole_file_keying :
  forall (st : Type) (hinit : st) (hupd : st -> bytes -> st) (hfin : st -> bytes),
  (forall s a b, hupd (hupd s a) b = hupd s (a ++ b)) ->
  (forall cs : list bytes,
     subkeys_of_chunks st hinit hupd hfin cs = subkeys_spec st hinit hupd hfin (concat cs)) /\
  (forall content : bytes, 32 <= length content ->
     create_subkeys st hinit hupd hfin content
     = Some (H st hinit hupd hfin (content ++ ["1"%byte]), H st hinit hupd hfin (content ++ ["2"%byte]))).
Proof.
  intros st hinit hupd hfin Happ. split.
  - exact (subkeys_any_chunking st hinit hupd hfin Happ).
  - exact (long_key_whole_file st hinit hupd hfin Happ).
Qed.
Print Assumptions C20_whole_file_keying.

Theorem C20_short_key_refused :
  forall (st : Type) (hinit : st) (hupd : st -> bytes -> st) (hfin : st -> bytes),
  (forall s a b, hupd (hupd s a) b = hupd s (a ++ b)) ->
  forall content : bytes, length content < 32 ->
  create_subkeys st hinit hupd hfin content = None.
Proof. exact short_key_refused. Qed.
Print Assumptions C20_short_key_refused.

(* byte-identical files give identical subkeys (create_subkeys is a function of the
   content); files differing anywhere give different digest inputs for both
   subkeys, also across the "1"/"2" suffixes; and equal subkeys from different
   acceptable files would exhibit a digest collision (the cross-acceptance
   "exactly when" rests on that, i.e. on SHA-1's collision resistance) *)
Theorem C20_different_files_different_inputs : forall (k1 k2 : bytes) (c d : byte),
  k1 <> k2 -> k1 ++ [c] <> k2 ++ [c] /\ (c <> d -> k1 ++ [c] <> k2 ++ [d]).
Proof. exact different_files_different_inputs. Qed.
Print Assumptions C20_different_files_different_inputs.

Theorem C20_differ_at_offset : forall (k1 k2 : bytes) (i : nat) (c : byte),
  i < length k1 -> i < length k2 -> nth_error k1 i <> nth_error k2 i ->
  nth_error (k1 ++ [c]) i <> nth_error (k2 ++ [c]) i.
Proof. exact differ_at_offset. Qed.
Print Assumptions C20_differ_at_offset.

Theorem C20_equal_subkeys_collision :
  forall (st : Type) (hinit : st) (hupd : st -> bytes -> st) (hfin : st -> bytes),
  (forall s a b, hupd (hupd s a) b = hupd s (a ++ b)) ->
  forall k1 k2 : bytes, 32 <= length k1 -> 32 <= length k2 -> k1 <> k2 ->
  create_subkeys st hinit hupd hfin k1 = create_subkeys st hinit hupd hfin k2 ->
  exists a b, a <> b /\ H st hinit hupd hfin a = H st hinit hupd hfin b.
Proof. exact equal_subkeys_collision. Qed.
Print Assumptions C20_equal_subkeys_collision.

(* PARTIAL (see KeyProofs.cross_acceptance_partial): the "exactly when byte-identical"
   clause at the level of the subkeys; the link subkeys -> honoured/refused credentials
   needs the credential pipeline model (C01/C02) and HMAC unforgeability *)
Theorem C20_cross_acceptance_partial :
  forall (st : Type) (hinit : st) (hupd : st -> bytes -> st) (hfin : st -> bytes),
  (forall s a b, hupd (hupd s a) b = hupd s (a ++ b)) ->
  forall k1 k2 : bytes, 32 <= length k1 -> 32 <= length k2 ->
  (k1 = k2 -> create_subkeys st hinit hupd hfin k1 = create_subkeys st hinit hupd hfin k2) /\
  (create_subkeys st hinit hupd hfin k1 = create_subkeys st hinit hupd hfin k2 ->
   k1 = k2 \/ exists a b, a <> b /\ H st hinit hupd hfin a = H st hinit hupd hfin b).
Proof. exact cross_acceptance_partial. Qed.
Print Assumptions C20_cross_acceptance_partial.

(* what the model takes from the source, pinned: a change in /repo changes these *)
Theorem C20_source_facts :
  hkdf_max_rounds = 255%N /\ key_len_min_bytes = 32%N /\ key_len_max_bytes = 1024%N /\
  key_len_min_bits = 256%Z /\ key_len_max_bits = 8192%Z /\
  (key_len_max_bytes <= 255 * digest_len key_hkdf_md)%N /\
  key_mode_calls = 0%N /\ key_open_excl = true /\ key_open_creat = true /\ key_open_trunc = false /\
  key_noforce_unlinks = false /\ key_force_unlinks = true /\
  key_ikm_from_entropy_read = true /\
  key_info key_info_sample_bytes = map n2b key_info_sample.
Proof.
  repeat split; try reflexivity; try exact key_fits_hkdf; try exact key_info_matches_code.
Qed.
Print Assumptions C20_source_facts.

(* non-vacuity: the premises are satisfiable (a toy 4-byte "hmac" in which
   the last bytes of the data, i.e. the round counter and info, matter; the identity
   "digest" over accumulated input), and a concrete non-trivial instance: 10
   bytes over 3 blocks with an absent salt agree with the RFC definition *)
Definition toy_hmac (k d : bytes) : bytes := firstn 4 (rev d ++ k ++ repeat x00 4).
Example C20_premises_satisfiable :
  (forall k d, length (toy_hmac k d) = 4) /\
  (forall (s a b : bytes), (s ++ a) ++ b = s ++ (a ++ b)) /\
  hkdf toy_hmac 4 None (Some ["k"%byte]) ["i"%byte] 10
    = rfc5869 toy_hmac 4 None ["k"%byte] ["i"%byte] 10 /\
  hkdf toy_hmac 4 None (Some ["k"%byte]) ["i"%byte] 10
    = Some [x01; "i"; "k"; x00; x02; "i"; x00; "k"; x03; "i"]%byte /\
  create_subkeys bytes [] (@app byte) (fun s => s) (repeat "a"%byte 32)
    = Some (repeat "a"%byte 32 ++ ["1"%byte], repeat "a"%byte 32 ++ ["2"%byte]) /\
  create_subkeys bytes [] (@app byte) (fun s => s) (repeat "a"%byte 31) = None.
Proof.
  split; [|split; [|split; [|split; [|split]]]].
  - intros k d. unfold toy_hmac. rewrite firstn_length, !app_length, repeat_length.
    apply Nat.min_l. rewrite Nat.add_assoc. apply Nat.le_add_l.
  - intros s a b. symmetry. apply app_assoc.
  - vm_compute. reflexivity.
  - vm_compute. reflexivity.
  - vm_compute. reflexivity.
  - vm_compute. reflexivity.
Qed.
