(* ConcModel.v — m requests served concurrently by worker threads: each request is a thread of three steps,
   a private pure prefix (receive, parse, decrypt, MAC, authorization, time window), ONE atomic step on the
   shared state (replay_insert under the hash mutex), and a private suffix (build and send the reply).
   Generic in the request/reply types; instantiated with CredModel in ConcProofs.  Threads are indexed by
   nat (any number of them).  No proofs here. *)
From Coq Require Import List Arith Bool.
Import ListNotations.

Section Conc.
Variables Req Pre Rep St : Type.
Variable pre : Req -> Pre.                       (* cache-independent part *)
Variable atomic : Pre -> St -> Rep * St.         (* the one critical section *)

Inductive phase := P0 | P1 (p : Pre) | P2 (r : Rep) | P3 (r : Rep).
Inductive ev := EPre (i : nat) | EAtomic (i : nat) | EPost (i : nat).

Record cstate := { shared : St; th : nat -> phase; done_order : list nat (* atomic steps, latest first *) }.

Definition upd (f : nat -> phase) (i : nat) (x : phase) : nat -> phase :=
  fun j => if Nat.eqb j i then x else f j.

Definition cinit (s0 : St) : cstate := {| shared := s0; th := fun _ => P0; done_order := [] |}.

(* reqs i = the request thread i serves (None: no such thread) *)
Definition cstep (reqs : nat -> option Req) (s : cstate) (e : ev) : option cstate :=
  match e with
  | EPre i =>
      match reqs i, th s i with
      | Some q, P0 => Some {| shared := shared s; th := upd (th s) i (P1 (pre q)); done_order := done_order s |}
      | _, _ => None
      end
  | EAtomic i =>
      match th s i with
      | P1 p => let '(r, st') := atomic p (shared s) in
                Some {| shared := st'; th := upd (th s) i (P2 r); done_order := i :: done_order s |}
      | _ => None
      end
  | EPost i =>
      match th s i with
      | P2 r => Some {| shared := shared s; th := upd (th s) i (P3 r); done_order := done_order s |}
      | _ => None
      end
  end.

Fixpoint crun (reqs : nat -> option Req) (s : cstate) (es : list ev) : option cstate :=
  match es with [] => Some s | e :: r => match cstep reqs s e with Some s' => crun reqs s' r | None => None end end.

(* the sequential reference: serve the requests one after the other in a given order; returns the final
   shared state and the reply of each *)
Fixpoint seq_run (reqs : nat -> option Req) (order : list nat) (s : St) : St * list (nat * Rep) :=
  match order with
  | [] => (s, [])
  | i :: r =>
      match reqs i with
      | Some q => let '(rep, s') := atomic (pre q) s in
                  let '(sf, l) := seq_run reqs r s' in (sf, (i, rep) :: l)
      | None => seq_run reqs r s
      end
  end.

Definition reply_of (s : cstate) (i : nat) : option Rep :=
  match th s i with P2 r | P3 r => Some r | _ => None end.

End Conc.

Arguments shared {Pre Rep St}.
Arguments th {Pre Rep St}.
Arguments done_order {Pre Rep St}.
Arguments P0 {Pre Rep}.
Arguments P1 {Pre Rep}.
Arguments P2 {Pre Rep}.
Arguments P3 {Pre Rep}.
Arguments upd {Pre Rep}.
Arguments cinit {Pre Rep St}.
Arguments reply_of {Pre Rep St}.
Arguments cstep {Req Pre Rep St}.
Arguments crun {Req Pre Rep St}.
Arguments seq_run {Req Pre Rep St}.
Arguments Build_cstate {Pre Rep St}.
