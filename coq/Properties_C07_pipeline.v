(* Properties_C07_pipeline.v — statements only.  C07 at the level of dec_process_msg (CredModel): the replay
   record outlives every purge that can happen while the credential could still pass the time check.
   (The component level — hash.c/replay.c — is Properties_C07.v; C05_abs_list_bridge and C07_purge_exact relate
   the hash table to the list of keys used here: purge keeps exactly the keys with now <= t_expired.) *)
From Coq Require Import List NArith ZArith Bool.
From MV Require Import Bytes CredModel CredProofs RetryModel CredHistory.
From MV.gen Require Import GenCred.
Import ListNotations.
Local Open Scope N_scope.

Section C07p.
Variable hmac : N -> bytes -> bytes -> bytes.
Variable sha1 : bytes -> bytes.
Variable blk_dec : N -> bytes -> bytes -> bytes.
Variable zdecomp : N -> bytes -> N -> option bytes.

(* A decode is not atomic in time: it reads the clock when the request is received (t1: time-window check) and again at
   its replay step (t2, after replay_insert).  Events are linearised at their replay step / at the purge; the ONLY
   assumption on time is clock_ok: event times non-decreasing along the history (forward jumps allowed) and t1 <= t2
   within a decode.  Purges may fall anywhere, in particular between t1 and t2 of the request under consideration.
   For every configuration and group map, every history of decode requests (any credentials, any retry values, any
   clients, any outcomes, replies delivered or undeliverable) and purge events after the record k was made: a later
   first-attempt presentation that authenticates, is authorized and was inside the time window when received is NEVER
   accepted: it is answered 'replayed' while the record is there, and 'expired' when a purge has discarded it (which
   happens only after the last valid second, and then the replay step is after it too). *)
Theorem C07_second_presentation_never_accepted : forall cf mem rs0 h m pu pg t1 t2 m' k,
  In k rs0 ->
  clock_ok (h ++ [HDecode m pu pg t1 t2]) ->
  dec_pre hmac sha1 blk_dec zdecomp cf mem m pu pg t1 = inr (m', k) -> m_retry m = 0 ->
  let rs := hrun hmac sha1 blk_dec zdecomp cf mem rs0 h in
  dec_process2 hmac sha1 blk_dec zdecomp cf mem rs m pu pg t1 t2
    = (dec_finish (set_err m' e_cred_replayed None), rs, None) \/
  (snd k < t2 /\ dec_process2 hmac sha1 blk_dec zdecomp cf mem rs m pu pg t1 t2
                 = (dec_finish (set_err m' e_cred_expired None), k :: rs, None)).
Proof. exact (second_presentation_never_accepted hmac sha1 blk_dec zdecomp). Qed.

(* ... and up to and including the last valid second (replay step not after the record's expiry) the record has
   survived every purge: the answer is 'replayed' and nothing changes *)
Theorem C07_replayed_until_last_valid_second : forall cf mem rs0 h m pu pg t1 t2 m' k,
  In k rs0 ->
  clock_ok (h ++ [HDecode m pu pg t1 t2]) -> t2 <= snd k ->
  dec_pre hmac sha1 blk_dec zdecomp cf mem m pu pg t1 = inr (m', k) -> m_retry m = 0 ->
  let rs := hrun hmac sha1 blk_dec zdecomp cf mem rs0 h in
  dec_process2 hmac sha1 blk_dec zdecomp cf mem rs m pu pg t1 t2 = (dec_finish (set_err m' e_cred_replayed None), rs, None).
Proof. exact (replayed_until_last_valid_second hmac sha1 blk_dec zdecomp). Qed.

(* the key's expiry is the last second the time check admits: an accepted presentation is never later *)
Theorem C07_accept_implies_not_after_expiry : forall cf mem m pu pg now m' k,
  dec_pre hmac sha1 blk_dec zdecomp cf mem m pu pg now = inr (m', k) -> u32 now <= snd k /\ m_retry m' = m_retry m.
Proof. exact (dec_pre_accept_time hmac sha1 blk_dec zdecomp). Qed.
End C07p.
Print Assumptions C07_second_presentation_never_accepted.
Print Assumptions C07_replayed_until_last_valid_second.
Print Assumptions C07_accept_implies_not_after_expiry.

(* records are discarded only after expiry, and are discarded then *)
Theorem C07_purge_discards_exactly_expired : forall now rs k,
  In k (r_purge now rs) <-> In k rs /\ now <= snd k.
Proof. exact purge_discards_exactly_expired. Qed.
Print Assumptions C07_purge_discards_exactly_expired.

(* the rule BEFORE repair 41b6e44 (time check against the receipt clock only; CredHistory.dec_process_stale) violates
   C07_second_presentation_never_accepted: toy credential encoded at 5000 with TTL 60, X = 5060 its last valid second;
   A = first attempt received and processed at X: success; purge at X + 1 discards the record; C = first attempt received
   at X whose replay step is at X + 1.  clock_ok and every premise hold; under the old rule C is accepted a SECOND time,
   under the model's rule it is answered 'expired' with the reply's fields intact (a soft error).  Also the non-vacuity
   example of the theorems above (computed inside Coq). *)
From MV Require Import RetryProofs.
Theorem C07_stale_time_refuted :
  let pre := dec_pre toy_hmac (fun x => x) toy_blk (fun _ x _ => Some x) cf_std (fun _ _ => false) in
  let stale := dec_process_stale toy_hmac (fun x => x) toy_blk (fun _ x _ => Some x) cf_std (fun _ _ => false) in
  let new := dec_process2 toy_hmac (fun x => x) toy_blk (fun _ x _ => Some x) cf_std (fun _ _ => false) in
  let A := HDecode (req toy_cred 0) 7 8 5060 5060 in
  let P := HPurge 5061 in
  let C := req toy_cred 0 in
  (exists mA' m' k, pre (req toy_cred 0) 7 8 5060 = inr (mA', k) /\ pre C 7 8 5060 = inr (m', k) /\ snd k = 5060) /\
  m_retry C = 0 /\ clock_ok ([A; P] ++ [HDecode C 7 8 5060 5061]) /\
  (let rs := hrun_stale toy_hmac (fun x => x) toy_blk (fun _ x _ => Some x) cf_std (fun _ _ => false) [] [A; P] in
   rs = [] /\ m_err (fst (fst (stale rs C 7 8 5060))) = e_success) /\
  (let rs := hrun toy_hmac (fun x => x) toy_blk (fun _ x _ => Some x) cf_std (fun _ _ => false) [] [A; P] in
   rs = [] /\ let r := fst (fst (new rs C 7 8 5060 5061)) in
              m_err r = e_cred_expired /\ m_data_len r = 5 /\ m_cred_uid r = 1000).
Proof. exact stale_time_refuted. Qed.
Print Assumptions C07_stale_time_refuted.

(* ---- source-level tie of the fresh expiry check (tools/facts/cfun.py -> gen/GenCredFun.v: dec_validate_replay TRANSLATED
        from the C text of dec.c on every run): after a successful replay_insert the clock is read AGAIN (clk) and the
        credential is accepted only if clk <= time0 + ttl, otherwise EMUNGE_CRED_EXPIRED and the request owns nothing; this
        is the second clock reading t2 of dec_process2 (CredPipe.dec_process_is_source / st_validate_replay_is_source) ---- *)
From MV Require Import CredFun CredPipe.
From MV.gen Require Import GenCredFun.
Theorem C07_source_fresh_expiry_check : forall (cf : conf) (clk ins en c : Z) (m : msg),
  src_dec_validate_replay cf clk ins en c m =
  ((if (ins =? 0)%Z then (if (clk =? -1)%Z then e_snafu
                          else if (clk >? Z.of_N (m_time0 m) + Z.of_N (m_ttl m))%Z then e_cred_expired else 0)
    else if (ins >? 0)%Z
         then (if cf_socket_retry cf && (0 <? m_retry m) && (m_retry m <=? c_retry_attempts) then 0 else e_cred_replayed)
    else if (en =? 12)%Z then e_no_memory else e_snafu), m,
   (if (ins =? 0)%Z && negb (clk =? -1)%Z && negb (clk >? Z.of_N (m_time0 m) + Z.of_N (m_ttl m))%Z then 1 else c)%Z).
Proof. exact dec_validate_replay_is_source. Qed.
Print Assumptions C07_source_fresh_expiry_check.
Theorem C07_source_pipeline_is_model :
  forall (hmac : N -> bytes -> bytes -> bytes) (sha1 : bytes -> bytes) (blk_dec : N -> bytes -> bytes -> bytes)
         (zdecomp : N -> bytes -> N -> option bytes) (cf : conf) (mem : N -> N -> bool) (pu pg now now2 : N)
         (rs : CredModel.rstate) (m : msg) (send_ok : bool),
  let '(rc, s) := src_dec_process_msg (dec_ops hmac sha1 blk_dec zdecomp cf mem pu pg now now2 send_ok) (dinit m rs) in
  let '(r, rs', k) := dec_process2 hmac sha1 blk_dec zdecomp cf mem rs m pu pg now now2 in
  d_msg s = r /\ d_rs s = (if send_ok then rs' else dec_rollback rs' k) /\
  rc = (if send_ok && dec_accepts hmac sha1 blk_dec zdecomp cf mem pu pg now now2 rs m then 0 else -1)%Z.
Proof. exact dec_process_is_source. Qed.
Print Assumptions C07_source_pipeline_is_model.
