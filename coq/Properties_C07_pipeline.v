(* Properties_C07_pipeline.v — statements only.  C07 at the level of dec_process_msg (CredModel): the replay
   record outlives every purge that can happen while the credential could still pass the time check.
   (The component level — hash.c/replay.c — is Properties_C07.v; C05_abs_list_bridge and C07_purge_exact relate
   the hash table to the list of keys used here: purge keeps exactly the keys with now <= t_expired.) *)
From Coq Require Import List NArith ZArith Bool.
From MV Require Import Bytes CredModel CredProofs RetryModel CredHistory.
From MV.gen Require Import GenCred.
Import ListNotations.
Local Open Scope N_scope.

Section C07p.
Variable hmac : N -> bytes -> bytes -> bytes.
Variable sha1 : bytes -> bytes.
Variable blk_dec : N -> bytes -> bytes -> bytes.
Variable zdecomp : N -> bytes -> N -> option bytes.

(* For every configuration and group map, every history of decode requests (any credentials, any retry values, any
   clients, any outcomes, replies delivered or undeliverable - HDecode / HDecodeLost) and purge events after the record
   k was made: a later first-attempt presentation that authenticates,
   is authorized and lies inside the time window — hence at any second up to and including the last valid one —
   is answered 'replayed' and changes nothing, provided the purges happened at clock readings not beyond that
   presentation's (a non-decreasing clock). *)
Theorem C07_replayed_until_last_valid_second : forall cf mem rs0 h m pu pg now m' k,
  In k rs0 ->
  (forall p, In (HPurge p) h -> p <= u32 now) ->
  dec_pre hmac sha1 blk_dec zdecomp cf mem m pu pg now = inr (m', k) -> m_retry m = 0 ->
  let rs := hrun hmac sha1 blk_dec zdecomp cf mem rs0 h in
  dec_process hmac sha1 blk_dec zdecomp cf mem rs m pu pg now = (dec_finish (set_err m' e_cred_replayed None), rs, None).
Proof. exact (replayed_until_last_valid_second hmac sha1 blk_dec zdecomp). Qed.

(* the key's expiry is the last second the time check admits: an accepted presentation is never later *)
Theorem C07_accept_implies_not_after_expiry : forall cf mem m pu pg now m' k,
  dec_pre hmac sha1 blk_dec zdecomp cf mem m pu pg now = inr (m', k) -> u32 now <= snd k /\ m_retry m' = m_retry m.
Proof. exact (dec_pre_accept_time hmac sha1 blk_dec zdecomp). Qed.
End C07p.
Print Assumptions C07_replayed_until_last_valid_second.
Print Assumptions C07_accept_implies_not_after_expiry.

(* records are discarded only after expiry, and are discarded then *)
Theorem C07_purge_discards_exactly_expired : forall now rs k,
  In k (r_purge now rs) <-> In k rs /\ now <= snd k.
Proof. exact purge_discards_exactly_expired. Qed.
Print Assumptions C07_purge_discards_exactly_expired.
