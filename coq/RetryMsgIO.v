(* RetryMsgIO.v — what m_msg_send / m_msg_recv take for "sent" / "received".

   fd_timed_write_iov and fd_timed_read_n (FdModel, proved in FdProofs for every kernel behaviour: any script of poll()
   and read()/writev() events) report three things: a count or -1, and errno.  A short count comes WITH errno = ETIMEDOUT
   when the deadline passed, but WITHOUT any errno when poll() reported POLLHUP (the peer hung up while the writer waited
   for buffer space) or when read() met end of file.  The tests m_msg.c applies to these outcomes are translated from
   the source text on every run (tools/facts/retrymsgio.py -> gen/GenRetryMsgIO.v: src_send_accepts,
   src_recv_hdr_accepts, src_recv_body_accepts).  Proved here from those translated predicates:

     an accepted send     => the peer holds the complete message (header ++ body), nothing else;
     an accepted receive  => header and body buffers hold exactly the first hn + bn bytes the peer sent;
     a complete transfer that did not time out is accepted (no spurious failures);
     and the test on the count is not redundant: a concrete kernel script (POLLHUP after the first short writev) makes
     fd_timed_write_iov return a short count with errno untouched.

   dec_process_msg rolls the replay record back exactly when m_msg_send does not return success; so "accepted => delivered"
   is what makes "munged could not deliver the reply => the credential remains decodable" hold for a reply that breaks
   in the MIDDLE. *)
From Coq Require Import List NArith ZArith Bool Arith Lia ZifyBool ZifyNat.
From Coq.Strings Require Import Byte.
From MV Require Import Bytes FdModel FdProofs.
From MV.gen Require Import GenRetryMsgIO.
Import ListNotations.
Local Open Scope Z_scope.

(* the value assigned to n: the count, or -1 (a call that never returns assigns nothing; it is given -1 here) *)
Definition n_of {X} (r : result X) : Z := match r_rc r with Ret k => Z.of_nat k | _ => -1 end.

Definition send_accepted (r : result wv) (wanted : nat) : bool := src_send_accepts (n_of r) (errno_of r) (Z.of_nat wanted).
Definition recv_hdr_accepted (r : result rd) (wanted : nat) : bool := src_recv_hdr_accepts (n_of r) (errno_of r) (Z.of_nat wanted).
Definition recv_body_accepted (r : result rd) (wanted : nat) : bool := src_recv_body_accepts (n_of r) (errno_of r) (Z.of_nat wanted).

(* --- the three translated tests let only the full count through *)
Lemma send_test_full n e w : 0 <= w -> src_send_accepts n e w = true -> n = w.
Proof. unfold src_send_accepts, is_timedout. intros Hw H. destruct e; lia. Qed.
Lemma recv_hdr_test_full n e w : 0 <= w -> src_recv_hdr_accepts n e w = true -> n = w.
Proof. unfold src_recv_hdr_accepts, is_timedout. intros Hw H. destruct e; lia. Qed.
Lemma recv_body_test_full n e w : 0 <= w -> src_recv_body_accepts n e w = true -> n = w.
Proof. unfold src_recv_body_accepts, is_timedout. intros Hw H. destruct e; lia. Qed.

(* --- and they let a full count through unless the call timed out *)
Lemma send_test_complete w e : 0 <= w -> e <> ETIMEDOUT -> src_send_accepts w e w = true.
Proof. unfold src_send_accepts, is_timedout. intros Hw He. destruct e; try contradiction; lia. Qed.
Lemma recv_hdr_test_complete w e : 0 <= w -> e <> ETIMEDOUT -> src_recv_hdr_accepts w e w = true.
Proof. unfold src_recv_hdr_accepts, is_timedout. intros Hw He. destruct e; try contradiction; lia. Qed.
Lemma recv_body_test_complete w e : 0 <= w -> e <> ETIMEDOUT -> src_recv_body_accepts w e w = true.
Proof. unfold src_recv_body_accepts, is_timedout. intros Hw He. destruct e; try contradiction; lia. Qed.

Lemma n_of_ret {X} (r : result X) (w : nat) : n_of r = Z.of_nat w -> r_rc r = Ret w.
Proof. unfold n_of. destruct (r_rc r) as [k| | |]; intros H; try lia. f_equal. lia. Qed.

(* --- m_msg_send *)
Theorem send_accepted_is_delivered bufs oom when skip t0 ps ios :
  send_accepted (fd_timed_write_iov bufs oom when skip t0 ps ios) (length (concat bufs)) = true ->
  wv_out (r_x (fd_timed_write_iov bufs oom when skip t0 ps ios)) = concat bufs.
Proof.
  unfold send_accepted. intros H. apply send_test_full in H; [|lia].
  apply write_iov_full. now apply n_of_ret.
Qed.

Theorem send_delivered_is_accepted bufs when skip t0 ps ios : bufs <> [] ->
  wv_out (r_x (fd_timed_write_iov bufs false when skip t0 ps ios)) = concat bufs ->
  errno_of (fd_timed_write_iov bufs false when skip t0 ps ios) <> ETIMEDOUT ->
  send_accepted (fd_timed_write_iov bufs false when skip t0 ps ios) (length (concat bufs)) = true.
Proof.
  intros Hne Hout He. unfold send_accepted, n_of. rewrite (write_iov_full_conv bufs when skip t0 ps ios Hne Hout).
  apply send_test_complete; [lia|exact He].
Qed.

(* the peer hangs up while the writer waits for buffer space: a short count and no errno.  (bufs: header "h", body "bc";
   the first writev moves one byte, then poll reports POLLHUP.)  Only the comparison of the count with the length sees it. *)
Theorem short_count_without_errno : exists bufs ps ios,
  let r := fd_timed_write_iov bufs false (Some (100, 0)) true 0 ps ios in
  r_rc r = Ret 1 /\ errno_of r = E0 /\ wv_out (r_x r) <> concat bufs /\
  send_accepted r (length (concat bufs)) = false.
Proof.
  exists [[x68]; [x62; x63]], [PRev 0 true false false], [Xfer 1]. vm_compute.
  repeat split; try reflexivity. discriminate.
Qed.

(* --- m_msg_recv: header read, then body read from what the socket still holds *)
Lemma read_n_full n sent when skip t0 ps ios :
  r_rc (fd_timed_read_n n sent when skip t0 ps ios) = Ret n ->
  rd_buf (r_x (fd_timed_read_n n sent when skip t0 ps ios)) = firstn n sent /\ (n <= length sent)%nat.
Proof.
  intros Hrc. destruct (read_n_count _ _ _ _ _ _ _ _ Hrc) as [_ Hb]. split; [exact Hb|].
  pose proof (read_n_spec n sent when skip t0 ps ios) as [Hs Hsp]. rewrite Hrc in Hsp. destruct Hsp as [Hl _].
  rewrite <- Hs, app_length. lia.
Qed.

Theorem recv_accepted_is_complete hn bn sent when sk1 sk2 t0 t1 ps1 ios1 ps2 ios2 :
  let r1 := fd_timed_read_n hn sent when sk1 t0 ps1 ios1 in
  let r2 := fd_timed_read_n bn (rd_peer (r_x r1)) when sk2 t1 ps2 ios2 in
  recv_hdr_accepted r1 hn = true -> recv_body_accepted r2 bn = true ->
  rd_buf (r_x r1) ++ rd_buf (r_x r2) = firstn (hn + bn) sent /\ (hn + bn <= length sent)%nat.
Proof.
  intros r1 r2 H1 H2. subst r1 r2. unfold recv_hdr_accepted in H1. unfold recv_body_accepted in H2.
  apply recv_hdr_test_full in H1; [|lia]. apply recv_body_test_full in H2; [|lia].
  apply n_of_ret in H1. apply n_of_ret in H2.
  pose proof (read_n_conserves hn sent when sk1 t0 ps1 ios1) as Hc. cbv zeta in Hc.
  apply read_n_full in H1. apply read_n_full in H2. destruct H1 as [H1 L1]. destruct H2 as [H2 L2].
  set (r1 := fd_timed_read_n hn sent when sk1 t0 ps1 ios1) in *.
  rewrite H2. rewrite H1 in Hc |- *.
  assert (Hp : rd_peer (r_x r1) = skipn hn sent).
  { apply (app_inv_head (firstn hn sent)). rewrite Hc. symmetry. apply firstn_skipn. }
  rewrite Hp in L2 |- *. rewrite skipn_length in L2. split; [|lia].
  symmetry. apply firstn_add.
Qed.

Theorem recv_complete_is_accepted n sent when skip t0 ps ios :
  r_rc (fd_timed_read_n n sent when skip t0 ps ios) = Ret n ->
  errno_of (fd_timed_read_n n sent when skip t0 ps ios) <> ETIMEDOUT ->
  recv_hdr_accepted (fd_timed_read_n n sent when skip t0 ps ios) n = true /\
  recv_body_accepted (fd_timed_read_n n sent when skip t0 ps ios) n = true.
Proof.
  intros Hrc He. unfold recv_hdr_accepted, recv_body_accepted, n_of. rewrite Hrc. split.
  - apply recv_hdr_test_complete; [lia|exact He].
  - apply recv_body_test_complete; [lia|exact He].
Qed.
