(* StartSearchModel.v — StartModel's transition system over an ARBITRARY program text, for the search part of C15.
   No proofs.  The check abstracts the strace of the rebuilt daemon to the step alphabet (plus GetLk: an F_GETLK
   query of the lock that precedes the F_SETLK); the extracted oracle explores the interleavings of k copies of
   THAT program with xstep below and looks for a state in which two live processes listen on sockets they bound to
   the one socket name (two_bound).  For the expected program, xstep is StartModel.step (StartProofs-style lemma in
   StartSearchProofs).  known_overlap marks the one transition the unchanged code is known to allow (finding
   F-C15-unlink: the lock name is unlinked while another process has the lock file open without holding its lock);
   the search can be told not to take it, so that any schedule it returns is a different one.
   state_key flattens everything a state's future depends on into numbers (the search's visited set). *)
From Coq Require Import List Arith NArith Bool.
From MV.gen Require Import GenStart.
From MV Require Import StartModel.
Import ListNotations.

Inductive xprim := XP (a : prim) | XGetLk.

Definition xexec (s : state) (p : nat) (pr : proc) (x : xprim) : outcome :=
  match x with
  | XP a => exec s p pr a
  | XGetLk =>                            (* fcntl (fd, F_GETLK): names a conflicting holder, changes nothing *)
      match lockfd pr with
      | Some i =>
          match lockown s i with
          | Some q => if Nat.eqb q p then Cont s pr
                      else if lock_getlk_held_exits then Fail s else Cont s pr
          | None => Cont s pr
          end
      | None => Fail s
      end
  end.

Definition xstep (pg : list xprim) (s : state) (l : label) : option state :=
  match l with
  | Step p =>
      let pr := procs s p in
      if startable pr then
        match nth_error pg (pc pr) with
        | Some a =>
            match xexec s p pr a with
            | Cont s' pr' => Some (set_proc s' p (mkProc Running (S (pc pr)) (lockfd pr') (sockfd pr')))
            | Fail s' => Some (die s' p Failed)
            | Done s' => Some (die s' p Exited)
            | Block => None
            end
        | None => None
        end
      else None
  | Term p =>
      let pr := procs s p in
      match st pr, nth_error pg (pc pr) with
      | Running, Some (XP Serve) => Some (set_proc s p (mkProc Running (S (pc pr)) (lockfd pr) (sockfd pr)))
      | _, _ => None
      end
  | Crash p =>
      match st (procs s p) with
      | Running => Some (die s p Killed)
      | _ => None
      end
  end.

Fixpoint xrun (pg : list xprim) (s : state) (sched : list label) : option state :=
  match sched with
  | [] => Some s
  | l :: r => match xstep pg s l with Some s' => xrun pg s' r | None => None end
  end.

(* p is alive and listens on a socket it holds *)
Definition bound (s : state) (p : nat) : bool :=
  match st (procs s p), sockfd (procs s p) with
  | Running, Some j => opt_is (listener s j) p
  | _, _ => false
  end.

(* two of the processes 0..k-1 are bound at once: "at most one munged is ever bound" is violated *)
Definition two_bound (s : state) (k : nat) : bool :=
  Nat.ltb 1 (length (filter (bound s) (seq 0 k))).

(* the step p is about to take is the F-C15-unlink transition: it unlinks the lock name while another live process
   has that lock file open and does not hold its lock *)
Definition known_overlap (pg : list xprim) (s : state) (k p : nat) : bool :=
  match nth_error pg (pc (procs s p)), names s NLock with
  | Some (XP (Unlink NLock)), Some i =>
      existsb (fun q => negb (Nat.eqb q p)
                        && match st (procs s q) with Running => true | _ => false end
                        && opt_is (lockfd (procs s q)) i
                        && negb (opt_is (lockown s i) q)) (seq 0 k)
  | _, _ => false
  end.

Definition on (o : option nat) : nat := match o with Some x => S x | None => 0 end.
Definition state_key (s : state) (k : nat) : list nat :=
  next s :: map (fun n => on (names s n)) [NLock; NSock; NPid; NSeed]
  ++ flat_map (fun p => [status_code (st (procs s p)); pc (procs s p); on (lockfd (procs s p)); on (sockfd (procs s p))]) (seq 0 k)
  ++ flat_map (fun i => [on (lockown s i); on (listener s i); on (content s i)]) (seq 0 (next s)).
