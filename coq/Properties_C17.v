(* Properties_C17.v — statements only.  Supplementary-group answers equal the group
   and user databases (model: GidsModel; reserved uid, buffer sizes and growth factor are
   regenerated from /repo on every run, gen/GenGids.v).

   member_spec pw db u g :=
     exists ns n, In (g, ns) db /\ In n ns /\ n <> [] /\ pw n = PwOk u /\ u <> uid_sentinel
   i.e. the statement of the property with the two exclusions the code has: a member
   name that is the empty string is never looked up (xgetpwnam: EINVAL), and a passwd
   entry whose uid is (uid_t) -1 is treated as "no such user" (UID_SENTINEL). *)
From Coq Require Import List NArith ZArith Bool Sorted.
From Coq.Strings Require Import Byte.
From MV Require Import Bytes GidsModel GidsProofs.
From MV.gen Require Import GenGids.
Import ListNotations.
Local Open Scope N_scope.

(* the answer is yes exactly when some entry with gid g lists a name the passwd database
   maps to u — for every group and passwd database (duplicate gids/uids, unknown users,
   lookup errors, empty and arbitrarily large groups) *)
Theorem C17_membership_spec : forall (pw : pwfun) (db : grdb) (u g : N),
  is_member (Some (build pw db)) u g = true <-> member_spec pw db u g.
Proof. exact membership_spec. Qed.
Print Assumptions C17_membership_spec.

(* each uid has one list, increasing and duplicate-free *)
Theorem C17_lists_sorted_nodup : forall (pw : pwfun) (db : grdb),
  NoDup (map fst (build pw db)) /\
  forall u l, gfind (build pw db) u = Some l -> StronglySorted N.lt l /\ NoDup l.
Proof. intros pw db. split; [apply keys_nodup|apply lists_sorted_nodup]. Qed.
Print Assumptions C17_lists_sorted_nodup.

(* the early exit of the lookup loop loses nothing on an increasing list, and a hit is
   always a real element *)
Theorem C17_early_exit_sound : forall (l : list N) (g : N),
  (mem_walk l g = true -> In g l) /\
  (StronglySorted N.lt l -> (mem_walk l g = true <-> In g l)).
Proof. intros l g. split; [apply mem_walk_sound|apply mem_walk_spec]. Qed.
Print Assumptions C17_early_exit_sound.

(* ERANGE restarts: whatever the fault schedule, a build that returns a map returns the
   map of one clean scan; up to 15 restarts always succeed; the 16th ERANGE and any other
   error make the build fail (no map) *)
Theorem C17_restart_on_erange : forall (pw : pwfun) (db : grdb) (sched : list fault),
  (forall m, map_create pw db sched = Some m -> m = build pw db) /\
  (Forall is_erange sched -> (length sched < 16)%nat ->
     map_create pw db sched = Some (build pw db)) /\
  (Forall (triggered_erange db) sched -> (16 <= length sched)%nat ->
     map_create pw db sched = None) /\
  (forall j rest, (j <= length db)%nat -> map_create pw db (FFail j :: rest) = None) /\
  (forall j, snd (scan pw (fst (scan pw [] [] (firstn j db))) [] db) = build pw db).
Proof.
  intros pw db sched. split; [intros m; apply restart_on_erange|].
  split; [apply restart_on_erange_ok|]. split; [apply too_many_restarts_fail|].
  split; [intros j rest; apply hard_error_fails|apply rescan_after_prefix].
Qed.
Print Assumptions C17_restart_on_erange.

(* xgetgrent's own ERANGE handling: the buffer is multiplied until the entry fits, never
   further than needed, and this terminates for every entry below half the size_t range *)
Theorem C17_buffer_growth : forall (len need : N),
  (forall len', xgetgrent_buf (N.to_nat size_bits) len need = Some len' ->
     need <= len' /\ len <= len' /\ (len' = len \/ len' < grbuf_grow_factor * need)) /\
  (0 < len -> need <= 2 ^ (size_bits - 1) ->
     exists len', xgetgrent_buf (N.to_nat size_bits) len need = Some len').
Proof.
  intros len need. split.
  - intros len' H. pose proof (xgetgrent_buf_sound _ _ _ _ H) as [H1 H2].
    pose proof (xgetgrent_buf_minimal _ _ _ _ H) as H3. auto.
  - intros Hl Hn. apply xgetgrent_buf_total; [exact Hl|exact Hn|].
    apply N.le_trans with (2 ^ (size_bits - 1)); [exact Hn|].
    apply N.le_trans with (1 * 2 ^ N.of_nat (N.to_nat size_bits)).
    + rewrite N.mul_1_l, N2Nat.id. apply N.pow_le_mono_r; [discriminate|].
      vm_compute. discriminate.
    + apply N.mul_le_mono_r. apply N.lt_pred_le. exact Hl.
Qed.
Print Assumptions C17_buffer_growth.

(* a completed update installs the new build exactly when the build succeeded and the
   mtime check is off/disabled, stat() failed, or mtime is strictly newer than the time
   the previous good load started; otherwise map and t_last_update are unchanged — in
   particular a failed build keeps the old map *)
Theorem C17_refresh_spec :
  forall (st : gstate) (now : Z) (mtime : option Z) (pw : pwfun) (db : grdb) (sched : list fault),
  (should_load st mtime -> forall m, map_create pw db sched = Some m ->
     g_map (refresh st now mtime pw db sched) = Some (build pw db) /\
     g_tlast (refresh st now mtime pw db sched) = now) /\
  (~ should_load st mtime \/ map_create pw db sched = None ->
     g_map (refresh st now mtime pw db sched) = g_map st /\
     g_tlast (refresh st now mtime pw db sched) = g_tlast st).
Proof.
  intros. split; [intros Hs m; apply refresh_loads; exact Hs|apply refresh_keeps].
Qed.
Print Assumptions C17_refresh_spec.

(* the flag: a failed stat() disables the check (so every later update reloads) until
   gids_update resets it; gids_update maps -1 and 1 to 1, 0 to 0, and arms an expired
   timer — it does not by-pass the mtime comparison *)
Theorem C17_stat_flag :
  forall (st : gstate) (now : Z) (mtime : option Z) (pw : pwfun) (db : grdb) (sched : list fault),
  ((-1 <= g_dostat st)%Z ->
     g_dostat (refresh st now mtime pw db sched) =
     if (0 <? g_dostat st)%Z && (match mtime with None => true | Some _ => false end)
     then (-1)%Z else g_dostat st) /\
  (g_map (sighup st) = g_map st /\ g_tlast (sighup st) = g_tlast st /\
   g_dostat (sighup st) = notnot (g_dostat st) /\ g_timer (sighup st) = Some 0) /\
  (forall mt, g_dostat st <> 0%Z -> (mt <= g_tlast st)%Z ->
     g_map (refresh (sighup st) now (Some mt) pw db sched) = g_map st).
Proof.
  intros. split; [apply refresh_dostat|]. split; [apply sighup_fields|].
  intros mt. apply sighup_does_not_force.
Qed.
Print Assumptions C17_stat_flag.

(* old or new in full: for every interleaving of edits, update halves, SIGHUPs and
   lookups, each answer is "no" (nothing loaded yet) or the exact answer for one whole
   version of the databases that existed *)
Theorem C17_atomic_swap :
  forall (interval dostat : Z) (w0 : world) (tr : list label) (s : sys) (outs : list (N * N * bool)),
  exec (sys_init interval dostat w0) tr = Some (s, outs) ->
  Forall (fun r => let '(u, g, b) := r in
            b = false \/
            exists w, In w (w0 :: edits tr) /\
                      (b = true <-> member_spec (w_pw w) (w_db w) u g)) outs.
Proof. exact atomic_swap. Qed.
Print Assumptions C17_atomic_swap.

(* lookups between the two halves of an update see the old map: the visible map changes
   only in the commit step, to the complete pending build *)
Theorem C17_map_changes_only_at_commit : forall (s : sys) (l : label) (s' : sys) (o : option bool),
  step s l = Some (s', o) ->
  g_map (s_g s') = g_map (s_g s) \/
  (l = LCommit /\ exists p, s_pend s = Some p /\ p_map p <> None /\ g_map (s_g s') = p_map p).
Proof. exact map_changes_only_at_commit. Qed.
Print Assumptions C17_map_changes_only_at_commit.

(* REFUTED stronger reading 1: "every edit made after a load is reflected by the next
   completed refresh".  An edit of /etc/group in the second in which the previous load
   started (after it was read) is never picked up, by any number of later periodic or
   SIGHUP updates: st_mtime <= t_last_update compares equal. *)
Theorem C17_edit_in_load_second_refuted :
  exists (w0 w1 : world) (t0 : Z) (u g : N) (s : sys),
    w_mtime w1 = Some t0 /\
    member_spec (w_pw w1) (w_db w1) u g /\
    forall ts : list Z,
      exec (sys_init 3600 1 w0)
           ([LBegin t0 []; LCommit; LEdit w1] ++ refreshes ts ++ [LLookup u g])
      = Some (s, [(u, g, false)]).
Proof. exists wS0, wS1, 10%Z, 1000, 100, sS. exact same_second_witness. Qed.
Print Assumptions C17_edit_in_load_second_refuted.

(* REFUTED stronger reading 2: "a completed refresh reflects the passwd database".  With
   the mtime check on (the default) only /etc/group is stat()ed, so a passwd-only edit
   (usermod -u) is never picked up: the old uid keeps the membership, the new one never
   gets it, whatever the number of later periodic or SIGHUP updates. *)
Theorem C17_passwd_edit_refuted :
  exists (w0 w1 : world) (u_new u_old g : N) (s : sys),
    w_db w1 = w_db w0 /\ w_mtime w1 = w_mtime w0 /\
    member_spec (w_pw w1) (w_db w1) u_new g /\ ~ member_spec (w_pw w1) (w_db w1) u_old g /\
    forall ts : list Z,
      exec (sys_init 3600 1 w0)
           ([LBegin 10 []; LCommit; LEdit w1] ++ refreshes ts
            ++ [LLookup u_new g; LLookup u_old g])
      = Some (s, [(u_new, g, false); (u_old, g, true)]).
Proof. exists wP0, wP1, 2000, 1000, 100, sP. exact passwd_edit_witness. Qed.
Print Assumptions C17_passwd_edit_refuted.

(* REFUTED for the code as it is — "a failed refresh keeps the old map" when the failure is SILENT: a refresh that runs
   while munged has no free descriptor cannot open the group database (EMFILE); getgrent_r then reports the end of the
   database, not an error (delivered_by_scan false db = []); _gids_map_create succeeds with the empty map and
   _gids_map_update installs it.  alice is listed in group 100 by databases that never changed, the answer was yes, and
   after that refresh it is no — for every time and mtime (mtime check off).  Open known finding F-C17-emfile-empty-map;
   replayed live in the thorough tier (tools/props/c17.py live_emfile_phase). *)
Theorem C17_silent_open_failure_refuted :
  is_member (g_map stE0) 1000 100 = true /\ member_spec pwA [(100, [alice])] 1000 100 /\
  map_create pwA (delivered_by_scan false [(100, [alice])]) [] = Some [] /\
  forall (now : Z) (mtime : option Z),
    g_map (refresh stE0 now mtime pwA (delivered_by_scan false [(100, [alice])]) []) = Some [] /\
    is_member (g_map (refresh stE0 now mtime pwA (delivered_by_scan false [(100, [alice])]) [])) 1000 100 = false /\
    is_member (g_map (refresh stE0 now mtime pwA (delivered_by_scan true [(100, [alice])]) [])) 1000 100 = true.
Proof. exact silent_open_failure_witness. Qed.
Print Assumptions C17_silent_open_failure_refuted.

(* non-vacuity: duplicate gid entries, a duplicate member, an unknown user, two names
   with one uid, the reserved uid, an empty name; one ERANGE restart; a reload *)
Example C17_example :
  let n s := map n2b s in
  let pw := pw_of_list [(n [97], Some 7); (n [98], Some 7); (n [99], Some uid_sentinel);
                        (n [97], Some 8)] in
  let db := [(30, [n [97]; n [120]]); (10, [n [98]; n [97]; n []]); (30, [n [99]]); (20, [])] in
  build pw db = [(7, [10; 30])] /\
  map_create pw db [FErange 2] = Some [(7, [10; 30])] /\
  is_member (Some (build pw db)) 7 10 = true /\ is_member (Some (build pw db)) 7 20 = false /\
  g_map (refresh (gids_create 3600 1) 100 (Some 50%Z) pw db []) = Some [(7, [10; 30])].
Proof. vm_compute. repeat split. Qed.
