(* CredIdentity.v — C03 lemmas. *)
From Coq Require Import List NArith ZArith Bool Lia.
From Coq.Strings Require Import Byte.
From RecordUpdate Require Import RecordSet.
From MV Require Import Bytes Base64Model CredModel CredProofs CredRoundtrip.
From MV.gen Require Import GenCred.
Import ListNotations RecordSetNotations.
Local Open Scope N_scope.

Lemma enc_pre_identity cf m pu pg now m1 :
  enc_pre cf m pu pg now = inl m1 -> m_client_uid m1 = pu /\ m_client_gid m1 = pg.
Proof.
  unfold enc_pre. intros H. destruct (enc_validate cf m) as [m'|e]; [|discriminate].
  destruct (c_retry_attempts <? _); [discriminate|]. inversion H; subst. split; reflexivity.
Qed.

Lemma skipn_app_exact {A} (a b : list A) n : length a = n -> skipn n (a ++ b) = b.
Proof. intros <-. induction a; cbn; auto. Qed.

Lemma firstn_app_exact {A} (a b : list A) n : length a = n -> firstn n (a ++ b) = a.
Proof. intros <-. induction a; cbn; [reflexivity|f_equal; assumption]. Qed.

Lemma pack_inner_identity cf m salt : len salt = c_salt_len -> len (cf_addr cf) = c_addr_size ->
  firstn 8 (skipn 21 (pack_inner cf m salt)) = be32 (m_client_uid m) ++ be32 (m_client_gid m).
Proof.
  intros Hs Ha. unfold pack_inner.
  assert (L : length (salt ++ [n2b c_addr_size] ++ cf_addr cf ++ be32 (m_time0 m) ++ be32 (m_ttl m)) = 21%nat).
  { unfold len in *. change c_salt_len with 8 in Hs. change c_addr_size with 4 in Ha.
    rewrite !app_length, !be32_length. cbn [length]. lia. }
  replace (salt ++ [n2b c_addr_size] ++ cf_addr cf ++ be32 (m_time0 m) ++ be32 (m_ttl m) ++
           be32 (m_client_uid m) ++ be32 (m_client_gid m) ++ be32 (m_auth_uid m) ++ be32 (m_auth_gid m) ++
           be32 (m_data_len m) ++ m_data m)
    with ((salt ++ [n2b c_addr_size] ++ cf_addr cf ++ be32 (m_time0 m) ++ be32 (m_ttl m)) ++
          (be32 (m_client_uid m) ++ be32 (m_client_gid m)) ++ be32 (m_auth_uid m) ++ be32 (m_auth_gid m) ++
          be32 (m_data_len m) ++ m_data m) by (rewrite <- !app_assoc; reflexivity).
  rewrite (skipn_app_exact _ _ 21 L).
  apply firstn_app_exact. rewrite app_length, !be32_length. reflexivity.
Qed.

Section I.
Variable hmac : N -> bytes -> bytes -> bytes.
Variable sha1 : bytes -> bytes.
Variable blk_enc blk_dec : N -> bytes -> bytes -> bytes.
Variable zcomp : N -> bytes -> option bytes.
Variable zdecomp : N -> bytes -> N -> option bytes.
Hypothesis hmac_len : forall a k d, mac_valid a = true -> len (hmac a k d) = mac_size a.
Hypothesis blk_len : forall c k b, cipher_valid c = true -> len b = cipher_blk_size c -> len (blk_enc c k b) = cipher_blk_size c.
Hypothesis blk_inv : forall c k b, cipher_valid c = true -> len b = cipher_blk_size c -> blk_dec c k (blk_enc c k b) = b.
Hypothesis zip_inv : forall z x raw mx, zip_valid z = true -> zcomp z x = Some raw -> len x <= mx -> zdecomp z raw mx = Some x.

Lemma decoded_identity :
  forall (cfe cfd : conf) (m m1 : msg) (pu pg now : N) (salt ivr : bytes) (o : enc_out),
  wf_conf cfe -> wf_enc_req m -> cf_key cfd = cf_key cfe ->
  pu < 4294967296 -> pg < 4294967296 -> len salt = c_salt_len -> 16 <= len ivr ->
  enc_pre cfe m pu pg now = inl m1 ->
  enc_core hmac sha1 blk_enc zcomp cfe m1 salt ivr = inr o ->
  forall (mem : N -> N -> bool) (rs : rstate) (du dg now' retry : N),
  retry <= c_retry_attempts -> du < 4294967296 -> dg < 4294967296 ->
  (m_auth_uid m = c_uid_any \/ m_auth_uid m = du \/ (cf_root_auth cfd = true /\ du = 0)) ->
  (m_auth_gid m = c_gid_any \/ m_auth_gid m = dg \/ mem du (m_auth_gid m) = true) ->
  (Z.of_N (u32 now) - Z.of_N (skew_of cfd (capped cfd (m_ttl m1))) <= Z.of_N (u32 now'))%Z ->
  u32 now' <= u32 now + capped cfd (m_ttl m1) ->
  r_mem (firstn 16 (eo_tag o), u32 now + capped cfd (m_ttl m1)) rs = false ->
  let '(r, _, _) := dec_process hmac sha1 blk_dec zdecomp cfd mem rs (dec_req (eo_cred o) retry) du dg now' in
  m_err r = e_success /\ m_cred_uid r = pu /\ m_cred_gid r = pg.
Proof.
  intros cfe cfd m m1 pu pg now salt ivr o Hcf Hm Hk Hpu Hpg Hs Hi Hpre Hcore mem rs du dg now' retry Hr Hdu Hdg Ha1 Ha2 Hw1 Hw2 Hrm.
  destruct (roundtrip hmac sha1 blk_enc blk_dec zcomp zdecomp hmac_len blk_len blk_inv zip_inv
              cfe cfd m m1 pu pg now salt ivr o Hcf Hm Hk Hpu Hpg Hs Hi Hpre Hcore mem rs du dg now' retry Hr Hdu Hdg
              Ha1 Ha2 Hw1 Hw2 Hrm) as (r & k & E & _ & Herr & _ & _ & Hu & Hg & _).
  rewrite E. repeat split; assumption.
Qed.
End I.
