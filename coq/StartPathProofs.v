(* StartPathProofs.v — the byte-string layer of C15.
   1. names: an accepted socket name was copied whole into sun_path and its lock name is name ++ ".lock", so the
      byte-string program of an accepted configuration is StartModel.prog under an injective reading of its four
      tokens; a refused configuration fails at the bind step, having bound nothing;
   2. lock-step simulation between StartPathModel (file system keyed by byte strings) and StartModel;
   3. the theorems of StartProofs carried over to byte-string names; frame: a daemon changes only the directory
      entries of its own four names, whatever its configuration. *)
From Coq Require Import List Arith NArith Bool Lia ZifyBool ZifyNat ZifyN.
From Coq.Strings Require Import Byte.
From MV.gen Require Import GenStart.
From MV Require Import Bytes StartModel StartProofs StartPathModel.
Import ListNotations.

(* ---- 1. names ---- *)
Lemma bytes_eqb_spec : forall a b, reflect (a = b) (bytes_eqb a b).
Proof.
  induction a as [|x a IH]; destruct b as [|y b]; cbn; try (constructor; congruence).
  destruct (N.eqb_spec (b2n x) (b2n y)) as [E|E]; cbn.
  - apply b2n_inj in E. subst y. destruct (IH b); constructor; congruence.
  - constructor. intros H. inv H. congruence.
Qed.

Lemma bytes_eqb_refl : forall a, bytes_eqb a a = true.
Proof. intros a. destruct (bytes_eqb_spec a a); congruence. Qed.

(* facts from the source (gen/GenStart.v); each breaks when sock_create / lock.c / str.c change *)
(* a name that passes the length test is shorter than the copy size: strlcpy copied all of it *)
Lemma f_accepted_fits : forall n, sock_len_refuses n = false -> (n < sock_copy_size)%N.
Proof. intros n H. unfold sock_len_refuses, sock_len_bound, sock_copy_size in *. lia. Qed.
(* the copy never writes past sun_path *)
Lemma f_copy_within_sun_path : (sock_copy_size <= sun_path_cap)%N.
Proof. unfold sock_copy_size, sun_path_cap. lia. Qed.
(* the lock name of every name that passes the test fits strdupf's buffer *)
Lemma f_lock_name_fits : (sock_copy_size + N.of_nat (length lock_suffix) <= lock_name_max)%N.
Proof. vm_compute. discriminate. Qed.
Lemma f_lock_suffix_nonempty : lock_suffix <> [].
Proof. vm_compute. discriminate. Qed.
(* the test does not refuse everything: the longest name sun_path can hold with its NUL is accepted *)
Lemma f_longest_accepted : sock_len_refuses (N.pred sun_path_cap) = false.
Proof. reflexivity. Qed.

Lemma accepted_length : forall c, refuses c = false -> (N.of_nat (length (c_sock c)) < sock_copy_size)%N.
Proof. intros c H. unfold refuses, bind_copy, c_strlcpy in H. cbn [snd] in H. now apply f_accepted_fits. Qed.

Theorem bind_name_whole : forall c, refuses c = false -> bind_name c = c_sock c.
Proof.
  intros c H. apply accepted_length in H. unfold bind_name, bind_copy, c_strlcpy. cbn [fst].
  apply firstn_all2. lia.
Qed.

Theorem lock_name_whole : forall c, refuses c = false -> lock_name_of (c_sock c) = c_sock c ++ lock_suffix.
Proof.
  intros c H. apply accepted_length in H. unfold lock_name_of. apply firstn_all2. rewrite app_length.
  pose proof f_lock_name_fits. lia.
Qed.

(* for every path: refused, or bound name = unlinked name = stem of the locked name *)
Theorem path_names_agree : forall c,
  refuses c = true \/
  (bind_name c = c_sock c /\ lock_name_of (c_sock c) = c_sock c ++ lock_suffix).
Proof.
  intros c. destruct (refuses c) eqn:E; [now left|right]. split; [now apply bind_name_whole|now apply lock_name_whole].
Qed.

Theorem cprog_refines : forall c, refuses c = false -> cprog c = map (concretize (interp c)) prog.
Proof.
  intros c H. unfold cprog, cstartup, cshutdown. rewrite H, (bind_name_whole c H), (lock_name_whole c H). reflexivity.
Qed.

Theorem cprog_refused : forall c, refuses c = true ->
  nth_error (cprog c) 5 = Some (CBind true (bind_name c)) /\
  forall s p pr nm, cexec s p pr (CBind true nm) = CFail s.
Proof. intros c H. unfold cprog, cstartup. rewrite H. split; reflexivity. Qed.

(* two accepted configurations that bind the same name are configured with the same socket path,
   hence compete for the same lock file *)
Theorem bind_name_injective : forall c d, refuses c = false -> refuses d = false ->
  bind_name c = bind_name d -> c_sock c = c_sock d /\ lock_name_of (c_sock c) = lock_name_of (c_sock d).
Proof.
  intros c d Hc Hd H. rewrite (bind_name_whole c Hc), (bind_name_whole d Hd) in H. split; [assumption|now rewrite H].
Qed.

Lemma in_all_names : forall n, In n all_names.
Proof. destruct n; cbn; tauto. Qed.

Definition inj (c : conf) : Prop := forall m n, bytes_eqb (interp c m) (interp c n) = name_eqb m n.

Lemma conf_wf_inj : forall c, conf_wf c = true -> inj c.
Proof.
  intros c H m n. unfold conf_wf in H. rewrite forallb_forall in H. specialize (H m (in_all_names m)).
  rewrite forallb_forall in H. specialize (H n (in_all_names n)). now apply eqb_prop in H.
Qed.

(* ---- 2. simulation ---- *)
Record R (c : conf) (cs : cstate) (s : state) : Prop := {
  r_names : forall n, cnames cs (interp c n) = names s n;
  r_inodes : forall i, cinodes cs i = inodes s i;
  r_lockown : forall i, clockown cs i = lockown s i;
  r_listener : forall j, clistener cs j = listener s j;
  r_content : forall f, ccontent cs f = content s f;
  r_next : cnext cs = next s;
  r_procs : forall p, cprocs cs p = procs s p;
  r_conf : forall p, cconf cs p = c }.

Definition abs (c : conf) (cs : cstate) : state :=
  mkState (fun n => cnames cs (interp c n)) (cinodes cs) (clockown cs) (clistener cs) (ccontent cs) (cnext cs)
          (cprocs cs).

Lemma R_abs : forall c cs, (forall p, cconf cs p = c) -> R c cs (abs c cs).
Proof. intros c cs H. constructor; cbn; auto. Qed.

Lemma R_init : forall c, R c (cinit (fun _ => c)) init.
Proof. intros c. constructor; cbn; auto. Qed.

Definition Rout (c : conf) (co : coutcome) (o : outcome) : Prop :=
  match co, o with
  | CCont cs pr1, Cont s pr2 => R c cs s /\ pr1 = pr2
  | CFail cs, Fail s => R c cs s
  | CDone cs, Done s => R c cs s
  | CBlock, Block => True
  | _, _ => False
  end.

Arguments interp : simpl never.

Ltac solveR Hinj Hn Hi Hl Hli Hc Hnx Hp Hcf :=
  constructor; cbn; intros; unfold updb, updn, upd, release1, clear;
  rewrite ?Hinj, ?Hn, ?Hi, ?Hl, ?Hli, ?Hc, ?Hnx, ?Hp, ?Hcf; auto.

Lemma exec_sim : forall c cs s p pr a, inj c -> R c cs s ->
  Rout c (cexec cs p pr (concretize (interp c) a)) (exec s p pr a).
Proof.
  intros c cs s p pr a Hinj HR. pose proof HR as HR0. destruct HR as [Hn Hi Hl Hli Hc Hnx Hp Hcf].
  destruct a; cbn [cexec exec concretize Rout].
  - (* ReadSeed *) rewrite Hn. destruct (names s NSeed) as [f|]; cbn; auto. rewrite Hc.
    destruct (content s f); cbn; auto.
  - (* OpenLock *) rewrite Hn. destruct (names s NLock); destruct lock_open_excl, lock_open_creat; cbn; auto.
    all: rewrite ?Hnx; split; auto; solveR Hinj Hn Hi Hl Hli Hc Hnx Hp Hcf.
  - (* FstatLock *) destruct (lockfd pr); cbn; auto. rewrite Hi. destruct (stat_ok _); cbn; auto.
  - (* SetLk *) destruct (lockfd pr) as [i|]; cbn; auto. rewrite ?Hl.
    destruct (lockown s i) as [q|]; cbn; [destruct (Nat.eqb q p); cbn; auto|].
    split; auto. solveR Hinj Hn Hi Hl Hli Hc Hnx Hp Hcf.
  - (* Unlink *) split; auto. solveR Hinj Hn Hi Hl Hli Hc Hnx Hp Hcf.
  - (* Bind *) rewrite Hn. destruct (names s NSock); cbn; auto. rewrite Hnx. split; auto.
    solveR Hinj Hn Hi Hl Hli Hc Hnx Hp Hcf.
  - (* Listen *) destruct (sockfd pr); cbn; auto. split; auto. solveR Hinj Hn Hi Hl Hli Hc Hnx Hp Hcf.
  - (* OpenPid *) rewrite Hn. destruct (names s NPid); cbn; (split; [|reflexivity]); rewrite ?Hnx;
      solveR Hinj Hn Hi Hl Hli Hc Hnx Hp Hcf.
  - (* WritePid *) rewrite Hn. destruct (names s NPid); cbn; auto. split; auto.
    solveR Hinj Hn Hi Hl Hli Hc Hnx Hp Hcf.
  - (* Serve *) exact I.
  - (* CloseSock *) destruct (sockfd pr); cbn; auto. split; auto. solveR Hinj Hn Hi Hl Hli Hc Hnx Hp Hcf.
  - (* CloseLock *) destruct (lockfd pr); cbn; auto. split; auto. solveR Hinj Hn Hi Hl Hli Hc Hnx Hp Hcf.
  - (* OpenSeed *) rewrite Hn. destruct (names s NSeed); cbn; (split; [|reflexivity]); rewrite ?Hnx;
      solveR Hinj Hn Hi Hl Hli Hc Hnx Hp Hcf.
  - (* WriteSeed *) rewrite Hn. destruct (names s NSeed); cbn; auto. split; auto.
    solveR Hinj Hn Hi Hl Hli Hc Hnx Hp Hcf.
  - (* Exit *) assumption.
Qed.

Definition Ropt (c : conf) (a : option cstate) (b : option state) : Prop :=
  match a, b with Some cs, Some s => R c cs s | None, None => True | _, _ => False end.

Lemma R_set_proc : forall c cs s p pr, R c cs s -> R c (cset_proc cs p pr) (set_proc s p pr).
Proof.
  intros c cs s p pr [Hn Hi Hl Hli Hc Hnx Hp Hcf]. constructor; cbn; auto.
  intros q. unfold upd. now rewrite Hp.
Qed.

Lemma R_die : forall c cs s p how, R c cs s -> R c (cdie cs p how) (die s p how).
Proof.
  intros c cs s p how [Hn Hi Hl Hli Hc Hnx Hp Hcf]. constructor; cbn; auto.
  - intros i. unfold clear. now rewrite Hl.
  - intros j. unfold clear. now rewrite Hli.
  - intros q. unfold upd. now rewrite !Hp.
Qed.

Lemma concretize_serve : forall iota a, concretize iota a = CServe <-> a = Serve.
Proof. intros iota a. destruct a; cbn; split; intros H; try discriminate; auto. Qed.

Lemma step_sim : forall c cs s l, inj c -> refuses c = false -> R c cs s -> Ropt c (cstep cs l) (step s l).
Proof.
  intros c cs s l Hinj Hacc HR. pose proof (r_procs _ _ _ HR) as Hp. pose proof (r_conf _ _ _ HR) as Hcf.
  destruct l as [p|p|p]; cbn [cstep step Ropt].
  - rewrite Hp, Hcf, (cprog_refines c Hacc), nth_error_map.
    destruct (startable (procs s p)); [|exact I].
    destruct (nth_error prog (pc (procs s p))) as [a|]; cbn [option_map]; [|exact I].
    pose proof (exec_sim c cs s p (procs s p) a Hinj HR) as E.
    destruct (cexec cs p (procs s p) (concretize (interp c) a)) as [cs1 pr1|cs1|cs1|];
      destruct (exec s p (procs s p) a) as [s1 pr2|s1|s1|]; cbn in E; try contradiction; try exact I.
    + destruct E as [E ->]. now apply R_set_proc.
    + now apply R_die.
    + now apply R_die.
  - rewrite Hp. destruct (st (procs s p)); try exact I. now apply R_die.
  - rewrite Hp, Hcf, (cprog_refines c Hacc), nth_error_map.
    destruct (st (procs s p)); try exact I.
    destruct (nth_error prog (pc (procs s p))) as [a|]; cbn [option_map]; [|exact I].
    destruct a; cbn [concretize]; try exact I. now apply R_set_proc.
Qed.

Lemma run_sim : forall c sched cs s, inj c -> refuses c = false -> R c cs s -> Ropt c (crun cs sched) (run s sched).
Proof.
  intros c. induction sched as [|l r IH]; intros cs s Hinj Hacc HR; cbn [crun run].
  - exact HR.
  - pose proof (step_sim c cs s l Hinj Hacc HR) as E.
    destruct (cstep cs l) as [cs1|]; destruct (step s l) as [s1|]; cbn in E; try contradiction; [|exact I].
    now apply IH.
Qed.

Lemma run_sim_some : forall c sched cs s cs', inj c -> refuses c = false -> R c cs s -> crun cs sched = Some cs' ->
  exists s', run s sched = Some s' /\ R c cs' s'.
Proof.
  intros c sched cs s cs' Hinj Hacc HR H. pose proof (run_sim c sched cs s Hinj Hacc HR) as E. rewrite H in E.
  destruct (run s sched) as [s'|]; cbn in E; [|contradiction]. eauto.
Qed.

Lemma run_sim_back : forall c sched cs s s', inj c -> refuses c = false -> R c cs s -> run s sched = Some s' ->
  exists cs', crun cs sched = Some cs' /\ R c cs' s'.
Proof.
  intros c sched cs s s' Hinj Hacc HR H. pose proof (run_sim c sched cs s Hinj Hacc HR) as E. rewrite H in E.
  destruct (crun cs sched) as [cs'|]; cbn in E; [|contradiction]. eauto.
Qed.

(* ---- 3. the theorems of StartProofs at byte-string names ---- *)
Definition cpast_setlk (s : cstate) (p : nat) : Prop := st (cprocs s p) = Running /\ 4 <= pc (cprocs s p).
Definition cquiet (s : cstate) : Prop := forall p, st (cprocs s p) <> Running.

Lemma R_serving : forall c cs s p, R c cs s -> cserving c cs p = serving s p.
Proof.
  intros c cs s p [Hn Hi Hl Hli Hc Hnx Hp Hcf]. unfold cserving, serving, cat_serve, at_serve.
  change (c_sock c ++ lock_suffix) with (interp c NLock). change (c_sock c) with (interp c NSock).
  change (c_pid c) with (interp c NPid). rewrite !Hn, !Hp.
  destruct (names s NLock); destruct (names s NSock); destruct (names s NPid); rewrite ?Hl, ?Hli, ?Hc; reflexivity.
Qed.

Lemma R_at_serve : forall c cs s p, R c cs s -> cat_serve cs p = at_serve s p.
Proof. intros c cs s p HR. unfold cat_serve, at_serve. now rewrite (r_procs _ _ _ HR). Qed.

(* all daemons configured with the accepted socket path c_sock c; any history ending with none running; then any
   interleaving of starts and SIGKILLs: at most one past F_SETLK; a daemon at service is the one the lock name
   c_sock c ++ ".lock", the socket name c_sock c and the pid name lead to *)
Theorem path_single_holder : forall c hist cs0 sched cs,
  conf_wf c = true -> refuses c = false ->
  crun (cinit (fun _ => c)) hist = Some cs0 -> cquiet cs0 ->
  starts_and_crashes sched = true -> crun cs0 sched = Some cs ->
  (forall p q, cpast_setlk cs p -> cpast_setlk cs q -> p = q) /\
  (forall p, cat_serve cs p = true -> cserving c cs p = true).
Proof.
  intros c hist cs0 sched cs Hwf Hacc Hh Q Hsc Hr. apply conf_wf_inj in Hwf.
  destruct (run_sim_some c hist _ init cs0 Hwf Hacc (R_init c) Hh) as (s0 & Hh' & R0).
  destruct (run_sim_some c sched _ s0 cs Hwf Hacc R0 Hr) as (s & Hr' & R1).
  assert (Q' : quiet s0). { intros p. rewrite <- (r_procs _ _ _ R0). apply Q. }
  destruct (single_holder_reach hist s0 sched s Hh' Q' Hsc Hr') as (A & _ & B).
  split.
  - intros p q Hp Hq. unfold cpast_setlk in *. rewrite (r_procs _ _ _ R1) in Hp, Hq. now apply A.
  - intros p Hp. rewrite (R_serving c cs s p R1). apply B. now rewrite <- (R_at_serve c cs s p R1).
Qed.

(* the serving daemon keeps its socket inode, lock file and pid file through further starts and SIGKILLs of others *)
Theorem path_winner_undisturbed : forall c hist cs0 pre cs1 w sched cs2,
  conf_wf c = true -> refuses c = false ->
  crun (cinit (fun _ => c)) hist = Some cs0 -> cquiet cs0 ->
  starts_and_crashes pre = true -> crun cs0 pre = Some cs1 -> cserving c cs1 w = true ->
  Forall (fun l => no_term l /\ l <> Crash w) sched -> crun cs1 sched = Some cs2 ->
  cserving c cs2 w = true /\
  cnames cs2 (c_sock c) = cnames cs1 (c_sock c) /\
  cnames cs2 (c_sock c ++ lock_suffix) = cnames cs1 (c_sock c ++ lock_suffix) /\
  cnames cs2 (c_pid c) = cnames cs1 (c_pid c) /\ cprocs cs2 w = cprocs cs1 w.
Proof.
  intros c hist cs0 pre cs1 w sched cs2 Hwf Hacc Hh Q Hsc Hpre Hs HF Hr. apply conf_wf_inj in Hwf.
  destruct (run_sim_some c hist _ init cs0 Hwf Hacc (R_init c) Hh) as (s0 & Hh' & R0).
  destruct (run_sim_some c pre _ s0 cs1 Hwf Hacc R0 Hpre) as (s1 & Hpre' & R1).
  destruct (run_sim_some c sched _ s1 cs2 Hwf Hacc R1 Hr) as (s2 & Hr' & R2).
  assert (Q' : quiet s0). { intros p. rewrite <- (r_procs _ _ _ R0). apply Q. }
  rewrite (R_serving c cs1 s1 w R1) in Hs.
  destruct (winner_undisturbed_reach hist s0 pre s1 w sched s2 Hh' Q' Hsc Hpre' Hs HF Hr') as (A & B1 & B2 & B3 & _ & B5).
  rewrite (R_serving c cs2 s2 w R2). split; [assumption|].
  change (c_sock c ++ lock_suffix) with (interp c NLock). change (c_sock c) with (interp c NSock).
  change (c_pid c) with (interp c NPid).
  rewrite !(r_names _ _ _ R2), !(r_names _ _ _ R1), (r_procs _ _ _ R2), (r_procs _ _ _ R1). auto.
Qed.

(* after any history that ends with no daemon running, a fresh start on an accepted path serves *)
Theorem path_crash_then_start : forall c sched cs q,
  conf_wf c = true -> refuses c = false ->
  crun (cinit (fun _ => c)) sched = Some cs -> cquiet cs -> st (cprocs cs q) = NotStarted ->
  exists cs', crun cs (repeat (Step q) serve_pc) = Some cs' /\ cserving c cs' q = true.
Proof.
  intros c sched cs q Hwf Hacc Hr Q Hq. apply conf_wf_inj in Hwf.
  destruct (run_sim_some c sched _ init cs Hwf Hacc (R_init c) Hr) as (s & Hr' & R0).
  assert (Q' : quiet s). { intros p. rewrite <- (r_procs _ _ _ R0). apply Q. }
  rewrite (r_procs _ _ _ R0) in Hq.
  destruct (crash_then_start sched s q Hr' Q' Hq) as (s' & Hrun & Hs).
  destruct (run_sim_back c _ cs s s' Hwf Hacc R0 Hrun) as (cs' & Hrun' & R1).
  exists cs'. split; [assumption|]. now rewrite (R_serving c cs' s' q R1).
Qed.

(* clean stop of a daemon on an accepted path: the configured socket name, THE NAME THAT WAS BOUND, the lock name as
   the program computed it and the pid name are gone; a new seed file exists *)
Theorem path_clean_stop : forall c cs p,
  conf_wf c = true -> refuses c = false -> (forall q, cconf cs q = c) ->
  st (cprocs cs p) = Running -> pc (cprocs cs p) = serve_pc ->
  exists cs', crun cs (Term p :: repeat (Step p) (length shutdown)) = Some cs' /\
    st (cprocs cs' p) = Exited /\
    cnames cs' (c_sock c) = None /\ cnames cs' (bind_name c) = None /\
    cnames cs' (lock_name_of (c_sock c)) = None /\ cnames cs' (c_pid c) = None /\
    (exists f, cnames cs' (c_seed c) = Some f /\ cnext cs <= f /\ cinodes cs' f = seed_inode /\
               ccontent cs' f = Some p) /\
    (forall i, clockown cs' i <> Some p) /\ (forall j, clistener cs' j <> Some p).
Proof.
  intros c cs p Hwf Hacc Hcf Hr Hpc. apply conf_wf_inj in Hwf.
  pose proof (R_abs c cs Hcf) as R0.
  destruct (clean_stop_postcondition (abs c cs) p) as (s' & Hrun & Hex & A1 & A2 & A3 & (f & A4 & A5 & A6 & A6') & A7 & A8);
    [exact Hr|exact Hpc|].
  destruct (run_sim_back c _ cs (abs c cs) s' Hwf Hacc R0 Hrun) as (cs' & Hrun' & R1).
  exists cs'. split; [assumption|].
  rewrite (bind_name_whole c Hacc), (lock_name_whole c Hacc).
  change (c_sock c ++ lock_suffix) with (interp c NLock). change (c_sock c) with (interp c NSock).
  change (c_pid c) with (interp c NPid). change (c_seed c) with (interp c NSeed).
  rewrite !(r_names _ _ _ R1), (r_procs _ _ _ R1).
  repeat split; auto.
  - exists f. rewrite (r_inodes _ _ _ R1), (r_content _ _ _ R1). auto.
  - intros i. rewrite (r_lockown _ _ _ R1). apply A7.
  - intros j. rewrite (r_listener _ _ _ R1). apply A8.
Qed.

(* ---- a refused configuration never binds, never listens, never serves ---- *)
Lemma cexec_frame : forall s p pr a s' pr', cexec s p pr a = CCont s' pr' ->
  cprocs s' = cprocs s /\ cconf s' = cconf s /\
  (forall j w, clistener s' j = Some w -> clistener s j = Some w \/ (w = p /\ a = CListen)) /\
  (sockfd pr' = sockfd pr \/ sockfd pr' = None \/ exists nm, a = CBind false nm).
Proof.
  intros s p pr a s' pr' H. destruct a; cbn in H; break_exec H; inv H; cbn; repeat split; auto.
  all: try solve [right; right; eauto].
  - intros j w. unfold upd. destruct (Nat.eqb j n); intros H; [inv H|]; auto.
  - intros j w H. apply release1_Some in H. tauto.
Qed.

Lemma cexec_stops : forall s p pr a s', (cexec s p pr a = CFail s' \/ cexec s p pr a = CDone s') -> s' = s.
Proof. intros s p pr a s' [H|H]; destruct a; cbn in H; break_exec H; now inv H. Qed.

Record NoBind (cf : nat -> conf) (s : cstate) : Prop := {
  nb_conf : forall p, cconf s p = cf p;
  nb_proc : forall p, refuses (cf p) = true ->
            sockfd (cprocs s p) = None /\ pc (cprocs s p) <= 5 /\ forall j, clistener s j <> Some p }.

Lemma NoBind_die : forall cf s p how, NoBind cf s -> NoBind cf (cdie s p how).
Proof.
  intros cf s p how [Hc Hp]. constructor; cbn; auto. intros q Hq. destruct (Hp q Hq) as (A & B & C).
  unfold upd. destruct (Nat.eqb_spec q p); cbn.
  - subst q. repeat split; auto. intros j H. apply clear_Some in H. destruct H as [H _]. now apply C in H.
  - repeat split; auto. intros j H. apply clear_Some in H. destruct H as [H _]. now apply C in H.
Qed.

Lemma NoBind_step : forall cf s l s', NoBind cf s -> cstep s l = Some s' -> NoBind cf s'.
Proof.
  intros cf s l s' NB H. destruct l as [q|q|q]; cbn [cstep] in H.
  - destruct (startable (cprocs s q)) eqn:Hst; [|discriminate].
    destruct (nth_error (cprog (cconf s q)) (pc (cprocs s q))) as [a|] eqn:Ha; [|discriminate].
    destruct (cexec s q (cprocs s q) a) as [s1 pr1|s1|s1|] eqn:E; inv H.
    + destruct (cexec_frame _ _ _ _ _ _ E) as (Hp1 & Hc1 & Hl1 & Hs1). destruct NB as [Hc Hp].
      constructor; cbn; [intros p; now rewrite Hc1|].
      intros p Hr. destruct (Hp p Hr) as (A & B & C). rewrite Hp1. unfold upd.
      destruct (Nat.eqb_spec p q) as [->|Hne]; cbn.
      * (* the refused process itself: it is at one of the first six positions, and position 5 fails *)
        rewrite Hc in Ha. unfold cprog, cstartup in Ha. rewrite Hr in Ha.
        destruct (pc (cprocs s q)) as [|[|[|[|[|[|k]]]]]] eqn:Hk; try (exfalso; lia); cbn in Ha; inv Ha;
          try (cbn in E; discriminate).
        all: repeat split; try lia.
        all: try (destruct Hs1 as [Hs1|[Hs1|(nm & Hs1)]]; [congruence|assumption|discriminate]).
        all: intros j Hj; apply Hl1 in Hj; destruct Hj as [Hj|[_ Hj]]; [now apply C in Hj|discriminate].
      * repeat split; auto. intros j Hj. apply Hl1 in Hj. destruct Hj as [Hj|[Hj _]]; [now apply C in Hj|congruence].
    + assert (s1 = s) by (eapply cexec_stops; eauto). subst. now apply NoBind_die.
    + assert (s1 = s) by (eapply cexec_stops; eauto). subst. now apply NoBind_die.
  - destruct (st (cprocs s q)); inv H. now apply NoBind_die.
  - destruct (st (cprocs s q)) eqn:Es; try discriminate.
    destruct (nth_error (cprog (cconf s q)) (pc (cprocs s q))) as [a|] eqn:Ha; [|discriminate].
    destruct a; inv H. destruct NB as [Hc Hp]. constructor; cbn; auto.
    intros p Hr. destruct (Hp p Hr) as (A & B & C). unfold upd. destruct (Nat.eqb_spec p q) as [->|Hne]; cbn; auto.
    exfalso. rewrite Hc in Ha. unfold cprog, cstartup in Ha.
    destruct (pc (cprocs s q)) as [|[|[|[|[|[|k]]]]]]; try lia; cbn in Ha; discriminate.
Qed.

Theorem refused_never_binds : forall cf sched cs p, refuses (cf p) = true -> crun (cinit cf) sched = Some cs ->
  sockfd (cprocs cs p) = None /\ (forall j, clistener cs j <> Some p) /\ cat_serve cs p = false.
Proof.
  intros cf sched cs p Hr Hrun.
  assert (NB : NoBind cf cs).
  { assert (G : forall sched s, NoBind cf s -> crun s sched = Some cs -> NoBind cf cs).
    { induction sched0 as [|l r IH]; cbn [crun]; intros s NB H; [now inv H|].
      destruct (cstep s l) as [s1|] eqn:E; [|discriminate]. eapply IH; [|eassumption]. eapply NoBind_step; eauto. }
    apply (G sched (cinit cf)); auto. constructor; cbn; auto. intros q _. split; [reflexivity|]. split; [lia|]. intros j. discriminate. }
  destruct (nb_proc _ _ NB p Hr) as (A & B & C). repeat split; auto.
  unfold cat_serve. destruct (st (cprocs cs p)); auto. apply Nat.eqb_neq. cbn. lia.
Qed.

(* ---- frame: whatever its configuration, a daemon changes the directory entries of no name but the four it is
        configured with (its lock name as lock.c computes it); in particular it never binds a shortened name ---- *)
Definition site_names (c : conf) : list bytes := [lock_name_of (c_sock c); c_sock c; c_pid c; c_seed c].

Definition touches (a : cprim) : option bytes :=
  match a with
  | COpenLock nm | CUnlink nm | CBind false nm | COpenPid nm | CWritePid nm | COpenSeed nm | CWriteSeed nm => Some nm
  | _ => None
  end.

Lemma updb_other : forall A (f : bytes -> A) k v x, x <> k -> updb f k v x = f x.
Proof. intros. unfold updb. destruct (bytes_eqb_spec x k); congruence. Qed.

Lemma cexec_names : forall s p pr a s' pr' nm, cexec s p pr a = CCont s' pr' -> touches a <> Some nm ->
  cnames s' nm = cnames s nm.
Proof.
  intros s p pr a s' pr' nm H Hn. destruct a; cbn in H; break_exec H; inv H; cbn; auto.
  all: cbn in Hn; apply updb_other; congruence.
Qed.

Lemma cprog_touches : forall c k a nm, nth_error (cprog c) k = Some a -> touches a = Some nm -> In nm (site_names c).
Proof.
  intros c k a nm Ha Ht. unfold cprog, cstartup, cshutdown in Ha.
  do 20 (destruct k as [|k]; [cbn [nth_error app] in Ha; inv Ha; cbn [touches] in Ht; try discriminate;
    try (inv Ht; unfold site_names; cbn [In]; tauto);
    (* position 5: the bind *)
    try (destruct (refuses c) eqn:E; [discriminate|]; inv Ht; rewrite (bind_name_whole c E);
         unfold site_names; cbn [In]; tauto)|]).
  cbn [nth_error app] in Ha. destruct k; discriminate.
Qed.

Theorem step_frame : forall cs l cs' nm, cstep cs l = Some cs' ->
  match l with
  | Step q => ~ In nm (site_names (cconf cs q)) -> cnames cs' nm = cnames cs nm
  | _ => cnames cs' nm = cnames cs nm
  end.
Proof.
  intros cs l cs' nm H. destruct l as [q|q|q]; cbn [cstep] in H.
  - intros Hnot. destruct (startable (cprocs cs q)); [|discriminate].
    destruct (nth_error (cprog (cconf cs q)) (pc (cprocs cs q))) as [a|] eqn:Ha; [|discriminate].
    destruct (cexec cs q (cprocs cs q) a) as [s1 pr1|s1|s1|] eqn:E; inv H; cbn.
    + eapply cexec_names; eauto. intros Ht. apply Hnot. eapply cprog_touches; eauto.
    + assert (s1 = cs) by (eapply cexec_stops; eauto). now subst.
    + assert (s1 = cs) by (eapply cexec_stops; eauto). now subst.
  - destruct (st (cprocs cs q)); inv H. reflexivity.
  - destruct (st (cprocs cs q)); try discriminate.
    destruct (nth_error (cprog (cconf cs q)) (pc (cprocs cs q))) as [a|]; [|discriminate]. destruct a; inv H. reflexivity.
Qed.
